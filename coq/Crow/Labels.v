(* Crow/Labels.v — soundevent/io/crowsetta/labels.py: label_to_tags, label_from_tag, label_from_tags.
   A term is (name, label); key_from_term = label; term_from_key k = ("soundevent:" ++ k, k).
   User functions are total functions returning a result (ValueError = Err EValue). *)
From Coq Require Export String List Bool ZArith.
From SE Require Export Base.Res.
Export ListNotations.
Open Scope string_scope.
Open Scope bool_scope.

Definition term := (string * string)%type.          (* name, label *)
Definition tag := (term * string)%type.              (* term, value *)
Definition key_from_term (t : term) : string := snd t.
Definition term_from_key (k : string) : term := ("soundevent:" ++ k, k).

Fixpoint lookup {A} (k : string) (m : list (string * A)) : option A :=
  match m with
  | [] => None
  | (k', v) :: r => if String.eqb k' k then Some v else lookup k r
  end.
Definition smem (x : string) (l : list string) : bool := existsb (String.eqb x) l.

Definition EMPTY_LABEL : string := "__empty__".

Definition label_to_tags (label : string)
           (tag_fn : option (string -> res (list tag)))
           (tag_mapping : option (list (string * list tag)))
           (term_mapping : option (list (string * term)))
           (key_mapping : option (list (string * string)))
           (key : option string) (term_ : option term) (fallback : string)
           (empty_labels : list string) : list tag :=
  if smem label empty_labels then []
  else
    match (match tag_fn with Some f => match f label with Ok ts => Some ts | Err _ => None end | None => None end) with
    | Some ts => ts
    | None =>
        let term1 := match term_mapping with
                     | Some m => match lookup label m with Some t => Some t | None => term_ end
                     | None => term_ end in
        match (match term1, tag_mapping with None, Some m => lookup label m | _, _ => None end) with
        | Some ts => ts
        | None =>
            let key1 := match term1, key_mapping with
                        | None, Some m => match lookup label m with Some k => Some k | None => key end
                        | _, _ => key end in
            let key2 := match key1 with Some k => k | None => fallback end in
            let term2 := match term1 with Some t => t | None => term_from_key key2 end in
            [(term2, label)]
        end
    end.

Definition label_from_tag (t : tag)
           (label_fn : option (tag -> string)) (label_mapping : option (list (tag * string)))
           (value_only : bool) (separator : string) : string :=
  match label_fn with
  | Some f => f t
  | None =>
      let tag_eqb (a b : tag) := String.eqb (fst (fst a)) (fst (fst b)) && String.eqb (snd (fst a)) (snd (fst b)) && String.eqb (snd a) (snd b) in
      match (match label_mapping with
             | Some m => option_map snd (find (fun kv => tag_eqb (fst kv) t) m)
             | None => None end) with
      | Some l => l
      | None => if value_only then snd t else key_from_term (fst t) ++ separator ++ snd t
      end
  end.

Fixpoint join (sep : string) (l : list string) : string :=
  match l with
  | [] => ""
  | [x] => x
  | x :: r => x ++ sep ++ join sep r
  end.

(* index: a Python int; index % len(tags) is Python's non-negative modulo *)
Definition label_from_tags (tags : list tag)
           (seq_label_fn : option (list tag -> string)) (select_by_key : option string) (index : option Z)
           (separator : string) (empty_label : string)
           (label_fn : option (tag -> string)) (label_mapping : option (list (tag * string)))
           (value_only : bool) (tag_separator : string) : string :=
  match seq_label_fn with
  | Some f => f tags
  | None =>
      match tags with
      | [] => empty_label
      | _ =>
          match select_by_key with
          | Some k =>
              match find (fun t => String.eqb (key_from_term (fst t)) k) tags with
              | None => empty_label
              | Some t => label_from_tag t label_fn label_mapping true tag_separator
              end
          | None =>
              match index with
              | Some i =>
                  let j := Z.to_nat (Z.modulo i (Z.of_nat (length tags))) in
                  match nth_error tags j with
                  | Some t => label_from_tag t label_fn label_mapping value_only tag_separator
                  | None => empty_label
                  end
              | None => join separator (map (fun t => label_from_tag t label_fn label_mapping value_only tag_separator) tags)
              end
          end
      end
  end.

Definition tag_eqb (a b : tag) : bool :=
  String.eqb (fst (fst a)) (fst (fst b)) && String.eqb (snd (fst a)) (snd (fst b)) && String.eqb (snd a) (snd b).
Fixpoint tags_eqb (a b : list tag) : bool :=
  match a, b with
  | [], [] => true
  | x :: a', y :: b' => tag_eqb x y && tags_eqb a' b'
  | _, _ => false
  end.
