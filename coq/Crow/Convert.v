(* Crow/Convert.v — numeric side of soundevent/io/crowsetta: segment.py, bbox.py, sequence.py. *)
From SE Require Export Base.Num Base.Res Geom.Geometry.
From Coq Require Import Qround.
Open Scope Q_scope.

Record segment := { onset_s : option Q; offset_s : option Q; onset_sample : option Z; offset_sample : option Z }.
Record cbox := { c_onset : Q; c_offset : Q; c_low : Q; c_high : Q }.

(* ---------------- import ---------------- *)
(* sr: samplerate of the recording (already multiplied by the time expansion te) *)
Definition seconds_of (s : option Q) (k : option Z) (sr te : Q) : res Q :=
  match s, k with
  | Some x, _ => Ok x
  | None, Some n => Ok (inject_Z n / (sr / te))
  | None, None => Err EValue
  end.

Definition interval_ok (s e : Q) : bool := qleb s e && qleb 0 s && qleb 0 e.

Definition segment_to_interval (g : segment) (sr te : Q) (adjust : bool) : res (Q * Q) :=
  match seconds_of (onset_s g) (onset_sample g) sr te, seconds_of (offset_s g) (offset_sample g) sr te with
  | Err e, _ | _, Err e => Err e
  | Ok s, Ok e =>
      let scale := adjust && negb (qeqb te 1) in
      let s' := if scale then s / te else s in
      let e' := if scale then e / te else e in
      if interval_ok s' e' then Ok (s', e') else Err EValidation
  end.

Definition box_ok (s lo e hi : Q) : bool :=
  qleb 0 s && qleb 0 lo && qleb lo MAXF && qleb 0 e && qleb 0 hi && qleb hi MAXF.

(* the BoundingBox validator swaps reversed corners *)
Definition bbox_to_box (b : cbox) (te : Q) (adjust : bool) : res (Q * Q * Q * Q) :=
  let scale := adjust && negb (qeqb te 1) in
  let s := if scale then c_onset b / te else c_onset b in
  let e := if scale then c_offset b / te else c_offset b in
  let lo := if scale then c_low b * te else c_low b in
  let hi := if scale then c_high b * te else c_high b in
  if box_ok s lo e hi then
    let (s', e') := if qltb e s then (e, s) else (s, e) in
    let (lo', hi') := if qltb hi lo then (hi, lo) else (lo, hi) in
    Ok (s', lo', e', hi')
  else Err EValidation.

(* ---------------- export ---------------- *)
Definition geometry_to_interval (g : geom) (cast : bool) : res (Q * Q) :=
  match g with
  | TimeInterval s e => Ok (s, e)
  | _ =>
      if cast then
        match compute_bounds g with
        | Some b => if interval_ok (b_start b) (b_end b) then Ok (b_start b, b_end b) else Err EValidation
        | None => Err EOther
        end
      else Err EValue
  end.

Definition time_to_sample (t sr : Q) : Z := Qfloor (t * sr).

Definition segment_from_geometry (g : option geom) (sr : Q) (cast : bool) : res segment :=
  match g with
  | None => Err EValue
  | Some g =>
      match geometry_to_interval g cast with
      | Err e => Err e
      | Ok (s, e) =>
          Ok {| onset_s := Some s; offset_s := Some e;
                onset_sample := Some (time_to_sample s sr); offset_sample := Some (time_to_sample e sr) |}
      end
  end.

Definition is_time_geometry (g : geom) : bool :=
  match g with TimeStamp _ | TimeInterval _ _ => true | _ => false end.
Definition is_bbox (g : geom) : bool := match g with BBox _ _ _ _ => true | _ => false end.

(* crowsetta.BBox validators: all values >= 0, onset < offset, low < high *)
Definition cbox_ok (b : cbox) : bool :=
  qleb 0 (c_onset b) && qleb 0 (c_offset b) && qleb 0 (c_low b) && qleb 0 (c_high b)
  && qltb (c_onset b) (c_offset b) && qltb (c_low b) (c_high b).

Definition bbox_from_geometry (g : option geom) (sr : Q) (cast raise_on_time : bool) : res cbox :=
  match g with
  | None => Err EValue
  | Some g =>
      if negb (is_bbox g) && negb cast then Err EValue
      else if is_time_geometry g && raise_on_time then Err EValue
      else
        match compute_bounds g with
        | None => Err EOther
        | Some b =>
            let box := {| c_onset := b_start b; c_offset := b_end b; c_low := b_low b;
                          c_high := pymin (b_high b) (sr / 2) |} in
            if cbox_ok box then Ok box else Err EValue
        end
  end.

(* sequences / annotations: one element per input, in order; errors skipped or raised *)
Fixpoint collect {A B} (f : A -> res B) (ignore_errors : bool) (l : list A) : res (list B) :=
  match l with
  | [] => Ok []
  | x :: r =>
      match f x with
      | Ok y => match collect f ignore_errors r with Ok ys => Ok (y :: ys) | Err e => Err e end
      | Err EValue => if ignore_errors then collect f ignore_errors r else Err EValue
      | Err EValidation => if ignore_errors then collect f ignore_errors r else Err EValidation  (* a ValueError subclass *)
      | Err e => Err e          (* only ValueError is caught *)
      end
  end.

(* comparison helpers *)
Definition oq_eqb (a b : option Q) : bool :=
  match a, b with Some x, Some y => qeqb x y | None, None => true | _, _ => false end.
Definition oz_eqb (a b : option Z) : bool :=
  match a, b with Some x, Some y => Z.eqb x y | None, None => true | _, _ => false end.
Definition segment_eqb (a b : segment) : bool :=
  oq_eqb (onset_s a) (onset_s b) && oq_eqb (offset_s a) (offset_s b)
  && oz_eqb (onset_sample a) (onset_sample b) && oz_eqb (offset_sample a) (offset_sample b).
Definition cbox_eqb (a b : cbox) : bool :=
  qeqb (c_onset a) (c_onset b) && qeqb (c_offset a) (c_offset b) && qeqb (c_low a) (c_low b) && qeqb (c_high a) (c_high b).
Definition qpair_eqb (a b : Q * Q) : bool := qeqb (fst a) (fst b) && qeqb (snd a) (snd b).
Definition qquad_eqb (a b : Q * Q * Q * Q) : bool := bounds_eqb a b.
