From Coq Require Import String List Bool ZArith QArith Lqa Lia Qround.
From SE Require Import Base.Num Base.Res Base.NumProofs Geom.Geometry Geom.Features Geom.FeaturesProofs Crow.Labels Crow.Convert.
Open Scope string_scope.

(* ================= label_to_tags: the cascade ================= *)
Section L2T.
Variables (label : string) (tag_fn : option (string -> res (list tag)))
          (tag_mapping : option (list (string * list tag))) (term_mapping : option (list (string * term)))
          (key_mapping : option (list (string * string))) (key : option string) (term_ : option term)
          (fallback : string) (empty_labels : list string).
Let R := label_to_tags label tag_fn tag_mapping term_mapping key_mapping key term_ fallback empty_labels.

Definition fn_hit : option (list tag) :=
  match tag_fn with Some f => match f label with Ok ts => Some ts | Err _ => None end | None => None end.
Definition term_hit : option term := match term_mapping with Some m => lookup label m | None => None end.
Definition tagmap_hit : option (list tag) := match tag_mapping with Some m => lookup label m | None => None end.
Definition keymap_hit : option string := match key_mapping with Some m => lookup label m | None => None end.

Theorem l2t_empty : smem label empty_labels = true -> R = [].
Proof. intro H. unfold R, label_to_tags. rewrite H. reflexivity. Qed.

Theorem l2t_fn ts : smem label empty_labels = false -> fn_hit = Some ts -> R = ts.
Proof. intros H1 H2. unfold R, label_to_tags. rewrite H1. unfold fn_hit in H2. rewrite H2. reflexivity. Qed.

Theorem l2t_term_mapping t : smem label empty_labels = false -> fn_hit = None -> term_hit = Some t -> R = [(t, label)].
Proof.
  intros H1 H2 H3. unfold R, label_to_tags. rewrite H1. unfold fn_hit in H2. rewrite H2.
  unfold term_hit in H3. destruct term_mapping as [m|]; [|discriminate]. rewrite H3. reflexivity.
Qed.

Theorem l2t_explicit_term t : smem label empty_labels = false -> fn_hit = None -> term_hit = None -> term_ = Some t -> R = [(t, label)].
Proof.
  intros H1 H2 H3 H4. unfold R, label_to_tags. rewrite H1. unfold fn_hit in H2. rewrite H2. subst term_.
  unfold term_hit in H3. destruct term_mapping as [m|]; [rewrite H3|]; reflexivity.
Qed.

Theorem l2t_tag_mapping ts : smem label empty_labels = false -> fn_hit = None -> term_hit = None -> term_ = None ->
  tagmap_hit = Some ts -> R = ts.
Proof.
  intros H1 H2 H3 H4 H5. unfold R, label_to_tags. rewrite H1. unfold fn_hit in H2. rewrite H2. subst term_.
  unfold term_hit in H3. unfold tagmap_hit in H5. destruct tag_mapping as [tm|]; [|discriminate].
  destruct term_mapping as [m|]; [rewrite H3|]; rewrite H5; reflexivity.
Qed.

Theorem l2t_key_mapping k : smem label empty_labels = false -> fn_hit = None -> term_hit = None -> term_ = None ->
  tagmap_hit = None -> keymap_hit = Some k -> R = [(term_from_key k, label)].
Proof.
  intros H1 H2 H3 H4 H5 H6. unfold R, label_to_tags. rewrite H1. unfold fn_hit in H2. rewrite H2. subst term_.
  unfold term_hit in H3. unfold tagmap_hit in H5. unfold keymap_hit in H6.
  destruct key_mapping as [km|]; [|discriminate].
  destruct term_mapping as [m|]; [rewrite H3|]; (destruct tag_mapping as [tm|]; [rewrite H5|]); rewrite H6; reflexivity.
Qed.

Theorem l2t_explicit_key_or_fallback : smem label empty_labels = false -> fn_hit = None -> term_hit = None -> term_ = None ->
  tagmap_hit = None -> keymap_hit = None ->
  R = [(term_from_key (match key with Some k => k | None => fallback end), label)].
Proof.
  intros H1 H2 H3 H4 H5 H6. unfold R, label_to_tags. rewrite H1. unfold fn_hit in H2. rewrite H2. subst term_.
  unfold term_hit in H3. unfold tagmap_hit in H5. unfold keymap_hit in H6.
  destruct term_mapping as [m|]; [rewrite H3|]; (destruct tag_mapping as [tm|]; [rewrite H5|]);
    (destruct key_mapping as [km|]; [rewrite H6|]); destruct key; reflexivity.
Qed.
End L2T.

(* ================= label_from_tags ================= *)
Theorem lft_seq_fn tags f sk idx sep el lf lm vo ts : label_from_tags tags (Some f) sk idx sep el lf lm vo ts = f tags.
Proof. reflexivity. Qed.

Theorem lft_empty sk idx sep el lf lm vo ts : label_from_tags [] None sk idx sep el lf lm vo ts = el.
Proof. reflexivity. Qed.

Theorem lft_select t tags k idx sep el lf lm vo ts :
  label_from_tags (t :: tags) None (Some k) idx sep el lf lm vo ts =
  match find (fun x => String.eqb (key_from_term (fst x)) k) (t :: tags) with
  | None => el
  | Some x => label_from_tag x lf lm true ts
  end.
Proof. reflexivity. Qed.

Theorem lft_index t tags (i : Z) sep el lf lm vo ts :
  exists x, nth_error (t :: tags) (Z.to_nat (i mod Z.of_nat (length (t :: tags)))) = Some x /\
  label_from_tags (t :: tags) None None (Some i) sep el lf lm vo ts = label_from_tag x lf lm vo ts.
Proof.
  assert (H : (Z.to_nat (i mod Z.of_nat (length (t :: tags))) < length (t :: tags))%nat).
  { assert (0 < Z.of_nat (length (t :: tags)))%Z by (cbn [length]; lia).
    pose proof (Z.mod_pos_bound i _ H). lia. }
  destruct (nth_error (t :: tags) (Z.to_nat (i mod Z.of_nat (length (t :: tags))))) as [x|] eqn:E.
  - exists x. split; [reflexivity|]. unfold label_from_tags. rewrite E. reflexivity.
  - apply nth_error_None in E. lia.
Qed.

Theorem lft_join t tags sep el lf lm vo ts :
  label_from_tags (t :: tags) None None None sep el lf lm vo ts =
  join sep (map (fun x => label_from_tag x lf lm vo ts) (t :: tags)).
Proof. reflexivity. Qed.

Theorem label_from_tag_plain t vo sep :
  label_from_tag t None None vo sep = if vo then snd t else key_from_term (fst t) ++ sep ++ snd t.
Proof. reflexivity. Qed.

Open Scope Q_scope.

(* ================= import: times divided / frequencies multiplied by the time expansion exactly once ================= *)
Theorem import_seconds s e sr te adjust :
  segment_to_interval {| onset_s := Some s; offset_s := Some e; onset_sample := None; offset_sample := None |} sr te adjust =
  let scale := (adjust && negb (qeqb te 1))%bool in
  let s' := if scale then s / te else s in let e' := if scale then e / te else e in
  if interval_ok s' e' then Ok (s', e') else Err EValidation.
Proof. reflexivity. Qed.

(* from sample indices: index / file samplerate (= sr/te), then / te: altogether index * te / sr / te = index / sr *)
Theorem import_samples_once (k : Z) sr te : 0 < sr -> 0 < te ->
  inject_Z k / (sr / te) / te == inject_Z k / sr.
Proof. intros H1 H2. field. split; lra. Qed.

Theorem import_box b te : 0 < te -> ~ te == 1 ->
  box_ok (c_onset b / te) (c_low b * te) (c_offset b / te) (c_high b * te) = true ->
  c_onset b <= c_offset b -> c_low b <= c_high b ->
  exists r, bbox_to_box b te true = Ok r /\
    bounds_eqb r (c_onset b / te, c_low b * te, c_offset b / te, c_high b * te) = true.
Proof.
  intros Hte Hne Hok Ht Hf. unfold bbox_to_box.
  assert (E : qeqb te 1 = false). { destruct (qeqb te 1) eqn:E; [|reflexivity]. apply qeqb_spec in E. contradiction. }
  rewrite E. cbn [negb andb]. rewrite Hok.
  assert (Hinv : 0 < / te) by (apply Qinv_lt_0_compat; exact Hte).
  assert (E1 : qltb (c_offset b / te) (c_onset b / te) = false). { apply qltb_false. unfold Qdiv. nra. }
  assert (E2 : qltb (c_high b * te) (c_low b * te) = false). { apply qltb_false. nra. }
  rewrite E1, E2. eexists. split; [reflexivity|].
  unfold bounds_eqb, b_start, b_low, b_end, b_high. cbn [fst snd].
  rewrite !andb_true_iff. repeat split; apply qeqb_spec; reflexivity.
Qed.

(* ================= export ================= *)
Theorem export_interval s e sr cast :
  segment_from_geometry (Some (TimeInterval s e)) sr cast =
  Ok {| onset_s := Some s; offset_s := Some e; onset_sample := Some (Qfloor (s * sr)); offset_sample := Some (Qfloor (e * sr)) |}.
Proof. reflexivity. Qed.

Theorem export_segment_spec g sr cast seg :
  segment_from_geometry (Some g) sr cast = Ok seg ->
  exists s e, onset_s seg = Some s /\ offset_s seg = Some e /\
    onset_sample seg = Some (Qfloor (s * sr)) /\ offset_sample seg = Some (Qfloor (e * sr)) /\
    (match g with TimeInterval a b => s = a /\ e = b
     | _ => cast = true /\ exists b, compute_bounds g = Some b /\ s = b_start b /\ e = b_end b end).
Proof.
  unfold segment_from_geometry. destruct (geometry_to_interval g cast) as [[s e]|] eqn:E; [|discriminate].
  intro H. injection H as <-. exists s, e. cbn. repeat split; try reflexivity.
  unfold geometry_to_interval in E.
  destruct g; try (injection E as <- <-; split; reflexivity).
  all: destruct cast; [|discriminate E].
  all: destruct (compute_bounds _) as [b|] eqn:Eb; [|discriminate E].
  all: destruct (interval_ok _ _); [|discriminate E].
  all: injection E as <- <-; split; [reflexivity|]; exists b; auto.
Qed.

Theorem export_no_cast g sr : (match g with TimeInterval _ _ => False | _ => True end) ->
  segment_from_geometry (Some g) sr false = Err EValue.
Proof. destruct g; cbn; tauto. Qed.

Theorem export_no_geometry sr cast r : segment_from_geometry None sr cast = Err EValue /\ bbox_from_geometry None sr cast r = Err EValue.
Proof. split; reflexivity. Qed.

(* boxes: the bounds, the upper frequency capped at the Nyquist frequency *)
Theorem export_box_spec g sr cast rt b :
  bbox_from_geometry (Some g) sr cast rt = Ok b ->
  exists bd, compute_bounds g = Some bd /\ c_onset b = b_start bd /\ c_offset b = b_end bd /\ c_low b = b_low bd /\
    c_high b = pymin (b_high bd) (sr / 2) /\ c_high b <= sr / 2 /\ c_high b <= b_high bd /\
    c_onset b < c_offset b /\ c_low b < c_high b /\ (is_bbox g = true \/ cast = true) /\ (is_time_geometry g = false \/ rt = false).
Proof.
  unfold bbox_from_geometry. destruct (negb (is_bbox g) && negb cast)%bool eqn:E1; [discriminate|].
  destruct (is_time_geometry g && rt)%bool eqn:E2; [discriminate|].
  destruct (compute_bounds g) as [bd|]; [|discriminate].
  destruct (cbox_ok _) eqn:E3; [|discriminate]. intro H. injection H as <-. exists bd. cbn.
  unfold cbox_ok in E3. cbn in E3. repeat (apply andb_true_iff in E3; destruct E3 as [E3 ?]).
  apply qltb_spec in H, H0. pose proof (pymin_lb (b_high bd) (sr / 2)) as [L1 L2].
  repeat split; try reflexivity; try assumption.
  - destruct (is_bbox g), cast; cbn in E1; try discriminate; auto.
  - destruct (is_time_geometry g), rt; cbn in E2; try discriminate; auto.
Qed.

(* sequences: one element per convertible input, in order; unconvertible ones skipped or raised as requested *)
Theorem collect_all_ok {A B} (f : A -> res B) ie l ys :
  Forall2 (fun x y => f x = Ok y) l ys -> collect f ie l = Ok ys.
Proof. intro H. induction H as [|x y l ys Hx _ IH]; cbn; [reflexivity|]. rewrite Hx, IH. reflexivity. Qed.

Theorem collect_raises {A B} (f : A -> res B) l1 x l2 ys :
  Forall2 (fun a y => f a = Ok y) l1 ys -> f x = Err EValue -> collect f false (l1 ++ x :: l2) = Err EValue.
Proof. intro H. induction H as [|a y l ys Ha _ IH]; cbn; intro Hx; [rewrite Hx; reflexivity|]. rewrite Ha, (IH Hx). reflexivity. Qed.

Theorem collect_skips {A B} (f : A -> res B) x l : f x = Err EValue -> collect f true (x :: l) = collect f true l.
Proof. intro H. cbn. rewrite H. reflexivity. Qed.

Theorem collect_keeps {A B} (f : A -> res B) ie x y l ys : f x = Ok y -> collect f ie l = Ok ys -> collect f ie (x :: l) = Ok (y :: ys).
Proof. intros H1 H2. cbn. rewrite H1, H2. reflexivity. Qed.

(* ================= export after import (no time expansion) ================= *)
Theorem roundtrip_segment s e sr adjust cast : 0 <= s -> s <= e ->
  exists r, segment_to_interval {| onset_s := Some s; offset_s := Some e; onset_sample := None; offset_sample := None |} sr 1 adjust = Ok r /\
    segment_from_geometry (Some (TimeInterval (fst r) (snd r))) sr cast =
    Ok {| onset_s := Some s; offset_s := Some e; onset_sample := Some (Qfloor (s * sr)); offset_sample := Some (Qfloor (e * sr)) |}.
Proof.
  intros H1 H2. unfold segment_to_interval. cbn [seconds_of onset_s offset_s onset_sample offset_sample].
  assert (E : qeqb 1 1 = true) by reflexivity. rewrite E. cbn [negb]. rewrite andb_false_r.
  assert (Hok : interval_ok s e = true).
  { unfold interval_ok. rewrite !andb_true_iff. repeat split; apply qleb_spec; lra. }
  rewrite Hok. eexists. split; reflexivity.
Qed.

Theorem roundtrip_box b sr : cbox_ok b = true -> c_high b <= MAXF -> c_high b <= sr / 2 ->
  exists r, bbox_to_box b 1 true = Ok r /\
    match r with (s, lo, e, hi) =>
      exists b', bbox_from_geometry (Some (BBox s lo e hi)) sr true true = Ok b' /\ cbox_eqb b' b = true end.
Proof.
  intros Hok Hmax Hny. unfold cbox_ok in Hok. repeat (apply andb_true_iff in Hok; destruct Hok as [Hok ?]).
  apply qleb_spec in Hok, H1, H2, H3. apply qltb_spec in H, H0.
  unfold bbox_to_box. assert (E : qeqb 1 1 = true) by reflexivity. rewrite E. cbn [negb andb].
  assert (Hb : box_ok (c_onset b) (c_low b) (c_offset b) (c_high b) = true).
  { unfold box_ok. rewrite !andb_true_iff. repeat split; apply qleb_spec; lra. }
  rewrite Hb.
  assert (E1 : qltb (c_offset b) (c_onset b) = false) by (apply qltb_false; lra).
  assert (E2 : qltb (c_high b) (c_low b) = false) by (apply qltb_false; lra).
  rewrite E1, E2. eexists. split; [reflexivity|]. cbn beta iota.
  unfold bbox_from_geometry. cbn [is_bbox is_time_geometry negb andb].
  destruct (compute_bounds (BBox (c_onset b) (c_low b) (c_offset b) (c_high b))) as [bd|] eqn:Ebd.
  2:{ exfalso. unfold compute_bounds, shp_bounds in Ebd. cbn in Ebd. discriminate. }
  assert (Hs : b_start bd == c_onset b /\ b_low bd == c_low b /\ b_end bd == c_offset b /\ b_high bd == c_high b).
  { assert (Ha : c_onset b <= c_offset b) by lra. assert (Hbb : c_low b <= c_high b) by lra.
    pose proof (bounds_box _ _ _ _ bd Ha Hbb Ebd) as Hb2. apply bounds_eqb_fields in Hb2.
    unfold b_start, b_low, b_end, b_high in *. cbn [fst snd] in Hb2. exact Hb2. }
  destruct Hs as (S1 & S2 & S3 & S4).
  set (box := {| c_onset := b_start bd; c_offset := b_end bd; c_low := b_low bd; c_high := pymin (b_high bd) (sr / 2) |}).
  assert (Hh : c_high box == c_high b).
  { cbn. destruct (pymin_cases (b_high bd) (sr / 2)) as [[-> ?]|[-> ?]]; lra. }
  assert (Hc : cbox_ok box = true).
  { unfold cbox_ok. cbn [c_onset c_offset c_low]. rewrite !andb_true_iff.
    repeat split; try (apply qleb_spec; cbn in Hh |- *; lra); apply qltb_spec; cbn in Hh |- *; lra. }
  rewrite Hc. exists box. split; [reflexivity|].
  unfold cbox_eqb. cbn [c_onset c_offset c_low]. rewrite !andb_true_iff. repeat split; apply qeqb_spec; cbn in Hh |- *; lra.
Qed.
