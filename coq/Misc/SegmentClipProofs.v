From Coq Require Import QArith Lqa Lia Qround.
From SE Require Import Base.Num Base.Res Base.NumProofs Misc.SegmentClip.
Open Scope Q_scope.

Section Loop.
Variables (s e dur hop : Q) (incl : bool).
Hypothesis Hhop : 0 < hop.

(* window i is emitted by an unbounded loop iff every earlier window is, i.e. iff: *)
Definition admissible (i : nat) : Prop :=
  s + idx i * hop < e /\ (incl = true \/ s + idx i * hop + dur <= e).

Lemma admissible_down i j : (j <= i)%nat -> admissible i -> admissible j.
Proof.
  intros Hle [H1 H2]. pose proof (idx_le _ _ Hle) as Hi. unfold admissible.
  assert (idx j * hop <= idx i * hop) by nra.
  split; [lra|]. destruct H2 as [H2|H2]; [left; exact H2|right; lra].
Qed.

Lemma step_admissible i :
  (qleb e (s + idx i * hop) = false /\ (qltb e (s + idx i * hop + dur) && negb incl)%bool = false)
  <-> admissible i.
Proof.
  unfold admissible. split.
  - intros [H1 H2]. apply qleb_false in H1. split; [exact H1|].
    destruct incl; [left; reflexivity|right].
    rewrite Bool.andb_true_r in H2. apply qltb_false in H2. exact H2.
  - intros [H1 H2]. split; [apply qleb_false; exact H1|].
    destruct H2 as [->|H2]; [apply Bool.andb_false_r|].
    apply Bool.andb_false_intro1. apply qltb_false. exact H2.
Qed.

Lemma loop_nth fuel : forall i k st en,
  nth_error (seg_loop fuel i s e dur hop incl) k = Some (st, en) ->
  st = s + idx (i + k) * hop /\ en = pymin (st + dur) e /\ admissible (i + k).
Proof.
  induction fuel as [|f IH]; intros i k st en H; cbn [seg_loop] in H.
  - destruct k; discriminate.
  - destruct (qleb e (s + idx i * hop)) eqn:E1; [destruct k; discriminate|].
    destruct (qltb e (s + idx i * hop + dur) && negb incl)%bool eqn:E2; [destruct k; discriminate|].
    destruct k as [|k]; cbn [nth_error] in H.
    + injection H as <- <-. rewrite Nat.add_0_r. repeat split; try reflexivity.
      * apply step_admissible. auto.
      * apply step_admissible. auto.
    + apply IH in H. replace (i + S k)%nat with (S i + k)%nat by lia. exact H.
Qed.

Lemma loop_length fuel : forall i k,
  (k < fuel)%nat -> admissible (i + k) -> (k < length (seg_loop fuel i s e dur hop incl))%nat.
Proof.
  induction fuel as [|f IH]; intros i k Hk Ha; [lia|].
  cbn [seg_loop].
  assert (Hi : admissible i) by (apply (admissible_down (i + k)); [lia|exact Ha]).
  apply step_admissible in Hi. destruct Hi as [E1 E2]. rewrite E1, E2. cbn [length].
  destruct k as [|k]; [lia|].
  apply -> Nat.succ_lt_mono. apply IH; [lia|]. replace (S i + k)%nat with (i + S k)%nat by lia. exact Ha.
Qed.

(* the loop never runs out of fuel: every admissible index is below seg_fuel *)
Lemma fuel_enough k : admissible k -> (k < seg_fuel s e hop)%nat.
Proof.
  intros [H _]. unfold seg_fuel.
  assert (Hq : idx k < (e - s) / hop).
  { apply Qlt_shift_div_l; [exact Hhop|]. lra. }
  pose proof (Qle_ceiling ((e - s) / hop)) as Hc.
  assert (Hz : (Z.of_nat k < Qceiling ((e - s) / hop))%Z).
  { rewrite Zlt_Qlt. unfold idx in Hq. lra. }
  lia.
Qed.

Lemma loop_more_fuel fuel : forall i extra,
  (forall k, admissible (i + k) -> (k < fuel)%nat) ->
  seg_loop (fuel + extra) i s e dur hop incl = seg_loop fuel i s e dur hop incl.
Proof.
  induction fuel as [|f IH]; intros i extra Hb.
  - cbn [Nat.add seg_loop]. destruct extra; [reflexivity|]. cbn [seg_loop].
    destruct (qleb e (s + idx i * hop)) eqn:E1; [reflexivity|].
    destruct (qltb e (s + idx i * hop + dur) && negb incl)%bool eqn:E2; [reflexivity|].
    exfalso. assert (Ha : admissible (i + 0)).
    { rewrite Nat.add_0_r. apply step_admissible. auto. }
    apply Hb in Ha. lia.
  - cbn [Nat.add seg_loop].
    destruct (qleb e (s + idx i * hop)) eqn:E1; [reflexivity|].
    destruct (qltb e (s + idx i * hop + dur) && negb incl)%bool eqn:E2; [reflexivity|].
    f_equal. apply IH. intros k Ha. replace (S i + k)%nat with (i + S k)%nat in Ha by lia.
    apply Hb in Ha. lia.
Qed.

Definition windows : list seg := seg_loop (seg_fuel s e hop) 0 s e dur hop incl.

Lemma windows_nth k st en :
  nth_error windows k = Some (st, en) ->
  st = s + idx k * hop /\ en = pymin (st + dur) e /\ admissible k.
Proof. intro H. apply loop_nth in H. exact H. Qed.

Lemma windows_produced k : admissible k <-> (k < length windows)%nat.
Proof.
  split.
  - intro Ha. apply loop_length; [apply fuel_enough; exact Ha|exact Ha].
  - intro Hlt. destruct (nth_error windows k) as [[st en]|] eqn:E.
    + apply windows_nth in E. tauto.
    + apply nth_error_None in E. lia.
Qed.

(* the result does not depend on the fuel: any larger bound gives the same list *)
Lemma windows_fuel_irrelevant extra :
  seg_loop (seg_fuel s e hop + extra) 0 s e dur hop incl = windows.
Proof. apply loop_more_fuel. intros k Ha. apply fuel_enough. exact Ha. Qed.

Lemma windows_inside k st en :
  0 < dur -> nth_error windows k = Some (st, en) -> s <= st /\ st < en /\ en <= e.
Proof.
  intros Hdur H. apply windows_nth in H. destruct H as (-> & -> & [Ha _]).
  pose proof (idx_nonneg k). split; [nra|].
  destruct (pymin_cases (s + idx k * hop + dur) e) as [[-> Hc]|[-> Hc]]; lra.
Qed.

Lemma windows_exact_duration k st en :
  nth_error windows k = Some (st, en) -> st + dur <= e -> en == st + dur.
Proof.
  intros H Hfit. apply windows_nth in H. destruct H as (-> & -> & _).
  destruct (pymin_cases (s + idx k * hop + dur) e) as [[-> Hc]|[-> Hc]]; lra.
Qed.

Lemma windows_complete_when_not_incl k st en :
  incl = false -> nth_error windows k = Some (st, en) -> en == st + dur.
Proof.
  intros Hi H. pose proof (windows_nth _ _ _ H) as (Hst & _ & [_ [Hc|Hc]]); [congruence|].
  apply (windows_exact_duration k st en H). subst st. exact Hc.
Qed.

Lemma windows_truncated k st en :
  nth_error windows k = Some (st, en) -> e < st + dur -> en = e.
Proof.
  intros H Hover. apply windows_nth in H. destruct H as (-> & -> & _).
  destruct (pymin_cases (s + idx k * hop + dur) e) as [[-> Hc]|[-> Hc]]; [exfalso; lra|reflexivity].
Qed.

Lemma windows_starts_increasing j k sj ej sk ek :
  (j < k)%nat -> nth_error windows j = Some (sj, ej) -> nth_error windows k = Some (sk, ek) -> sj < sk.
Proof.
  intros Hlt Hj Hk. apply windows_nth in Hj. apply windows_nth in Hk.
  destruct Hj as (-> & _ & _). destruct Hk as (-> & _ & _).
  pose proof (idx_lt _ _ Hlt). nra.
Qed.

End Loop.

(* coverage: with include_incomplete and hop <= duration every instant of the clip is in a window *)
Lemma floor_index (x : Q) : 0 <= x -> exists k : nat, idx k <= x /\ x < idx k + 1.
Proof.
  intro Hx. exists (Z.to_nat (Qfloor x)).
  assert (H0 : (0 <= Qfloor x)%Z).
  { change 0%Z with (Qfloor 0). apply Qfloor_resp_le. exact Hx. }
  unfold idx. rewrite Z2Nat.id by exact H0.
  pose proof (Qfloor_le x). pose proof (Qlt_floor x) as Hl.
  rewrite inject_Z_plus in Hl. change (inject_Z 1) with 1 in Hl. lra.
Qed.

Lemma windows_cover s e dur hop t :
  0 < hop -> 0 < dur -> hop <= dur -> s <= t -> t < e ->
  exists k st en, nth_error (windows s e dur hop true) k = Some (st, en) /\ st <= t /\ t < en.
Proof.
  intros Hhop Hdur Hle Hs He.
  destruct (floor_index ((t - s) / hop)) as [k [Hk1 Hk2]].
  { apply Qle_shift_div_l; [exact Hhop|lra]. }
  assert (Hdiv : (t - s) / hop * hop == t - s) by (field; lra).
  assert (Hk1' : idx k * hop <= t - s).
  { rewrite <- Hdiv. apply Qmult_le_compat_r; lra. }
  assert (Hk2' : t - s < (idx k + 1) * hop).
  { rewrite <- Hdiv. apply Qmult_lt_compat_r; lra. }
  assert (Ha : admissible s e dur hop true k).
  { split; [lra|left; reflexivity]. }
  pose proof (proj1 (windows_produced s e dur hop true Hhop k) Ha) as Hlen.
  destruct (nth_error (windows s e dur hop true) k) as [[st en]|] eqn:E.
  - exists k, st, en. split; [exact E|].
    pose proof (windows_nth s e dur hop true k st en E) as (-> & -> & _).
    split; [lra|].
    destruct (pymin_cases (s + idx k * hop + dur) e) as [[-> Hc]|[-> Hc]]; [nra|lra].
  - apply nth_error_None in E. lia.
Qed.

Lemma rejects_nonpositive s e dur hop incl :
  (dur <= 0 \/ hop <= 0) <-> segment_clip s e dur hop incl = Err EValue.
Proof.
  unfold segment_clip. destruct (qleb dur 0) eqn:E1; [|destruct (qleb hop 0) eqn:E2].
  - apply qleb_spec in E1. tauto.
  - apply qleb_spec in E2. tauto.
  - apply qleb_false in E1. apply qleb_false in E2. split; [intros [H|H]; exfalso; lra|discriminate].
Qed.

Lemma segment_clip_ok s e dur hop incl :
  0 < dur -> 0 < hop -> segment_clip s e dur hop incl = Ok (windows s e dur hop incl).
Proof.
  intros H1 H2. unfold segment_clip.
  assert (E1 : qleb dur 0 = false) by (apply qleb_false; exact H1).
  assert (E2 : qleb hop 0 = false) by (apply qleb_false; exact H2).
  rewrite E1, E2. reflexivity.
Qed.
