(* Misc/SegmentClip.v — model of soundevent.operations.segment_clip.
   The generator loop `for i in count(): ... break` is a fuelled recursion; the fuel
   is the number of hop-lattice points inside the clip, and SegmentClipProofs shows the
   loop always ends by one of its `break`s, never by running out of fuel. *)
From SE Require Export Base.Num Base.Res.
From Coq Require Import Qround.
Open Scope Q_scope.

Definition seg := (Q * Q)%type.

Fixpoint seg_loop (fuel : nat) (i : nat) (s e dur hop : Q) (incl : bool) : list seg :=
  match fuel with
  | O => []
  | S f =>
      let st := s + idx i * hop in
      let en := st + dur in
      if qleb e st then []                          (* start_time >= clip.end_time: break *)
      else if qltb e en && negb incl then []        (* end_time > clip.end_time and not incl: break *)
      else (st, pymin en e) :: seg_loop f (S i) s e dur hop incl
  end.

Definition seg_fuel (s e hop : Q) : nat := Z.to_nat (Qceiling ((e - s) / hop)).

Definition segment_clip (s e dur hop : Q) (incl : bool) : res (list seg) :=
  if qleb dur 0 then Err EValue
  else if qleb hop 0 then Err EValue
  else Ok (seg_loop (seg_fuel s e hop) 0 s e dur hop incl).

Definition seg_eqb (a b : seg) : bool := qeqb (fst a) (fst b) && qeqb (snd a) (snd b).
Fixpoint segs_eqb (a b : list seg) : bool :=
  match a, b with
  | [], [] => true
  | x :: a', y :: b' => seg_eqb x y && segs_eqb a' b'
  | _, _ => false
  end.
