From Coq Require Import List Arith Bool Lia Relations Permutation.
From SE Require Import Misc.Components.
Import ListNotations.

(* ---------- the queried pairs ---------- *)
Lemma in_pairs n i j : In (i, j) (pairs n) <-> i < j /\ j < n.
Proof.
  unfold pairs. rewrite in_flat_map. split.
  - intros [x [Hx Hin]]. apply in_map_iff in Hin. destruct Hin as [y [Hy Hin]].
    injection Hy as <- <-. apply in_seq in Hx. apply in_seq in Hin. lia.
  - intros [H1 H2]. exists i. split; [apply in_seq; lia|].
    apply in_map_iff. exists j. split; [reflexivity|apply in_seq; lia].
Qed.

Lemma NoDup_app_intro {A} (l1 l2 : list A) :
  NoDup l1 -> NoDup l2 -> (forall x, In x l1 -> ~ In x l2) -> NoDup (l1 ++ l2).
Proof.
  induction l1 as [|a l1 IH]; intros H1 H2 Hd; [exact H2|].
  cbn. inversion H1 as [|? ? Hna Hnd]; subst. constructor.
  - intro Hin. apply in_app_or in Hin. destruct Hin as [Hin|Hin]; [contradiction|].
    apply (Hd a); [left; reflexivity|exact Hin].
  - apply IH; [exact Hnd|exact H2|]. intros x Hx. apply Hd. right. exact Hx.
Qed.

Lemma NoDup_flat_map_intro {A B} (f : A -> list B) (l : list A) :
  NoDup l -> (forall x, In x l -> NoDup (f x)) ->
  (forall x y b, In x l -> In y l -> x <> y -> In b (f x) -> ~ In b (f y)) ->
  NoDup (flat_map f l).
Proof.
  induction l as [|a l IH]; intros Hnd Hf Hdis; [constructor|].
  cbn [flat_map]. inversion Hnd as [|? ? Hna Hnd']; subst.
  apply NoDup_app_intro.
  - apply Hf. left. reflexivity.
  - apply IH; [exact Hnd'| |].
    + intros x Hx. apply Hf. right. exact Hx.
    + intros x y b Hx Hy. apply Hdis; right; assumption.
  - intros b Hb Hin. apply in_flat_map in Hin. destruct Hin as [y [Hy Hby]].
    apply (Hdis a y b); [left; reflexivity|right; exact Hy| |exact Hb|exact Hby].
    intro; subst. contradiction.
Qed.

Lemma NoDup_pairs n : NoDup (pairs n).
Proof.
  unfold pairs. apply NoDup_flat_map_intro.
  - apply seq_NoDup.
  - intros x _. apply FinFun.Injective_map_NoDup; [|apply seq_NoDup].
    intros a b H. injection H as H. exact H.
  - intros x y b _ _ Hne Hx Hy. apply in_map_iff in Hx. apply in_map_iff in Hy.
    destruct Hx as [u [<- _]]. destruct Hy as [v [Hv _]]. injection Hv as Hv _. congruence.
Qed.

Lemma in_edges_of n rel i j : In (i, j) (edges_of n rel) <-> i < j /\ j < n /\ rel i j = true.
Proof. unfold edges_of. rewrite filter_In, in_pairs. cbn. tauto. Qed.

(* ---------- connectivity ---------- *)
Definition erel (E : list (nat * nat)) (a b : nat) : Prop := In (a, b) E.
Definition conn (E : list (nat * nat)) : nat -> nat -> Prop := clos_refl_sym_trans nat (erel E).

Lemma conn_refl E a : conn E a a. Proof. apply rst_refl. Qed.
Lemma conn_sym E a b : conn E a b -> conn E b a. Proof. apply rst_sym. Qed.
Lemma conn_trans E a b c : conn E a b -> conn E b c -> conn E a c. Proof. apply rst_trans. Qed.

Lemma conn_mono E E' a b : incl E E' -> conn E a b -> conn E' a b.
Proof.
  intros Hi H. induction H as [x y H| |x y _ IH|x y z _ IH1 _ IH2].
  - apply rst_step. apply Hi. exact H.
  - apply rst_refl.
  - apply rst_sym. exact IH.
  - eapply rst_trans; eassumption.
Qed.

Lemma conn_nil a b : conn [] a b -> a = b.
Proof.
  intro H. induction H as [x y H| |x y _ IH|x y z _ IH1 _ IH2]; [destruct H|reflexivity|congruence|congruence].
Qed.

Definition conn1 E i j a b : Prop :=
  conn E a b \/ (conn E a i /\ conn E j b) \/ (conn E a j /\ conn E i b).

Lemma conn_snoc E i j a b : conn (E ++ [(i, j)]) a b <-> conn1 E i j a b.
Proof.
  split.
  - intro H. induction H as [x y H| |x y _ IH|x y z _ IH1 _ IH2].
    + unfold erel in H. apply in_app_or in H. destruct H as [H|[H|[]]].
      * left. apply rst_step. exact H.
      * injection H as <- <-. right. left. split; apply conn_refl.
    + left. apply conn_refl.
    + destruct IH as [H|[[H1 H2]|[H1 H2]]].
      * left. apply conn_sym. exact H.
      * right. right. split; apply conn_sym; assumption.
      * right. left. split; apply conn_sym; assumption.
    + destruct IH1 as [A|[[A1 A2]|[A1 A2]]]; destruct IH2 as [B|[[B1 B2]|[B1 B2]]].
      * left. apply (conn_trans E x y z A B).
      * right. left. split; [apply (conn_trans E x y i A B1)|exact B2].
      * right. right. split; [apply (conn_trans E x y j A B1)|exact B2].
      * right. left. split; [exact A1|apply (conn_trans E j y z A2 B)].
      * left. apply (conn_trans E x i z A1). apply (conn_trans E i j z); [|exact B2].
        apply conn_sym. apply (conn_trans E j y i A2 B1).
      * left. apply (conn_trans E x i z A1 B2).
      * right. right. split; [exact A1|apply (conn_trans E i y z A2 B)].
      * left. apply (conn_trans E x j z A1 B2).
      * left. apply (conn_trans E x j z A1). apply (conn_trans E j i z); [|exact B2].
        apply conn_sym. apply (conn_trans E i y j A2 B1).
  - assert (Hinc : incl E (E ++ [(i, j)])) by (apply incl_appl, incl_refl).
    assert (Hij : conn (E ++ [(i, j)]) i j).
    { apply rst_step. unfold erel. apply in_or_app. right. left. reflexivity. }
    intros [H|[[H1 H2]|[H1 H2]]].
    + eapply conn_mono; eassumption.
    + apply (conn_trans _ a i b); [eapply conn_mono; eassumption|].
      apply (conn_trans _ i j b Hij). eapply conn_mono; eassumption.
    + apply (conn_trans _ a j b); [eapply conn_mono; eassumption|].
      apply (conn_trans _ j i b (conn_sym _ _ _ Hij)). eapply conn_mono; eassumption.
Qed.

(* ---------- the labelling invariant ---------- *)
Lemma relabel_length li lj labs : length (relabel li lj labs) = length labs.
Proof. apply map_length. Qed.

Lemma map_nth_lt {A B} (g : A -> B) (l : list A) : forall a d d', a < length l -> nth a (map g l) d' = g (nth a l d).
Proof.
  induction l as [|x l IH]; intros a d d' H; cbn in H; [lia|].
  destruct a as [|a]; cbn; [reflexivity|]. apply IH. lia.
Qed.

Lemma relabel_nth li lj labs a : a < length labs ->
  nth a (relabel li lj labs) 0 = if Nat.eqb (nth a labs 0) lj then li else nth a labs 0.
Proof.
  intro H. unfold relabel. rewrite (map_nth_lt _ labs a 0 0 H). reflexivity.
Qed.

Definition Inv (n : nat) (labs : list nat) (E : list (nat * nat)) : Prop :=
  length labs = n /\
  forall a b, a < n -> b < n -> (nth a labs 0 = nth b labs 0 <-> conn E a b).

Lemma inv_init n : Inv n (seq 0 n) [].
Proof.
  split; [apply seq_length|]. intros a b Ha Hb. rewrite !seq_nth by assumption. cbn. split.
  - intros ->. apply conn_refl.
  - apply conn_nil.
Qed.

Lemma inv_step n labs E i j :
  i < n -> j < n -> Inv n labs E -> Inv n (add_edge labs (i, j)) (E ++ [(i, j)]).
Proof.
  intros Hi Hj [Hlen Hinv]. unfold add_edge. cbn [fst snd]. split; [rewrite relabel_length; exact Hlen|].
  intros a b Ha Hb. rewrite conn_snoc. unfold conn1.
  rewrite !relabel_nth by lia.
  rewrite <- (Hinv a b Ha Hb), <- (Hinv a i Ha Hi), <- (Hinv j b Hj Hb),
          <- (Hinv a j Ha Hj), <- (Hinv i b Hi Hb).
  destruct (Nat.eqb_spec (nth a labs 0) (nth j labs 0));
  destruct (Nat.eqb_spec (nth b labs 0) (nth j labs 0)); lia.
Qed.

Lemma labels_inv n : forall edges done labs,
  (forall e, In e edges -> fst e < n /\ snd e < n) ->
  Inv n labs done -> Inv n (fold_left add_edge edges labs) (done ++ edges).
Proof.
  induction edges as [|[i j] edges IH]; intros done labs Hwf Hinv.
  - rewrite app_nil_r. exact Hinv.
  - cbn [fold_left]. replace (done ++ (i, j) :: edges) with ((done ++ [(i, j)]) ++ edges)
      by (rewrite <- app_assoc; reflexivity).
    apply IH.
    + intros e He. apply Hwf. right. exact He.
    + destruct (Hwf (i, j) (or_introl eq_refl)) as [Hi Hj]. apply inv_step; assumption.
Qed.

Lemma labels_spec n edges :
  (forall e, In e edges -> fst e < n /\ snd e < n) -> Inv n (labels n edges) edges.
Proof. intro H. apply (labels_inv n edges [] (seq 0 n) H (inv_init n)). Qed.

(* ---------- grouping by label ---------- *)
Lemma existsb_eqb_In x l : existsb (Nat.eqb x) l = true <-> In x l.
Proof.
  rewrite existsb_exists. split.
  - intros [y [Hy He]]. apply Nat.eqb_eq in He. subst. exact Hy.
  - intro H. exists x. split; [exact H|apply Nat.eqb_refl].
Qed.

Lemma first_occ_In l : forall seen x, In x (first_occ seen l) <-> In x l /\ ~ In x seen.
Proof.
  induction l as [|y l IH]; intros seen x; cbn [first_occ]; [cbn; tauto|].
  destruct (existsb (Nat.eqb y) seen) eqn:E.
  - apply existsb_eqb_In in E. rewrite IH. cbn. split; [tauto|].
    intros [[->|H] Hn]; [contradiction|tauto].
  - assert (Hny : ~ In y seen). { intro H. apply existsb_eqb_In in H. congruence. }
    cbn [In]. rewrite IH. cbn [In]. split.
    + intros [->|[H Hn]]; [tauto|]. split; [tauto|]. intro. apply Hn. right. assumption.
    + intros [[->|H] Hn]; [left; reflexivity|].
      destruct (Nat.eq_dec y x) as [->|Hne]; [left; reflexivity|right].
      split; [exact H|]. intros [?|?]; [congruence|contradiction].
Qed.

Lemma first_occ_NoDup l : forall seen, NoDup (first_occ seen l).
Proof.
  induction l as [|y l IH]; intro seen; cbn [first_occ]; [constructor|].
  destruct (existsb (Nat.eqb y) seen); [apply IH|].
  constructor; [|apply IH]. rewrite first_occ_In. cbn. tauto.
Qed.

Section Group.
Variable labs : list nat.
Let n := length labs.
Let f (i : nat) := nth i labs 0.
Let grp (l : nat) := filter (fun i => Nat.eqb (f i) l) (seq 0 n).

Lemma group_by_eq : group_by labs = map grp (first_occ [] labs).
Proof. reflexivity. Qed.

Lemma in_grp l i : In i (grp l) <-> i < n /\ f i = l.
Proof. unfold grp. rewrite filter_In, in_seq, Nat.eqb_eq. lia. Qed.

Lemma label_in_keys i : i < n -> In (f i) (first_occ [] labs).
Proof. intro H. apply first_occ_In. split; [apply nth_In; exact H|intros []]. Qed.

(* two indices share a group iff they carry the same label *)
Lemma same_group_iff a b :
  (exists g, In g (group_by labs) /\ In a g /\ In b g) <-> (a < n /\ b < n /\ f a = f b).
Proof.
  rewrite group_by_eq. split.
  - intros [g [Hg [Ha Hb]]]. apply in_map_iff in Hg. destruct Hg as [l [<- _]].
    apply in_grp in Ha. apply in_grp in Hb. lia.
  - intros [Ha [Hb Hf]]. exists (grp (f a)). split; [apply in_map, label_in_keys; exact Ha|].
    split; apply in_grp; auto.
Qed.

Lemma concat_groups_In i : In i (concat (group_by labs)) <-> i < n.
Proof.
  rewrite group_by_eq, in_concat. split.
  - intros [g [Hg Hi]]. apply in_map_iff in Hg. destruct Hg as [l [<- _]]. apply in_grp in Hi. tauto.
  - intro H. exists (grp (f i)). split; [apply in_map, label_in_keys; exact H|apply in_grp; auto].
Qed.

Lemma concat_groups_NoDup : NoDup (concat (group_by labs)).
Proof.
  rewrite group_by_eq. rewrite <- flat_map_concat_map. apply NoDup_flat_map_intro.
  - apply first_occ_NoDup.
  - intros l _. apply NoDup_filter, seq_NoDup.
  - intros x y b _ _ Hne Hx Hy. apply in_grp in Hx. apply in_grp in Hy. lia.
Qed.

(* the groups partition the input *)
Lemma groups_partition : Permutation (concat (group_by labs)) (seq 0 n).
Proof.
  apply NoDup_Permutation; [apply concat_groups_NoDup|apply seq_NoDup|].
  intro i. rewrite concat_groups_In, in_seq. lia.
Qed.

Lemma groups_nonempty g : In g (group_by labs) -> g <> [].
Proof.
  rewrite group_by_eq. intro Hg. apply in_map_iff in Hg. destruct Hg as [l [<- Hl]].
  apply first_occ_In in Hl. destruct Hl as [Hl _]. apply In_nth with (d := 0) in Hl.
  destruct Hl as [i [Hi Hf]]. intro Hnil.
  assert (Hin : In i (grp l)) by (apply in_grp; auto). rewrite Hnil in Hin. destruct Hin.
Qed.

(* input order is kept inside each group: a group is the input order filtered by a predicate *)
Lemma groups_keep_order g : In g (group_by labs) -> exists p, g = filter p (seq 0 n).
Proof.
  rewrite group_by_eq. intro Hg. apply in_map_iff in Hg. destruct Hg as [l [<- _]].
  eexists. reflexivity.
Qed.

End Group.

(* ---------- the property ---------- *)
Lemma edges_wf n rel e : In e (edges_of n rel) -> fst e < n /\ snd e < n.
Proof. destruct e as [i j]. rewrite in_edges_of. cbn. lia. Qed.

Lemma labels_length n rel : length (labels n (edges_of n rel)) = n.
Proof. apply (labels_spec n (edges_of n rel) (edges_wf n rel)). Qed.

(* chain of pairwise-similar distinct events, for a symmetric comparison function *)
Definition similar (n : nat) (rel : nat -> nat -> bool) (a b : nat) : Prop :=
  a < n /\ b < n /\ a <> b /\ rel a b = true.
Definition chain n rel := clos_refl_sym_trans nat (similar n rel).

Lemma conn_chain n rel a b :
  (forall x y, rel x y = rel y x) -> (conn (edges_of n rel) a b <-> chain n rel a b).
Proof.
  intro Hsym. split; intro H.
  - induction H as [x y H| |x y _ IH|x y z _ IH1 _ IH2].
    + apply rst_step. apply in_edges_of in H. destruct H as (H1 & H2 & H3).
      unfold similar. repeat split; try lia. exact H3.
    + apply rst_refl.
    + apply rst_sym. exact IH.
    + eapply rst_trans; eassumption.
  - induction H as [x y H| |x y _ IH|x y z _ IH1 _ IH2].
    + destruct H as (Hx & Hy & Hne & Hr).
      destruct (Nat.lt_ge_cases x y) as [Hlt|Hge].
      * apply rst_step. apply in_edges_of. auto.
      * apply rst_sym, rst_step. apply in_edges_of. rewrite Hsym in Hr. repeat split; [lia|lia|exact Hr].
    + apply rst_refl.
    + apply rst_sym. exact IH.
    + eapply rst_trans; eassumption.
Qed.

Theorem same_group_iff_connected n rel a b :
  (forall x y, rel x y = rel y x) -> a < n -> b < n ->
  ((exists g, In g (group_sound_events n rel) /\ In a g /\ In b g) <-> chain n rel a b).
Proof.
  intros Hsym Ha Hb. unfold group_sound_events. rewrite same_group_iff, labels_length.
  destruct (labels_spec n (edges_of n rel) (edges_wf n rel)) as [_ Hinv].
  rewrite <- (conn_chain n rel a b Hsym), <- (Hinv a b Ha Hb). tauto.
Qed.

Theorem partition n rel : Permutation (concat (group_sound_events n rel)) (seq 0 n).
Proof.
  unfold group_sound_events. pose proof (groups_partition (labels n (edges_of n rel))) as H.
  rewrite labels_length in H. exact H.
Qed.

Theorem nonempty_groups n rel g : In g (group_sound_events n rel) -> g <> [].
Proof. apply groups_nonempty. Qed.

Theorem order_kept n rel g : In g (group_sound_events n rel) -> exists p, g = filter p (seq 0 n).
Proof.
  intro H. apply groups_keep_order in H. rewrite labels_length in H. exact H.
Qed.

Theorem empty_input rel : group_sound_events 0 rel = [].
Proof. reflexivity. Qed.

Theorem pairs_calls_ok n : calls_okb n (pairs n) = true.
Proof.
  unfold calls_okb. apply forallb_forall. intros [i j] H. apply in_pairs in H. cbn [fst snd].
  destruct H as [H1 H2].
  assert (Nat.eqb i j = false) as -> by (apply Nat.eqb_neq; intro; subst; exact (Nat.lt_irrefl _ H1)).
  assert (Nat.ltb i n = true) as -> by (apply Nat.ltb_lt; eapply Nat.lt_trans; eassumption).
  assert (Nat.ltb j n = true) as -> by (apply Nat.ltb_lt; exact H2).
  reflexivity.
Qed.

Theorem calls_ok_spec n calls : calls_okb n calls = true <-> forall i j, In (i, j) calls -> i <> j /\ i < n /\ j < n.
Proof.
  unfold calls_okb. rewrite forallb_forall. split.
  - intros H i j Hin. specialize (H (i, j) Hin). cbn [fst snd] in H.
    apply andb_true_iff in H. destruct H as [H H3]. apply andb_true_iff in H. destruct H as [H1 H2].
    apply negb_true_iff in H1. apply Nat.eqb_neq in H1. apply Nat.ltb_lt in H2. apply Nat.ltb_lt in H3. tauto.
  - intros H [i j] Hin. destruct (H i j Hin) as [H1 [H2 H3]]. cbn [fst snd].
    apply Nat.eqb_neq in H1. apply Nat.ltb_lt in H2. apply Nat.ltb_lt in H3. rewrite H1, H2, H3. reflexivity.
Qed.
