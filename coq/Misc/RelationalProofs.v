From Coq Require Import QArith Lqa Lia.
From SE Require Import Base.Num Base.Res Base.NumProofs Misc.Relational.
Open Scope Q_scope.

Lemma mem_In x l : mem x l = true <-> In x l.
Proof.
  unfold mem. rewrite existsb_exists. split.
  - intros [y [Hy He]]. apply Nat.eqb_eq in He. subst. exact Hy.
  - intro H. exists x. split; [exact H|apply Nat.eqb_refl].
Qed.

Lemma mem_false x l : mem x l = false <-> ~ In x l.
Proof. rewrite <- mem_In. destruct (mem x l); split; congruence. Qed.

Lemma nodupb_NoDup l : nodupb l = true <-> NoDup l.
Proof.
  induction l as [|x l IH]; cbn [nodupb].
  - split; [constructor|reflexivity].
  - rewrite andb_true_iff, negb_true_iff, mem_false, IH. split.
    + intros [H1 H2]. constructor; assumption.
    + intro H. inversion H; subst. tauto.
Qed.

Lemma subsetb_incl a b : subsetb a b = true <-> incl a b.
Proof.
  unfold subsetb, incl. rewrite forallb_forall. split; intros H x Hx; specialize (H x Hx); apply mem_In; exact H.
Qed.

Lemma set_eqb_iff a b : set_eqb a b = true <-> (forall x, In x a <-> In x b).
Proof.
  unfold set_eqb. rewrite andb_true_iff, !subsetb_incl. unfold incl. split.
  - intros [H1 H2] x. split; auto.
  - intro H. split; intros x Hx; apply H; exact Hx.
Qed.

(* a clip evaluation exists iff: same clip; matches mention every annotated and every predicted
   sound event exactly once, and nothing else *)
Theorem clip_eval_iff ac pc anns preds ms :
  clip_eval_ok ac pc anns preds ms = true <->
  ac = pc /\ NoDup (targets ms) /\ NoDup (sources ms) /\
  (forall x, In x (targets ms) <-> In x anns) /\ (forall x, In x (sources ms) <-> In x preds).
Proof.
  unfold clip_eval_ok. rewrite !andb_true_iff, Nat.eqb_eq, !nodupb_NoDup, !set_eqb_iff. tauto.
Qed.

Corollary every_annotation_once ac pc anns preds ms a :
  clip_eval_ok ac pc anns preds ms = true -> In a anns -> count_occ Nat.eq_dec (targets ms) a = 1%nat.
Proof.
  intros H Ha. apply clip_eval_iff in H. destruct H as (_ & Hnd & _ & Ht & _).
  apply NoDup_count_occ' ; [exact Hnd|]. apply Ht. exact Ha.
Qed.

Corollary every_prediction_once ac pc anns preds ms p :
  clip_eval_ok ac pc anns preds ms = true -> In p preds -> count_occ Nat.eq_dec (sources ms) p = 1%nat.
Proof.
  intros H Hp. apply clip_eval_iff in H. destruct H as (_ & _ & Hnd & _ & Hs).
  apply NoDup_count_occ'; [exact Hnd|]. apply Hs. exact Hp.
Qed.

Corollary no_foreign_target ac pc anns preds ms t :
  clip_eval_ok ac pc anns preds ms = true -> In t (targets ms) -> In t anns.
Proof. intros H Ht. apply clip_eval_iff in H. destruct H as (_ & _ & _ & H & _). apply H. exact Ht. Qed.

Theorem match_ok_iff m : match_ok m = true <-> (fst m <> None \/ snd m <> None).
Proof.
  destruct m as [[s|] [t|]]; cbn; split; try (intros _; (left; discriminate) || (right; discriminate)); try reflexivity.
  - discriminate.
  - intros [H|H]; congruence.
Qed.

Theorem project_ok_iff task_clips ann_clips :
  project_ok task_clips ann_clips = true <-> (forall c, In c ann_clips -> In c task_clips).
Proof. unfold project_ok. rewrite subsetb_incl. reflexivity. Qed.

Theorem clip_ok_iff s e : clip_ok s e = true <-> s <= e.
Proof. unfold clip_ok. rewrite negb_true_iff. apply qltb_false. Qed.

Theorem unit_ok_iff x : unit_ok x = true <-> 0 <= x /\ x <= 1.
Proof. unfold unit_ok. rewrite andb_true_iff, !qleb_spec. reflexivity. Qed.

Theorem construct_iff ac pc anns preds ms affs mscores score :
  construct_clip_eval ac pc anns preds ms affs mscores score = true <->
  (forall m, In m ms -> fst m <> None \/ snd m <> None) /\
  (forall a, In a affs -> 0 <= a /\ a <= 1) /\
  (forall s v, In s mscores -> s = Some v -> 0 <= v /\ v <= 1) /\
  clip_eval_ok ac pc anns preds ms = true /\
  (forall v, score = Some v -> 0 <= v /\ v <= 1).
Proof.
  unfold construct_clip_eval. rewrite !andb_true_iff, !forallb_forall. split.
  - intros [[[[H1 H2] H3] H4] H5]. split; [|split; [|split; [|split]]].
    + intros m Hm. apply match_ok_iff. apply H1. exact Hm.
    + intros a Ha. apply unit_ok_iff. apply H2. exact Ha.
    + intros s v Hs ->. specialize (H3 _ Hs). apply unit_ok_iff. exact H3.
    + exact H4.
    + intros v ->. apply unit_ok_iff. exact H5.
  - intros (H1 & H2 & H3 & H4 & H5). repeat split.
    + intros m Hm. apply match_ok_iff, H1, Hm.
    + intros a Ha. apply unit_ok_iff, H2, Ha.
    + intros s Hs. destruct s as [v|]; [|reflexivity]. apply unit_ok_iff. apply (H3 (Some v) v Hs eq_refl).
    + exact H4.
    + destruct score as [v|]; [|reflexivity]. apply unit_ok_iff. apply H5. reflexivity.
Qed.
