(* Misc/GroupLoop.v — the grouping written as the Python loop (append each position to its label's list, labels in
   order of first insertion: group_by_loop) IS the declarative grouping (group_by: for each label in order of first
   occurrence, the positions carrying it).  For every list of labels. *)
From Coq Require Import List Arith Bool Lia.
From SE Require Import Misc.Components Misc.ComponentsProofs.
Import ListNotations.

Definition grp (labs : list nat) (l : nat) : list nat :=
  filter (fun i => Nat.eqb (nth i labs 0) l) (seq 0 (length labs)).
Definition loop_state (labs : list nat) : list (nat * list nat) :=
  fold_left (fun gs p => insert_group (snd p) (fst p) gs) (combine (seq 0 (length labs)) labs) [].

Lemma eqb_mem_transfer x y seen : Nat.eqb x y = true -> existsb (Nat.eqb y) seen = existsb (Nat.eqb x) seen.
Proof. intro H. apply Nat.eqb_eq in H. subst. reflexivity. Qed.

Lemma first_occ_snoc l : forall seen x,
  first_occ seen (l ++ [x]) =
  first_occ seen l ++ (if existsb (Nat.eqb x) seen || existsb (Nat.eqb x) l then [] else [x]).
Proof.
  induction l as [|y l IH]; intros seen x.
  - cbn [app first_occ existsb]. rewrite orb_false_r. destruct (existsb (Nat.eqb x) seen); reflexivity.
  - cbn [app first_occ existsb]. destruct (existsb (Nat.eqb y) seen) eqn:Ey.
    + rewrite IH. f_equal. destruct (Nat.eqb x y) eqn:Exy.
      * rewrite <- (eqb_mem_transfer x y seen Exy), Ey. reflexivity.
      * reflexivity.
    + rewrite IH. cbn [existsb app]. f_equal.
      destruct (Nat.eqb x y), (existsb (Nat.eqb x) seen), (existsb (Nat.eqb x) l); reflexivity.
Qed.

Lemma combine_snoc {A B} (a : list A) : forall (b : list B) u v, length a = length b ->
  combine (a ++ [u]) (b ++ [v]) = combine a b ++ [(u, v)].
Proof.
  induction a as [|x a IH]; intros [|y b] u v H; try discriminate H; [reflexivity|].
  cbn [app combine]. f_equal. apply IH. injection H as H. exact H.
Qed.

Lemma loop_state_snoc labs x : loop_state (labs ++ [x]) = insert_group x (length labs) (loop_state labs).
Proof.
  unfold loop_state. rewrite app_length. cbn [length]. rewrite Nat.add_1_r, seq_S. cbn [plus].
  rewrite combine_snoc by (rewrite seq_length; reflexivity). rewrite fold_left_app. reflexivity.
Qed.

Lemma filter_none {A} (f : A -> bool) l : (forall a, In a l -> f a = false) -> filter f l = [].
Proof.
  induction l as [|a l IH]; intro H; [reflexivity|]. cbn [filter]. rewrite (H a (or_introl eq_refl)).
  apply IH. intros b Hb. apply H. right. exact Hb.
Qed.

Lemma grp_snoc labs x l : grp (labs ++ [x]) l = grp labs l ++ (if Nat.eqb x l then [length labs] else []).
Proof.
  unfold grp. rewrite app_length. cbn [length]. rewrite Nat.add_1_r, seq_S. cbn [plus]. rewrite filter_app. f_equal.
  - apply filter_ext_in. intros i Hi. apply in_seq in Hi. rewrite app_nth1 by lia. reflexivity.
  - cbn [filter]. rewrite app_nth2 by lia. rewrite Nat.sub_diag. cbn [nth]. reflexivity.
Qed.

Lemma grp_absent labs x : existsb (Nat.eqb x) labs = false -> grp labs x = [].
Proof.
  intro H. unfold grp. apply filter_none. intros i Hi. apply in_seq in Hi.
  apply Nat.eqb_neq. intro Heq.
  assert (Hin : In x labs) by (rewrite <- Heq; apply nth_In; lia).
  apply existsb_eqb_In in Hin. congruence.
Qed.

(* insertion into a key list without duplicates *)
Lemma insert_present (F : nat -> list nat) x k : forall keys, NoDup keys -> In x keys ->
  insert_group x k (map (fun l => (l, F l)) keys) =
  map (fun l => (l, F l ++ (if Nat.eqb x l then [k] else []))) keys.
Proof.
  induction keys as [|y keys IH]; intros Hnd Hin; [destruct Hin|].
  cbn [map insert_group]. inversion Hnd as [|y' ks Hny Hnd']; subst.
  destruct (Nat.eqb x y) eqn:Exy.
  - apply Nat.eqb_eq in Exy. subst y. f_equal.
    apply map_ext_in. intros l Hl. assert (Nat.eqb x l = false) as -> by (apply Nat.eqb_neq; intro; subst; contradiction).
    rewrite app_nil_r. reflexivity.
  - rewrite app_nil_r. f_equal. apply IH; [exact Hnd'|]. destruct Hin as [Hin|Hin]; [|exact Hin].
    subst. rewrite Nat.eqb_refl in Exy. discriminate.
Qed.

Lemma insert_absent (F : nat -> list nat) x k : forall keys, ~ In x keys ->
  insert_group x k (map (fun l => (l, F l)) keys) =
  map (fun l => (l, F l ++ (if Nat.eqb x l then [k] else []))) keys ++ [(x, [k])].
Proof.
  induction keys as [|y keys IH]; intro Hn; [reflexivity|].
  cbn [map insert_group app]. assert (Nat.eqb x y = false) as -> by (apply Nat.eqb_neq; intro; subst; apply Hn; left; reflexivity).
  rewrite app_nil_r. f_equal. apply IH. intro H. apply Hn. right. exact H.
Qed.

Theorem loop_state_spec labs : loop_state labs = map (fun l => (l, grp labs l)) (first_occ [] labs).
Proof.
  induction labs as [|x labs IH] using rev_ind; [reflexivity|].
  rewrite loop_state_snoc, IH, first_occ_snoc. cbn [existsb orb].
  destruct (existsb (Nat.eqb x) labs) eqn:Ex.
  - rewrite app_nil_r. rewrite insert_present.
    + apply map_ext. intro l. rewrite grp_snoc. reflexivity.
    + apply first_occ_NoDup.
    + apply first_occ_In. split; [apply existsb_eqb_In; exact Ex|intros []].
  - rewrite insert_absent.
    + rewrite map_app. cbn [map]. f_equal.
      * apply map_ext. intro l. rewrite grp_snoc. reflexivity.
      * rewrite grp_snoc, (grp_absent labs x Ex), Nat.eqb_refl. reflexivity.
    + intro H. apply first_occ_In in H. destruct H as [H _]. apply existsb_eqb_In in H. congruence.
Qed.

Theorem group_by_loop_eq labs : group_by_loop labs = group_by labs.
Proof.
  unfold group_by_loop, group_by. fold (loop_state labs). rewrite loop_state_spec, map_map. reflexivity.
Qed.
