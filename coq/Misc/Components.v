(* Misc/Components.v — model of soundevent.geometry.operations.group_sound_events.
   n sound events; the comparison function is a boolean relation that the code queries on
   `combinations(enumerate(events), 2)`; scipy's connected_components is replaced by a
   label-merging pass over the similar pairs; grouping by label follows the defaultdict. *)
From Coq Require Export List Arith Bool.
Export ListNotations.

(* itertools.combinations(range(n), 2): all i<j in lexicographic order *)
Definition pairs (n : nat) : list (nat * nat) :=
  flat_map (fun i => map (pair i) (seq (S i) (n - S i))) (seq 0 n).

Definition edges_of (n : nat) (rel : nat -> nat -> bool) : list (nat * nat) :=
  filter (fun p => rel (fst p) (snd p)) (pairs n).

(* connected components as a labelling: merge the labels of the two endpoints of each edge *)
Definition relabel (li lj : nat) (labs : list nat) : list nat :=
  map (fun l => if Nat.eqb l lj then li else l) labs.

Definition add_edge (labs : list nat) (e : nat * nat) : list nat :=
  relabel (nth (fst e) labs 0) (nth (snd e) labs 0) labs.

Definition labels (n : nat) (edges : list (nat * nat)) : list nat :=
  fold_left add_edge edges (seq 0 n).

(* distinct labels in order of first occurrence (insertion order of the defaultdict) *)
Fixpoint first_occ (seen : list nat) (l : list nat) : list nat :=
  match l with
  | [] => []
  | x :: r => if existsb (Nat.eqb x) seen then first_occ seen r else x :: first_occ (x :: seen) r
  end.

Definition group_by (labs : list nat) : list (list nat) :=
  map (fun l => filter (fun i => Nat.eqb (nth i labs 0) l) (seq 0 (length labs))) (first_occ [] labs).

(* the same grouping written as the Python loop: append each index to its label's list *)
Fixpoint insert_group (l i : nat) (gs : list (nat * list nat)) : list (nat * list nat) :=
  match gs with
  | [] => [(l, [i])]
  | (l', m) :: r => if Nat.eqb l l' then (l', m ++ [i]) :: r else (l', m) :: insert_group l i r
  end.
Definition group_by_loop (labs : list nat) : list (list nat) :=
  map snd (fold_left (fun gs p => insert_group (snd p) (fst p) gs) (combine (seq 0 (length labs)) labs) []).

Definition group_sound_events (n : nat) (rel : nat -> nat -> bool) : list (list nat) :=
  group_by (labels n (edges_of n rel)).

(* relation given as the list of similar pairs (i<j) *)
Definition rel_of (sim : list (nat * nat)) (i j : nat) : bool :=
  existsb (fun p => Nat.eqb (fst p) i && Nat.eqb (snd p) j) sim.

Fixpoint nats_eqb (a b : list nat) : bool :=
  match a, b with
  | [], [] => true
  | x :: a', y :: b' => Nat.eqb x y && nats_eqb a' b'
  | _, _ => false
  end.
Fixpoint groups_eqb (a b : list (list nat)) : bool :=
  match a, b with
  | [], [] => true
  | x :: a', y :: b' => nats_eqb x y && groups_eqb a' b'
  | _, _ => false
  end.
Fixpoint pairs_eqb (a b : list (nat * nat)) : bool :=
  match a, b with
  | [], [] => true
  | x :: a', y :: b' => Nat.eqb (fst x) (fst y) && Nat.eqb (snd x) (snd y) && pairs_eqb a' b'
  | _, _ => false
  end.

(* what the property says about the comparison function: it is only ever called on pairs of distinct input events
   (the code at this commit calls it on every pair of `pairs n`, once; a version that skips pairs whose answer cannot
   matter would still satisfy the property) *)
Definition calls_okb (n : nat) (calls : list (nat * nat)) : bool :=
  forallb (fun p => negb (Nat.eqb (fst p) (snd p)) && Nat.ltb (fst p) n && Nat.ltb (snd p) n) calls.
