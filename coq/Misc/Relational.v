(* Misc/Relational.v — the relational validators of soundevent.data: ClipEvaluation
   (_check_clips_match, _check_matches), Match (_validate_match), AnnotationProject
   (_annotations_are_part_of_the_project), Clip (_validate_times) and the [0,1] field bounds. *)
From SE Require Export Base.Num Base.Res.
Open Scope Q_scope.

Definition mem (x : nat) (l : list nat) : bool := existsb (Nat.eqb x) l.
Fixpoint nodupb (l : list nat) : bool :=
  match l with [] => true | x :: r => negb (mem x r) && nodupb r end.
Definition subsetb (a b : list nat) : bool := forallb (fun x => mem x b) a.
Definition set_eqb (a b : list nat) : bool := subsetb a b && subsetb b a.

Fixpoint opt_list (l : list (option nat)) : list nat :=
  match l with [] => [] | Some x :: r => x :: opt_list r | None :: r => opt_list r end.

(* a match: (source = predicted sound event, target = annotated sound event) *)
Definition amatch := (option nat * option nat)%type.
Definition sources (ms : list amatch) : list nat := opt_list (map fst ms).
Definition targets (ms : list amatch) : list nat := opt_list (map snd ms).

Definition match_ok (m : amatch) : bool :=
  match m with (None, None) => false | _ => true end.

(* ac / pc: clip of the annotations / predictions; anns / preds: their sound events *)
Definition clip_eval_ok (ac pc : nat) (anns preds : list nat) (ms : list amatch) : bool :=
  Nat.eqb ac pc
  && nodupb (targets ms) && nodupb (sources ms)
  && set_eqb (targets ms) anns && set_eqb (sources ms) preds.

Definition unit_ok (x : Q) : bool := qleb 0 x && qleb x 1.
Definition opt_unit_ok (x : option Q) : bool := match x with None => true | Some v => unit_ok v end.

(* construction of a ClipEvaluation from its parts: every match must exist first *)
Definition construct_clip_eval (ac pc : nat) (anns preds : list nat) (ms : list amatch)
           (affinities : list Q) (mscores : list (option Q)) (score : option Q) : bool :=
  forallb match_ok ms && forallb unit_ok affinities && forallb opt_unit_ok mscores
  && clip_eval_ok ac pc anns preds ms && opt_unit_ok score.

Definition project_ok (task_clips ann_clips : list nat) : bool := subsetb ann_clips task_clips.
Definition clip_ok (s e : Q) : bool := negb (qltb e s).
