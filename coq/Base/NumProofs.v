(* Base/NumProofs.v — characterising lemmas for the helpers of Num.v. *)
From Coq Require Import QArith Lqa Lia Qround Qminmax.
From SE Require Import Base.Num.
Open Scope Q_scope.

Lemma qleb_spec a b : qleb a b = true <-> a <= b.
Proof. unfold qleb. apply Qle_bool_iff. Qed.

Lemma qleb_false a b : qleb a b = false <-> b < a.
Proof.
  unfold qleb. split; intro H.
  - apply Qnot_le_lt. intro H1. apply Qle_bool_iff in H1. congruence.
  - destruct (Qle_bool a b) eqn:E; [|reflexivity].
    apply Qle_bool_iff in E. exfalso. lra.
Qed.

Lemma qltb_spec a b : qltb a b = true <-> a < b.
Proof.
  unfold qltb. rewrite Bool.negb_true_iff. apply (qleb_false b a).
Qed.

Lemma qltb_false a b : qltb a b = false <-> b <= a.
Proof.
  unfold qltb. rewrite Bool.negb_false_iff. apply (qleb_spec b a).
Qed.

Lemma qeqb_spec a b : qeqb a b = true <-> a == b.
Proof. unfold qeqb. apply Qeq_bool_iff. Qed.

Lemma pymax_spec a b : (a <= b -> pymax a b == b) /\ (b <= a -> pymax a b == a).
Proof.
  unfold pymax. destruct (qltb a b) eqn:E.
  - apply qltb_spec in E. split; intro; lra.
  - apply qltb_false in E. split; intro; lra.
Qed.

Lemma pymin_spec a b : (a <= b -> pymin a b == a) /\ (b <= a -> pymin a b == b).
Proof.
  unfold pymin. destruct (qltb b a) eqn:E.
  - apply qltb_spec in E. split; intro; lra.
  - apply qltb_false in E. split; intro; lra.
Qed.

Lemma pymax_ub a b : a <= pymax a b /\ b <= pymax a b.
Proof.
  unfold pymax. destruct (qltb a b) eqn:E.
  - apply qltb_spec in E. lra.
  - apply qltb_false in E. lra.
Qed.

Lemma pymin_lb a b : pymin a b <= a /\ pymin a b <= b.
Proof.
  unfold pymin. destruct (qltb b a) eqn:E.
  - apply qltb_spec in E. lra.
  - apply qltb_false in E. lra.
Qed.

Lemma pymax_cases a b : (pymax a b = a /\ b <= a) \/ (pymax a b = b /\ a < b).
Proof.
  unfold pymax. destruct (qltb a b) eqn:E.
  - right. apply qltb_spec in E. auto.
  - left. apply qltb_false in E. auto.
Qed.

Lemma pymin_cases a b : (pymin a b = a /\ a <= b) \/ (pymin a b = b /\ b < a).
Proof.
  unfold pymin. destruct (qltb b a) eqn:E.
  - right. apply qltb_spec in E. auto.
  - left. apply qltb_false in E. auto.
Qed.

Lemma pymax_Qmax a b : pymax a b == Qmax a b.
Proof.
  destruct (pymax_cases a b) as [[-> H]|[-> H]].
  - symmetry. apply Q.max_l. exact H.
  - symmetry. apply Q.max_r. lra.
Qed.

Lemma pymin_Qmin a b : pymin a b == Qmin a b.
Proof.
  destruct (pymin_cases a b) as [[-> H]|[-> H]].
  - symmetry. apply Q.min_l. exact H.
  - symmetry. apply Q.min_r. lra.
Qed.

Lemma qabs_nonneg a : 0 <= qabs a.
Proof.
  unfold qabs. destruct (qltb a 0) eqn:E.
  - apply qltb_spec in E. lra.
  - apply qltb_false in E. lra.
Qed.

Lemma idx_S i : idx (S i) == idx i + 1.
Proof. unfold idx. rewrite Nat2Z.inj_succ. unfold Z.succ. rewrite inject_Z_plus. reflexivity. Qed.

Lemma idx_add i k : idx (i + k) == idx i + idx k.
Proof. unfold idx. rewrite Nat2Z.inj_add, inject_Z_plus. reflexivity. Qed.

Lemma idx_nonneg i : 0 <= idx i.
Proof. unfold idx. change 0 with (inject_Z 0). rewrite <- Zle_Qle. lia. Qed.

Lemma idx_le i j : (i <= j)%nat -> idx i <= idx j.
Proof. intro H. unfold idx. rewrite <- Zle_Qle. lia. Qed.

Lemma idx_lt i j : (i < j)%nat -> idx i + 1 <= idx j.
Proof. intro H. rewrite <- idx_S. apply idx_le. lia. Qed.

