(* Base/Num.v — rational-number helpers used by every model.
   Python floats are modelled by Q (see DESIGN.md section 2); Python's
   comparison operators and max/min are the boolean functions below. *)
From Coq Require Export QArith ZArith List Bool.
From Coq Require Import Qround.
Export ListNotations.
Open Scope Q_scope.

Definition qleb (a b : Q) : bool := Qle_bool a b.          (* a <= b *)
Definition qltb (a b : Q) : bool := negb (Qle_bool b a).   (* a <  b *)
Definition qeqb (a b : Q) : bool := Qeq_bool a b.          (* a == b *)

(* Python: max(a, b) returns a unless b > a; min(a, b) returns a unless b < a. *)
Definition pymax (a b : Q) : Q := if qltb a b then b else a.
Definition pymin (a b : Q) : Q := if qltb b a then b else a.

Definition qabs (a : Q) : Q := if qltb a 0 then - a else a.

(* math.floor / np.floor / int() on non-negative values *)
Definition qfloor (a : Q) : Z := Qfloor a.
Definition qceil (a : Q) : Z := Qceiling a.

Definition MAXF : Q := 5000000.

(* a natural-number index as a rational *)
Definition idx (i : nat) : Q := inject_Z (Z.of_nat i).

(* fold-based min / max over a non-empty list given by head and tail *)
Definition qmin_list (x : Q) (l : list Q) : Q := fold_left pymin l x.
Definition qmax_list (x : Q) (l : list Q) : Q := fold_left pymax l x.

Definition qsum (l : list Q) : Q := fold_right Qplus 0 l.

Definition qlist_eqb (a b : list Q) : bool :=
  (Nat.eqb (length a) (length b)) && forallb (fun p => qeqb (fst p) (snd p)) (combine a b).

(* approximate comparison for decimal (non-dyadic) streams: relative to max(1, |a|, |b|) *)
Definition qclose (tol a b : Q) : bool :=
  qleb (qabs (a - b)) (tol * pymax 1 (pymax (qabs a) (qabs b))).
Definition qlist_close (tol : Q) (a b : list Q) : bool :=
  Nat.eqb (length a) (length b) && forallb (fun p => qclose tol (fst p) (snd p)) (combine a b).

(* index of the cases that failed, used by every generated cases file *)
Fixpoint find_bad (i : nat) (l : list bool) : list nat :=
  match l with
  | [] => []
  | b :: r => if b then find_bad (S i) r else i :: find_bad (S i) r
  end.
