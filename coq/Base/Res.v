(* Base/Res.v — result type: Python exceptions are mapped to a small enum. *)
From Coq Require Import Bool.
Inductive errclass := EValue | EValidation | EKey | ENotImpl | EType | EOther.

Definition errclass_eqb (a b : errclass) : bool :=
  match a, b with
  | EValue, EValue | EValidation, EValidation | EKey, EKey
  | ENotImpl, ENotImpl | EType, EType | EOther, EOther => true
  | _, _ => false
  end.

Inductive res (A : Type) := Ok (a : A) | Err (e : errclass).
Arguments Ok {A} a.
Arguments Err {A} e.

Definition res_eqb {A} (eqb : A -> A -> bool) (x y : res A) : bool :=
  match x, y with
  | Ok a, Ok b => eqb a b
  | Err e, Err f => errclass_eqb e f
  | _, _ => false
  end.

Definition bind {A B} (x : res A) (f : A -> res B) : res B :=
  match x with Ok a => f a | Err e => Err e end.

Definition is_ok {A} (x : res A) : bool := match x with Ok _ => true | Err _ => false end.
