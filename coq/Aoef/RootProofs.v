(* Aoef/RootProofs.v — the document written for a collection: what the final store looks like, and the C02 facts. *)
From Coq Require Import ZArith List Bool Arith Lia.
From SE Require Import Aoef.Model Aoef.Typing Aoef.SaveProofs.
Import ListNotations.

(* ------------------------------------------------------------------ sub-node list = sub relation *)
Lemma in_subs m n : In m (subs n) <-> sub m n.
Proof.
  revert m. induction n as [c k s kids IH] using node_ind'. intros m. cbn [subs]. split.
  - intros [<-|Hin]; [apply sub_refl|].
    apply in_flat_map in Hin. destruct Hin as [ns [Hns Hin]]. apply in_flat_map in Hin. destruct Hin as [n' [Hn' Hin]].
    rewrite Forall_forall in IH. specialize (IH ns Hns). rewrite Forall_forall in IH.
    eapply sub_kid; eauto. now apply IH.
  - intros Hs. inversion Hs as [|? ? ? ? ? ns n' Hns Hn' Hm]; subst; [now left|right].
    apply in_flat_map. exists ns. split; [exact Hns|]. apply in_flat_map. exists n'. split; [exact Hn'|].
    rewrite Forall_forall in IH. specialize (IH ns Hns). rewrite Forall_forall in IH. now apply IH.
Qed.

Lemma memc_in c l : memc c l = true <-> In c l.
Proof.
  unfold memc. rewrite existsb_exists. split.
  - intros [x [Hx E]]. apply Nat.eqb_eq in E. now subst.
  - intros H. exists c. split; [exact H|apply Nat.eqb_refl].
Qed.

(* ------------------------------------------------------------------ boolean equalities are equalities *)
Lemma list_eqb_eq {A} (e : A -> A -> bool) (a : list A) :
  (forall x, In x a -> forall y, e x y = true -> x = y) -> forall b, list_eqb e a b = true -> a = b.
Proof.
  induction a as [|x a IH]; intros He [|y b]; cbn; try discriminate; [reflexivity|].
  intros H. apply andb_true_iff in H. destruct H as [H1 H2]. f_equal.
  - apply He; [now left|exact H1].
  - apply IH; [|exact H2]. intros z Hz. apply He. now right.
Qed.

Lemma node_eqb_eq a : forall b, node_eqb a b = true -> a = b.
Proof.
  induction a as [c k s kids IH] using node_ind'. intros [c' k' s' kids']. cbn [node_eqb].
  rewrite !andb_true_iff. intros [[[Hc Hk] Hs] Hkids].
  apply Nat.eqb_eq in Hc. apply Z.eqb_eq in Hk. subst. f_equal.
  - apply (list_eqb_eq Z.eqb); [|exact Hs]. intros x _ y E. now apply Z.eqb_eq.
  - clear Hs. revert kids' Hkids. induction kids as [|ns r IHr]; intros [|ms r']; try discriminate; [reflexivity|].
    intros H. apply andb_true_iff in H. destruct H as [H1 H2]. inversion IH as [|? ? Hns Hr]; subst. f_equal.
    + clear H2 IHr Hr IH. revert ms H1. induction ns as [|n ns' IHn]; intros [|m ms']; try discriminate; [reflexivity|].
      intros H. apply andb_true_iff in H. destruct H as [H1 H2]. inversion Hns as [|? ? Hn Hns']; subst. f_equal.
      * now apply Hn.
      * apply IHn; assumption.
    + apply IHr; assumption.
Qed.

Lemma consistentb_sound U : consistentb U = true -> consistent U.
Proof.
  unfold consistentb. rewrite forallb_forall. intros H a b Ha Hb E.
  apply in_subs in Ha. apply in_subs in Hb. specialize (H a Ha). rewrite forallb_forall in H. specialize (H b Hb).
  unfold ref_eqb in H. rewrite E, Nat.eqb_refl, Z.eqb_refl in H. cbn in H. now apply node_eqb_eq.
Qed.

(* ------------------------------------------------------------------ typing facts *)
Lemma kids_okb_cls ks : forall cs cds, kids_okb ks cs cds = true ->
  forall ns n', In ns ks -> In n' ns -> In (ncls n') cs.
Proof.
  induction ks as [|a r IH]; intros cs cds H ns n' Hns Hn'; [destruct Hns|].
  destruct cs as [|kc cs']; [discriminate|]. destruct cds as [|cd cds']; [discriminate|].
  cbn [kids_okb] in H. rewrite !andb_true_iff in H. destruct H as [[_ Hc] Hr].
  destruct Hns as [->|Hns].
  - rewrite forallb_forall in Hc. apply Hc in Hn'. apply Nat.eqb_eq in Hn'. left. now symmetry.
  - right. eapply IH; eauto.
Qed.

Lemma kids_okb_nth ks : forall cs cds, kids_okb ks cs cds = true ->
  forall i ns n', nth_error ks i = Some ns -> In n' ns -> nth_error cs i = Some (ncls n').
Proof.
  induction ks as [|a r IH]; intros cs cds H i ns n' Hi Hn'; [destruct i; discriminate|].
  destruct cs as [|kc cs']; [discriminate|]. destruct cds as [|cd cds']; [discriminate|].
  cbn [kids_okb] in H. rewrite !andb_true_iff in H. destruct H as [[_ Hc] Hr].
  destruct i as [|i]; cbn in *.
  - inversion Hi; subst. rewrite forallb_forall in Hc. apply Hc in Hn'. apply Nat.eqb_eq in Hn'. now rewrite Hn'.
  - eapply IH; eauto.
Qed.

Lemma kids_okb_length ks : forall cs cds, kids_okb ks cs cds = true -> length ks = length cs.
Proof.
  induction ks as [|a r IH]; intros [|kc cs'] [|cd cds'] H; try discriminate; [reflexivity|].
  cbn [kids_okb] in H. rewrite !andb_true_iff in H. destruct H as [_ Hr]. cbn. f_equal. eapply IH; eauto.
Qed.

Definition typed (sch : schema) (U : node) : Prop := forall m, sub m U -> local_typedb sch m = true.

Lemma typedb_sound sch U : typedb sch U = true -> typed sch U.
Proof. unfold typedb. rewrite forallb_forall. intros H m Hm. apply H. now apply in_subs. Qed.

Lemma typed_sub sch U m : typed sch U -> sub m U -> typed sch m.
Proof. intros H Hm x Hx. apply H. eapply sub_trans; eauto. Qed.

Lemma typed_kid_cls sch c k s kids ns n' :
  typed sch (Node c k s kids) -> In ns kids -> In n' ns -> In (ncls n') (kidcls sch c).
Proof. intros H Hns Hn'. specialize (H _ (sub_refl _)). unfold local_typedb in H. cbn in H. eapply kids_okb_cls; eauto. Qed.

(* a closed set of classes that contains a typed node's class contains the class of every sub-node *)
Lemma closed_set_sub sch (R : list cls) n :
  (forall c, In c R -> forall kc, In kc (kidcls sch c) -> In kc R) -> typed sch n -> In (ncls n) R ->
  forall m, sub m n -> In (ncls m) R.
Proof.
  intros HR. induction n as [c k s kids IH] using node_ind'. intros Hty Hc m Hm.
  inversion Hm as [|? ? ? ? ? ns n' Hns Hn' Hm']; subst; [exact Hc|].
  rewrite Forall_forall in IH. specialize (IH ns Hns). rewrite Forall_forall in IH.
  apply (IH n' Hn'); [eapply typed_sub; eauto; eapply sub_kid1; eauto| |exact Hm'].
  apply (HR c Hc). eapply typed_kid_cls; eauto.
Qed.

Lemma closed_setb_prop sch R : closed_setb sch R = true -> forall c, In c R -> forall kc, In kc (kidcls sch c) -> In kc R.
Proof.
  unfold closed_setb. rewrite forallb_forall. intros H c Hc kc Hkc. specialize (H c Hc). rewrite forallb_forall in H.
  apply memc_in. now apply H.
Qed.

Opaque reach.

Section Root.
  Variable sch : schema.

  (* ---------------------------------------------------------------- a conversion leaves other classes alone *)
  Lemma save_untouched c n : forall st, (forall m, sub m n -> ncls m <> c) -> save_node sch n st c = st c.
  Proof.
    induction n as [c0 k s kids IH] using node_ind'. intros st Hne. rewrite save_node_eq.
    destruct (memk k (st c0)); [reflexivity|]. unfold ins. rewrite upd_other.
    - unfold save_kids.
      apply (fold_rel (fun a b => b c = a c)); [reflexivity|intros; congruence|].
      intros ns st' Hns. unfold save_list. apply (fold_rel (fun a b => b c = a c)); [reflexivity|intros; congruence|].
      intros n' st'' Hn'. rewrite Forall_forall in IH. specialize (IH ns Hns). rewrite Forall_forall in IH.
      apply IH; [exact Hn'|]. intros m Hm. apply Hne. eapply sub_kid; eauto.
    - intros E. apply (Hne _ (sub_refl _)). cbn. now symmetry.
  Qed.

  Lemma save_list_untouched c ns st : (forall n m, In n ns -> sub m n -> ncls m <> c) -> save_list sch ns st c = st c.
  Proof.
    intros Hne. unfold save_list. apply (fold_rel (fun a b => b c = a c)); [reflexivity|intros; congruence|].
    intros n st' Hn. apply save_untouched. intros m Hm. eapply Hne; eauto.
  Qed.

  (* ---------------------------------------------------------------- the store after all conversions *)
  Definition conv_store (is : list nat) (kids : list (list node)) (st : store) : store :=
    fold_left (fun st i => save_list sch (nth i kids []) st) is st.

  Variable rt : root_desc.
  Variable U : node.
  Hypothesis Hcls : ncls U = rcls rt.
  Hypothesis Hty : typed sch U.

  Lemma root_kid_sub i n : In n (nth i (nkids U) []) -> sub n U /\ n <> U.
  Proof.
    intros Hn. destruct U as [c k s kids]. cbn in Hn.
    assert (Hns : In (nth i kids []) kids).
    { destruct (Nat.lt_ge_cases i (length kids)) as [Hlt|Hge]; [now apply nth_In|].
      rewrite nth_overflow in Hn by assumption. destruct Hn. }
    split; [eapply sub_kid1; eauto|].
    intros ->. pose proof (sub_kid_size _ c k s kids _ _ Hns Hn (sub_refl _)). lia.
  Qed.

  Lemma root_kid_cls i n : In n (nth i (nkids U) []) -> nth_error (kidcls sch (rcls rt)) i = Some (ncls n).
  Proof.
    intros Hn. pose proof (Hty _ (sub_refl _)) as H. unfold local_typedb in H. rewrite Hcls in H.
    eapply kids_okb_nth; eauto.
    destruct (nth_error (nkids U) i) as [ns|] eqn:E.
    - now rewrite (nth_error_nth _ _ _ E) in Hn |- *.
    - apply nth_error_None in E. rewrite nth_overflow in Hn by assumption. destruct Hn.
  Qed.

  Lemma conv_untouched c is : forallb (fun i => untouchedb sch (rcls rt) i c) is = true ->
    forall st, conv_store is (nkids U) st c = st c.
  Proof.
    unfold conv_store. induction is as [|i r IH]; cbn [fold_left forallb]; intros H st; [reflexivity|].
    apply andb_true_iff in H. destruct H as [Hi Hr]. rewrite IH by exact Hr.
    apply save_list_untouched. intros n m Hn Hm Hc.
    unfold untouchedb in Hi. rewrite (root_kid_cls i n Hn) in Hi. cbn zeta in Hi.
    rewrite !andb_true_iff in Hi. destruct Hi as [[HR Hin] Hout].
    apply negb_true_iff in Hout. assert (In (ncls m) (reach sch (ncls n))) as Hmem.
    { eapply closed_set_sub; [apply closed_setb_prop; exact HR| | |exact Hm].
      - eapply typed_sub; eauto. apply (root_kid_sub i n Hn).
      - exact (proj1 (memc_in (ncls n) (reach sch (ncls n))) Hin). }
    rewrite Hc in Hmem. apply memc_in in Hmem. rewrite Hmem in Hout. discriminate Hout.
  Qed.

  Lemma conv_idx_cons_conv i r : conv_idx (Conv i :: r) = i :: conv_idx r.
  Proof. reflexivity. Qed.

  Lemma run_steps_spec ss : steps_okb sch (rcls rt) ss = true -> forall st d,
    run_steps sch ss (nkids U) st d =
    (conv_store (conv_idx ss) (nkids U) st,
     d ++ map (fun c => (c, conv_store (conv_idx ss) (nkids U) st c)) (snap_cls ss)).
  Proof.
    induction ss as [|[i|c] r IH]; cbn [steps_okb run_steps]; intros H st d.
    - cbn. now rewrite app_nil_r.
    - rewrite IH by exact H. reflexivity.
    - apply andb_true_iff in H. destruct H as [Hu Hr]. rewrite IH by exact Hr.
      change (conv_idx (Snap c :: r)) with (conv_idx r). change (snap_cls (Snap c :: r)) with (c :: snap_cls r).
      cbn [map]. rewrite <- app_assoc. cbn [app]. pose proof (conv_untouched c (conv_idx r) Hu st) as E. rewrite E. reflexivity.
  Qed.

  Definition final : store := conv_store (conv_idx (steps rt)) (nkids U) empty_store.

  Lemma save_root_eq : steps_okb sch (rcls rt) (steps rt) = true ->
    save_root sch rt U = (map (fun c => (c, final c)) (snap_cls (steps rt)), flat_of sch U).
  Proof. intros H. unfold save_root. rewrite run_steps_spec by exact H. reflexivity. Qed.

  (* invariants of the final store: induction over the conversions *)
  Lemma conv_inv (P : store -> Prop) is :
    (forall i st, P st -> P (save_list sch (nth i (nkids U) []) st)) -> forall st, P st -> P (conv_store is (nkids U) st).
  Proof. intros Hs. unfold conv_store. apply fold_inv. intros i st _. apply Hs. Qed.

  Lemma final_uniq : uniq final.
  Proof. unfold final. apply conv_inv; [|apply uniq_empty]. intros; now apply save_list_uniq. Qed.

  Lemma final_closed : closed final.
  Proof. unfold final. apply conv_inv; [|apply closed_empty]. intros; now apply save_list_closed. Qed.

  Lemma final_good : good sch U final.
  Proof. unfold final. apply conv_inv; [|apply good_empty]. intros i st Hg. apply save_list_good; [|exact Hg]. intros n Hn. eapply root_kid_sub; eauto. Qed.

  Lemma final_ordered : consistent U -> ordered final.
  Proof.
    intros HU. unfold final. apply conv_inv; [|apply ordered_empty]. intros i st Ho.
    eapply save_list_ordered; eauto. intros n Hn. eapply root_kid_sub; eauto.
  Qed.

  (* exactly the proper sub-nodes are registered *)
  Lemma final_only r : pres final r -> exists m, sub m U /\ m <> U /\ nref m = r.
  Proof.
    intros Hp.
    assert (H : only (fun r => exists m, sub m U /\ m <> U /\ nref m = r) empty_store final).
    { unfold final, conv_store. apply fold_rel; [apply only_refl|apply only_trans|].
      intros i st _. apply save_list_only. intros n m Hn Hm. exists m.
      destruct (root_kid_sub i n Hn) as [Hs Hne]. split; [eapply sub_trans; eauto|]. split; [|reflexivity].
      intros ->. destruct (sub_size _ _ Hm) as [E|Hlt]; [now subst|].
      destruct (sub_size _ _ Hs) as [E|Hlt']; [now subst|lia]. }
    destruct (H r Hp) as [Hbad|Hm]; [destruct Hbad|exact Hm].
  Qed.

  Lemma conv_ext is st : ext st (conv_store is (nkids U) st).
  Proof. unfold conv_store. apply fold_rel; [apply ext_refl|apply ext_trans|]. intros; apply save_list_ext. Qed.

  Lemma conv_self is i n : In i is -> In n (nth i (nkids U) []) -> forall st, pres (conv_store is (nkids U) st) (nref n).
  Proof.
    unfold conv_store. induction is as [|j r IH]; [intros []|]. intros [->|Hin] Hn st; cbn [fold_left].
    - eapply ext_pres; [apply (conv_ext r)|]. now apply save_list_self.
    - now apply IH.
  Qed.

  (* every object of every converted list is registered *)
  Lemma final_root_kids : closure_okb sch rt = true ->
    forall ns n, In ns (nkids U) -> In n ns -> pres final (nref n).
  Proof.
    intros Hok ns n Hns Hn. unfold closure_okb in Hok. rewrite !andb_true_iff in Hok.
    destruct Hok as [[[[_ Hconv] _] _] _].
    apply In_nth_error in Hns. destruct Hns as [i Hi].
    rewrite forallb_forall in Hconv.
    assert (Hlen : i < length (kidcls sch (rcls rt))).
    { pose proof (Hty _ (sub_refl _)) as H. unfold local_typedb in H. rewrite Hcls in H.
      apply kids_okb_length in H. rewrite <- H. apply nth_error_Some. congruence. }
    specialize (Hconv i). rewrite in_seq in Hconv. specialize (Hconv ltac:(lia)).
    apply existsb_exists in Hconv. destruct Hconv as [j [Hj E]]. apply Nat.eqb_eq in E. subst j.
    apply conv_self with (i := i); [exact Hj|]. now rewrite (nth_error_nth _ _ _ Hi).
  Qed.

  Lemma pres_flat st c k : pres st (c, k) -> exists f, In f (st c) /\ fkey f = k.
  Proof. unfold pres; cbn. rewrite in_map_iff. intros [f [E Hf]]. eauto. Qed.

  (* all reachable sub-nodes are registered: the children of a registered node are registered (closed) *)
  Lemma final_reach_aux : closure_okb sch rt = true -> consistent U ->
    forall m n, sub m n -> (n = U \/ (sub n U /\ pres final (nref n))) -> m <> n -> pres final (nref m).
  Proof.
    intros Hok HU m n Hm. induction Hm as [n | m c k s kids ns n' Hns Hn' Hm IH]; [congruence|]. intros Hn _.
    assert (P : sub n' U /\ pres final (nref n')).
    { destruct Hn as [E|[Hs Hp]].
      - split; [rewrite <- E; eapply sub_kid1; eauto|]. eapply final_root_kids; eauto. rewrite <- E. exact Hns.
      - split; [eapply sub_trans; [eapply sub_kid1; eauto|exact Hs]|].
        apply pres_flat in Hp. destruct Hp as [f [Hf Hk]].
        destruct (final_good _ _ Hf) as [m0 [Hm0 [_ [Hc0 ->]]]].
        assert (E : m0 = Node c k s kids).
        { apply HU; [exact Hm0|exact Hs|]. unfold nref. cbn in *. now rewrite Hc0, Hk. }
        subst m0. eapply final_closed; [exact Hf|]. cbn.
        apply in_concat. exists (map nref ns). split; [now apply in_map|now apply in_map]. }
    destruct (sub_size _ _ Hm) as [->|Hlt]; [apply P|].
    apply IH; [now right|]. intros ->. lia.
  Qed.

  Lemma final_reach : closure_okb sch rt = true -> consistent U -> forall m, sub m U -> m <> U -> pres final (nref m).
  Proof. intros Hok HU m Hm Hne. eapply final_reach_aux; eauto. Qed.
End Root.
