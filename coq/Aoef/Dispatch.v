(* Aoef/Dispatch.v — which collection adapter serialises an object (C01, mechanisms "most-specific-first ordering of the
   (type name, data class, adapter) table" and "discriminated union on collection_type").
   Code modelled: aoef.to_aeof  — `for _, data_cls, adapter_cls in ADAPTERS: if isinstance(obj, data_cls): ...` — and
   aoef.to_soundevent — `for adapter_type, _, adapter_cls in ADAPTERS: if adapter_type == obj.data.collection_type`.
   Classes are numbers; `parent` is the subclass relation of soundevent.data (Dataset < RecordingSet, AnnotationProject <
   AnnotationSet, EvaluationSet < AnnotationSet, ModelRun < PredictionSet); the ADAPTERS order is extracted from the source. *)
From Coq Require Import List Bool Arith Lia.
Import ListNotations.

Section Dispatch.
  Variable parent : nat -> option nat.      (* direct base class among the collection types *)

  (* isinstance o c, by walking up at most `fuel` bases *)
  Fixpoint isinstance (fuel : nat) (o c : nat) : bool :=
    Nat.eqb o c ||
    match fuel with
    | 0 => false
    | S f => match parent o with Some p => isinstance f p c | None => false end
    end.

  Definition save_dispatch (fuel : nat) (order : list nat) (o : nat) : option nat :=
    find (fun c => isinstance fuel o c) order.

  Definition load_dispatch (order : list nat) (tag : nat) : option nat := find (Nat.eqb tag) order.

  (* position of the first element satisfying p *)
  Fixpoint index_of (c : nat) (l : list nat) : nat :=
    match l with [] => 0 | x :: r => if Nat.eqb x c then 0 else S (index_of c r) end.

  (* every class that o is an instance of, other than o itself, comes after o in the table *)
  Definition specific_first (fuel : nat) (order : list nat) (o : nat) : bool :=
    existsb (Nat.eqb o) order &&
    forallb (fun c => Nat.eqb c o || negb (isinstance fuel o c) || Nat.ltb (index_of o order) (index_of c order)) order.

  Lemma find_first (p : nat -> bool) o : forall order,
    In o order -> p o = true ->
    (forall c, In c order -> p c = true -> c = o \/ index_of o order < index_of c order) ->
    find p order = Some o.
  Proof.
    induction order as [|x r IH]; intros Hin Hp Hfirst; [destruct Hin|].
    cbn [find]. destruct (p x) eqn:Ex.
    - destruct (Hfirst x (or_introl eq_refl) Ex) as [->|Hlt]; [reflexivity|].
      cbn in Hlt. rewrite Nat.eqb_refl in Hlt. destruct (Nat.eqb x o); lia.
    - destruct Hin as [->|Hin]; [congruence|]. apply IH; [exact Hin|exact Hp|].
      intros c Hc Hpc. destruct (Hfirst c (or_intror Hc) Hpc) as [->|Hlt]; [now left|right].
      cbn in Hlt. destruct (Nat.eqb_spec x o) as [->|Hxo]; [congruence|].
      destruct (Nat.eqb_spec x c) as [->|Hxc]; [congruence|]. lia.
  Qed.

  Lemma isinstance_refl fuel o : isinstance fuel o o = true.
  Proof. destruct fuel; cbn; now rewrite Nat.eqb_refl. Qed.

  (* most-specific-first => an object is serialised by the adapter of its own class *)
  Theorem dispatch_own_class fuel order o : specific_first fuel order o = true -> save_dispatch fuel order o = Some o.
  Proof.
    unfold specific_first, save_dispatch. intros H. apply andb_true_iff in H. destruct H as [Hin Hall].
    apply existsb_exists in Hin. destruct Hin as [x [Hx E]]. apply Nat.eqb_eq in E. subst x.
    apply find_first; [exact Hx|apply isinstance_refl|].
    intros c Hc Hpc. rewrite forallb_forall in Hall. specialize (Hall c Hc).
    rewrite !orb_true_iff in Hall. destruct Hall as [[E|E]|E].
    - left. now apply Nat.eqb_eq.
    - rewrite Hpc in E. discriminate.
    - right. now apply Nat.ltb_lt.
  Qed.

  Theorem load_dispatch_exact order tag : In tag order -> load_dispatch order tag = Some tag.
  Proof.
    unfold load_dispatch. induction order as [|x r IH]; [intros []|]. intros Hin. cbn [find].
    destruct (Nat.eqb_spec tag x) as [->|Hne]; [reflexivity|]. destruct Hin as [->|Hin]; [congruence|]. now apply IH.
  Qed.
End Dispatch.
