(* Aoef/DocProofs.v — properties of the written document (C02), for every schema, collection adapter and object. *)
From Coq Require Import ZArith List Bool Arith Lia.
From SE Require Import Aoef.Model Aoef.Typing Aoef.SaveProofs Aoef.RootProofs.
Import ListNotations.

Lemma get_table_map c l (st : store) : get_table c (map (fun c => (c, st c)) l) = if memc c l then st c else [].
Proof.
  induction l as [|a r IH]; cbn; [reflexivity|]. rewrite Nat.eqb_sym.
  destruct (Nat.eqb_spec c a) as [->|Hne]; cbn; [reflexivity|exact IH].
Qed.

Lemma get_table_forall (P : table -> Prop) c d : P [] -> Forall (fun ct => P (snd ct)) d -> P (get_table c d).
Proof.
  intros H0 H. induction d as [|[c' t] r IH]; cbn; [exact H0|]. inversion H; subst.
  destruct (Nat.eqb c' c); [assumption|now apply IH].
Qed.

Lemma count_nodup k t : NoDup (map fkey t) -> In k (map fkey t) -> length (filter (fun f => Z.eqb (fkey f) k) t) = 1.
Proof.
  induction t as [|f r IH]; cbn; [tauto|]. intros Hn Hin. inversion Hn as [|? ? Hnf Hr]; subst.
  destruct (Z.eqb_spec (fkey f) k) as [E|E].
  - cbn. f_equal. subst k. clear IH Hin Hn Hr. induction r as [|g r IH]; cbn; [reflexivity|].
    destruct (Z.eqb_spec (fkey g) (fkey f)) as [E|E]; [exfalso; apply Hnf; now left|]. apply IH. intros H. apply Hnf. now right.
  - destruct Hin as [Hin|Hin]; [contradiction|]. now apply IH.
Qed.

(* ------------------------------------------------------------------ the order check, as facts *)
Lemma order_okb_closed sch : forall todo done, order_okb sch done todo = true ->
  forall c, In c todo -> forall kc, In kc (kidcls sch c) -> In kc (done ++ todo).
Proof.
  induction todo as [|c0 r IH]; intros done H c Hc kc Hkc; [destruct Hc|].
  cbn [order_okb] in H. rewrite !andb_true_iff in H. destruct H as [[Hk _] Hr].
  destruct Hc as [->|Hc].
  - rewrite forallb_forall in Hk. specialize (Hk kc Hkc). apply orb_true_iff in Hk. apply in_or_app.
    destruct Hk as [E|E]; [apply Nat.eqb_eq in E; subst; right; now left|left; now apply memc_in].
  - specialize (IH (c0 :: done) Hr c Hc kc Hkc). apply in_app_or in IH. apply in_or_app.
    destruct IH as [[->|Hd]|Hr']; [right; now left|now left|right; now right].
Qed.

Lemma sub_inv m n : sub m n -> m = n \/ exists ns n', In ns (nkids n) /\ In n' ns /\ sub m n'.
Proof. destruct 1 as [n | m c k s kids ns n' Hns Hn' Hm]; [now left|right; cbn; eauto]. Qed.

Section Doc.
  Variable sch : schema.
  Variable rt : root_desc.
  Variable U : node.

  Notation d := (save_root sch rt U).

  (* ---------------------------------------------------------------- identifiers unique in every list, unconditionally *)
  Lemma run_steps_uniq ss kids : forall st dd, uniq st -> Forall (fun ct => NoDup (map fkey (snd ct))) dd ->
    Forall (fun ct => NoDup (map fkey (snd ct))) (snd (run_steps sch ss kids st dd)).
  Proof.
    induction ss as [|[i|c] r IH]; cbn [run_steps]; intros st dd Hu Hd; [exact Hd| |].
    - apply IH; [now apply save_list_uniq|exact Hd].
    - apply IH; [exact Hu|]. apply Forall_app. split; [exact Hd|]. constructor; [apply Hu|constructor].
  Qed.

  Theorem doc_ids_unique c : NoDup (map fkey (get_table c (fst d))).
  Proof.
    apply (get_table_forall (fun t => NoDup (map fkey t))); [constructor|].
    unfold save_root. cbn [fst]. apply run_steps_uniq; [apply uniq_empty|constructor].
  Qed.

  (* ---------------------------------------------------------------- with the closure check and a typed object *)
  Hypothesis Hcls : ncls U = rcls rt.
  Hypothesis Hty : typed sch U.
  Hypothesis Hok : closure_okb sch rt = true.

  Let Hsteps : steps_okb sch (rcls rt) (steps rt) = true.
  Proof. unfold closure_okb in Hok. rewrite !andb_true_iff in Hok. tauto. Qed.

  Let Horder : order_okb sch [] (load_order rt) = true.
  Proof. unfold closure_okb in Hok. rewrite !andb_true_iff in Hok. tauto. Qed.

  Lemma lo_snapped c : In c (load_order rt) -> memc c (snap_cls (steps rt)) = true.
  Proof.
    unfold closure_okb in Hok. rewrite !andb_true_iff in Hok. destruct Hok as [_ H].
    rewrite forallb_forall in H. apply H.
  Qed.

  Lemma root_kid_cls_lo ns n : In ns (nkids U) -> In n ns -> In (ncls n) (load_order rt).
  Proof.
    intros Hns Hn. unfold closure_okb in Hok. rewrite !andb_true_iff in Hok. destruct Hok as [[_ H] _].
    rewrite forallb_forall in H. apply memc_in, H. rewrite <- Hcls.
    destruct U as [c k s kids]. eapply typed_kid_cls; eauto.
  Qed.

  (* the class of every proper sub-object is among the re-registered (hence emitted) classes *)
  Lemma sub_cls_lo m : sub m U -> m <> U -> In (ncls m) (load_order rt).
  Proof.
    intros Hm Hne. destruct (sub_inv _ _ Hm) as [E|[ns [n' [Hns [Hn' Hm']]]]]; [congruence|].
    apply (closed_set_sub sch (load_order rt) n'); [| | |exact Hm'].
    - intros c0 Hc0 kc Hkc. apply (order_okb_closed sch _ [] Horder c0 Hc0 kc Hkc).
    - eapply typed_sub; [exact Hty|]. destruct U as [c k s kids]. eapply sub_kid1; eauto.
    - apply (root_kid_cls_lo ns); [exact Hns|exact Hn'].
  Qed.

  Lemma doc_tables : fst d = map (fun c => (c, final sch rt U c)) (snap_cls (steps rt)).
  Proof. rewrite (save_root_eq sch rt U Hcls Hty Hsteps). reflexivity. Qed.

  Lemma doc_table_lo c : In c (load_order rt) -> get_table c (fst d) = final sch rt U c.
  Proof. intros Hc. rewrite doc_tables, get_table_map, (lo_snapped c Hc). reflexivity. Qed.

  Lemma pres_defined r : pres (final sch rt U) r -> defined_in d r = 1.
  Proof.
    intros Hp. destruct (final_only sch rt U Hcls Hty r Hp) as [m [Hm [Hne E]]].
    unfold defined_in. rewrite doc_table_lo by (rewrite <- E; now apply sub_cls_lo).
    apply count_nodup; [apply final_uniq|exact Hp].
  Qed.

  (* closed under reference: every identifier mentioned anywhere is defined exactly once *)
  Theorem doc_closed r : In r (doc_refs d) -> defined_in d r = 1.
  Proof.
    unfold doc_refs. intros Hr. apply in_app_or in Hr. destruct Hr as [Hr|Hr].
    - apply in_concat in Hr. destruct Hr as [l [Hl Hr]]. apply in_map_iff in Hl. destruct Hl as [[c t] [<- Hct]].
      rewrite doc_tables in Hct. apply in_map_iff in Hct. destruct Hct as [c' [E Hc']]. inversion E; subst c' t. cbn [snd] in Hr.
      apply in_concat in Hr. destruct Hr as [l [Hl Hr]]. apply in_map_iff in Hl. destruct Hl as [f [<- Hf]].
      apply pres_defined. eapply final_closed; eauto.
    - rewrite (save_root_eq sch rt U Hcls Hty Hsteps) in Hr. cbn [snd flat_of fkids] in Hr.
      apply in_concat_map_nref in Hr. destruct Hr as [ns [n [Hns [Hn ->]]]].
      apply pres_defined. eapply final_root_kids; eauto.
  Qed.

  (* exactly the distinct reachable objects are written *)
  Theorem doc_exactly_reachable : consistent U -> forall c k, In c (load_order rt) ->
    (In k (map fkey (get_table c (fst d))) <-> exists m, sub m U /\ m <> U /\ nref m = (c, k)).
  Proof.
    intros HU c k Hc. rewrite doc_table_lo by exact Hc. split.
    - intros Hin. apply (final_only sch rt U Hcls Hty (c, k)). exact Hin.
    - intros [m [Hm [Hne E]]]. pose proof (final_reach sch rt U Hcls Hty Hok HU m Hm Hne) as Hp. rewrite E in Hp. exact Hp.
  Qed.

  (* nothing is written into a list that is not re-registered *)
  Theorem doc_nothing_else c : ~ In c (load_order rt) -> final sch rt U c = [].
  Proof.
    intros Hn. destruct (final sch rt U c) as [|f r] eqn:E; [reflexivity|exfalso].
    assert (Hp : pres (final sch rt U) (c, fkey f)). { unfold pres; cbn. rewrite E. now left. }
    destruct (final_only sch rt U Hcls Hty _ Hp) as [m [Hm [Hne Er]]].
    apply Hn. replace c with (ncls m) by (now inversion Er). now apply sub_cls_lo.
  Qed.

  (* a same-list reference (a sequence's parent) points to an earlier entry *)
  Theorem doc_parent_first : consistent U -> forall c l1 f l2, In c (load_order rt) ->
    get_table c (fst d) = l1 ++ f :: l2 -> forall k', In (c, k') (concat (fkids f)) -> In k' (map fkey l1).
  Proof.
    intros HU c l1 f l2 Hc Hsplit k' Hk'. rewrite doc_table_lo in Hsplit by exact Hc.
    eapply (final_ordered sch rt U Hcls Hty HU); eauto.
  Qed.
End Doc.
