From Coq Require Import ZArith List Bool Lia.
From SE Require Import Base.Res Aoef.Paths.
Import ListNotations.

Lemma strip_prefix a : forall p r, strip a p = Some r <-> p = a ++ r.
Proof.
  induction a as [|x a IH]; intros p r; cbn.
  - split; [intros E; now inversion E|intros ->; reflexivity].
  - destruct p as [|y p]; [split; [discriminate|intros E; discriminate]|].
    destruct (Z.eqb_spec x y) as [->|Hne].
    + rewrite IH. split; [intros ->; reflexivity|intros E; now inversion E].
    + split; [discriminate|intros E; inversion E; subst; now destruct Hne].
Qed.

Lemma strip_none a p : strip a p = None <-> forall r, p <> a ++ r.
Proof.
  split.
  - intros H r E. apply strip_prefix in E. congruence.
  - intros H. destruct (strip a p) as [r|] eqn:E; [|reflexivity]. apply strip_prefix in E. now destruct (H r).
Qed.

(* stored relative to the directory *)
Lemma stored_relative a x : save_path (Some a) (a ++ x) = Ok x.
Proof. unfold save_path. now rewrite (proj2 (strip_prefix a (a ++ x) x) eq_refl). Qed.

Lemma stored_relative_inv a p q : save_path (Some a) p = Ok q -> p = a ++ q.
Proof. unfold save_path. destruct (strip a p) as [r|] eqn:E; [|discriminate]. intros H. inversion H; subst. now apply strip_prefix. Qed.

(* a recording outside the directory makes the save fail *)
Lemma outside_fails a p : (forall r, p <> a ++ r) -> save_path (Some a) p = Err EValue.
Proof. intros H. unfold save_path. now rewrite (proj2 (strip_none a p) H). Qed.

Lemma save_paths_fails dir ps p : In p ps -> save_path dir p = Err EValue -> save_paths dir ps = Err EValue.
Proof.
  induction ps as [|q r IH]; [intros []|]. intros [->|Hin] He; cbn.
  - now rewrite He.
  - destruct (save_path dir q) as [s|e] eqn:E.
    + now rewrite (IH Hin He).
    + destruct dir as [a|]; cbn in E; [|discriminate]. destruct (strip a q); [discriminate|now inversion E].
Qed.

Lemma save_paths_inside a xs : save_paths (Some a) (map (app a) xs) = Ok xs.
Proof. induction xs as [|x r IH]; [reflexivity|]. cbn [map save_paths]. now rewrite stored_relative, IH. Qed.

Lemma save_paths_ok_inv a ps qs : save_paths (Some a) ps = Ok qs -> ps = map (app a) qs.
Proof.
  revert qs. induction ps as [|p r IH]; intros qs; cbn [save_paths]; [intros H; now inversion H|].
  destruct (save_path (Some a) p) as [q|e] eqn:E; [|discriminate].
  destruct (save_paths (Some a) r) as [qs'|e] eqn:E'; [|discriminate]. intros H; inversion H; subst.
  cbn. rewrite (stored_relative_inv _ _ _ E), (IH qs' eq_refl). reflexivity.
Qed.

(* relocation: A/x saved under A and loaded under B is B/x, for every recording, provided x is relative *)
Lemma relocate a b xs : (forall x, In x xs -> is_abs x = false) ->
  relocated (Some a) (Some b) (map (app a) xs) = Ok (map (app b) xs).
Proof.
  intros Hrel. unfold relocated. rewrite save_paths_inside. f_equal. unfold load_paths. apply map_ext_in.
  intros x Hx. cbn. unfold join. now rewrite (Hrel x Hx).
Qed.

Lemma relocate_fails a b ps p : In p ps -> (forall r, p <> a ++ r) -> relocated (Some a) b ps = Err EValue.
Proof. intros Hin Hout. unfold relocated. now rewrite (save_paths_fails _ _ p Hin (outside_fails a p Hout)). Qed.

(* without a directory paths pass through unchanged *)
Lemma no_dir_identity ps : relocated None None ps = Ok ps.
Proof.
  unfold relocated. assert (H : save_paths None ps = Ok ps).
  { induction ps as [|p r IH]; [reflexivity|]. cbn. now rewrite IH. }
  rewrite H. unfold load_paths. cbn. now rewrite map_id.
Qed.

Lemma same_dir_identity a xs : (forall x, In x xs -> is_abs x = false) ->
  relocated (Some a) (Some a) (map (app a) xs) = Ok (map (app a) xs).
Proof. apply relocate. Qed.

Example relocate_example :
  relocated (Some [0; 1; 2]%Z) (Some [0; 7]%Z) [[0; 1; 2; 3; 4]; [0; 1; 2; 5]]%Z = Ok [[0; 7; 3; 4]; [0; 7; 5]]%Z
  /\ relocated (Some [0; 1; 2]%Z) (Some [0; 7]%Z) [[0; 1; 2; 3; 4]; [0; 1; 9; 5]]%Z = Err EValue.
Proof. split; reflexivity. Qed.
