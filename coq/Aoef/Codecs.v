(* Aoef/Codecs.v — the two scalar codecs of the AOEF adapters that are not the identity (C01).
   Code modelled:
     features={key_from_term(f.term): f.value for f in obj.features}           (dict comprehension: first position, last value)
     features=[Feature(term=term_from_key(name), value=value) for name, value in obj.features.items()]
     time_expansion=obj.time_expansion if obj.time_expansion != 1.0 else None   /   obj.time_expansion if ... is not None else 1.0
   Labels and values are tokens (Z); only equality of labels matters. *)
From Coq Require Import ZArith List Bool Lia.
Import ListNotations.

Definition feat := (Z * Z)%type.

(* d[k] = v *)
Fixpoint dict_set (k v : Z) (d : list feat) : list feat :=
  match d with
  | [] => [(k, v)]
  | (k', v') :: r => if Z.eqb k' k then (k', v) :: r else (k', v') :: dict_set k v r
  end.

Definition to_dict (l : list feat) : list feat := fold_left (fun d kv => dict_set (fst kv) (snd kv) d) l [].
Definition of_dict (d : list feat) : list feat := d.
Definition feat_cycle (l : list feat) : list feat := of_dict (to_dict l).

Lemma dict_set_absent k v d : ~ In k (map fst d) -> dict_set k v d = d ++ [(k, v)].
Proof.
  induction d as [|[k' v'] r IH]; cbn; [reflexivity|]. intros Hn.
  destruct (Z.eqb_spec k' k) as [->|_]; [exfalso; apply Hn; now left|]. rewrite IH; [reflexivity|]. intros H; apply Hn; now right.
Qed.

Lemma to_dict_app_nodup l : forall d, NoDup (map fst (d ++ l)) ->
  fold_left (fun d kv => dict_set (fst kv) (snd kv) d) l d = d ++ l.
Proof.
  induction l as [|[k v] r IH]; intros d Hn; cbn [fold_left]; [now rewrite app_nil_r|].
  cbn [fst snd]. rewrite dict_set_absent.
  - rewrite IH; [now rewrite <- app_assoc|]. now rewrite <- app_assoc.
  - rewrite map_app in Hn. cbn in Hn. apply NoDup_remove_2 in Hn. intros H. apply Hn. apply in_or_app. now left.
Qed.

(* feature labels distinct within the list => the list survives unchanged, order included *)
Theorem feat_roundtrip l : NoDup (map fst l) -> feat_cycle l = l.
Proof. intros Hn. unfold feat_cycle, of_dict, to_dict. exact (to_dict_app_nodup l [] Hn). Qed.

(* the side condition is needed: a repeated label loses an entry *)
Theorem feat_duplicate_refuted : exists l, feat_cycle l <> l.
Proof. exists [(1, 5); (1, 6)]%Z. vm_compute. discriminate. Qed.

(* the cycle is idempotent whatever the list: a second save/load is always a fixpoint *)
Lemma dict_set_keys k v d : map fst (dict_set k v d) = if existsb (Z.eqb k) (map fst d) then map fst d else map fst d ++ [k].
Proof.
  induction d as [|[k' v'] r IH]; cbn; [reflexivity|]. rewrite (Z.eqb_sym k k').
  destruct (Z.eqb_spec k' k) as [->|_]; cbn; [reflexivity|]. rewrite IH. now destruct (existsb (Z.eqb k) (map fst r)).
Qed.

Lemma dict_set_nodup k v d : NoDup (map fst d) -> NoDup (map fst (dict_set k v d)).
Proof.
  intros Hn. rewrite dict_set_keys. destruct (existsb (Z.eqb k) (map fst d)) eqn:E; [exact Hn|].
  assert (Hni : ~ In k (map fst d)).
  { intros Hin. assert (existsb (Z.eqb k) (map fst d) = true) as E'; [|congruence].
    apply existsb_exists. exists k. split; [exact Hin|apply Z.eqb_refl]. }
  clear E. induction (map fst d) as [|a r IH]; cbn; [constructor; [tauto|constructor]|].
  inversion Hn as [|? ? Ha Hr]; subst. constructor.
  - intros Hin. apply in_app_or in Hin. destruct Hin as [Hin|[->|[]]]; [tauto|]. apply Hni. now left.
  - apply IH; [exact Hr|]. intros H. apply Hni. now right.
Qed.

Lemma to_dict_nodup l : forall d, NoDup (map fst d) -> NoDup (map fst (fold_left (fun d kv => dict_set (fst kv) (snd kv) d) l d)).
Proof. induction l as [|[k v] r IH]; intros d Hn; cbn [fold_left]; [exact Hn|]. apply IH. now apply dict_set_nodup. Qed.

Theorem feat_cycle_idempotent l : feat_cycle (feat_cycle l) = feat_cycle l.
Proof. apply feat_roundtrip. unfold feat_cycle, of_dict, to_dict. apply to_dict_nodup. constructor. Qed.

(* time expansion: 1.0 is stored as "absent" *)
Definition te_enc (one x : Z) : option Z := if Z.eqb x one then None else Some x.
Definition te_dec (one : Z) (o : option Z) : Z := match o with None => one | Some x => x end.

Theorem te_roundtrip one x : te_dec one (te_enc one x) = x.
Proof. unfold te_enc, te_dec. destruct (Z.eqb_spec x one) as [->|_]; reflexivity. Qed.
