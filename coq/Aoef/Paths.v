(* Aoef/Paths.v — audio paths in AOEF documents (C18).
   Code modelled: RecordingAdapter.assemble_aoef  (Path(obj.path).relative_to(audio_dir) when a directory is given),
   RecordingAdapter.assemble_soundevent (audio_dir / obj.path), and the fact that the conversion of a collection
   converts every reachable recording before anything is written (aoef.save: mkdir, to_aeof, write_text).
   Paths are lists of components (pathlib's `parts`; the root "/" is the component 0); only equality of components
   matters, so components are interned tokens.  pathlib's parsing / normalisation is a library contract. *)
From Coq Require Import ZArith List Bool.
From SE Require Import Base.Res.
Import ListNotations.

Definition comp := Z.
Definition path := list comp.

(* PurePath.relative_to: strip the prefix, ValueError if it is not one *)
Fixpoint strip (a p : path) : option path :=
  match a, p with
  | [], _ => Some p
  | x :: a', y :: p' => if Z.eqb x y then strip a' p' else None
  | _ :: _, [] => None
  end.

Definition is_abs (p : path) : bool := match p with x :: _ => Z.eqb x 0 | [] => false end.

(* PurePath.__truediv__: an absolute right operand replaces the left one *)
Definition join (a p : path) : path := if is_abs p then p else a ++ p.

Definition save_path (dir : option path) (p : path) : res path :=
  match dir with
  | None => Ok p
  | Some a => match strip a p with Some r => Ok r | None => Err EValue end
  end.

Definition load_path (dir : option path) (q : path) : path :=
  match dir with None => q | Some b => join b q end.

(* all recordings of a collection: the first failure aborts the conversion, nothing is written *)
Fixpoint save_paths (dir : option path) (ps : list path) : res (list path) :=
  match ps with
  | [] => Ok []
  | p :: r => match save_path dir p with
              | Err e => Err e
              | Ok q => match save_paths dir r with Ok qs => Ok (q :: qs) | Err e => Err e end
              end
  end.

Definition load_paths (dir : option path) (qs : list path) : list path := map (load_path dir) qs.

Definition path_eqb (a b : path) : bool :=
  Nat.eqb (length a) (length b) && forallb (fun xy => Z.eqb (fst xy) (snd xy)) (combine a b).
Definition paths_eqb (a b : list path) : bool :=
  Nat.eqb (length a) (length b) && forallb (fun xy => path_eqb (fst xy) (snd xy)) (combine a b).
Definition relocated (dirA dirB : option path) (ps : list path) : res (list path) :=
  match save_paths dirA ps with Ok qs => Ok (load_paths dirB qs) | Err e => Err e end.
