(* Aoef/Final.v — the statements of C01 / C02 with boolean, checkable side conditions. *)
From Coq Require Import ZArith List Bool Arith Lia.
From SE Require Import Aoef.Model Aoef.Schema Aoef.Typing Aoef.SaveProofs Aoef.RootProofs Aoef.DocProofs Aoef.LoadProofs
  Aoef.AuditProofs Aoef.Pinned Aoef.Dispatch.
Import ListNotations.

Lemma wfb_parts sch rt U : wfb sch rt U = true -> ncls U = rcls rt /\ typed sch U /\ consistent U.
Proof.
  unfold wfb. rewrite !andb_true_iff. intros [[H1 H2] H3].
  split; [now apply Nat.eqb_eq|]. split; [now apply typedb_sound|now apply consistentb_sound].
Qed.

(* ------------------------------------------------------------------ C01 *)
Lemma roundtrip_b sch rt U : schema_okb sch rt = true -> wfb sch rt U = true ->
  load_root sch rt (save_root sch rt U) = Some U.
Proof. intros Hok Hwf. destruct (wfb_parts _ _ _ Hwf) as [H1 [H2 H3]]. now apply roundtrip. Qed.

Lemma roundtrip_type sch rt U : schema_okb sch rt = true -> wfb sch rt U = true ->
  exists U', load_root sch rt (save_root sch rt U) = Some U' /\ ncls U' = rcls rt.
Proof.
  intros Hok Hwf. exists U. split; [now apply roundtrip_b|]. now destruct (wfb_parts _ _ _ Hwf).
Qed.

Definition cycle (sch : schema) (rt : root_desc) (o : option node) : option node :=
  match o with Some x => load_root sch rt (save_root sch rt x) | None => None end.

Lemma fixpoint_b sch rt U : schema_okb sch rt = true -> wfb sch rt U = true ->
  forall n, Nat.iter n (cycle sch rt) (Some U) = Some U.
Proof.
  intros Hok Hwf n. induction n as [|n IH]; [reflexivity|]. change (Nat.iter (S n) (cycle sch rt) (Some U)) with (cycle sch rt (Nat.iter n (cycle sch rt) (Some U))). rewrite IH. cbn [cycle]. now apply roundtrip_b.
Qed.

(* the document written in any later cycle is the document written in the first *)
Lemma doc_fixpoint_b sch rt U : schema_okb sch rt = true -> wfb sch rt U = true ->
  forall n, match Nat.iter n (cycle sch rt) (Some U) with
            | Some x => save_root sch rt x = save_root sch rt U
            | None => False
            end.
Proof. intros Hok Hwf n. now rewrite fixpoint_b. Qed.

Lemma schema_ok_current : forallb (schema_okb current) roots = true.
Proof. vm_compute. reflexivity. Qed.

Lemma schema_ok_each rt : In rt roots -> schema_okb current rt = true.
Proof. intros H. pose proof schema_ok_current as A. rewrite forallb_forall in A. now apply A. Qed.

Lemma roundtrip_current rt U : In rt roots -> wfb current rt U = true ->
  load_root current rt (save_root current rt U) = Some U.
Proof. intros Hrt. apply roundtrip_b. now apply schema_ok_each. Qed.

(* the rows of the pinned tree fail the check, and a concrete object shows the loss *)
Lemma pinned_license_refuted :
  schema_okb pinned_license root_RecordingSet = false /\
  wfb pinned_license root_RecordingSet w_recording_set = true /\
  load_root pinned_license root_RecordingSet (save_root pinned_license root_RecordingSet w_recording_set) <> Some w_recording_set.
Proof. split; [vm_compute; reflexivity|]. split; [vm_compute; reflexivity|]. vm_compute. discriminate. Qed.

Lemma pinned_prediction_set_refuted :
  schema_okb current pinned_PredictionSet = false /\
  wfb current pinned_PredictionSet w_prediction_set = true /\
  load_root current pinned_PredictionSet (save_root current pinned_PredictionSet w_prediction_set) <> Some w_prediction_set.
Proof. split; [vm_compute; reflexivity|]. split; [vm_compute; reflexivity|]. vm_compute. discriminate. Qed.

Lemma pinned_evaluation_set_refuted :
  schema_okb current pinned_EvaluationSet = false /\
  wfb current pinned_EvaluationSet w_evaluation_set = true /\
  load_root current pinned_EvaluationSet (save_root current pinned_EvaluationSet w_evaluation_set) <> Some w_evaluation_set.
Proof. split; [vm_compute; reflexivity|]. split; [vm_compute; reflexivity|]. vm_compute. discriminate. Qed.

Lemma wf_examples :
  wfb current root_AnnotationSet w_annotation_set = true /\ wfb current root_PredictionSet w_prediction_set = true /\
  wfb current root_EvaluationSet w_evaluation_set = true /\ wfb current root_RecordingSet w_recording_set = true.
Proof. vm_compute. auto. Qed.

(* which adapter serialises / re-reads a collection: the extracted ADAPTERS order is most-specific-first *)
Lemma dispatch_current : forallb (specific_first collection_parent 3 adapters_order) (map rcls roots) = true.
Proof. vm_compute. reflexivity. Qed.

Lemma dispatch_current_own rt : In rt roots -> save_dispatch collection_parent 3 adapters_order (rcls rt) = Some (rcls rt).
Proof.
  intros H. apply dispatch_own_class. pose proof dispatch_current as A. rewrite forallb_forall in A.
  apply A. now apply in_map.
Qed.

Lemma load_dispatch_current rt : In rt roots -> load_dispatch adapters_order (rcls rt) = Some (rcls rt).
Proof.
  intros H. apply load_dispatch_exact.
  assert (A : forallb (fun r => existsb (Nat.eqb (rcls r)) adapters_order) roots = true) by (vm_compute; reflexivity).
  rewrite forallb_forall in A. specialize (A rt H). apply existsb_exists in A. destruct A as [x [Hx E]].
  apply Nat.eqb_eq in E. now subst x.
Qed.

(* a base-first table stores a subclass as its base: the ordering is what the property rests on *)
Lemma dispatch_base_first_refuted :
  save_dispatch collection_parent 3 [cRecordingSet; cDataset] cDataset = Some cRecordingSet.
Proof. vm_compute. reflexivity. Qed.

(* ------------------------------------------------------------------ C02 *)
Lemma ids_unique_b sch rt U c : NoDup (map fkey (get_table c (fst (save_root sch rt U)))).
Proof. apply doc_ids_unique. Qed.

Lemma closed_b sch rt U : closure_okb sch rt = true -> Nat.eqb (ncls U) (rcls rt) && typedb sch U = true ->
  forall r, In r (doc_refs (save_root sch rt U)) -> defined_in (save_root sch rt U) r = 1.
Proof.
  intros Hok H r. apply andb_true_iff in H. destruct H as [H1 H2]. apply Nat.eqb_eq in H1.
  apply doc_closed; [exact H1|now apply typedb_sound|exact Hok].
Qed.

Lemma exactly_reachable_b sch rt U : closure_okb sch rt = true -> wfb sch rt U = true ->
  forall c k, In c (load_order rt) ->
  (In k (map fkey (get_table c (fst (save_root sch rt U)))) <-> exists m, sub m U /\ m <> U /\ nref m = (c, k)).
Proof. intros Hok Hwf. destruct (wfb_parts _ _ _ Hwf) as [H1 [H2 H3]]. now apply doc_exactly_reachable. Qed.

Lemma nothing_else_b sch rt U : closure_okb sch rt = true -> wfb sch rt U = true ->
  forall c, ~ In c (load_order rt) -> get_table c (fst (save_root sch rt U)) = [].
Proof.
  intros Hok Hwf c Hc. destruct (wfb_parts _ _ _ Hwf) as [H1 [H2 H3]].
  rewrite (doc_tables sch rt U H1 H2 Hok), get_table_map.
  destruct (memc c (snap_cls (steps rt))); [|reflexivity]. now apply doc_nothing_else.
Qed.

Lemma parent_first_b sch rt U : closure_okb sch rt = true -> wfb sch rt U = true ->
  forall c l1 f l2, In c (load_order rt) -> get_table c (fst (save_root sch rt U)) = l1 ++ f :: l2 ->
  forall k', In (c, k') (concat (fkids f)) -> In k' (map fkey l1).
Proof. intros Hok Hwf. destruct (wfb_parts _ _ _ Hwf) as [H1 [H2 H3]]. now apply doc_parent_first. Qed.

Lemma closure_ok_current : forallb (closure_okb current) roots = true.
Proof. vm_compute. reflexivity. Qed.

Lemma pinned_prediction_set_open :
  closure_okb current pinned_PredictionSet = false /\
  Nat.eqb (ncls w_prediction_set) (rcls pinned_PredictionSet) && typedb current w_prediction_set = true /\
  exists r, In r (doc_refs (save_root current pinned_PredictionSet w_prediction_set))
            /\ defined_in (save_root current pinned_PredictionSet w_prediction_set) r = 0.
Proof.
  split; [vm_compute; reflexivity|]. split; [vm_compute; reflexivity|].
  exists (cSequencePrediction, 70%Z). split; vm_compute; auto 20.
Qed.

Lemma pinned_evaluation_set_open :
  closure_okb current pinned_EvaluationSet = false /\
  Nat.eqb (ncls w_evaluation_set) (rcls pinned_EvaluationSet) && typedb current w_evaluation_set = true /\
  exists r, In r (doc_refs (save_root current pinned_EvaluationSet w_evaluation_set))
            /\ defined_in (save_root current pinned_EvaluationSet w_evaluation_set) r = 0.
Proof.
  split; [vm_compute; reflexivity|]. split; [vm_compute; reflexivity|].
  exists (cTag, 20%Z). split; vm_compute; auto 20.
Qed.
