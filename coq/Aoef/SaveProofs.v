(* Aoef/SaveProofs.v — invariants of the registering traversal (save_node) for every node, store and schema. *)
From Coq Require Import ZArith List Bool Arith Lia.
From SE Require Import Aoef.Model.
Import ListNotations.

(* ------------------------------------------------------------------ induction principle for nested nodes *)
Section NodeInd.
  Variable P : node -> Prop.
  Hypothesis H : forall c k s kids, Forall (Forall P) kids -> P (Node c k s kids).
  Fixpoint node_ind' (n : node) : P n :=
    match n with
    | Node c k s kids =>
        H c k s kids
          ((fix go2 (l : list (list node)) : Forall (Forall P) l :=
              match l with
              | [] => Forall_nil _
              | ns :: r =>
                  Forall_cons _
                    ((fix go (l : list node) : Forall P l :=
                        match l with
                        | [] => Forall_nil _
                        | n :: r => Forall_cons _ (node_ind' n) (go r)
                        end) ns)
                    (go2 r)
              end) kids)
    end.
End NodeInd.

(* ------------------------------------------------------------------ sub-nodes, identifiers, size *)
Inductive sub : node -> node -> Prop :=
| sub_refl n : sub n n
| sub_kid m c k s kids ns n' : In ns kids -> In n' ns -> sub m n' -> sub m (Node c k s kids).

Lemma sub_trans a b c : sub a b -> sub b c -> sub a c.
Proof.
  intros Hab Hbc. induction Hbc as [n | m c0 k s kids ns n' Hns Hn' Hm IH].
  - exact Hab.
  - eapply sub_kid; eauto.
Qed.

Lemma sub_kid1 c k s kids ns n' : In ns kids -> In n' ns -> sub n' (Node c k s kids).
Proof. intros. eapply sub_kid; eauto. apply sub_refl. Qed.

Fixpoint size (n : node) : nat :=
  match n with
  | Node _ _ _ kids => S (fold_right (fun ns a => fold_right (fun n a => size n + a) 0 ns + a) 0 kids)
  end.

Definition size_list (l : list node) : nat := fold_right (fun n a => size n + a) 0 l.
Definition size_kids (l : list (list node)) : nat := fold_right (fun ns a => size_list ns + a) 0 l.

Lemma size_eq c k s kids : size (Node c k s kids) = S (size_kids kids).
Proof. reflexivity. Qed.

Lemma size_list_in n ns : In n ns -> size n <= size_list ns.
Proof.
  induction ns as [|a r IH]; [intros []|].
  intros [->|Hin]; unfold size_list in *; cbn [fold_right]; [lia|]. specialize (IH Hin). lia.
Qed.

Lemma size_kids_in ns kids : In ns kids -> size_list ns <= size_kids kids.
Proof.
  induction kids as [|a r IH]; [intros []|].
  intros [->|Hin]; unfold size_kids in *; cbn [fold_right]; [lia|]. specialize (IH Hin). lia.
Qed.

Lemma sub_size m n : sub m n -> m = n \/ size m < size n.
Proof.
  induction 1 as [n | m c k s kids ns n' Hns Hn' Hm IH].
  - now left.
  - right. rewrite size_eq.
    pose proof (size_list_in _ _ Hn'). pose proof (size_kids_in _ _ Hns).
    destruct IH as [-> | Hlt]; lia.
Qed.

Lemma sub_kid_size m c k s kids ns n' : In ns kids -> In n' ns -> sub m n' -> size m < size (Node c k s kids).
Proof.
  intros Hns Hn' Hm. rewrite size_eq.
  pose proof (size_list_in _ _ Hn'). pose proof (size_kids_in _ _ Hns).
  destruct (sub_size _ _ Hm) as [-> | Hlt]; lia.
Qed.

(* ------------------------------------------------------------------ tables *)
Notation keys t := (map fkey t).

Lemma memk_in k t : memk k t = true <-> In k (keys t).
Proof.
  induction t as [|f r IH]; cbn; [split; [discriminate|tauto]|].
  rewrite orb_true_iff, IH, Z.eqb_eq. tauto.
Qed.

Lemma memk_notin k t : memk k t = false <-> ~ In k (keys t).
Proof. rewrite <- memk_in. destruct (memk k t); split; congruence. Qed.

Lemma assign_absent f t : ~ In (fkey f) (keys t) -> assign f t = t ++ [f].
Proof.
  induction t as [|g r IH]; cbn; [reflexivity|]. intros Hn.
  destruct (Z.eqb_spec (fkey g) (fkey f)) as [E|E]; [exfalso; apply Hn; now left|].
  rewrite IH; [reflexivity|]. intros Hin. apply Hn. now right.
Qed.

Lemma keys_assign f t : keys (assign f t) = if memk (fkey f) t then keys t else keys t ++ [fkey f].
Proof.
  induction t as [|g r IH]; cbn; [reflexivity|].
  destruct (Z.eqb_spec (fkey g) (fkey f)) as [E|E]; cbn.
  - now rewrite E.
  - rewrite IH. destruct (memk (fkey f) r); reflexivity.
Qed.

Lemma in_assign g f t : In g (assign f t) -> g = f \/ In g t.
Proof.
  induction t as [|h r IH]; cbn.
  - intros [<-|[]]. now left.
  - destruct (Z.eqb (fkey h) (fkey f)); cbn.
    + intros [<-|Hin]; [now left|right; now right].
    + intros [<-|Hin]; [right; now left|]. destruct (IH Hin) as [->|Hr]; [now left|right; now right].
Qed.

Lemma in_assign_self f t : In f (assign f t).
Proof.
  induction t as [|h r IH]; cbn; [now left|].
  destruct (Z.eqb (fkey h) (fkey f)); cbn; [now left|now right].
Qed.

Lemma NoDup_snoc {A} (l : list A) a : NoDup l -> ~ In a l -> NoDup (l ++ [a]).
Proof.
  induction l as [|b r IH]; cbn; intros Hn Hni; [constructor; [tauto|constructor]|].
  inversion Hn as [|? ? Hb Hr]; subst. constructor.
  - intros Hin. apply in_app_or in Hin. destruct Hin as [Hin|[->|[]]]; [tauto|]. apply Hni. now left.
  - apply IH; [exact Hr|]. intros Hin. apply Hni. now right.
Qed.

(* ------------------------------------------------------------------ store updates *)
Lemma upd_same {A} (f : cls -> A) c v : upd f c v c = v.
Proof. unfold upd. now rewrite Nat.eqb_refl. Qed.

Lemma upd_other {A} (f : cls -> A) c c' v : c' <> c -> upd f c v c' = f c'.
Proof. unfold upd. intros Hne. destruct (Nat.eqb_spec c' c); [contradiction|reflexivity]. Qed.

Definition pres (st : store) (r : ref) : Prop := In (snd r) (keys (st (fst r))).

Lemma present_pres st r : present st r = true <-> pres st r.
Proof. unfold present, pres. apply memk_in. Qed.

(* key lists only grow, by appending *)
Definition ext (st st' : store) : Prop := forall c, exists l, keys (st' c) = keys (st c) ++ l.

Lemma ext_refl st : ext st st.
Proof. intros c. exists []. now rewrite app_nil_r. Qed.

Lemma ext_trans a b c : ext a b -> ext b c -> ext a c.
Proof.
  intros H1 H2 x. destruct (H1 x) as [l1 E1]. destruct (H2 x) as [l2 E2].
  exists (l1 ++ l2). now rewrite E2, E1, app_assoc.
Qed.

Lemma ext_pres a b r : ext a b -> pres a r -> pres b r.
Proof. intros H Hp. unfold pres in *. destruct (H (fst r)) as [l E]. rewrite E. apply in_or_app. now left. Qed.

Lemma ext_ins c f st : ext st (ins c f st).
Proof.
  intros x. unfold ins. destruct (Nat.eq_dec x c) as [->|Hne].
  - rewrite upd_same, keys_assign. destruct (memk (fkey f) (st c)).
    + exists []. now rewrite app_nil_r.
    + now exists [fkey f].
  - rewrite upd_other by assumption. exists []. now rewrite app_nil_r.
Qed.

Lemma pres_ins_self c f st : pres (ins c f st) (c, fkey f).
Proof.
  unfold pres, ins; cbn. rewrite upd_same, keys_assign.
  destruct (memk (fkey f) (st c)) eqn:E; [now apply memk_in|]. apply in_or_app. right. now left.
Qed.

Lemma pres_ins_inv c f st r : pres (ins c f st) r -> pres st r \/ r = (c, fkey f).
Proof.
  unfold pres, ins. destruct r as [c' k']; cbn. destruct (Nat.eq_dec c' c) as [->|Hne].
  - rewrite upd_same, keys_assign. destruct (memk (fkey f) (st c)); [now left|].
    intros Hin. apply in_app_or in Hin. destruct Hin as [Hin|[<-|[]]]; [now left|now right].
  - rewrite upd_other by assumption. now left.
Qed.

(* ------------------------------------------------------------------ generic fold lemmas *)
Lemma fold_rel {A} (R : store -> store -> Prop) (f : store -> A -> store) (l : list A) :
  (forall st, R st st) -> (forall a b c, R a b -> R b c -> R a c) ->
  (forall a st, In a l -> R st (f st a)) -> forall st, R st (fold_left f l st).
Proof.
  intros Hr Ht. induction l as [|a r IH]; cbn; intros Hs st; [apply Hr|].
  eapply Ht; [apply Hs; now left|]. apply IH. intros b st' Hb. apply Hs. now right.
Qed.

Lemma fold_inv {A} (P : store -> Prop) (f : store -> A -> store) (l : list A) :
  (forall a st, In a l -> P st -> P (f st a)) -> forall st, P st -> P (fold_left f l st).
Proof.
  induction l as [|a r IH]; cbn; intros Hs st Hp; [exact Hp|].
  apply IH; [intros b st' Hb; apply Hs; now right|]. apply Hs; [now left|exact Hp].
Qed.

Section Save.
  Variable sch : schema.

  Lemma save_node_eq c k s kids st :
    save_node sch (Node c k s kids) st =
    if memk k (st c) then st else ins c (flat_of sch (Node c k s kids)) (save_kids sch kids st).
  Proof. reflexivity. Qed.

  Lemma save_list_cons n ns st : save_list sch (n :: ns) st = save_list sch ns (save_node sch n st).
  Proof. reflexivity. Qed.

  Lemma save_kids_cons ns kids st : save_kids sch (ns :: kids) st = save_kids sch kids (save_list sch ns st).
  Proof. reflexivity. Qed.

  Lemma fkey_flat_of n : fkey (flat_of sch n) = nkey n.
  Proof. reflexivity. Qed.

  (* ---------------------------------------------------------------- (1) key lists only grow *)
  Lemma save_ext n : forall st, ext st (save_node sch n st).
  Proof.
    induction n as [c k s kids IH] using node_ind'. intros st. rewrite save_node_eq.
    destruct (memk k (st c)); [apply ext_refl|].
    eapply ext_trans; [|apply ext_ins].
    unfold save_kids. apply fold_rel; [apply ext_refl|apply ext_trans|].
    intros ns st' Hns. unfold save_list. apply fold_rel; [apply ext_refl|apply ext_trans|].
    intros n' st'' Hn'. rewrite Forall_forall in IH. specialize (IH ns Hns). rewrite Forall_forall in IH. apply IH, Hn'.
  Qed.

  Lemma save_list_ext ns st : ext st (save_list sch ns st).
  Proof. unfold save_list. apply fold_rel; [apply ext_refl|apply ext_trans|]. intros; apply save_ext. Qed.

  Lemma save_kids_ext kids st : ext st (save_kids sch kids st).
  Proof. unfold save_kids. apply fold_rel; [apply ext_refl|apply ext_trans|]. intros; apply save_list_ext. Qed.

  (* ---------------------------------------------------------------- (2) the node itself is registered *)
  Lemma save_self n st : pres (save_node sch n st) (nref n).
  Proof.
    destruct n as [c k s kids]. rewrite save_node_eq. destruct (memk k (st c)) eqn:E.
    - apply memk_in in E. exact E.
    - apply (pres_ins_self c (flat_of sch (Node c k s kids))).
  Qed.

  Lemma save_list_self ns st n : In n ns -> pres (save_list sch ns st) (nref n).
  Proof.
    revert st. induction ns as [|a r IH]; [intros st []|]. intros st [->|Hin]; rewrite save_list_cons.
    - eapply ext_pres; [apply (save_list_ext r)|apply save_self].
    - apply IH, Hin.
  Qed.

  Lemma save_kids_self kids st ns n : In ns kids -> In n ns -> pres (save_kids sch kids st) (nref n).
  Proof.
    revert st. induction kids as [|a r IH]; [intros st []|]. intros st [->|Hin] Hn; rewrite save_kids_cons.
    - eapply ext_pres; [apply (save_kids_ext r)|apply save_list_self, Hn].
    - apply IH; assumption.
  Qed.

  (* ---------------------------------------------------------------- (3) only sub-nodes are registered *)
  Definition only (S : ref -> Prop) (st st' : store) : Prop := forall r, pres st' r -> pres st r \/ S r.

  Lemma only_refl (S : ref -> Prop) st : only S st st.
  Proof. intros r H. now left. Qed.

  Lemma only_trans (S : ref -> Prop) a b c : only S a b -> only S b c -> only S a c.
  Proof. intros H1 H2 r Hr. destruct (H2 r Hr) as [Hb|Hs]; [apply H1, Hb|now right]. Qed.

  Lemma save_only n : forall (S : ref -> Prop) st, (forall m, sub m n -> S (nref m)) -> only S st (save_node sch n st).
  Proof.
    induction n as [c k s kids IH] using node_ind'. intros S st HS. rewrite save_node_eq.
    destruct (memk k (st c)); [apply only_refl|].
    apply only_trans with (b := save_kids sch kids st).
    - unfold save_kids. apply fold_rel; [apply only_refl|apply only_trans|].
      intros ns st' Hns. unfold save_list. apply fold_rel; [apply only_refl|apply only_trans|].
      intros n' st'' Hn'. rewrite Forall_forall in IH. specialize (IH ns Hns). rewrite Forall_forall in IH.
      apply IH; [exact Hn'|]. intros m Hm. apply HS. eapply sub_kid; eauto.
    - intros r Hr. apply pres_ins_inv in Hr. destruct Hr as [Hr| ->]; [now left|right].
      apply (HS (Node c k s kids)). apply sub_refl.
  Qed.

  Lemma save_list_only (S : ref -> Prop) ns st : (forall n m, In n ns -> sub m n -> S (nref m)) -> only S st (save_list sch ns st).
  Proof.
    intros HS. unfold save_list. apply fold_rel; [apply only_refl|apply only_trans|].
    intros n st' Hn. apply save_only. intros m Hm. eapply HS; eauto.
  Qed.

  Lemma save_kids_only (S : ref -> Prop) kids st :
    (forall ns n m, In ns kids -> In n ns -> sub m n -> S (nref m)) -> only S st (save_kids sch kids st).
  Proof.
    intros HS. unfold save_kids. apply fold_rel; [apply only_refl|apply only_trans|].
    intros ns st' Hns. apply save_list_only. intros n m Hn Hm. eapply HS; eauto.
  Qed.

  (* ---------------------------------------------------------------- (4) identifiers unique per table *)
  Definition uniq (st : store) : Prop := forall c, NoDup (keys (st c)).

  Lemma uniq_empty : uniq empty_store.
  Proof. intros c. constructor. Qed.

  Lemma uniq_ins c f st : uniq st -> uniq (ins c f st).
  Proof.
    intros Hu x. unfold ins. destruct (Nat.eq_dec x c) as [->|Hne].
    - rewrite upd_same, keys_assign. destruct (memk (fkey f) (st c)) eqn:E; [apply Hu|].
      apply memk_notin in E. apply NoDup_snoc; [apply Hu|exact E].
    - rewrite upd_other by assumption. apply Hu.
  Qed.

  Lemma save_uniq n : forall st, uniq st -> uniq (save_node sch n st).
  Proof.
    induction n as [c k s kids IH] using node_ind'. intros st Hu. rewrite save_node_eq.
    destruct (memk k (st c)); [exact Hu|]. apply uniq_ins.
    unfold save_kids. apply fold_inv; [|exact Hu].
    intros ns st' Hns Hu'. unfold save_list. apply fold_inv; [|exact Hu'].
    intros n' st'' Hn' Hu''. rewrite Forall_forall in IH. specialize (IH ns Hns). rewrite Forall_forall in IH. now apply IH.
  Qed.

  Lemma save_list_uniq ns st : uniq st -> uniq (save_list sch ns st).
  Proof. unfold save_list. apply fold_inv. intros; now apply save_uniq. Qed.

  (* ---------------------------------------------------------------- (5) closed under reference *)
  Definition closed (st : store) : Prop :=
    forall c f, In f (st c) -> forall r, In r (concat (fkids f)) -> pres st r.

  Lemma closed_empty : closed empty_store.
  Proof. intros c f []. Qed.

  Lemma in_concat_map_nref (kids : list (list node)) r :
    In r (concat (map (map nref) kids)) -> exists ns n, In ns kids /\ In n ns /\ r = nref n.
  Proof.
    rewrite in_concat. intros [l [Hl Hr]]. rewrite in_map_iff in Hl. destruct Hl as [ns [<- Hns]].
    rewrite in_map_iff in Hr. destruct Hr as [n [<- Hn]]. eauto.
  Qed.

  Lemma closed_ins c f st : closed st -> (forall r, In r (concat (fkids f)) -> pres st r) -> closed (ins c f st).
  Proof.
    intros Hc Hf x g Hg r Hr. unfold ins in Hg. destruct (Nat.eq_dec x c) as [->|Hne].
    - rewrite upd_same in Hg. apply in_assign in Hg. destruct Hg as [->|Hg].
      + eapply ext_pres; [apply ext_ins|]. now apply Hf.
      + eapply ext_pres; [apply ext_ins|]. eapply Hc; eauto.
    - rewrite upd_other in Hg by assumption. eapply ext_pres; [apply ext_ins|]. eapply Hc; eauto.
  Qed.

  Lemma save_closed n : forall st, closed st -> closed (save_node sch n st).
  Proof.
    induction n as [c k s kids IH] using node_ind'. intros st Hc. rewrite save_node_eq.
    destruct (memk k (st c)); [exact Hc|]. apply closed_ins.
    - unfold save_kids. apply fold_inv; [|exact Hc].
      intros ns st' Hns Hc'. unfold save_list. apply fold_inv; [|exact Hc'].
      intros n' st'' Hn' Hc''. rewrite Forall_forall in IH. specialize (IH ns Hns). rewrite Forall_forall in IH. now apply IH.
    - intros r Hr. cbn in Hr. apply in_concat_map_nref in Hr. destruct Hr as [ns [n [Hns [Hn ->]]]].
      eapply save_kids_self; eauto.
  Qed.

  Lemma save_list_closed ns st : closed st -> closed (save_list sch ns st).
  Proof. unfold save_list. apply fold_inv. intros; now apply save_closed. Qed.

  (* ---------------------------------------------------------------- (6) every record is the flattening of a sub-node *)
  Definition good (U : node) (st : store) : Prop :=
    forall c f, In f (st c) -> exists m, sub m U /\ m <> U /\ ncls m = c /\ f = flat_of sch m.

  Lemma good_empty U : good U empty_store.
  Proof. intros c f []. Qed.

  Lemma good_ins U c n st : good U st -> sub n U -> n <> U -> ncls n = c -> good U (ins c (flat_of sch n) st).
  Proof.
    intros Hg Hs Hne Hc x g Hin. unfold ins in Hin. destruct (Nat.eq_dec x c) as [->|Hx].
    - rewrite upd_same in Hin. apply in_assign in Hin. destruct Hin as [->|Hin]; [eauto|]. now apply Hg.
    - rewrite upd_other in Hin by assumption. now apply Hg.
  Qed.

  Lemma save_good U n : forall st, sub n U -> n <> U -> good U st -> good U (save_node sch n st).
  Proof.
    induction n as [c k s kids IH] using node_ind'. intros st Hs Hne Hg. rewrite save_node_eq.
    destruct (memk k (st c)); [exact Hg|]. apply good_ins; [|exact Hs|exact Hne|reflexivity].
    unfold save_kids. apply fold_inv; [|exact Hg].
    intros ns st' Hns Hg'. unfold save_list. apply fold_inv; [|exact Hg'].
    intros n' st'' Hn' Hg''. rewrite Forall_forall in IH. specialize (IH ns Hns). rewrite Forall_forall in IH.
    apply IH; [exact Hn'| | |exact Hg''].
    - eapply sub_trans; [|exact Hs]. eapply sub_kid1; eauto.
    - intros ->. pose proof (sub_kid_size _ c k s kids ns _ Hns Hn' (sub_refl _)) as Hlt.
      destruct (sub_size _ _ Hs) as [E|Hlt']; [congruence|lia].
  Qed.

  (* ---------------------------------------------------------------- (7) same-table references point backwards *)
  Definition consistent (U : node) : Prop := forall a b, sub a U -> sub b U -> nref a = nref b -> a = b.

  Definition ordered (st : store) : Prop :=
    forall c l1 f l2, st c = l1 ++ f :: l2 -> forall k', In (c, k') (concat (fkids f)) -> In k' (keys l1).

  Lemma ordered_empty : ordered empty_store.
  Proof. intros c l1 f l2 H. destruct l1; discriminate. Qed.

  Lemma app_eq_snoc {A} (l1 l2 t : list A) (f g : A) :
    l1 ++ f :: l2 = t ++ [g] -> (l2 = [] /\ l1 = t /\ f = g) \/ (exists l2', l2 = l2' ++ [g] /\ t = l1 ++ f :: l2').
  Proof.
    revert l2 f. pattern t. revert l1. induction t as [|a t IH] using rev_ind; intros l1 l2 f H.
    - destruct l1; cbn in H.
      + inversion H; subst. left. auto.
      + inversion H. destruct l1; discriminate.
    - destruct l2 as [|b l2'] using rev_ind.
      + apply app_inj_tail in H. destruct H as [-> ->]. left; auto.
      + clear IHl2'. right. rewrite app_comm_cons, app_assoc in H. apply app_inj_tail in H. destruct H as [H ->].
        exists l2'. split; [reflexivity|]. now rewrite <- H.
  Qed.

  Lemma save_ordered U n : forall st, consistent U -> sub n U -> ordered st -> ordered (save_node sch n st).
  Proof.
    induction n as [c k s kids IH] using node_ind'. intros st HU Hs Ho. rewrite save_node_eq.
    destruct (memk k (st c)) eqn:Emem; [exact Ho|].
    set (st' := save_kids sch kids st).
    assert (Ho' : ordered st').
    { unfold st', save_kids. apply fold_inv; [|exact Ho].
      intros ns st1 Hns Ho1. unfold save_list. apply fold_inv; [|exact Ho1].
      intros n' st2 Hn' Ho2. rewrite Forall_forall in IH. specialize (IH ns Hns). rewrite Forall_forall in IH.
      apply IH; [exact Hn'|exact HU| |exact Ho2]. eapply sub_trans; [|exact Hs]. eapply sub_kid1; eauto. }
    (* the node's own key is still absent after its children were saved *)
    assert (Habs : ~ In k (keys (st' c))).
    { intros Hin. apply memk_notin in Emem.
      assert (Hon : only (fun r => exists m ns n', In ns kids /\ In n' ns /\ sub m n' /\ nref m = r) st st').
      { unfold st'. apply save_kids_only. intros ns n' m Hns Hn' Hm. eauto 8. }
      destruct (Hon (c, k) Hin) as [Hp|[m [ns [n' [Hns [Hn' [Hm Hr]]]]]]]; [exact (Emem Hp)|].
      assert (Hmn : m = Node c k s kids).
      { apply HU; [eapply sub_trans; [|exact Hs]; eapply sub_kid; eauto|exact Hs|exact Hr]. }
      pose proof (sub_kid_size m c k s kids ns n' Hns Hn' Hm) as Hlt. rewrite Hmn in Hlt. lia. }
    intros x l1 f l2 Hsplit k' Hk'. unfold ins in Hsplit. destruct (Nat.eq_dec x c) as [->|Hx].
    - rewrite upd_same in Hsplit. rewrite assign_absent in Hsplit by exact Habs.
      symmetry in Hsplit. apply app_eq_snoc in Hsplit. destruct Hsplit as [[-> [-> ->]]|[l2' [-> Ht]]].
      + cbn in Hk'. apply in_concat_map_nref in Hk'. destruct Hk' as [ns [n' [Hns [Hn' E]]]].
        pose proof (save_kids_self kids st ns n' Hns Hn') as Hp. rewrite <- E in Hp. exact Hp.
      + eapply Ho'; eauto.
    - rewrite upd_other in Hsplit by assumption. eapply Ho'; eauto.
  Qed.

  Lemma save_list_ordered U ns st : consistent U -> (forall n, In n ns -> sub n U) -> ordered st -> ordered (save_list sch ns st).
  Proof.
    intros HU Hs. unfold save_list. apply fold_inv. intros n st' Hn Ho. eapply save_ordered; eauto.
  Qed.

  Lemma save_list_good U ns st : (forall n, In n ns -> sub n U /\ n <> U) -> good U st -> good U (save_list sch ns st).
  Proof.
    intros Hs. unfold save_list. apply fold_inv. intros n st' Hn Hg. destruct (Hs n Hn). now apply save_good.
  Qed.
End Save.
