(* Aoef/Schema.v — GENERATED on every run by harness/aoef.py (gen_schema_v) from the schema table there and from the
   extraction of /repo/src/soundevent/io/aoef/*.py by harness/aoef_extract.py (masks, steps, load orders); do not edit.
   One row per adapter: scalar fields written / read, reference fields (target class, cardinality) in the
   evaluation order of assemble_aoef; one row per collection adapter: conversion / snapshot steps in evaluation
   order and the re-registration order of to_soundevent (inline pseudo-tables placed after users and tags). *)
From Coq Require Import List Bool Arith.
From SE Require Import Aoef.Model.
Import ListNotations.

Definition cUser : cls := 0.
Definition cTag : cls := 1.
Definition cNote : cls := 2.
Definition cRecording : cls := 3.
Definition cClip : cls := 4.
Definition cSoundEvent : cls := 5.
Definition cSequence : cls := 6.
Definition cSoundEventAnnotation : cls := 7.
Definition cSequenceAnnotation : cls := 8.
Definition cClipAnnotation : cls := 9.
Definition cPredictedTag : cls := 10.
Definition cSoundEventPrediction : cls := 11.
Definition cSequencePrediction : cls := 12.
Definition cClipPrediction : cls := 13.
Definition cStatusBadge : cls := 14.
Definition cAnnotationTask : cls := 15.
Definition cMatch : cls := 16.
Definition cClipEvaluation : cls := 17.
Definition cRecordingSet : cls := 18.
Definition cDataset : cls := 19.
Definition cAnnotationSet : cls := 20.
Definition cAnnotationProject : cls := 21.
Definition cEvaluationSet : cls := 22.
Definition cPredictionSet : cls := 23.
Definition cModelRun : cls := 24.
Definition cEvaluation : cls := 25.
Definition ncls_tables : nat := 18.
Definition inline_classes : list cls := [cNote; cPredictedTag; cStatusBadge].

Definition cur_wr (c : cls) :=
  match c with
  | 0 => [true; true; true; true]
  | 1 => [true; true]
  | 2 => [true; true; true]
  | 3 => [true; true; true; true; true; true; true; true; true; true; true; true; true]
  | 4 => [true; true; true]
  | 5 => [true; true]
  | 6 => [true]
  | 7 => [true]
  | 8 => [true]
  | 9 => [true]
  | 10 => [true]
  | 11 => [true]
  | 12 => [true]
  | 13 => [true]
  | 14 => [true; true]
  | 15 => [true]
  | 16 => [true; true; true]
  | 17 => [true; true]
  | 18 => [true]
  | 19 => [true; true; true]
  | 20 => [true]
  | 21 => [true; true; true; true]
  | 22 => [true; true; true]
  | 23 => [true]
  | 24 => [true; true; true; true]
  | 25 => [true; true; true; true]
  | _ => []
  end.

Definition cur_rd (c : cls) :=
  match c with
  | 0 => [true; true; true; true]
  | 1 => [true; true]
  | 2 => [true; true; true]
  | 3 => [true; true; true; true; true; true; true; true; true; true; true; true; true]
  | 4 => [true; true; true]
  | 5 => [true; true]
  | 6 => [true]
  | 7 => [true]
  | 8 => [true]
  | 9 => [true]
  | 10 => [true]
  | 11 => [true]
  | 12 => [true]
  | 13 => [true]
  | 14 => [true; true]
  | 15 => [true]
  | 16 => [true; true; true]
  | 17 => [true; true]
  | 18 => [true]
  | 19 => [true; true; true]
  | 20 => [true]
  | 21 => [true; true; true; true]
  | 22 => [true; true; true]
  | 23 => [true]
  | 24 => [true; true; true; true]
  | 25 => [true; true; true; true]
  | _ => []
  end.

Definition cur_kidcls (c : cls) :=
  match c with
  | 0 => []
  | 1 => []
  | 2 => [cUser]
  | 3 => [cTag; cNote; cUser]
  | 4 => [cRecording]
  | 5 => [cRecording]
  | 6 => [cSequence; cSoundEvent]
  | 7 => [cSoundEvent; cNote; cTag; cUser]
  | 8 => [cSequence; cNote; cTag; cUser]
  | 9 => [cClip; cTag; cSoundEventAnnotation; cSequenceAnnotation; cNote]
  | 10 => [cTag]
  | 11 => [cSoundEvent; cPredictedTag]
  | 12 => [cSequence; cPredictedTag]
  | 13 => [cClip; cSoundEventPrediction; cSequencePrediction; cPredictedTag]
  | 14 => [cUser]
  | 15 => [cStatusBadge; cClip]
  | 16 => [cSoundEventPrediction; cSoundEventAnnotation]
  | 17 => [cClipAnnotation; cClipPrediction; cMatch]
  | 18 => [cRecording]
  | 19 => [cRecording]
  | 20 => [cClipAnnotation]
  | 21 => [cAnnotationTask; cTag; cClipAnnotation]
  | 22 => [cClipAnnotation; cTag]
  | 23 => [cClipPrediction]
  | 24 => [cClipPrediction]
  | 25 => [cClipEvaluation]
  | _ => []
  end.

Definition cur_kidcard (c : cls) :=
  match c with
  | 0 => []
  | 1 => []
  | 2 => [Opt]
  | 3 => [Many; Many; Many]
  | 4 => [One]
  | 5 => [One]
  | 6 => [Opt; Many]
  | 7 => [One; Many; Many; Opt]
  | 8 => [One; Many; Many; Opt]
  | 9 => [One; Many; Many; Many; Many]
  | 10 => [One]
  | 11 => [One; Many]
  | 12 => [One; Many]
  | 13 => [One; Many; Many; Many]
  | 14 => [Opt]
  | 15 => [Many; One]
  | 16 => [Opt; Opt]
  | 17 => [One; One; Many]
  | 18 => [Many]
  | 19 => [Many]
  | 20 => [Many]
  | 21 => [Many; Many; Many]
  | 22 => [Many; Many]
  | 23 => [Many]
  | 24 => [Many]
  | 25 => [Many]
  | _ => []
  end.

Definition current : schema := Schema cur_wr cur_rd cur_kidcls cur_kidcard.

Definition root_RecordingSet : root_desc := Root cRecordingSet [Conv 0; Snap cRecording; Snap cTag; Snap cUser; Snap cNote; Snap cPredictedTag; Snap cStatusBadge] [cTag; cUser; cNote; cPredictedTag; cStatusBadge; cRecording].
Definition root_Dataset : root_desc := Root cDataset [Conv 0; Snap cRecording; Snap cTag; Snap cUser; Snap cNote; Snap cPredictedTag; Snap cStatusBadge] [cTag; cUser; cNote; cPredictedTag; cStatusBadge; cRecording].
Definition root_AnnotationSet : root_desc := Root cAnnotationSet [Conv 0; Snap cClipAnnotation; Snap cClip; Snap cRecording; Snap cSequenceAnnotation; Snap cSequence; Snap cSoundEventAnnotation; Snap cSoundEvent; Snap cTag; Snap cUser; Snap cNote; Snap cPredictedTag; Snap cStatusBadge] [cUser; cTag; cNote; cPredictedTag; cStatusBadge; cRecording; cClip; cSoundEvent; cSequence; cSoundEventAnnotation; cSequenceAnnotation; cClipAnnotation].
Definition root_AnnotationProject : root_desc := Root cAnnotationProject [Conv 0; Snap cAnnotationTask; Conv 1; Conv 2; Snap cClipAnnotation; Snap cClip; Snap cRecording; Snap cSequenceAnnotation; Snap cSequence; Snap cSoundEventAnnotation; Snap cSoundEvent; Snap cTag; Snap cUser; Snap cNote; Snap cPredictedTag; Snap cStatusBadge] [cUser; cTag; cNote; cPredictedTag; cStatusBadge; cRecording; cClip; cSoundEvent; cSequence; cSoundEventAnnotation; cSequenceAnnotation; cClipAnnotation; cAnnotationTask].
Definition root_EvaluationSet : root_desc := Root cEvaluationSet [Conv 0; Snap cClipAnnotation; Conv 1; Snap cClip; Snap cRecording; Snap cSequenceAnnotation; Snap cSequence; Snap cSoundEventAnnotation; Snap cSoundEvent; Snap cTag; Snap cUser; Snap cNote; Snap cPredictedTag; Snap cStatusBadge] [cUser; cTag; cNote; cPredictedTag; cStatusBadge; cRecording; cClip; cSoundEvent; cSequence; cSoundEventAnnotation; cSequenceAnnotation; cClipAnnotation].
Definition root_PredictionSet : root_desc := Root cPredictionSet [Conv 0; Snap cClipPrediction; Snap cClip; Snap cRecording; Snap cSequencePrediction; Snap cSequence; Snap cSoundEventPrediction; Snap cSoundEvent; Snap cTag; Snap cUser; Snap cNote; Snap cPredictedTag; Snap cStatusBadge] [cTag; cUser; cNote; cPredictedTag; cStatusBadge; cRecording; cSoundEvent; cSequence; cClip; cSoundEventPrediction; cSequencePrediction; cClipPrediction].
Definition root_ModelRun : root_desc := Root cModelRun [Conv 0; Snap cClipPrediction; Snap cClip; Snap cRecording; Snap cSequencePrediction; Snap cSequence; Snap cSoundEventPrediction; Snap cSoundEvent; Snap cTag; Snap cUser; Snap cNote; Snap cPredictedTag; Snap cStatusBadge] [cTag; cUser; cNote; cPredictedTag; cStatusBadge; cRecording; cSoundEvent; cSequence; cClip; cSoundEventPrediction; cSequencePrediction; cClipPrediction].
Definition root_Evaluation : root_desc := Root cEvaluation [Conv 0; Snap cClipAnnotation; Snap cClipEvaluation; Snap cClipPrediction; Snap cClip; Snap cMatch; Snap cRecording; Snap cSequenceAnnotation; Snap cSequencePrediction; Snap cSequence; Snap cSoundEventAnnotation; Snap cSoundEventPrediction; Snap cSoundEvent; Snap cTag; Snap cUser; Snap cNote; Snap cPredictedTag; Snap cStatusBadge] [cUser; cTag; cNote; cPredictedTag; cStatusBadge; cRecording; cSoundEvent; cSequence; cClip; cSoundEventAnnotation; cSequenceAnnotation; cClipAnnotation; cSoundEventPrediction; cSequencePrediction; cClipPrediction; cMatch; cClipEvaluation].

Definition roots : list root_desc := [root_RecordingSet; root_Dataset; root_AnnotationSet; root_AnnotationProject; root_EvaluationSet; root_PredictionSet; root_ModelRun; root_Evaluation].

Definition adapters_order : list cls := [cEvaluation; cDataset; cAnnotationProject; cEvaluationSet; cModelRun; cAnnotationSet; cPredictionSet; cRecordingSet].
Definition collection_parent (c : cls) : option cls :=
  match c with
  | 19 => Some cRecordingSet
  | 21 => Some cAnnotationSet
  | 22 => Some cAnnotationSet
  | 24 => Some cPredictionSet
  | _ => None
  end.
