(* Aoef/AuditProofs.v — the boolean audit closedb, run by the harness on every real document, is sound. *)
From Coq Require Import ZArith List Bool Arith Lia.
From SE Require Import Aoef.Model.
Import ListNotations.

Lemma nodupb_sound l : nodupb l = true -> NoDup l.
Proof.
  induction l as [|k r IH]; cbn; intros H; [constructor|]. apply andb_true_iff in H. destruct H as [Hk Hr].
  constructor; [|now apply IH]. intros Hin. apply negb_true_iff in Hk.
  assert (existsb (Z.eqb k) r = true) as E; [|congruence].
  apply existsb_exists. exists k. split; [exact Hin|apply Z.eqb_refl].
Qed.

Lemma backwards_sound c t : forall seen, backwards c seen t = true ->
  forall l1 f l2, t = l1 ++ f :: l2 -> forall k', In (c, k') (concat (fkids f)) -> In k' (seen ++ map fkey l1).
Proof.
  induction t as [|g r IH]; intros seen H l1 f l2 Hsplit k' Hk'; [destruct l1; discriminate|].
  cbn [backwards] in H. apply andb_true_iff in H. destruct H as [Hg Hr].
  destruct l1 as [|a l1']; cbn in Hsplit; inversion Hsplit; subst.
  - rewrite forallb_forall in Hg. specialize (Hg _ Hk'). cbn in Hg. rewrite Nat.eqb_refl in Hg. cbn in Hg.
    apply existsb_exists in Hg. destruct Hg as [x [Hx E]]. apply Z.eqb_eq in E. subst x. rewrite app_nil_r. exact Hx.
  - specialize (IH (fkey a :: seen) Hr l1' f l2 eq_refl k' Hk'). cbn [map]. apply in_app_or in IH. apply in_or_app.
    destruct IH as [[<-|Hs]|Hl]; [right; now left|now left|right; now right].
Qed.

Theorem closedb_sound d : closedb d = true ->
  (forall r, In r (doc_refs d) -> defined_in d r = 1)
  /\ (forall c t, In (c, t) (fst d) -> NoDup (map fkey t)
      /\ forall l1 f l2, t = l1 ++ f :: l2 -> forall k', In (c, k') (concat (fkids f)) -> In k' (map fkey l1)).
Proof.
  unfold closedb. intros H. apply andb_true_iff in H. destruct H as [H1 H2]. split.
  - intros r Hr. rewrite forallb_forall in H1. apply Nat.eqb_eq. now apply H1.
  - intros c t Hct. rewrite forallb_forall in H2. specialize (H2 _ Hct). cbn in H2.
    apply andb_true_iff in H2. destruct H2 as [Hn Hb]. split; [now apply nodupb_sound|].
    intros l1 f l2 Hs k' Hk'. apply (backwards_sound c t [] Hb l1 f l2 Hs k' Hk').
Qed.
