(* Aoef/Typing.v — executable side conditions: typing of a node against a schema, consistency of shared
   sub-objects (the quantifier's "objects with the same identifier are the same object"), and the boolean check
   schema_okb that ties the generic theorems to one collection adapter. *)
From Coq Require Import ZArith List Bool Arith.
From SE Require Import Aoef.Model.
Import ListNotations.

(* all sub-nodes, the node itself first *)
Fixpoint subs (n : node) : list node :=
  match n with
  | Node _ _ _ kids => n :: flat_map (fun ns => flat_map subs ns) kids
  end.

Definition memc (c : cls) (l : list cls) : bool := existsb (Nat.eqb c) l.

Definition card_okb (cd : card) (n : nat) : bool :=
  match cd with One => Nat.eqb n 1 | Opt => Nat.leb n 1 | Many => true end.

Fixpoint kids_okb (ks : list (list node)) (cs : list cls) (cds : list card) : bool :=
  match ks, cs, cds with
  | [], [], [] => true
  | ns :: ks', kc :: cs', cd :: cds' =>
      card_okb cd (length ns) && forallb (fun n' => Nat.eqb (ncls n') kc) ns && kids_okb ks' cs' cds'
  | _, _, _ => false
  end.

Definition local_typedb (sch : schema) (m : node) : bool :=
  kids_okb (nkids m) (kidcls sch (ncls m)) (kidcard sch (ncls m)).

Definition typedb (sch : schema) (U : node) : bool := forallb (local_typedb sch) (subs U).

(* objects with the same (class, identifier) are equal *)
Definition consistentb (U : node) : bool :=
  forallb (fun a => forallb (fun b => if ref_eqb (nref a) (nref b) then node_eqb a b else true) (subs U)) (subs U).

(* the collection's own lists hold each object once (C02 demands unique identifiers in them) *)
Definition root_nodupb (U : node) : bool := forallb (fun ns => nodupb (map nkey ns)) (nkids U).

Definition wfb (sch : schema) (rt : root_desc) (U : node) : bool :=
  Nat.eqb (ncls U) (rcls rt) && typedb sch U && consistentb U.

(* ------------------------------------------------------------------ schema check *)
Definition all_true (l : list bool) : bool := forallb (fun b => b) l.

Definition conv_idx (ss : list step) : list nat := flat_map (fun s => match s with Conv i => [i] | Snap _ => [] end) ss.
Definition snap_cls (ss : list step) : list cls := flat_map (fun s => match s with Snap c => [c] | Conv _ => [] end) ss.

(* classes reachable from a class through reference fields (a candidate set: closedness is checked, not assumed) *)
Fixpoint reach_fuel (sch : schema) (fuel : nat) (acc : list cls) : list cls :=
  match fuel with
  | 0 => acc
  | S f => reach_fuel sch f (acc ++ filter (fun c => negb (memc c acc)) (nodup Nat.eq_dec (flat_map (kidcls sch) acc)))
  end.
Definition reach (sch : schema) (c : cls) : list cls := reach_fuel sch 40 [c].
Definition closed_setb (sch : schema) (R : list cls) : bool :=
  forallb (fun c => forallb (fun kc => memc kc R) (kidcls sch c)) R.

(* converting root field i cannot register an object of class c *)
Definition untouchedb (sch : schema) (rc : cls) (i : nat) (c : cls) : bool :=
  match nth_error (kidcls sch rc) i with
  | None => true
  | Some kc => let R := reach sch kc in closed_setb sch R && memc kc R && negb (memc c R)
  end.

(* every top-level list is read from its adapter only after every conversion that can add to it *)
Fixpoint steps_okb (sch : schema) (rc : cls) (ss : list step) : bool :=
  match ss with
  | [] => true
  | Conv _ :: r => steps_okb sch rc r
  | Snap c :: r => forallb (fun i => untouchedb sch rc i c) (conv_idx r) && steps_okb sch rc r
  end.

(* re-registration order: each class after the classes it refers to (a class may refer to itself: sequences) *)
Fixpoint order_okb (sch : schema) (done todo : list cls) : bool :=
  match todo with
  | [] => true
  | c :: r => forallb (fun kc => Nat.eqb kc c || memc kc done) (kidcls sch c) && negb (memc c done)
              && order_okb sch (c :: done) r
  end.

(* closure part: what C02 needs *)
Definition closure_okb (sch : schema) (rt : root_desc) : bool :=
  steps_okb sch (rcls rt) (steps rt)
  && forallb (fun i => existsb (Nat.eqb i) (conv_idx (steps rt))) (seq 0 (length (kidcls sch (rcls rt))))
  && order_okb sch [] (load_order rt)
  && forallb (fun kc => memc kc (load_order rt)) (kidcls sch (rcls rt))
  && forallb (fun c => memc c (snap_cls (steps rt))) (load_order rt).

(* round-trip part: every scalar written and read *)
Definition schema_okb (sch : schema) (rt : root_desc) : bool :=
  closure_okb sch rt
  && forallb (fun c => all_true (wr sch c) && all_true (rd sch c)) (rcls rt :: load_order rt).
