(* Aoef/TagIds.v — tag ids are allocated densely (C02): TagAdapter.get_new_id returns len(self._mapping) at the first
   sight of a (label, value) key, so the id of a tag is its position in the order of first registration, which is the
   order of the tags table. *)
From Coq Require Import ZArith List Bool Arith Lia.
From SE Require Import Aoef.Model Aoef.SaveProofs Aoef.DocProofs.
Import ListNotations.

Fixpoint index_of (k : key) (l : list key) : nat :=
  match l with [] => 0 | x :: r => if Z.eqb x k then 0 else S (index_of k r) end.

(* the id written into the document for each row of the tags table *)
Definition tag_ids (t : table) : list nat := map (fun k => index_of k (map fkey t)) (map fkey t).

Lemma index_of_app_notin k l1 l2 : ~ In k l1 -> index_of k (l1 ++ l2) = length l1 + index_of k l2.
Proof.
  induction l1 as [|x r IH]; cbn; intros Hn; [reflexivity|].
  destruct (Z.eqb_spec x k) as [->|_]; [exfalso; apply Hn; now left|]. rewrite IH; [reflexivity|]. intros H; apply Hn; now right.
Qed.

Lemma index_of_seq_aux l : forall pre, NoDup (pre ++ l) ->
  map (fun k => index_of k (pre ++ l)) l = seq (length pre) (length l).
Proof.
  induction l as [|x r IH]; intros pre Hn; [reflexivity|]. cbn [map seq length]. f_equal.
  - rewrite index_of_app_notin.
    + cbn. rewrite Z.eqb_refl. lia.
    + apply NoDup_remove_2 in Hn. intros H. apply Hn. apply in_or_app. now left.
  - replace (pre ++ x :: r) with ((pre ++ [x]) ++ r) by (now rewrite <- app_assoc).
    rewrite IH; [now rewrite app_length, Nat.add_1_r|]. now rewrite <- app_assoc.
Qed.

(* dense: the ids of a table with distinct keys are 0, 1, ..., n-1 in order *)
Theorem tag_ids_dense t : NoDup (map fkey t) -> tag_ids t = seq 0 (length t).
Proof. intros Hn. unfold tag_ids. pose proof (index_of_seq_aux (map fkey t) [] Hn) as E. cbn [app length] in E. rewrite E. now rewrite map_length. Qed.

(* for the document written by any collection adapter, any schema, any object *)
Theorem doc_tag_ids_dense sch rt U c :
  tag_ids (get_table c (fst (save_root sch rt U))) = seq 0 (length (get_table c (fst (save_root sch rt U)))).
Proof. apply tag_ids_dense. apply doc_ids_unique. Qed.
