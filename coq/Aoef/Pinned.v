(* Aoef/Pinned.v — the three rows of the schema as the PINNED tree had them (before the fix: commits recorded in
   /verif/known_findings.json), kept to show that the generic theorems do discriminate: on these rows the check
   schema_okb / closure_okb is false and a concrete object refutes the property (Props/C01.v, Props/C02.v). *)
From Coq Require Import ZArith List Bool Arith.
From SE Require Import Aoef.Model Aoef.Schema Aoef.Typing.
Import ListNotations.
Local Open Scope Z_scope.

(* RecordingObject had no `license` field: scalar 10 of a recording neither written nor read *)
Definition pinned_license : schema :=
  Schema (fun c => if Nat.eqb c cRecording then [true; true; true; true; true; true; true; true; true; true; false; true; true] else cur_wr c)
         (fun c => if Nat.eqb c cRecording then [true; true; true; true; true; true; true; true; true; true; false; true; true] else cur_rd c)
         cur_kidcls cur_kidcard.

(* PredictionSetAdapter.to_aoef did not emit sequences / sequence_predictions *)
Definition pinned_PredictionSet : root_desc :=
  Root cPredictionSet
       [Conv 0%nat; Snap cClipPrediction; Snap cUser; Snap cTag; Snap cRecording; Snap cClip; Snap cSoundEvent;
        Snap cSoundEventPrediction; Snap cNote; Snap cPredictedTag; Snap cStatusBadge]
       (load_order root_PredictionSet).

(* EvaluationSetAdapter.to_aoef read tags=self.tag_adapter.values() before converting evaluation_tags *)
Definition pinned_EvaluationSet : root_desc :=
  Root cEvaluationSet
       [Conv 0%nat; Snap cClipAnnotation; Snap cUser; Snap cTag; Snap cRecording; Snap cSoundEvent; Snap cSequence; Snap cClip;
        Snap cSoundEventAnnotation; Snap cSequenceAnnotation; Conv 1%nat; Snap cNote; Snap cPredictedTag; Snap cStatusBadge]
       (load_order root_EvaluationSet).

(* witnesses *)
Definition w_rec : node := Node cRecording 30 [5; 6; 7; 8; 0; 0; 0; 0; 0; 0; 9; 0; 0] [[]; []; []].
Definition w_recording_set : node := Node cRecordingSet 100 [1] [[w_rec]].

Definition w_clip : node := Node cClip 40 [3; 4; 0] [[w_rec]].
Definition w_se : node := Node cSoundEvent 50 [11; 0] [[w_rec]].
Definition w_parent : node := Node cSequence 60 [0] [[]; [w_se]].
Definition w_seq : node := Node cSequence 61 [0] [[w_parent]; [w_se]].
Definition w_seqp : node := Node cSequencePrediction 70 [12] [[w_seq]; []].
Definition w_clip_pred : node := Node cClipPrediction 80 [0] [[w_clip]; []; [w_seqp]; []].
Definition w_prediction_set : node := Node cPredictionSet 101 [1] [[w_clip_pred]].

Definition w_tag : node := Node cTag 20 [13; 14] [].
Definition w_evaluation_set : node := Node cEvaluationSet 102 [1; 2; 0] [[]; [w_tag]].

(* an annotation set with a sequence below a parent, shared sound event and recording (non-vacuity of wfb) *)
Definition w_seqa : node := Node cSequenceAnnotation 81 [10] [[w_seq]; []; [w_tag]; []].
Definition w_clip_ann : node := Node cClipAnnotation 90 [2] [[w_clip]; [w_tag]; []; [w_seqa]; []].
Definition w_annotation_set : node := Node cAnnotationSet 103 [1] [[w_clip_ann]].
