(* Aoef/LoadProofs.v — load_root (save_root c) = Some c  (C01), for every schema that passes schema_okb. *)
From Coq Require Import ZArith List Bool Arith Lia.
From SE Require Import Aoef.Model Aoef.Typing Aoef.SaveProofs Aoef.RootProofs Aoef.DocProofs.
Import ListNotations.

Lemma mask_all_true m s : all_true m = true -> mask m s = s.
Proof.
  revert m. induction s as [|t s IH]; intros m H; [reflexivity|]. destruct m as [|b m']; [reflexivity|].
  cbn in H. apply andb_true_iff in H. destruct H as [-> H]. cbn [mask]. f_equal. now apply IH.
Qed.

Lemma assoc_nodup k n (l : list (key * node)) : NoDup (map fst l) -> In (k, n) l -> assoc k l = Some n.
Proof.
  induction l as [|[k' n'] r IH]; cbn; [tauto|]. intros Hn Hin. inversion Hn as [|? ? Hnk Hr]; subst.
  destruct Hin as [E|Hin].
  - inversion E; subst. now rewrite Z.eqb_refl.
  - destruct (Z.eqb_spec k' k) as [->|_]; [|now apply IH].
    exfalso. apply Hnk. apply in_map_iff. exists (k, n). split; [reflexivity|exact Hin].
Qed.

Lemma assoc_none k (l : list (key * node)) : ~ In k (map fst l) -> assoc k l = None.
Proof.
  induction l as [|[k' n'] r IH]; cbn; [reflexivity|]. intros Hn.
  destruct (Z.eqb_spec k' k) as [->|_]; [exfalso; apply Hn; now left|]. apply IH. intros H. apply Hn. now right.
Qed.

Lemma NoDup_app_l {A} (l1 l2 : list A) : NoDup (l1 ++ l2) -> NoDup l1.
Proof.
  induction l1 as [|a r IH]; cbn; intros H; [constructor|]. inversion H as [|? ? Hn Hr]; subst. constructor.
  - intros Hin. apply Hn. apply in_or_app. now left.
  - now apply IH.
Qed.

Section Load.
  Variable sch : schema.
  Variable rt : root_desc.
  Variable U : node.
  Hypothesis Hcls : ncls U = rcls rt.
  Hypothesis Hty : typed sch U.
  Hypothesis HU : consistent U.
  Hypothesis Hok : schema_okb sch rt = true.

  Let Hclo : closure_okb sch rt = true.
  Proof. unfold schema_okb in Hok. apply andb_true_iff in Hok. tauto. Qed.

  Let Hmasks : forall c, c = rcls rt \/ In c (load_order rt) -> all_true (wr sch c) = true /\ all_true (rd sch c) = true.
  Proof.
    unfold schema_okb in Hok. apply andb_true_iff in Hok. destruct Hok as [_ H]. rewrite forallb_forall in H.
    intros c Hc. apply andb_true_iff. apply H. destruct Hc as [->|Hc]; [now left|now right].
  Qed.

  Notation st := (final sch rt U).

  (* what has been re-registered for table t of class c: exactly the original objects, in order *)
  Definition lok (ls : lstore) (c : cls) (t : table) : Prop :=
    Forall2 (fun e f => fst e = fkey f /\ f = flat_of sch (snd e) /\ sub (snd e) U /\ snd e <> U /\ ncls (snd e) = c) (ls c) t.

  Lemma lok_keys ls c t : lok ls c t -> map fst (ls c) = map fkey t.
  Proof. unfold lok. induction 1 as [|e f l t' [E _] _ IH]; cbn; [reflexivity|]. now rewrite E, IH. Qed.

  Lemma lok_in ls c t f : lok ls c t -> In f t ->
    exists m, In (fkey f, m) (ls c) /\ f = flat_of sch m /\ sub m U /\ m <> U /\ ncls m = c.
  Proof.
    unfold lok. induction 1 as [|e g l t' [E [Ef [Hs [Hne Hc]]]] _ IH]; [intros []|]. intros [<-|Hin].
    - exists (snd e). split; [left; destruct e; cbn in *; now subst|auto].
    - destruct (IH Hin) as [m [Hm Hr]]. exists m. split; [now right|exact Hr].
  Qed.

  (* a reference to an object of an already re-registered table resolves to that very object *)
  Lemma resolve_ok ls t n' :
    lok ls (ncls n') t -> NoDup (map fkey t) -> In (nkey n') (map fkey t) -> sub n' U -> resolve ls (nref n') = Some n'.
  Proof.
    intros Hl Hn Hin Hs. unfold resolve, nref; cbn. apply in_map_iff in Hin. destruct Hin as [f [Ek Hf]].
    destruct (lok_in _ _ _ _ Hl Hf) as [m [Hm [Ef [Hms [_ Hmc]]]]].
    assert (m = n') as ->.
    { apply HU; [exact Hms|exact Hs|]. unfold nref. rewrite Hmc. f_equal. rewrite Ef in Ek. cbn in Ek. exact Ek. }
    apply assoc_nodup; [rewrite (lok_keys _ _ _ Hl); exact Hn|]. now rewrite <- Ek.
  Qed.

  Lemma resolve_all_ok ls ns : (forall n', In n' ns -> resolve ls (nref n') = Some n') -> resolve_all ls (map nref ns) = ns.
  Proof.
    induction ns as [|n r IH]; cbn [map resolve_all]; intros H; [reflexivity|].
    rewrite (H n) by now left. f_equal. apply IH. intros n' Hn'. apply H. now right.
  Qed.

  Lemma load_kids_ok ls kids : forall cs cds, kids_okb kids cs cds = true ->
    (forall ns n', In ns kids -> In n' ns -> resolve ls (nref n') = Some n') ->
    load_kids ls cds (map (map nref) kids) = Some kids.
  Proof.
    induction kids as [|ns r IH]; intros cs cds Hk Hres; [reflexivity|].
    destruct cs as [|kc cs']; [discriminate|]. destruct cds as [|cd cds']; [discriminate|].
    cbn [kids_okb] in Hk. rewrite !andb_true_iff in Hk. destruct Hk as [[Hcard _] Hr].
    cbn [map load_kids tl]. rewrite resolve_all_ok by (intros n' Hn'; apply (Hres ns); [now left|exact Hn']).
    rewrite (IH cs' cds' Hr) by (intros ns' n' Hns' Hn'; apply (Hres ns'); [now right|exact Hn']).
    destruct cd; try reflexivity. destruct ns; [discriminate Hcard|reflexivity].
  Qed.

  (* re-assembling one record whose references all resolve gives back the object *)
  Lemma load_flat_ok ls m : sub m U -> (m = U \/ In (ncls m) (load_order rt)) ->
    (forall ns n', In ns (nkids m) -> In n' ns -> resolve ls (nref n') = Some n') ->
    load_flat sch ls (ncls m) (flat_of sch m) = Some m.
  Proof.
    intros Hs Hc Hres. unfold load_flat. cbn [flat_of fkids fscal fkey].
    pose proof (Hty m Hs) as Hk. unfold local_typedb in Hk.
    rewrite (load_kids_ok ls (nkids m) _ _ Hk Hres).
    destruct (Hmasks (ncls m)) as [Hw Hr]; [destruct Hc as [->|Hc]; [now left|now right]|].
    rewrite !mask_all_true by assumption. now destruct m.
  Qed.

  (* ---------------------------------------------------------------- one table *)
  Lemma load_table_ok c done : In c (load_order rt) ->
    (forall kc, In kc (kidcls sch c) -> kc = c \/ In kc done) -> ~ In c done ->
    forall l2 l1 ls, st c = l1 ++ l2 -> lok ls c l1 -> (forall c', In c' done -> lok ls c' (st c')) ->
    exists ls', load_table sch c l2 ls = Some ls' /\ lok ls' c (st c) /\ (forall c', c' <> c -> ls' c' = ls c').
  Proof.
    intros Hc Hkc Hnd. induction l2 as [|f l2 IH]; intros l1 ls Hsplit Hl Hdone.
    - exists ls. rewrite app_nil_r in Hsplit. rewrite Hsplit. cbn. auto.
    - cbn [load_table].
      pose proof (final_uniq sch rt U c) as Hu. rewrite Hsplit in Hu.
      assert (Hf : In f (st c)) by (rewrite Hsplit; apply in_or_app; right; now left).
      destruct (final_good sch rt U Hcls Hty c f Hf) as [m [Hms [Hmne [Hmc Ef]]]].
      rewrite assoc_none.
      2:{ rewrite (lok_keys _ _ _ Hl). rewrite map_app in Hu. apply NoDup_remove_2 in Hu.
          intros Hin. apply Hu. apply in_or_app. now left. }
      assert (Hload : load_flat sch ls c f = Some m).
      { rewrite Ef, <- Hmc. apply load_flat_ok; [exact Hms|right; now rewrite Hmc|].
        intros ns n' Hns Hn'.
        assert (Hsn : sub n' U). { eapply sub_trans; [|exact Hms]. destruct m. eapply sub_kid1; eauto. }
        assert (Hpn : pres st (nref n')).
        { eapply final_closed; [exact Hf|]. rewrite Ef. cbn. apply in_concat. exists (map nref ns).
          split; [now apply in_map|now apply in_map]. }
        assert (Hcn : In (ncls n') (kidcls sch c)).
        { rewrite <- Hmc. destruct m as [c0 k0 s0 kids0]. eapply typed_kid_cls; [eapply typed_sub; eauto|exact Hns|exact Hn']. }
        destruct (Hkc _ Hcn) as [E|Hd].
        - (* same table: the parent was listed earlier *)
          apply (resolve_ok ls l1); [rewrite E; exact Hl| | |exact Hsn].
          + rewrite map_app in Hu. now apply NoDup_app_l in Hu.
          + apply (final_ordered sch rt U Hcls Hty HU c l1 f l2 Hsplit).
            rewrite Ef. cbn. apply in_concat. exists (map nref ns). split; [now apply in_map|].
            apply in_map_iff. exists n'. split; [|exact Hn']. unfold nref. now rewrite E.
        - apply (resolve_ok ls (st (ncls n'))); [now apply Hdone|apply final_uniq|exact Hpn|exact Hsn]. }
      rewrite Hload.
      destruct (IH (l1 ++ [f]) (upd ls c (ls c ++ [(fkey f, m)]))) as [ls' [H1 [H2 H3]]].
      + now rewrite <- app_assoc.
      + unfold lok. rewrite upd_same. apply Forall2_app; [exact Hl|]. constructor; [|constructor]. cbn. auto.
      + intros c' Hc'. unfold lok. rewrite upd_other; [now apply Hdone|]. intros ->. contradiction.
      + exists ls'. split; [exact H1|]. split; [exact H2|]. intros c' Hne. rewrite H3 by exact Hne. now apply upd_other.
  Qed.

  (* ---------------------------------------------------------------- all tables, in the adapter's order *)
  Lemma load_tables_ok : forall todo done ls, order_okb sch done todo = true ->
    (forall c, In c todo -> In c (load_order rt)) ->
    (forall c, In c done -> lok ls c (st c)) -> (forall c, ~ In c done -> ls c = []) ->
    exists ls', load_tables sch todo (fst (save_root sch rt U)) ls = Some ls' /\
                (forall c, In c (done ++ todo) -> lok ls' c (st c)).
  Proof.
    induction todo as [|c r IH]; intros done ls Ho Hlo Hdone Hrest.
    - exists ls. split; [reflexivity|]. intros c Hc. rewrite app_nil_r in Hc. now apply Hdone.
    - cbn [order_okb] in Ho. rewrite !andb_true_iff in Ho. destruct Ho as [[Hk Hnd] Hr].
      apply negb_true_iff in Hnd.
      assert (Hnd' : ~ In c done). { intros H. apply memc_in in H. congruence. }
      cbn [load_tables]. rewrite (doc_table_lo sch rt U Hcls Hty Hclo c) by (apply Hlo; now left).
      destruct (load_table_ok c done) with (l2 := st c) (l1 := @nil flat) (ls := ls) as [ls1 [H1 [H2 H3]]].
      + apply Hlo. now left.
      + intros kc Hkc. rewrite forallb_forall in Hk. specialize (Hk kc Hkc). apply orb_true_iff in Hk.
        destruct Hk as [E|E]; [left; now apply Nat.eqb_eq|right; now apply memc_in].
      + exact Hnd'.
      + reflexivity.
      + unfold lok. rewrite (Hrest c Hnd'). constructor.
      + exact Hdone.
      + rewrite H1. destruct (IH (c :: done) ls1 Hr) as [ls' [Hl1 Hl2]].
        * intros c' Hc'. apply Hlo. now right.
        * intros c' [<-|Hc']; [exact H2|]. unfold lok. rewrite H3; [now apply Hdone|]. intros ->. contradiction.
        * intros c' Hc'. rewrite H3; [apply Hrest|]; intros H; apply Hc'; [now right|now left].
        * exists ls'. split; [exact Hl1|]. intros c' Hc'. apply Hl2. apply in_app_or in Hc'. apply in_or_app.
          destruct Hc' as [Hd|[<-|Hr']]; [left; now right|left; now left|now right].
  Qed.

  (* ---------------------------------------------------------------- the round trip *)
  Theorem roundtrip : load_root sch rt (save_root sch rt U) = Some U.
  Proof.
    unfold load_root.
    assert (Horder : order_okb sch [] (load_order rt) = true).
    { unfold closure_okb in Hclo. rewrite !andb_true_iff in Hclo. tauto. }
    destruct (load_tables_ok (load_order rt) [] empty_lstore Horder) as [ls' [H1 H2]]; [auto|intros c []|reflexivity|].
    rewrite H1.
    assert (Hsteps : steps_okb sch (rcls rt) (steps rt) = true).
    { unfold closure_okb in Hclo. rewrite !andb_true_iff in Hclo. tauto. }
    rewrite (save_root_eq sch rt U Hcls Hty Hsteps). cbn [snd]. rewrite <- Hcls.
    apply load_flat_ok; [apply sub_refl|now left|].
    intros ns n' Hns Hn'.
    assert (Hc : In (ncls n') (load_order rt)) by (eapply (root_kid_cls_lo sch rt U); eauto).
    apply (resolve_ok ls' (st (ncls n'))); [apply H2; exact Hc|apply final_uniq| |].
    - apply (final_root_kids sch rt U Hcls Hty Hclo ns n' Hns Hn').
    - destruct U. eapply sub_kid1; eauto.
  Qed.
End Load.
