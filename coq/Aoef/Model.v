(* Aoef/Model.v — generic, schema-driven model of soundevent.io.aoef (C01, C02).

   Code modelled:  adapters.py DataAdapter.to_aoef / get_id / to_soundevent / from_id / values, the
   assemble_aoef / assemble_soundevent of the 17 object adapters and the to_aoef / to_soundevent of the 8
   collection adapters.  The reading of each adapter (which fields are scalars, which are references, in which
   order the nested conversions are evaluated, which top-level lists are emitted, when, and in which order they
   are re-registered on load) lives in Aoef/Schema.v; this file is the part that is the same for all of them.

   Data objects are nested values, as in pydantic:  Node class key scalars kids.  Sharing = equal (class, key).
   Scalars are opaque tokens (the harness interns the real values; the permitted reduction term -> label is part
   of the interning, geometry is one token: its own round trip is C03's).  kids holds one list per reference
   field (optional field = list of length <= 1), in the evaluation order of that adapter's assemble_aoef.
   Inline objects (notes, status badges, predicted tags) are treated as one more table each (not a JSON list of
   its own: the harness gathers them from where they are embedded); since they are re-assembled at every
   occurrence and their own references go through the registering adapters, this yields the same registrations. *)
From Coq Require Import ZArith List Bool Arith.
Import ListNotations.

Definition cls := nat.
Definition key := Z.
Definition tok := Z.
Definition ref := (cls * key)%type.

Inductive node := Node (c : cls) (k : key) (s : list tok) (kids : list (list node)).

Definition ncls (n : node) : cls := match n with Node c _ _ _ => c end.
Definition nkey (n : node) : key := match n with Node _ k _ _ => k end.
Definition nscal (n : node) : list tok := match n with Node _ _ s _ => s end.
Definition nkids (n : node) : list (list node) := match n with Node _ _ _ ks => ks end.
Definition nref (n : node) : ref := (ncls n, nkey n).

Record flat := Flat { fkey : key; fscal : list tok; fkids : list (list ref) }.
Definition table := list flat.
Definition store := cls -> table.
Definition empty_store : store := fun _ => [].
Definition upd {A} (f : cls -> A) (c : cls) (v : A) : cls -> A := fun c' => if Nat.eqb c' c then v else f c'.

(* ------------------------------------------------------------------ scalar masks *)
(* a field the adapter does not write (read) comes back as the default token 0 *)
Fixpoint mask (m : list bool) (s : list tok) {struct s} : list tok :=
  match s with
  | [] => []
  | t :: s' => match m with
               | [] => t :: s'
               | b :: m' => (if b then t else 0%Z) :: mask m' s'
               end
  end.

(* ------------------------------------------------------------------ tables *)
Fixpoint memk (k : key) (t : table) : bool :=
  match t with [] => false | f :: r => Z.eqb (fkey f) k || memk k r end.

(* python dict assignment: replace in place if the key exists, else append *)
Fixpoint assign (f : flat) (t : table) : table :=
  match t with
  | [] => [f]
  | g :: r => if Z.eqb (fkey g) (fkey f) then f :: r else g :: assign f r
  end.

Definition present (st : store) (r : ref) : bool := memk (snd r) (st (fst r)).
Definition ins (c : cls) (f : flat) (st : store) : store := upd st c (assign f (st c)).

(* ------------------------------------------------------------------ schema *)
Inductive card := One | Opt | Many.
Inductive step := Conv (i : nat) | Snap (c : cls).

Record schema := Schema {
  wr : cls -> list bool;          (* scalar field written by assemble_aoef *)
  rd : cls -> list bool;          (* scalar field consumed by assemble_soundevent *)
  kidcls : cls -> list cls;       (* target class of each reference field *)
  kidcard : cls -> list card;     (* cardinality of each reference field *)
}.

Record root_desc := Root {
  rcls : cls;
  steps : list step;              (* to_aoef of the collection adapter, in evaluation order *)
  load_order : list cls;          (* to_soundevent of the collection adapter *)
}.

(* ------------------------------------------------------------------ save *)
Definition flat_of (sch : schema) (n : node) : flat :=
  Flat (nkey n) (mask (wr sch (ncls n)) (nscal n)) (map (map nref) (nkids n)).

Section Save.
  Variable sch : schema.

  (* DataAdapter.to_aoef: get_id; if not stored: assemble (converting the nested objects first), then store *)
  Fixpoint save_node (n : node) (st : store) : store :=
    match n with
    | Node c k s kids =>
        if memk k (st c) then st
        else ins c (Flat k (mask (wr sch c) s) (map (map nref) kids))
                 (fold_left (fun st ns => fold_left (fun st n' => save_node n' st) ns st) kids st)
    end.

  Definition save_list (ns : list node) (st : store) : store := fold_left (fun st n => save_node n st) ns st.
  Definition save_kids (kids : list (list node)) (st : store) : store := fold_left (fun st ns => save_list ns st) kids st.

  Definition doc := (list (cls * table) * flat)%type.

  Fixpoint run_steps (ss : list step) (kids : list (list node)) (st : store) (d : list (cls * table))
    : store * list (cls * table) :=
    match ss with
    | [] => (st, d)
    | Conv i :: r => run_steps r kids (save_list (nth i kids []) st) d
    | Snap c :: r => run_steps r kids st (d ++ [(c, st c)])
    end.

  Definition save_root (rt : root_desc) (n : node) : doc :=
    (snd (run_steps (steps rt) (nkids n) empty_store []), flat_of sch n).
End Save.

(* ------------------------------------------------------------------ load *)
Definition lstore := cls -> list (key * node).
Definition empty_lstore : lstore := fun _ => [].

Fixpoint assoc (k : key) (l : list (key * node)) : option node :=
  match l with [] => None | (k', n) :: r => if Z.eqb k' k then Some n else assoc k r end.

Definition resolve (ls : lstore) (r : ref) : option node := assoc (snd r) (ls (fst r)).

(* lenient from_id: an unknown id is skipped *)
Fixpoint resolve_all (ls : lstore) (rs : list ref) : list node :=
  match rs with
  | [] => []
  | r :: rs' => match resolve ls r with Some n => n :: resolve_all ls rs' | None => resolve_all ls rs' end
  end.

(* one reference field: a required reference that does not resolve raises ValueError *)
Fixpoint load_kids (ls : lstore) (cs : list card) (fk : list (list ref)) : option (list (list node)) :=
  match fk with
  | [] => Some []
  | rs :: fk' =>
      let ns := resolve_all ls rs in
      let cd := match cs with [] => Many | cd :: _ => cd end in
      match cd, ns with
      | One, [] => None
      | _, _ => match load_kids ls (tl cs) fk' with Some r => Some (ns :: r) | None => None end
      end
  end.

Section Load.
  Variable sch : schema.

  Definition load_flat (ls : lstore) (c : cls) (f : flat) : option node :=
    match load_kids ls (kidcard sch c) (fkids f) with
    | Some kids => Some (Node c (fkey f) (mask (rd sch c) (fscal f)) kids)
    | None => None
    end.

  (* DataAdapter.to_soundevent over one top-level list *)
  Fixpoint load_table (c : cls) (t : table) (ls : lstore) : option lstore :=
    match t with
    | [] => Some ls
    | f :: r =>
        match assoc (fkey f) (ls c) with
        | Some _ => load_table c r ls
        | None => match load_flat ls c f with
                  | Some n => load_table c r (upd ls c (ls c ++ [(fkey f, n)]))
                  | None => None
                  end
        end
    end.

  Fixpoint get_table (c : cls) (d : list (cls * table)) : table :=
    match d with [] => [] | (c', t) :: r => if Nat.eqb c' c then t else get_table c r end.

  Fixpoint load_tables (order : list cls) (d : list (cls * table)) (ls : lstore) : option lstore :=
    match order with
    | [] => Some ls
    | c :: r => match load_table c (get_table c d) ls with
                | Some ls' => load_tables r d ls'
                | None => None
                end
    end.

  Definition load_root (rt : root_desc) (d : doc) : option node :=
    match load_tables (load_order rt) (fst d) empty_lstore with
    | Some ls => load_flat ls (rcls rt) (snd d)
    | None => None
    end.
End Load.

(* ------------------------------------------------------------------ boolean equality (correspondence) *)
Fixpoint list_eqb {A} (e : A -> A -> bool) (a b : list A) : bool :=
  match a, b with
  | [], [] => true
  | x :: a', y :: b' => e x y && list_eqb e a' b'
  | _, _ => false
  end.

Definition ref_eqb (a b : ref) : bool := Nat.eqb (fst a) (fst b) && Z.eqb (snd a) (snd b).
Definition flat_eqb (a b : flat) : bool :=
  Z.eqb (fkey a) (fkey b) && list_eqb Z.eqb (fscal a) (fscal b) && list_eqb (list_eqb ref_eqb) (fkids a) (fkids b).
Definition table_eqb := list_eqb flat_eqb.
Definition subset_tb (a b : table) : bool := forallb (fun f => existsb (flat_eqb f) b) a.

Fixpoint node_eqb (a b : node) : bool :=
  match a, b with
  | Node c k s kids, Node c' k' s' kids' =>
      Nat.eqb c c' && Z.eqb k k' && list_eqb Z.eqb s s'
      && (fix go2 (x y : list (list node)) : bool :=
            match x, y with
            | [], [] => true
            | p :: x', q :: y' =>
                (fix go (p q : list node) : bool :=
                   match p, q with
                   | [], [] => true
                   | n :: p', m :: q' => node_eqb n m && go p' q'
                   | _, _ => false
                   end) p q && go2 x' y'
            | _, _ => false
            end) kids kids'
  end.

Definition onode_eqb (a b : option node) : bool :=
  match a, b with Some x, Some y => node_eqb x y | None, None => true | _, _ => false end.

(* document comparison: ordinary tables as lists, inline pseudo-tables (cls listed in [inl]) as sets *)
Definition doc_eqb (ncl : nat) (inl : list cls) (a b : doc) : bool :=
  forallb (fun c => let ta := get_table c (fst a) in let tb := get_table c (fst b) in
                    if existsb (Nat.eqb c) inl then subset_tb ta tb && subset_tb tb ta else table_eqb ta tb)
          (seq 0 ncl)
  && flat_eqb (snd a) (snd b).

(* the id skeleton of a document: scalars dropped (C02 is about identifiers only) *)
Definition flat_skel (f : flat) : flat := Flat (fkey f) [] (fkids f).
Definition doc_skel (d : doc) : doc := (map (fun ct => (fst ct, map flat_skel (snd ct))) (fst d), flat_skel (snd d)).
Definition skel_eqb (ncl : nat) (inl : list cls) (a b : doc) : bool := doc_eqb ncl inl (doc_skel a) (doc_skel b).

(* ------------------------------------------------------------------ audit of a document (C02) *)
Definition doc_refs (d : doc) : list ref :=
  concat (map (fun ct => concat (map (fun f => concat (fkids f)) (snd ct))) (fst d)) ++ concat (fkids (snd d)).

Definition defined_in (d : doc) (r : ref) : nat :=
  length (filter (fun f => Z.eqb (fkey f) (snd r)) (get_table (fst r) (fst d))).

Fixpoint nodupb (l : list key) : bool :=
  match l with [] => true | k :: r => negb (existsb (Z.eqb k) r) && nodupb r end.

(* every reference defined exactly once; keys unique per table; same-table references point backwards *)
Fixpoint backwards (c : cls) (seen : list key) (t : table) : bool :=
  match t with
  | [] => true
  | f :: r => forallb (fun rf => negb (Nat.eqb (fst rf) c) || existsb (Z.eqb (snd rf)) seen) (concat (fkids f))
              && backwards c (fkey f :: seen) r
  end.

Definition closedb (d : doc) : bool :=
  forallb (fun r => Nat.eqb (defined_in d r) 1) (doc_refs d)
  && forallb (fun ct => nodupb (map fkey (snd ct)) && backwards (fst ct) [] (snd ct)) (fst d).
