(* Gen/SrcClips.v — the clip pairing shared by the four evaluation tasks (properties C08, C09) on the
   definition read from the source: iterate_over_valid_clips of soundevent/evaluation/tasks/common.py
   as generated in Gen/Source.v.  A clip prediction / annotation is represented by (clip uuid, own id).
   The result lists, in the order of the predictions, exactly the predictions whose clip is annotated,
   each with the LAST annotation of that clip (the only one when clip ids are distinct). *)
From Coq Require Import QArith ZArith List Bool Lia.
From SE Require Import Base.Num Base.Res Gen.Prelude Gen.Source.
Import ListNotations.
Open Scope Z_scope.

Definition cobj := (Z * Z)%type.   (* clip uuid, own id *)

Fixpoint last_for (anns : list cobj) (clip : Z) : option cobj :=
  match anns with
  | [] => None
  | a :: r => match last_for r clip with Some b => Some b | None => if Z.eqb (fst a) clip then Some a else None end
  end.

Definition pairs_spec (preds anns : list cobj) : list (cobj * cobj) :=
  flat_map (fun p => match last_for anns (fst p) with Some a => [(a, p)] | None => [] end) preds.

Lemma find_map anns k :
  py_dict_find (map (fun '(c, u) => (c, (c, u))) anns) k = last_for anns k.
Proof.
  induction anns as [|[c u] r IH]; [reflexivity|]. cbn [map py_dict_find last_for fst]. rewrite IH. reflexivity.
Qed.

Lemma mem_map anns k :
  py_dict_mem k (map (fun '(c, u) => (c, (c, u))) anns) = match last_for anns k with Some _ => true | None => false end.
Proof.
  unfold py_dict_mem. induction anns as [|[c u] r IH]; [reflexivity|]. cbn [map existsb last_for fst]. rewrite IH.
  destruct (last_for r k); [apply orb_true_r|]. rewrite orb_false_r. destruct (c =? k); reflexivity.
Qed.

Theorem src_pairs preds anns :
  Source.iterate_over_valid_clips preds anns = Ok (pairs_spec preds anns).
Proof.
  unfold Source.iterate_over_valid_clips.
  set (d := map _ anns).
  assert (H : forall (ps : list cobj) acc,
    fold_loop (S := list (cobj * cobj)) (R := list (cobj * cobj)) ps acc
      (fun yielded_ '(pc, pu) =>
         if py_dict_mem pc d
         then bind (py_dict_get d pc) (fun a => let yielded_ := yielded_ ++ [(a, (pc, pu))] in Ok (BNext yielded_))
         else Ok (BNext yielded_))
    = Ok (LDone (acc ++ pairs_spec ps anns))).
  { induction ps as [|[pc pu] r IH]; intro acc; [cbn; rewrite app_nil_r; reflexivity|].
    cbn [fold_loop pairs_spec flat_map fst]. subst d. rewrite mem_map. unfold py_dict_get. rewrite find_map.
    destruct (last_for anns pc) as [a|]; cbn [bind].
    - rewrite IH. rewrite <- app_assoc. reflexivity.
    - rewrite IH. reflexivity. }
  rewrite H. reflexivity.
Qed.

(* consequences: exactly the predictions of annotated clips, in order; the annotation has the same clip *)
Lemma last_for_some anns k a : last_for anns k = Some a -> In a anns /\ fst a = k.
Proof.
  induction anns as [|b r IH]; [discriminate|]. cbn [last_for].
  destruct (last_for r k) as [c|] eqn:E.
  - intro H. injection H as <-. destruct (IH eq_refl) as [H1 H2]. split; [right; exact H1|exact H2].
  - destruct (fst b =? k) eqn:E2; [|discriminate]. intro H. injection H as <-. split; [left; reflexivity|apply Z.eqb_eq; exact E2].
Qed.

Lemma last_for_none anns k : last_for anns k = None <-> ~ In k (map fst anns).
Proof.
  induction anns as [|b r IH]; [cbn; tauto|]. cbn [last_for map In].
  destruct (last_for r k) as [c|] eqn:E.
  - split; [discriminate|]. intro H. exfalso. apply H. right. apply last_for_some in E. destruct E as [E1 E2].
    rewrite <- E2. apply in_map. exact E1.
  - destruct (fst b =? k) eqn:E2.
    + split; [discriminate|]. intro H. exfalso. apply H. left. apply Z.eqb_eq. exact E2.
    + split; [intros _ [H|H]; [apply Z.eqb_neq in E2; contradiction|apply IH in H; [exact H|reflexivity]]|reflexivity].
Qed.

Theorem src_pairs_predictions preds anns :
  map snd (pairs_spec preds anns) = filter (fun p => existsb (fun a => Z.eqb (fst a) (fst p)) anns) preds.
Proof.
  induction preds as [|p r IH]; [reflexivity|].
  change (pairs_spec (p :: r) anns) with
    ((match last_for anns (fst p) with Some a => [(a, p)] | None => [] end) ++ pairs_spec r anns).
  cbn [filter]. rewrite map_app, IH.
  destruct (last_for anns (fst p)) as [a|] eqn:E.
  - apply last_for_some in E. destruct E as [E1 E2].
    assert (Hx : existsb (fun a0 => fst a0 =? fst p) anns = true).
    { apply existsb_exists. exists a. split; [exact E1|apply Z.eqb_eq; exact E2]. }
    rewrite Hx. reflexivity.
  - assert (Hx : existsb (fun a0 => fst a0 =? fst p) anns = false).
    { destruct (existsb (fun a0 => fst a0 =? fst p) anns) eqn:Hx; [|reflexivity]. exfalso.
      apply existsb_exists in Hx. destruct Hx as (a & Ha & Hk). apply Z.eqb_eq in Hk.
      apply last_for_none in E. apply E. rewrite <- Hk. apply in_map. exact Ha. }
    rewrite Hx. reflexivity.
Qed.

Theorem src_pairs_same_clip preds anns a p :
  In (a, p) (pairs_spec preds anns) -> In a anns /\ In p preds /\ fst a = fst p.
Proof.
  unfold pairs_spec. intro H. apply in_flat_map in H. destruct H as (q & Hq & H).
  destruct (last_for anns (fst q)) as [b|] eqn:E; [|destruct H].
  destruct H as [H|[]]. injection H as <- <-. apply last_for_some in E. tauto.
Qed.
