(* Gen/SrcAudio.v — what load_clip asks of the file and says about the result (property C15) on the definition read from
   the source: the backward slice of soundevent/audio/io.py::load_clip on the locals it hands to
   load_audio(offset=…, samples=…) and create_time_range(start_time=…, end_time=…, samplerate=…), as generated in
   Gen/Source.v.  For EVERY clip start / end and EVERY non-zero samplerate the code as written asks for
   floor(start x sr) as offset and floor((end - start) x sr) frames, and announces the axis from offset / sr to
   offset / sr + samples / sr — the quantities of the model Audio/Clip.v. *)
From Coq Require Import QArith ZArith List Bool Qround.
From SE Require Import Base.Num Base.Res Gen.Prelude Gen.Source Arr.Range Audio.Clip.
Import ListNotations.
Open Scope Q_scope.

Definition plan (start stop sr : Q) : Z * Z * Q * Q :=
  let offset := Qfloor (start * sr) in
  let samples := Qfloor ((stop - start) * sr) in
  (offset, samples, inject_Z offset / sr, inject_Z offset / sr + inject_Z samples / sr).

Theorem src_load_clip_plan start stop sr : qeqb sr 0 = false ->
  Source.load_clip_plan start stop sr = Ok (plan start stop sr).
Proof.
  intro H. unfold Source.load_clip_plan, plan, py_div. rewrite H. reflexivity.
Qed.

(* a zero samplerate: the division raises (ZeroDivisionError), nothing is returned *)
Theorem src_load_clip_plan_zero start stop sr : qeqb sr 0 = true -> Source.load_clip_plan start stop sr = Err EOther.
Proof. intro H. unfold Source.load_clip_plan, py_div. rewrite H. reflexivity. Qed.

(* the model's load_clip is: seek/len guards, then the frames and the axis of exactly this plan *)
Theorem model_load_clip_uses_plan file ch sr start stop :
  let '(o, n, s, e) := plan start stop sr in
  Clip.load_clip file ch sr start stop =
    if (o <? 0)%Z || (Z.of_nat (length file) <? o)%Z then Err EOther
    else if (n <? 0)%Z then Err EOther
    else mk_audio (read_frames file ch (Z.to_nat o) (Z.to_nat n)) (create_time_range s e None (Some sr)).
Proof. reflexivity. Qed.

(* the frames asked for are floor(duration x samplerate), from floor(start x samplerate) on *)
Theorem src_plan_counts start stop sr o n s e : qeqb sr 0 = false ->
  Source.load_clip_plan start stop sr = Ok (o, n, s, e) ->
  o = Qfloor (start * sr) /\ n = Qfloor ((stop - start) * sr) /\ s = inject_Z o / sr /\ e = s + inject_Z n / sr.
Proof.
  intros H Hp. rewrite src_load_clip_plan in Hp by exact H. unfold plan in Hp. injection Hp as <- <- <- <-. repeat split.
Qed.

Example src_plan_ex :
  Source.load_clip_plan (7005 # 10000) (11 # 10) 1000 = Ok (700%Z, 399%Z, inject_Z 700 / 1000, inject_Z 700 / 1000 + inject_Z 399 / 1000).
Proof. vm_compute. reflexivity. Qed.
