(* Gen/EquivOps.v — the overlap predicates read from the source (Gen/Source.v) compute what the
   hand-written model Geom/Ops.v computes (property C12). *)
From Coq Require Import QArith Lqa Lia Bool.
From SE Require Import Base.Num Base.Res Base.NumProofs Geom.Geometry Geom.Ops Gen.Prelude Gen.Source Gen.Tactics.
Open Scope Q_scope.

(* all four lemmas are proved on the fully unfolded source (so they do not depend on how the source is
   split into helper functions) by case analysis on the options, the bounds and every comparison *)
Ltac ops_crush :=
  unfold Ops.intervals_overlap, is_some, is_none, pymax, pymin; cbn [andb negb bind];
  q_crush.

Lemma src_intervals_overlap s1 e1 s2 e2 a r :
  Source.intervals_overlap (s1, e1) (s2, e2) a r = Ops.intervals_overlap s1 e1 s2 e2 a r.
Proof.
  autounfold with src. destruct a, r; ops_crush.
Qed.

Lemma py_bounds_with {A} g (f : bounds -> res A) :
  with_bounds g f =
  bind (py_compute_bounds g) (fun '(s, lo, e, hi) => f (s, lo, e, hi)).
Proof.
  unfold with_bounds, py_compute_bounds. destruct (compute_bounds g) as [[[[s lo] e] hi]|]; reflexivity.
Qed.

Lemma src_have_temporal_overlap g1 g2 a r :
  Source.have_temporal_overlap g1 g2 a r = Ops.have_temporal_overlap g1 g2 a r.
Proof.
  autounfold with src. unfold Ops.have_temporal_overlap. rewrite !py_bounds_with.
  destruct (py_compute_bounds g1) as [[[[s1 l1] e1] h1]|]; [|reflexivity]. cbn [bind].
  rewrite py_bounds_with.
  destruct (py_compute_bounds g2) as [[[[s2 l2] e2] h2]|]; [|reflexivity]. cbn [bind].
  unfold b_start, b_end; cbn [fst snd]. destruct a, r; ops_crush.
Qed.

Lemma src_have_frequency_overlap g1 g2 a r :
  Source.have_frequency_overlap g1 g2 a r = Ops.have_frequency_overlap g1 g2 a r.
Proof.
  autounfold with src. unfold Ops.have_frequency_overlap. rewrite !py_bounds_with.
  destruct (py_compute_bounds g1) as [[[[s1 l1] e1] h1]|]; [|reflexivity]. cbn [bind].
  rewrite py_bounds_with.
  destruct (py_compute_bounds g2) as [[[[s2 l2] e2] h2]|]; [|reflexivity]. cbn [bind].
  unfold b_low, b_high; cbn [fst snd]. destruct a, r; ops_crush.
Qed.

Lemma src_is_in_clip g cs ce m :
  Source.is_in_clip g cs ce m = Ops.is_in_clip g cs ce m.
Proof.
  autounfold with src. unfold Ops.is_in_clip.
  destruct (qltb m 0) eqn:Hm; [reflexivity|].
  rewrite py_bounds_with. destruct (py_compute_bounds g) as [[[[s l] e] h]|]; [|reflexivity]. cbn [bind].
  unfold is_in_clip_b, b_start, b_end; cbn [fst snd]. rewrite Hm. q_crush.
Qed.
