(* Gen/SrcMatch.v — property C07 on the part of match_geometries (soundevent/evaluation/match.py) that is
   read from the source: the loop that turns the pairs selected by the assignment step into the reported
   (source, target, affinity) triples.  (What precedes it — the affinity matrix and _select_matches, i.e.
   scipy's solver and the leftover rows / columns — is the unit's parameters: `cost_matrix`, `matches`.)
   A selected pair with affinity <= 0 is reported as two one-sided entries; one-sided pairs get affinity 0. *)
From Coq Require Import QArith List Bool.
From SE Require Import Base.Num Base.Res Base.NumProofs Eval.Match Gen.Prelude Gen.Source.
Import ListNotations.
Open Scope Q_scope.

Definition emit_pair (M : matrix) (p : option nat * option nat) : list entry :=
  match p with
  | (Some i, Some j) => emit M (i, j)
  | (a, b) => [(a, b, 0)]
  end.

Lemma tail_loop M (body : list entry -> option nat * option nat -> res (bres (list entry) (list entry))) :
  (forall acc p, body acc p = Ok (BNext (acc ++ emit_pair M p))) ->
  forall l acc, fold_loop l acc body = Ok (LDone (acc ++ flat_map (emit_pair M) l)).
Proof.
  intro Hb. induction l as [|p r IH]; intro acc; [cbn; rewrite app_nil_r; reflexivity|].
  cbn [fold_loop flat_map]. rewrite Hb. cbn [bind]. rewrite IH, <- app_assoc. reflexivity.
Qed.

Theorem src_match_tail M ms :
  Source.match_geometries_tail M ms = Ok (flat_map (emit_pair M) ms).
Proof.
  unfold Source.match_geometries_tail. cbv zeta.
  rewrite (tail_loop M); [reflexivity|].
  intros acc [[i|] [j|]]; cbn [emit_pair]; try reflexivity.
  unfold emit, qltb, qleb. cbn [fst snd].
  destruct (Qle_bool (mget M i j) 0); cbn [negb]; rewrite <- ?app_assoc; reflexivity.
Qed.

(* with the pairs the model's selection step produces, the reported list is the model's select_matches *)
Corollary src_match_select M n m lsa :
  Source.match_geometries_tail M
    (map (fun p => (Some (fst p), Some (snd p))) lsa
     ++ map (fun r => (Some r, None)) (filter (fun r => negb (mem r (map fst lsa))) (seq 0 n))
     ++ map (fun c => (None, Some c)) (filter (fun c => negb (mem c (map snd lsa))) (seq 0 m)))
  = Ok (select_matches M n m lsa).
Proof.
  rewrite src_match_tail. unfold select_matches. rewrite !flat_map_app. f_equal. f_equal; [|f_equal].
  - induction lsa as [|[i j] r IH]; [reflexivity|]. cbn [map flat_map fst snd emit_pair]. rewrite IH. reflexivity.
  - generalize (filter (fun r => negb (mem r (map fst lsa))) (seq 0 n)). intro l.
    induction l as [|x l IH]; [reflexivity|]. cbn [map flat_map emit_pair app]. rewrite IH. reflexivity.
  - generalize (filter (fun c => negb (mem c (map snd lsa))) (seq 0 m)). intro l.
    induction l as [|x l IH]; [reflexivity|]. cbn [map flat_map emit_pair app]. rewrite IH. reflexivity.
Qed.
