(* Gen/SrcFeatures.v — property C05 (features) on the definitions read from the source: the nine
   per-type functions of soundevent/geometry/features.py and the dispatch table, as generated in
   Gen/Source.v, return exactly the feature list of the hand-written model [Features.features]
   (which FeaturesProofs relates to the bounds), for every geometry. *)
From Coq Require Import QArith List.
From SE Require Import Base.Num Base.Res Geom.Geometry Geom.Features Gen.Prelude Gen.Source.
Import ListNotations.
Open Scope Q_scope.

Lemma parts_count {A} (l : list A) : inject_Z (py_len (map (fun _ => tt) l)) = nb (length l).
Proof. unfold py_len, nb. rewrite map_length. reflexivity. Qed.

Theorem src_features g :
  Source.compute_geometric_features g =
  match features g with Some fs => Ok fs | None => Err EOther end.
Proof.
  destruct g as [t|s e|t f|l|r|s lo e hi|l|l|l];
    unfold Source.compute_geometric_features, features, compute_bounds;
    try reflexivity;
    match goal with
    | |- ?f ?g = _ => unfold f
    end;
    unfold py_shp_bounds, mk_feature, bounds_features;
    match goal with
    | |- context [shp_bounds ?s] => destruct (shp_bounds s) as [[[[a b] c] d]|]
    end; cbn [bind option_map to_shapely shp_geoms app]; rewrite ?parts_count, ?map_length; reflexivity.
Qed.
