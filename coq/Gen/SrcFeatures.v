(* Gen/SrcFeatures.v — property C05 (features) on the definitions read from the source: the nine
   per-type functions of soundevent/geometry/features.py and the dispatch table, as generated in
   Gen/Source.v, return exactly the feature list of the hand-written model [Features.features]
   (which FeaturesProofs relates to the bounds), for every geometry. *)
From Coq Require Import QArith List.
From SE Require Import Base.Num Base.Res Geom.Geometry Geom.Features Gen.Prelude Gen.Source.
Import ListNotations.
Open Scope Q_scope.

Lemma parts_count {A} (l : list A) : inject_Z (py_len (map (fun _ => tt) l)) = nb (length l).
Proof. unfold py_len, nb. rewrite map_length. reflexivity. Qed.

Theorem src_features g :
  Source.compute_geometric_features g =
  match features g with Some fs => Ok fs | None => Err EOther end.
Proof.
  (* the whole generated source is unfolded, so the proof does not depend on how the nine functions share helpers *)
  destruct g as [t|s e|t f|l|r|s lo e hi|l|l|l]; autounfold with src;
    unfold features, compute_bounds, py_shp_bounds, mk_feature, bounds_features, py_len, nb;
    cbn [to_shapely]; try reflexivity;
    match goal with
    | |- context [shp_bounds ?s] => destruct (shp_bounds s) as [[[[a b] c] d]|]
    end; cbn [bind option_map shp_geoms app]; rewrite ?map_length; reflexivity.
Qed.
