(* Gen/SrcArrays.v — properties C16 / C17 / C20 on definitions read from the source: get_dim_range and
   get_coord_index (soundevent/arrays/dimensions.py) and crop_dim (soundevent/arrays/operations.py) as
   generated in Gen/Source.v, on one axis given as (coordinate, value) pairs, compute what the
   hand-written models Arr/Index.v and Arr/CropExtend.v compute. pandas' get_slice_bound and xarray's
   label slice are the models' (Prelude glue). *)
From Coq Require Import QArith ZArith List Bool Lqa.
From SE Require Import Base.Num Base.Res Arr.Index Arr.CropExtend Gen.Prelude Gen.Source Gen.Tactics.
Import ListNotations.
Open Scope Q_scope.

(* the proofs unfold the whole generated source and split on every comparison, so they do not depend on how the
   functions are split into helpers *)
Lemma range_model a :
  Source.get_dim_range a tt =
  match Index.get_dim_range (coords a) with Some r => Ok r | None => Err EValue end.
Proof. autounfold with src. unfold Index.get_dim_range, py_idx_min, py_idx_max. destruct (coords a); reflexivity. Qed.

Theorem src_get_coord_index a v r :
  Source.get_coord_index a tt v r = Index.get_coord_index (coords a) v r.
Proof.
  autounfold with src. unfold Index.get_coord_index, Index.get_dim_range, py_idx_min, py_idx_max.
  assert (Hl : length (coords a) = length a) by apply map_length.
  rewrite <- Hl. clear Hl.
  destruct (coords a) as [|c cs]; [reflexivity|]. cbn [bind].
  repeat (break_step; cbn [bind negb andb orb]); try reflexivity; exfalso; q_hyps; try congruence; try discriminate; lra.
Qed.

Theorem src_crop_dim a start stop rc lc eps :
  Source.crop_dim a tt start stop rc lc eps = CropExtend.crop_dim a start stop rc lc eps.
Proof.
  autounfold with src. unfold CropExtend.crop_dim, Index.get_dim_range, py_idx_min, py_idx_max, opt_default.
  destruct (coords a) as [|c cs]; [reflexivity|]. cbn [bind].
  destruct start, stop, rc, lc; cbn [negb bind]; repeat (break_step; cbn [bind negb andb orb]); try reflexivity; exfalso; q_hyps; try congruence; try discriminate; lra.
Qed.
