(* Gen/SrcBuffer.v — property C11 on the definitions read from the source: the guard, the dispatch
   and the three closed forms of soundevent/geometry/operations.py as generated in Gen/Source.v. *)
From Coq Require Import QArith Lqa Lia Bool Qminmax.
From SE Require Import Base.Num Base.Res Base.NumProofs Geom.Geometry Geom.Buffer Geom.BufferProofs
  Gen.Prelude Gen.Source Gen.Tactics.
Open Scope Q_scope.

Lemma src_max_frequency : Source.MAX_FREQUENCY == MAXF.
Proof. reflexivity. Qed.

(* characterisations: what the generated closed forms return, up to == on the coordinates *)
Lemma src_timestamp_char t tb :
  exists s' e', Source.buffer_timestamp t tb = Ok (TimeInterval s' e') /\
    s' == pymax (t - tb) 0 /\ e' == t + tb.
Proof.
  autounfold with src; unfold mk_TimeInterval. do 2 eexists. split; [reflexivity|].
  unfold pymax; split; q_crush.
Qed.

Lemma src_interval_char s e tb :
  exists s' e', Source.buffer_interval (s, e) tb = Ok (TimeInterval s' e') /\
    s' == pymax (s - tb) 0 /\ e' == e + tb.
Proof.
  autounfold with src; unfold mk_TimeInterval. do 2 eexists. split; [reflexivity|].
  unfold pymax; split; q_crush.
Qed.

Lemma src_bbox_char s lo e hi tb fb :
  exists s' lo' e' hi', Source.buffer_bounding_box_geometry (s, lo, e, hi) tb fb = Ok (BBox s' lo' e' hi') /\
    s' == pymax (s - tb) 0 /\ lo' == pymax (lo - fb) 0 /\ e' == e + tb /\ hi' == pymin (hi + fb) MAXF.
Proof.
  autounfold with src; unfold mk_BoundingBox. do 4 eexists. split; [reflexivity|].
  pose proof src_max_frequency as HM.
  unfold pymax, pymin; repeat split; q_crush.
Qed.

(* guard and dispatch *)
Theorem src_negative_rejected g tb fb :
  (tb < 0 \/ fb < 0) <-> Source.buffer_geometry g tb fb = Err EValue.
Proof.
  unfold Source.buffer_geometry.
  destruct (qltb tb 0 || qltb fb 0)%bool eqn:E.
  - split; [reflexivity|]. intros _. apply orb_true_iff in E. destruct E as [E|E]; apply qltb_spec in E; tauto.
  - apply orb_false_iff in E. destruct E as [E1 E2]. apply qltb_false in E1. apply qltb_false in E2.
    split; [intros [H|H]; exfalso; lra|].
    destruct (src_timestamp_char 0 tb) as (a & b & _).
    unfold has_type, on_timestamp, on_interval, on_bbox, on_shapely.
    destruct g as [t|s e|t f|l|r|s lo e hi|l|l|l]; cbn [type_of gtype_eqb]; intro H;
      try discriminate H.
    all: try (destruct (src_timestamp_char t tb) as (s' & e' & Hc & _); rewrite Hc in H; discriminate H).
    all: try (destruct (src_interval_char s e tb) as (s' & e' & Hc & _); rewrite Hc in H; discriminate H).
    all: try (destruct (src_bbox_char s lo e hi tb fb) as (s' & lo' & e' & hi' & Hc & _); rewrite Hc in H; discriminate H).
Qed.

Theorem src_dispatch g tb fb : 0 <= tb -> 0 <= fb ->
  Source.buffer_geometry g tb fb =
  match g with
  | TimeStamp t => bind (Source.buffer_timestamp t tb) (fun r => Ok (Closed r))
  | TimeInterval s e => bind (Source.buffer_interval (s, e) tb) (fun r => Ok (Closed r))
  | BBox s lo e hi => bind (Source.buffer_bounding_box_geometry (s, lo, e, hi) tb fb) (fun r => Ok (Closed r))
  | _ => Ok Shapely
  end.
Proof.
  intros H1 H2. unfold Source.buffer_geometry.
  assert (E : (qltb tb 0 || qltb fb 0)%bool = false).
  { apply orb_false_iff. split; apply qltb_false; assumption. }
  rewrite E. unfold has_type, on_timestamp, on_interval, on_bbox, on_shapely.
  destruct g; reflexivity.
Qed.

Lemma validb_interval s e : validb (TimeInterval s e) = true <-> 0 <= s /\ 0 <= e /\ s <= e.
Proof. cbn [validb]. rewrite !andb_true_iff, !qleb_spec. tauto. Qed.

Lemma validb_bbox s lo e hi : validb (BBox s lo e hi) = true <->
  0 <= s /\ 0 <= lo /\ lo <= MAXF /\ 0 <= e /\ 0 <= hi /\ hi <= MAXF /\ s <= e /\ lo <= hi.
Proof. cbn [validb]. rewrite !andb_true_iff, !qleb_spec. tauto. Qed.

Theorem src_timestamp_exact t tb : 0 <= t -> 0 <= tb ->
  exists s' e', Source.buffer_timestamp t tb = Ok (TimeInterval s' e') /\
    s' == Qmax (t - tb) 0 /\ e' == t + tb /\ validb (TimeInterval s' e') = true /\ s' <= t /\ t <= e'.
Proof.
  intros Ht Hb. destruct (src_timestamp_char t tb) as (s' & e' & Hc & Hs & He).
  exists s', e'. split; [exact Hc|]. rewrite pymax_Qmax in Hs.
  pose proof (Q.le_max_r (t - tb) 0). pose proof (Q.max_lub (t - tb) 0 t ltac:(lra) Ht).
  split; [exact Hs|]. split; [exact He|]. split; [apply validb_interval; lra|lra].
Qed.

Theorem src_interval_exact s e tb : 0 <= s -> s <= e -> 0 <= tb ->
  exists s' e', Source.buffer_interval (s, e) tb = Ok (TimeInterval s' e') /\
    s' == Qmax (s - tb) 0 /\ e' == e + tb /\ validb (TimeInterval s' e') = true /\ s' <= s /\ e <= e'.
Proof.
  intros Hs0 Hse Hb. destruct (src_interval_char s e tb) as (s' & e' & Hc & Hs & He).
  exists s', e'. split; [exact Hc|]. rewrite pymax_Qmax in Hs.
  pose proof (Q.le_max_r (s - tb) 0). pose proof (Q.max_lub (s - tb) 0 s ltac:(lra) Hs0).
  split; [exact Hs|]. split; [exact He|]. split; [apply validb_interval; lra|lra].
Qed.

Theorem src_bbox_exact s lo e hi tb fb :
  validb (BBox s lo e hi) = true -> 0 <= tb -> 0 <= fb ->
  exists s' lo' e' hi', Source.buffer_bounding_box_geometry (s, lo, e, hi) tb fb = Ok (BBox s' lo' e' hi') /\
    s' == Qmax (s - tb) 0 /\ lo' == Qmax (lo - fb) 0 /\ e' == e + tb /\ hi' == Qmin (hi + fb) MAXF /\
    validb (BBox s' lo' e' hi') = true /\
    s' <= s /\ lo' <= lo /\ e <= e' /\ hi <= hi'.
Proof.
  intros Hv Htb Hfb. apply validb_bbox in Hv.
  destruct (src_bbox_char s lo e hi tb fb) as (s' & lo' & e' & hi' & Hc & Hs & Hl & He & Hh).
  exists s', lo', e', hi'. split; [exact Hc|].
  rewrite pymax_Qmax in Hs, Hl. rewrite pymin_Qmin in Hh.
  pose proof (Q.le_max_r (s - tb) 0). pose proof (Q.max_lub (s - tb) 0 s ltac:(lra) ltac:(lra)).
  pose proof (Q.le_max_r (lo - fb) 0). pose proof (Q.max_lub (lo - fb) 0 lo ltac:(lra) ltac:(lra)).
  pose proof (Q.le_min_r (hi + fb) MAXF). pose proof (Q.min_glb (hi + fb) MAXF hi ltac:(lra) ltac:(lra)).
  pose proof MAXF_pos.
  repeat (split; [assumption|]). split; [apply validb_bbox; repeat split; lra|]. repeat split; lra.
Qed.

Theorem src_bbox_monotone s lo e hi tb1 tb2 fb1 fb2 : tb1 <= tb2 -> fb1 <= fb2 ->
  match Source.buffer_bounding_box_geometry (s, lo, e, hi) tb1 fb1,
        Source.buffer_bounding_box_geometry (s, lo, e, hi) tb2 fb2 with
  | Ok (BBox s1 l1 e1 h1), Ok (BBox s2 l2 e2 h2) => s2 <= s1 /\ l2 <= l1 /\ e1 <= e2 /\ h1 <= h2
  | _, _ => False
  end.
Proof.
  intros Ht Hf.
  destruct (src_bbox_char s lo e hi tb1 fb1) as (s1 & l1 & e1 & h1 & -> & Hs1 & Hl1 & He1 & Hh1).
  destruct (src_bbox_char s lo e hi tb2 fb2) as (s2 & l2 & e2 & h2 & -> & Hs2 & Hl2 & He2 & Hh2).
  rewrite pymax_Qmax in Hs1, Hl1, Hs2, Hl2. rewrite pymin_Qmin in Hh1, Hh2.
  rewrite Hs1, Hs2, Hl1, Hl2, He1, He2, Hh1, Hh2.
  repeat split.
  - apply Q.max_le_compat_r. lra.
  - apply Q.max_le_compat_r. lra.
  - lra.
  - apply Q.min_le_compat_r. lra.
Qed.

Theorem src_interval_monotone s e tb1 tb2 : tb1 <= tb2 ->
  match Source.buffer_interval (s, e) tb1, Source.buffer_interval (s, e) tb2 with
  | Ok (TimeInterval s1 e1), Ok (TimeInterval s2 e2) => s2 <= s1 /\ e1 <= e2
  | _, _ => False
  end.
Proof.
  intros Ht.
  destruct (src_interval_char s e tb1) as (s1 & e1 & -> & Hs1 & He1).
  destruct (src_interval_char s e tb2) as (s2 & e2 & -> & Hs2 & He2).
  rewrite pymax_Qmax in Hs1, Hs2. rewrite Hs1, Hs2, He1, He2.
  split; [apply Q.max_le_compat_r; lra|lra].
Qed.

(* the generated dispatch agrees with the hand-written model up to == on the coordinates *)
Definition geom_eqv (a b : geom) : Prop := geom_eqb a b = true.

Theorem src_matches_model g tb fb :
  match Source.buffer_geometry g tb fb, Buffer.buffer_geometry g tb fb with
  | Ok (Closed a), Ok (Closed b) => geom_eqb a b = true
  | Ok Shapely, Ok Shapely => True
  | Err e1, Err e2 => e1 = e2
  | _, _ => False
  end.
Proof.
  unfold Buffer.buffer_geometry.
  destruct (qltb tb 0 || qltb fb 0)%bool eqn:E.
  - assert (H : tb < 0 \/ fb < 0).
    { apply orb_true_iff in E. destruct E as [E|E]; apply qltb_spec in E; tauto. }
    apply (src_negative_rejected g) in H. rewrite H. reflexivity.
  - apply orb_false_iff in E. destruct E as [E1 E2]. apply qltb_false in E1. apply qltb_false in E2.
    rewrite src_dispatch by assumption.
    destruct g as [t|s e|t f|l|r|s lo e hi|l|l|l]; try exact I.
    + destruct (src_timestamp_char t tb) as (s' & e' & -> & Hs & He). cbn [bind].
      unfold buffer_timestamp. cbn [geom_eqb]. apply andb_true_iff; split; apply qeqb_spec; assumption.
    + destruct (src_interval_char s e tb) as (s' & e' & -> & Hs & He). cbn [bind].
      unfold buffer_interval. cbn [geom_eqb]. apply andb_true_iff; split; apply qeqb_spec; assumption.
    + destruct (src_bbox_char s lo e hi tb fb) as (s' & lo' & e' & hi' & -> & Hs & Hl & He & Hh). cbn [bind].
      unfold buffer_bbox. cbn [geom_eqb]. rewrite !andb_true_iff. repeat split; apply qeqb_spec; assumption.
Qed.
