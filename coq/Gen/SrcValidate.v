(* Gen/SrcValidate.v — property C03 on the definitions read from the source: for each of the nine
   geometry classes, the chain of field validators of soundevent/data/geometries.py as generated in
   Gen/Source.v accepts a (shape-correct) coordinate structure exactly when the hand-written model
   [Validate.validate] accepts its JSON tree, and returns the coordinates of the model's normalised
   geometry.  What pydantic does before the validators run (coercion to List[float] etc.) is the
   typed argument of the generated functions; a wrong arity inside is rejected by both sides. *)
From Coq Require Import QArith Lqa Lia Bool List.
From SE Require Import Base.Num Base.Res Base.NumProofs Geom.Geometry Geom.Validate Geom.ValidateProofs
  Gen.Prelude Gen.Source Gen.Tactics.
Import ListNotations.
Open Scope Q_scope.

(* typed coordinate structures as JSON trees *)
Definition t1 (l : list Q) : tree := Lst (map Num l).
Definition t2 (l : list (list Q)) : tree := Lst (map t1 l).
Definition t3 (l : list (list (list Q))) : tree := Lst (map t2 l).
Definition t4 (l : list (list (list (list Q)))) : tree := Lst (map t3 l).

Definition src_rel {A} (enc : A -> tree) (r : res A) (m : res geom) : Prop :=
  match r, m with
  | Ok v', Ok g => enc v' = dump g
  | Err _, Err _ => True
  | _, _ => False
  end.

(* ---------- points ---------- *)
Definition is_pt (item : list Q) : bool := match item with [_; _] => true | _ => false end.
Definition to_pt (item : list Q) : pt := match item with [a; b] => (a, b) | _ => (0, 0) end.
Definition chk_pt (item : list Q) : bool := match item with [a; b] => pt_okb (a, b) | _ => false end.

Lemma chk_pt_split item : chk_pt item = is_pt item && pt_okb (to_pt item).
Proof. destruct item as [|a [|b [|c r]]]; reflexivity. Qed.

Lemma forallb_chk l : forallb chk_pt l = forallb is_pt l && forallb pt_okb (map to_pt l).
Proof.
  induction l as [|x l IH]; [reflexivity|]. cbn [forallb map]. rewrite IH, chk_pt_split.
  destruct (is_pt x), (pt_okb (to_pt x)), (forallb is_pt l); reflexivity.
Qed.

Lemma as_pt_t1 item : as_pt (t1 item) = if is_pt item then Some (to_pt item) else None.
Proof. destruct item as [|a [|b [|c r]]]; reflexivity. Qed.

Lemma dump_pt_t1 item : is_pt item = true -> t1 item = dump_pt (to_pt item).
Proof. destruct item as [|a [|b [|c r]]]; try discriminate. reflexivity. Qed.

Lemma all_some_lift {A B} (f : A -> option B) (p : A -> bool) (g : A -> B) l :
  (forall x, f x = if p x then Some (g x) else None) ->
  all_some (map f l) = if forallb p l then Some (map g l) else None.
Proof.
  intro H. induction l as [|x l IH]; [reflexivity|]. cbn [map all_some forallb]. rewrite H.
  destruct (p x); [|reflexivity]. cbn [andb]. rewrite IH. destruct (forallb p l); reflexivity.
Qed.

Lemma as_pts_t2 v : as_pts (t2 v) = if forallb is_pt v then Some (map to_pt v) else None.
Proof. unfold t2, as_pts. rewrite map_map. apply all_some_lift. apply as_pt_t1. Qed.

Lemma as_ptss_t3 v : as_ptss (t3 v) = if forallb (forallb is_pt) v then Some (map (map to_pt) v) else None.
Proof. unfold t3, as_ptss. rewrite map_map. apply all_some_lift. apply as_pts_t2. Qed.

Lemma as_ptsss_t4 v :
  as_ptsss (t4 v) = if forallb (forallb (forallb is_pt)) v then Some (map (map (map to_pt)) v) else None.
Proof. unfold t4, as_ptsss. rewrite map_map. apply all_some_lift. apply as_ptss_t3. Qed.

Lemma map_ext_forallb {A B} (f g : A -> B) (p : A -> bool) l :
  (forall x, p x = true -> f x = g x) -> forallb p l = true -> map f l = map g l.
Proof.
  intros H. induction l as [|x l IH]; [reflexivity|]. cbn [forallb map]. intro E.
  apply andb_true_iff in E. destruct E as [E1 E2]. rewrite (H x E1), (IH E2). reflexivity.
Qed.

Lemma dump_t2 v : forallb is_pt v = true -> t2 v = dump_pts (map to_pt v).
Proof. intro H. unfold t2, dump_pts. rewrite map_map. f_equal. apply (map_ext_forallb _ _ is_pt); [apply dump_pt_t1|exact H]. Qed.

Lemma dump_t3 v : forallb (forallb is_pt) v = true -> t3 v = dump_ptss (map (map to_pt) v).
Proof. intro H. unfold t3, dump_ptss. rewrite map_map. f_equal. apply (map_ext_forallb _ _ (forallb is_pt)); [apply dump_t2|exact H]. Qed.

Lemma dump_t4 v : forallb (forallb (forallb is_pt)) v = true -> t4 v = dump_ptsss (map (map (map to_pt)) v).
Proof. intro H. unfold t4, dump_ptsss. rewrite map_map. f_equal. apply (map_ext_forallb _ _ (forallb (forallb is_pt))); [apply dump_t3|exact H]. Qed.

(* ---------- loops ---------- *)
Definition decides {A} (f : A -> res unit) (p : A -> bool) : Prop :=
  forall x, if p x then f x = Ok tt else exists e, f x = Err e.

Lemma for_each_decides {A} (f : A -> res unit) (p : A -> bool) :
  decides f p -> decides (fun l => for_each l f) (forallb p).
Proof.
  intros H l. induction l as [|x l IH]; [reflexivity|]. cbn [forallb for_each]. specialize (H x).
  destruct (p x); cbn [andb].
  - rewrite H. cbn [bind]. exact IH.
  - destruct H as [e ->]. exists e. reflexivity.
Qed.

Lemma decides_guard {A} (f : A -> res unit) (p : A -> bool) (c : A -> bool) (e0 : errclass) :
  decides f p -> decides (fun x => if c x then Err e0 else f x) (fun x => negb (c x) && p x).
Proof.
  intros H x. destruct (c x); cbn [negb andb]; [exists e0; reflexivity|apply H].
Qed.

Lemma decides_ext {A} (f f' : A -> res unit) (p p' : A -> bool) :
  (forall x, f x = f' x) -> (forall x, p x = p' x) -> decides f p -> decides f' p'.
Proof. intros Hf Hp H x. rewrite <- Hf, <- Hp. apply H. Qed.

Lemma len_lt l n : (py_len (A := l) n <? 0)%Z = false.
Proof. unfold py_len. apply Z.ltb_ge. lia. Qed.

Ltac len_crush :=
  unfold py_len in *;
  repeat match goal with
  | |- context [(?a <? ?b)%Z] => destruct (Z.ltb_spec a b)
  | |- context [(?a <=? ?b)%Z] => destruct (Z.leb_spec a b)
  | |- context [(?a =? ?b)%Z] => destruct (Z.eqb_spec a b)
  | |- context [(?a <=? ?b)%nat] => destruct (Nat.leb_spec a b)
  end; cbn [negb andb orb]; try reflexivity; try (exfalso; cbn [length] in *; lia).

(* the per-point body of the loops `for time, frequency in ...` *)
Definition pt_body (item : list Q) : res unit :=
  match item with
  | [time; frequency] =>
      if qltb time 0 then Err EValue
      else if (qltb frequency 0 || qltb Source.MAX_FREQUENCY frequency)%bool then Err EValue
      else Ok tt
  | _ => Err EValue
  end.

Lemma pt_okb_body a b :
  pt_okb (a, b) = negb (qltb a 0) && negb (qltb b 0 || qltb MAXF b).
Proof.
  unfold pt_okb, qltb. cbn [fst snd]. rewrite !negb_involutive, negb_orb, !negb_involutive.
  rewrite andb_assoc. reflexivity.
Qed.

Lemma pt_body_decides : decides pt_body chk_pt.
Proof.
  intro item. destruct item as [|a [|b [|c r]]]; cbn [chk_pt pt_body]; try (exists EValue; reflexivity).
  rewrite pt_okb_body. change Source.MAX_FREQUENCY with MAXF.
  destruct (qltb a 0); cbn [negb andb]; [exists EValue; reflexivity|].
  destruct (qltb b 0 || qltb MAXF b)%bool; cbn [negb]; [exists EValue; reflexivity|reflexivity].
Qed.

(* a body that is pointwise the per-point check *)
Definition is_pt_body (f : list Q -> res unit) : Prop := decides f chk_pt.

(* ---------- reference acceptance on the typed structures ---------- *)
Definition ref_line (l : list (list Q)) : bool := (2 <=? length l)%nat && forallb chk_pt l.
Definition ref_ring (l : list (list Q)) : bool := (3 <=? length l)%nat && forallb chk_pt l.
Definition ref_poly (rs : list (list (list Q))) : bool := (1 <=? length rs)%nat && forallb ref_ring rs.

Lemma ref_line_model l : forallb is_pt l = true -> ref_line l = line_okb (map to_pt l).
Proof. intro H. unfold ref_line, line_okb. rewrite forallb_chk, H, map_length. reflexivity. Qed.

Lemma ref_ring_model l : forallb is_pt l = true -> ref_ring l = ring_okb (map to_pt l).
Proof. intro H. unfold ref_ring, ring_okb. rewrite forallb_chk, H, map_length. reflexivity. Qed.

Lemma ref_ok_is_pt {A} (r : A -> bool) (q : A -> bool) l :
  (forall x, r x = true -> q x = true) -> forallb r l = true -> forallb q l = true.
Proof.
  intros H. induction l as [|x l IH]; [reflexivity|]. cbn [forallb]. intro E.
  apply andb_true_iff in E. destruct E as [E1 E2]. rewrite (H x E1), (IH E2). reflexivity.
Qed.

Lemma ref_line_is_pt l : ref_line l = true -> forallb is_pt l = true.
Proof. unfold ref_line. rewrite forallb_chk, !andb_true_iff. tauto. Qed.
Lemma ref_ring_is_pt l : ref_ring l = true -> forallb is_pt l = true.
Proof. unfold ref_ring. rewrite forallb_chk, !andb_true_iff. tauto. Qed.
Lemma ref_poly_is_pt rs : ref_poly rs = true -> forallb (forallb is_pt) rs = true.
Proof. unfold ref_poly. rewrite andb_true_iff. intros [_ H]. revert H. apply ref_ok_is_pt. apply ref_ring_is_pt. Qed.

Lemma forallb_map {A B} (f : A -> B) (p : B -> bool) l : forallb p (map f l) = forallb (fun x => p (f x)) l.
Proof. induction l as [|x l IH]; [reflexivity|]. cbn [map forallb]. rewrite IH. reflexivity. Qed.

Lemma forallb_ext_in {A} (p q : A -> bool) (c : A -> bool) l :
  (forall x, c x = true -> p x = q x) -> forallb c l = true -> forallb p l = forallb q l.
Proof.
  intros H. induction l as [|x l IH]; [reflexivity|]. cbn [forallb]. intro E.
  apply andb_true_iff in E. destruct E as [E1 E2]. rewrite (H x E1), (IH E2). reflexivity.
Qed.

Lemma ref_poly_model rs : forallb (forallb is_pt) rs = true -> ref_poly rs = poly_okb (map (map to_pt) rs).
Proof.
  intro H. unfold ref_poly, poly_okb. rewrite map_length, forallb_map. f_equal.
  apply (forallb_ext_in _ _ (forallb is_pt)); [apply ref_ring_model|exact H].
Qed.

Lemma not_is_pt_not_ref {A} (r q : A -> bool) l :
  (forall x, r x = true -> q x = true) -> forallb q l = false -> forallb r l = false.
Proof.
  intros H E. destruct (forallb r l) eqn:R; [|reflexivity].
  apply (ref_ok_is_pt r q l H) in R. congruence.
Qed.

(* ---------- the generated per-point loop body, whatever its exact text, decides chk_pt ---------- *)
Ltac solve_pt_body :=
  let item := fresh "item" in
  intro item; destruct item as [|?a [|?b [|?c ?r]]]; cbn [chk_pt];
  try (eexists; reflexivity);
  match goal with
  | |- if pt_okb (?a, ?b) then _ else _ =>
      let P := fresh "P" in
      destruct (pt_okb (a, b)) eqn:P;
      [ apply pt_okb_spec in P; unfold Source.MAX_FREQUENCY, MAXF in *;
        repeat break_step; try reflexivity; exfalso; q_hyps; lra
      | repeat break_step; try (eexists; reflexivity); exfalso;
        assert (pt_okb (a, b) = true)
          by (apply pt_okb_spec; unfold Source.MAX_FREQUENCY, MAXF in *; q_hyps; repeat split; lra);
        congruence ]
  end.

Ltac name_pt_body H :=
  match goal with
  | |- context [for_each _ ?f] =>
      lazymatch type of f with
      | list Q -> res unit => assert (H : decides f chk_pt) by solve_pt_body
      end
  end.

(* rewriting a loop by its decision *)
Lemma for_each_true {A} (f : A -> res unit) p l : decides f p -> forallb p l = true -> for_each l f = Ok tt.
Proof. intros H E. pose proof (for_each_decides f p H l) as D. cbv beta in D. rewrite E in D. exact D. Qed.
Lemma for_each_false {A} (f : A -> res unit) p l : decides f p -> forallb p l = false -> exists e, for_each l f = Err e.
Proof. intros H E. pose proof (for_each_decides f p H l) as D. cbv beta in D. rewrite E in D. exact D. Qed.

(* constant indexing *)
Lemma py_index_0 {A} (x : A) l : py_index (x :: l) 0 = Ok x.
Proof. reflexivity. Qed.
Lemma py_index_1 {A} (x y : A) l : py_index (x :: y :: l) 1 = Ok y.
Proof. reflexivity. Qed.
Lemma py_index_nil {A} i : py_index (@nil A) i = Err EOther.
Proof.
  unfold py_index, py_len. cbn [length]. destruct (i <? 0)%Z eqn:E.
  - assert (E2 : (Z.of_nat 0 + i <? 0)%Z = true) by (apply Z.ltb_lt; apply Z.ltb_lt in E; lia).
    rewrite E2. reflexivity.
  - rewrite E. destruct (Z.to_nat i); reflexivity.
Qed.
Lemma py_index_m1 {A} (x : A) l d : py_index (x :: l) (-1) = Ok (last (x :: l) d).
Proof.
  unfold py_index, py_len. change (-1 <? 0)%Z with true. cbv iota.
  assert (E : (Z.of_nat (length (x :: l)) + -1)%Z = Z.of_nat (length l)) by (cbn [length]; lia).
  rewrite E.
  assert (E2 : (Z.of_nat (length l) <? 0)%Z = false) by (apply Z.ltb_ge; lia).
  rewrite E2. clear E E2.
  rewrite Nat2Z.id. revert x. induction l as [|y l IH]; intro x; [reflexivity|].
  cbn [length nth_error]. rewrite IH. reflexivity.
Qed.

Ltac rel_crush :=
  unfold src_rel; cbn [bind]; repeat (break_step; cbn [bind negb andb orb]);
  try reflexivity; try exact I; try (exfalso; cbn [existsb forallb] in *; q_hyps; lra).

(* ================= the nine classes ================= *)

Theorem src_TimeStamp v : src_rel Num (Source.TimeStamp_validate v) (validate TTimeStamp (Num v)).
Proof.
  autounfold with src. unfold validate. cbn [parse as_num option_map accept normalise].
  rel_crush.
Qed.

Theorem src_TimeInterval v : src_rel t1 (Source.TimeInterval_validate v) (validate TTimeInterval (t1 v)).
Proof.
  autounfold with src.
  destruct v as [|a [|b [|c r]]]; try (cbn; exact I).
  - unfold validate, t1. cbn [map parse accept normalise py_len length py_index nth_error bind existsb].
    change (py_len [a; b]) with 2%Z. change (2 =? 2)%Z with true. cbn [negb].
    rewrite py_index_0, py_index_1. cbn [bind existsb]. rel_crush.
  - unfold validate, t1. cbn [map parse]. unfold src_rel.
    replace (negb (py_len (a :: b :: c :: r) =? 2)%Z) with true by (unfold py_len; cbn [length]; symmetry; apply negb_true_iff, Z.eqb_neq; lia).
    exact I.
Qed.

Theorem src_Point v : src_rel t1 (Source.Point_validate v) (validate TPoint (t1 v)).
Proof.
  autounfold with src.
  destruct v as [|a [|b [|c r]]]; try (cbn; exact I).
  - unfold validate, t1. cbn [map parse accept normalise bind]. unfold src_rel.
    replace (negb (py_len [a; b] =? 2)%Z) with false by reflexivity.
    destruct (pt_okb (a, b)) eqn:P.
    + apply pt_okb_spec in P. unfold Source.MAX_FREQUENCY, MAXF in *.
      cbn [bind]. repeat (break_step; cbn [bind]); try reflexivity; try discriminate; exfalso; q_hyps; lra.
    + cbn [bind]. repeat (break_step; cbn [bind]); try exact I; try discriminate. exfalso.
      assert (pt_okb (a, b) = true)
        by (apply pt_okb_spec; unfold Source.MAX_FREQUENCY, MAXF in *; q_hyps; repeat split; lra).
      congruence.
  - unfold validate, t1. cbn [map parse]. unfold src_rel.
    replace (negb (py_len (a :: b :: c :: r) =? 2)%Z) with true by (unfold py_len; cbn [length]; symmetry; apply negb_true_iff, Z.eqb_neq; lia).
    exact I.
Qed.

Theorem src_BoundingBox v : src_rel t1 (Source.BoundingBox_validate v) (validate TBBox (t1 v)).
Proof.
  autounfold with src.
  destruct v as [|a [|b [|c [|d [|x r]]]]]; try (cbn; exact I).
  - unfold validate, t1. cbn [map parse accept normalise bind].
    change (py_len [a; b; c; d]) with 4%Z. change (4 =? 4)%Z with true. cbn [negb].
    unfold Source.MAX_FREQUENCY, MAXF.
    unfold src_rel; cbn [bind]; repeat (break_step; cbn [bind negb andb orb]);
      try reflexivity; try exact I; try discriminate; try (exfalso; q_hyps; lra).
  - unfold validate, t1. cbn [map parse]. unfold src_rel.
    replace (negb (py_len (a :: b :: c :: d :: x :: r) =? 4)%Z) with true
      by (unfold py_len; cbn [length]; symmetry; apply negb_true_iff, Z.eqb_neq; lia).
    exact I.
Qed.

(* ---------- MultiPoint ---------- *)
Theorem src_MultiPoint v : src_rel t2 (Source.MultiPoint_validate v) (validate TMultiPoint (t2 v)).
Proof.
  autounfold with src.
  unfold validate. cbn [parse]. rewrite as_pts_t2.
  name_pt_body Hpt.
  destruct (forallb chk_pt v) eqn:Hc.
  - rewrite (for_each_true _ _ _ Hpt Hc). rewrite forallb_chk in Hc. apply andb_true_iff in Hc. destruct Hc as [Hi Ho].
    rewrite Hi. cbn [option_map accept normalise bind]. rewrite map_length, Ho.
    unfold src_rel. len_crush. apply dump_t2. exact Hi.
  - destruct (for_each_false _ _ _ Hpt Hc) as [e ->]. cbn [bind].
    unfold src_rel. destruct (forallb is_pt v) eqn:Hi; cbn [option_map].
    + rewrite forallb_chk, Hi in Hc. cbn [andb] in Hc. cbn [accept]. rewrite Hc, andb_false_r.
      len_crush; exact I.
    + len_crush; exact I.
Qed.

(* ---------- first / last time of a line, as the source reads them (v[0][0], v[-1][0]) ---------- *)
Lemma last_default {A} (x : A) l d d' : last (x :: l) d = last (x :: l) d'.
Proof.
  revert x. induction l as [|y l IH]; intro x; [reflexivity|].
  change (last (y :: l) d = last (y :: l) d'). apply IH.
Qed.

Lemma last_map_ne {A B} (f : A -> B) x l d : last (map f (x :: l)) d = f (last (x :: l) x).
Proof.
  revert x. induction l as [|y l IH]; intro x; [reflexivity|].
  change (last (map f (y :: l)) d = f (last (y :: l) x)). rewrite IH. f_equal. apply last_default.
Qed.

Lemma forallb_last {A} (p : A -> bool) x l : forallb p (x :: l) = true -> p (last (x :: l) x) = true.
Proof.
  revert x. induction l as [|y l IH]; intros x H.
  - cbn in *. rewrite andb_true_r in H. exact H.
  - cbn [forallb] in H. apply andb_true_iff in H. destruct H as [_ H].
    change (last (x :: y :: l) x) with (last (y :: l) x).
    rewrite (last_default y l x y). apply IH. exact H.
Qed.

Lemma src_first_time {R} v (K : Q -> res R) :
  forallb is_pt v = true -> (1 <= length v)%nat ->
  bind (py_index v 0) (fun i1 => bind (py_index i1 0) K) = K (first_time (map to_pt v)).
Proof.
  intros Hi Hl. destruct v as [|x l]; [cbn in Hl; lia|].
  rewrite py_index_0. cbn [bind]. cbn [forallb] in Hi. apply andb_true_iff in Hi. destruct Hi as [Hx _].
  destruct x as [|a [|b [|c r]]]; try discriminate. rewrite py_index_0. reflexivity.
Qed.

Lemma src_last_time {R} v (K : Q -> res R) :
  forallb is_pt v = true -> (1 <= length v)%nat ->
  bind (py_index v (-1)) (fun i1 => bind (py_index i1 0) K) = K (last_time (map to_pt v)).
Proof.
  intros Hi Hl. destruct v as [|x l]; [cbn in Hl; lia|].
  rewrite (py_index_m1 x l x). cbn [bind]. pose proof (forallb_last _ _ _ Hi) as Hx.
  unfold last_time. rewrite last_map_ne.
  destruct (last (x :: l) x) as [|a [|b [|c r]]]; try discriminate. rewrite py_index_0. reflexivity.
Qed.

Lemma forallb_is_pt_rev v : forallb is_pt (rev v) = forallb is_pt v.
Proof. apply forallb_rev. Qed.

(* ---------- LineString ---------- *)
Theorem src_LineString v : src_rel t2 (Source.LineString_validate v) (validate TLineString (t2 v)).
Proof.
  autounfold with src.
  unfold validate. cbn [parse]. rewrite as_pts_t2.
  name_pt_body Hpt.
  destruct (forallb chk_pt v) eqn:Hc.
  - rewrite (for_each_true _ _ _ Hpt Hc). rewrite forallb_chk in Hc. apply andb_true_iff in Hc. destruct Hc as [Hi Ho].
    rewrite Hi. cbn [option_map accept normalise bind]. unfold line_okb. rewrite map_length, Ho.
    unfold src_rel. destruct (Nat.leb_spec 2 (length v)) as [Hl|Hl]; cbn [andb].
    + replace (py_len v <? 2)%Z with false by (symmetry; unfold py_len; apply Z.ltb_ge; lia).
      cbn [bind]. rewrite (src_first_time v) by (assumption || lia).
      rewrite (src_last_time v) by (assumption || lia).
      destruct (qltb (last_time (map to_pt v)) (first_time (map to_pt v))); cbn [dump].
      * rewrite <- map_rev. apply dump_t2. rewrite forallb_is_pt_rev. exact Hi.
      * apply dump_t2. exact Hi.
    + replace (py_len v <? 2)%Z with true by (symmetry; unfold py_len; apply Z.ltb_lt; lia). exact I.
  - destruct (for_each_false _ _ _ Hpt Hc) as [e ->]. cbn [bind].
    unfold src_rel. destruct (forallb is_pt v) eqn:Hi; cbn [option_map].
    + rewrite forallb_chk, Hi in Hc. cbn [andb] in Hc. cbn [accept]. unfold line_okb. rewrite Hc, andb_false_r.
      len_crush; exact I.
    + len_crush; exact I.
Qed.

(* ---------- nested loops ---------- *)
Ltac use_loop Hd Hc :=
  first [ rewrite (for_each_true _ _ _ Hd Hc)
        | let e := fresh "e" in destruct (for_each_false _ _ _ Hd Hc) as [e ->] ].

(* body of a loop over rings / lines: a length guard, then the per-point loop *)
Ltac solve_seq_body refdef :=
  let ring := fresh "ring" in
  intro ring; unfold refdef;
  let Hpt := fresh "Hpt" in name_pt_body Hpt;
  let Hc := fresh "Hc" in
  destruct (forallb chk_pt ring) eqn:Hc; use_loop Hpt Hc; cbn [bind];
  len_crush; try reflexivity; try (eexists; reflexivity).

Ltac name_seq_body H refdef :=
  match goal with
  | |- context [for_each _ ?f] =>
      lazymatch type of f with
      | list (list Q) -> res unit => assert (H : decides f refdef) by solve_seq_body refdef
      end
  end.

Lemma forallb_ref_ring_model v : forallb (forallb is_pt) v = true ->
  forallb ref_ring v = forallb ring_okb (map (map to_pt) v).
Proof. intro H. rewrite forallb_map. apply (forallb_ext_in _ _ (forallb is_pt)); [apply ref_ring_model|exact H]. Qed.

Lemma forallb_ref_line_model v : forallb (forallb is_pt) v = true ->
  forallb ref_line v = forallb line_okb (map (map to_pt) v).
Proof. intro H. rewrite forallb_map. apply (forallb_ext_in _ _ (forallb is_pt)); [apply ref_line_model|exact H]. Qed.

(* ---------- Polygon ---------- *)
Theorem src_Polygon v : src_rel t3 (Source.Polygon_validate v) (validate TPolygon (t3 v)).
Proof.
  autounfold with src.
  unfold validate. cbn [parse]. rewrite as_ptss_t3.
  name_seq_body Hr ref_ring.
  destruct (forallb ref_ring v) eqn:Hc; use_loop Hr Hc; cbn [bind].
  - pose proof (ref_ok_is_pt _ _ _ ref_ring_is_pt Hc) as Hi. rewrite Hi.
    cbn [option_map accept normalise]. unfold poly_okb. rewrite map_length, <- forallb_ref_ring_model, Hc by exact Hi.
    unfold src_rel. len_crush. apply dump_t3. exact Hi.
  - unfold src_rel. destruct (forallb (forallb is_pt) v) eqn:Hi; cbn [option_map].
    + cbn [accept]. unfold poly_okb. rewrite <- forallb_ref_ring_model, Hc, andb_false_r by exact Hi.
      len_crush; exact I.
    + len_crush; exact I.
Qed.

(* a loop whose body is only known to decide [p] on elements satisfying [c] *)
Lemma for_each_decides_in {A} (f : A -> res unit) (p c : A -> bool) l :
  (forall x, c x = true -> if p x then f x = Ok tt else exists e, f x = Err e) ->
  forallb c l = true ->
  if forallb p l then for_each l f = Ok tt else exists e, for_each l f = Err e.
Proof.
  intros H. induction l as [|x l IH]; [reflexivity|]. cbn [forallb for_each]. intro E.
  apply andb_true_iff in E. destruct E as [E1 E2]. specialize (H x E1). specialize (IH E2).
  destruct (p x); cbn [andb].
  - rewrite H. cbn [bind]. exact IH.
  - destruct H as [e ->]. exists e. reflexivity.
Qed.

Definition strict_line (l : list (list Q)) : bool :=
  qltb (first_time (map to_pt l)) (last_time (map to_pt l)).

(* ---------- MultiLineString ---------- *)
Theorem src_MultiLineString v :
  src_rel t3 (Source.MultiLineString_validate v) (validate TMultiLineString (t3 v)).
Proof.
  autounfold with src.
  unfold validate. cbn [parse]. rewrite as_ptss_t3.
  name_seq_body Hr ref_line.
  destruct (forallb ref_line v) eqn:Hc; use_loop Hr Hc; cbn [bind].
  - pose proof (ref_ok_is_pt _ _ _ ref_line_is_pt Hc) as Hi. rewrite Hi.
    cbn [option_map accept normalise]. rewrite map_length, <- forallb_ref_line_model, Hc by exact Hi.
    rewrite forallb_map. fold strict_line.
    unfold src_rel. destruct (Nat.leb_spec 1 (length v)) as [Hl|Hl]; cbn [andb].
    + replace (py_len v <? 1)%Z with false by (symmetry; unfold py_len; apply Z.ltb_ge; lia).
      cbn [bind].
      match goal with |- context [for_each v ?f] =>
        assert (Hbody : forall x, ref_line x = true ->
                  if strict_line x then f x = Ok tt else exists e, f x = Err e) end.
      { intros line Hline. pose proof (ref_line_is_pt _ Hline) as Hli.
        assert (Hlen : (1 <= length line)%nat).
        { unfold ref_line in Hline. apply andb_true_iff in Hline. destruct Hline as [Hl2 _].
          apply Nat.leb_le in Hl2. lia. }
        rewrite (src_first_time line) by assumption.
        rewrite (src_last_time line) by assumption.
        unfold strict_line. destruct (qltb (first_time (map to_pt line)) (last_time (map to_pt line)));
          cbn [negb]; [reflexivity|eexists; reflexivity]. }
      pose proof (for_each_decides_in _ _ _ v Hbody Hc) as Hs. cbv beta in Hs.
      destruct (forallb strict_line v).
      * rewrite Hs. cbn [bind dump]. apply dump_t3. exact Hi.
      * destruct Hs as [e ->]. exact I.
    + replace (py_len v <? 1)%Z with true by (symmetry; unfold py_len; apply Z.ltb_lt; lia). exact I.
  - unfold src_rel. destruct (forallb (forallb is_pt) v) eqn:Hi; cbn [option_map].
    + cbn [accept]. rewrite <- forallb_ref_line_model, Hc, andb_false_r by exact Hi. cbn [andb].
      len_crush; exact I.
    + len_crush; exact I.
Qed.

(* ---------- MultiPolygon ---------- *)
Ltac solve_poly_body :=
  let poly := fresh "poly" in
  intro poly; unfold ref_poly;
  let Hr := fresh "Hr" in name_seq_body Hr ref_ring;
  let Hc := fresh "Hc" in
  destruct (forallb ref_ring poly) eqn:Hc; use_loop Hr Hc; cbn [bind];
  len_crush; try reflexivity; try (eexists; reflexivity).

Lemma forallb_ref_poly_model v : forallb (forallb (forallb is_pt)) v = true ->
  forallb ref_poly v = forallb poly_okb (map (map (map to_pt)) v).
Proof. intro H. rewrite forallb_map. apply (forallb_ext_in _ _ (forallb (forallb is_pt))); [apply ref_poly_model|exact H]. Qed.

Theorem src_MultiPolygon v :
  src_rel t4 (Source.MultiPolygon_validate v) (validate TMultiPolygon (t4 v)).
Proof.
  autounfold with src.
  unfold validate. cbn [parse]. rewrite as_ptsss_t4.
  match goal with
  | |- context [for_each _ ?f] =>
      lazymatch type of f with
      | list (list (list Q)) -> res unit => assert (Hp : decides f ref_poly) by solve_poly_body
      end
  end.
  destruct (forallb ref_poly v) eqn:Hc; use_loop Hp Hc; cbn [bind].
  - pose proof (ref_ok_is_pt _ _ _ ref_poly_is_pt Hc) as Hi. rewrite Hi.
    cbn [option_map accept normalise]. rewrite map_length, <- forallb_ref_poly_model, Hc by exact Hi.
    unfold src_rel. len_crush. apply dump_t4. exact Hi.
  - unfold src_rel. destruct (forallb (forallb (forallb is_pt)) v) eqn:Hi; cbn [option_map].
    + cbn [accept]. rewrite <- forallb_ref_poly_model, Hc, andb_false_r by exact Hi.
      len_crush; exact I.
    + len_crush; exact I.
Qed.

(* ---------- consequences stated on the generated validators ---------- *)
(* accepted exactly when the model accepts; in particular the result is a valid geometry of the
   class, and its coordinates are those of the model's normalised geometry *)
Corollary src_accept_valid {A} (enc : A -> tree) (r : res A) T t v' :
  src_rel enc r (validate T t) -> r = Ok v' ->
  exists g, validate T t = Ok g /\ enc v' = dump g /\ validb g = true /\ type_of g = T.
Proof.
  intros H ->. unfold src_rel in H. destruct (validate T t) as [g|e] eqn:E; [|contradiction].
  exists g. split; [reflexivity|]. split; [exact H|]. apply (accepted_valid T t g E).
Qed.

Corollary src_reject {A} (enc : A -> tree) (r : res A) T t e :
  src_rel enc r (validate T t) -> r = Err e -> validate T t = Err EValidation.
Proof.
  intros H ->. unfold src_rel in H. destruct (validate T t) as [g|e'] eqn:E; [contradiction|].
  f_equal. apply (reject_class T t e' E).
Qed.
