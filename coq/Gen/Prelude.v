(* Gen/Prelude.v — the run-time library of the Python-to-Gallina translator (harness/pygen.py).
   Gen/Source.v is REGENERATED from /repo/src on every run; its definitions use only what is
   defined here.  Every combinator below is the meaning the translator gives to one Python
   construct; nothing here is specific to one function of soundevent, except the glue at the end
   (how the opaque objects of the library — a geometry, the result of compute_bounds, a
   constructor call — are represented), which is part of the translator's trusted base. *)
From SE Require Export Base.Num Base.Res Geom.Geometry Geom.Buffer Geom.Features Eval.Encoding.
From SE Require Aoef.Paths.
From Coq Require Import Qround.
Open Scope Q_scope.

(* ---- Optional[...] ---- *)
Definition is_some {A} (o : option A) : bool := match o with Some _ => true | None => false end.
Definition is_none {A} (o : option A) : bool := negb (is_some o).

(* ---- lists ---- *)
Definition py_len {A} (l : list A) : Z := Z.of_nat (length l).

(* l[i] for a constant index, negative indices counted from the end; IndexError = EOther *)
Definition py_index {A} (l : list A) (i : Z) : res A :=
  let n := py_len l in
  let j := if (i <? 0)%Z then (n + i)%Z else i in
  if (j <? 0)%Z then Err EOther
  else match nth_error l (Z.to_nat j) with Some x => Ok x | None => Err EOther end.

(* `for x in l: body` where the body can only raise or fall through *)
Fixpoint for_each {A} (l : list A) (f : A -> res unit) : res unit :=
  match l with
  | [] => Ok tt
  | x :: r => bind (f x) (fun _ => for_each r f)
  end.

(* ---- arithmetic ---- *)
(* a / b on floats: ZeroDivisionError = EOther *)
Definition py_div (a b : Q) : res Q := if qeqb b 0 then Err EOther else Ok (a / b).

(* ---- generators: `for i in itertools.count(): ...` whose body breaks, raises or yields once ---- *)
Inductive step (A : Type) := SBreak | SYield (a : A) | SRaise (e : errclass).
Arguments SBreak {A}.
Arguments SYield {A} a.
Arguments SRaise {A} e.

(* lifting of a failing sub-computation into a loop body *)
Definition sbind {A B} (x : res A) (f : A -> step B) : step B :=
  match x with Ok a => f a | Err e => SRaise e end.

(* The fuel is an argument of every generated generator function; the theorems state for which
   fuel the loop ends by its own `break` (never by exhaustion). Exhaustion returns None. *)
Fixpoint count_loop {A} (fuel : nat) (i : nat) (body : nat -> step A) : option (res (list A)) :=
  match body i with
  | SBreak => Some (Ok [])
  | SRaise e => Some (Err e)
  | SYield a =>
      match fuel with
      | O => None
      | S f =>
          match count_loop f (S i) body with
          | Some (Ok r) => Some (Ok (a :: r))
          | other => other
          end
      end
  end.

(* ---- f-strings and uuid5: kept symbolic ---- *)
Inductive fpart := FS (code : Z) | FQ (q : Q) | FId (id : Z).
Definition ident := (Z * list fpart)%type.
Definition py_uuid5 (namespace : Z) (name : list fpart) : ident := (namespace, name).

(* ================= glue: representation of the library's objects ================= *)

(* compute_bounds(geometry) -> (start_time, low_freq, end_time, high_freq) *)
Definition py_compute_bounds (g : geom) : res (Q * Q * Q * Q) :=
  match compute_bounds g with
  | Some b => Ok (b_start b, b_low b, b_end b, b_high b)
  | None => Err EOther
  end.

(* geometry.type == "<Name>" and `geometry.type in {...}` *)
Definition has_type (g : geom) (t : gtype) : bool := gtype_eqb (type_of g) t.
Definition type_in (g : geom) (ts : list gtype) : bool := existsb (has_type g) ts.

(* constructor calls data.X(coordinates=[...]).  The constructor runs the validators; the
   closed-form buffers are proved to produce valid coordinates (C11), so the constructor is the
   identity on them and is modelled as such. *)
Definition mk_TimeInterval (c : list Q) : res geom :=
  match c with [a; b] => Ok (TimeInterval a b) | _ => Err EValidation end.
Definition mk_BoundingBox (c : list Q) : res geom :=
  match c with [a; b; c'; d] => Ok (BBox a b c' d) | _ => Err EValidation end.

(* data.Clip(uuid=..., start_time=..., end_time=..., recording=...): the `before` validator
   rejects start_time > end_time *)
Record segclip := { sc_id : ident; sc_start : Q; sc_end : Q }.
Definition mk_Clip (id : ident) (s e : Q) : res segclip :=
  if qltb e s then Err EValidation else Ok {| sc_id := id; sc_start := s; sc_end := e |}.

(* ================= second batch of units (C19 encoders, C04 validators, C05 features) ================= *)

(* ---- loops that update variables of the enclosing scope and / or return from the function ---- *)
(* what one iteration answers: go on with a new state, leave the loop (break), or return from the function *)
Inductive bres (S R : Type) := BNext (s : S) | BBreak (s : S) | BRet (r : R).
Arguments BNext {S R} s.
Arguments BBreak {S R} s.
Arguments BRet {S R} r.
(* what the loop as a whole answers *)
Inductive lres (S R : Type) := LDone (s : S) | LRet (r : R).
Arguments LDone {S R} s.
Arguments LRet {S R} r.

Fixpoint fold_loop {A S R} (l : list A) (s : S) (body : S -> A -> res (bres S R)) : res (lres S R) :=
  match l with
  | [] => Ok (LDone s)
  | x :: r =>
      bind (body s x) (fun o => match o with
                                | BNext s' => fold_loop r s' body
                                | BBreak s' => Ok (LDone s')
                                | BRet v => Ok (LRet v)
                                end)
  end.

(* x[i] = v on a list (IndexError = EOther); np.zeros *)
Fixpoint py_set_nth {A} (l : list A) (i : nat) (v : A) : res (list A) :=
  match l, i with
  | [], _ => Err EOther
  | _ :: r, O => Ok (v :: r)
  | y :: r, S j => bind (py_set_nth r j v) (fun r' => Ok (y :: r'))
  end.
Definition py_set_nth_z {A} (l : list A) (i : Z) (v : A) : res (list A) :=
  let n := Z.of_nat (length l) in
  let j := if (i <? 0)%Z then (n + i)%Z else i in
  if (j <? 0)%Z then Err EOther else py_set_nth l (Z.to_nat j) v.
Definition zeros_z (n : nat) : list Z := repeat 0%Z n.
Definition zeros_q (n : nat) : list Q := repeat 0 n.

(* ---- sets of identifiers: a set is a duplicate-free list (first occurrences, in order) ---- *)
Definition memz (x : Z) (l : list Z) : bool := existsb (Z.eqb x) l.
Fixpoint py_set (l : list Z) : list Z :=
  match l with
  | [] => []
  | x :: r => let s := py_set r in if memz x s then s else x :: s
  end.
Definition subsetz (a b : list Z) : bool := forallb (fun x => memz x b) a.
Definition set_eqz (a b : list Z) : bool := subsetz a b && subsetz b a.

(* ---- shapely objects: bounds (an empty shape has none), parts of a multi-geometry; Feature(term, value) ---- *)
Definition py_shp_bounds (s : shp) : res (Q * Q * Q * Q) :=
  match shp_bounds s with
  | Some b => Ok (b_start b, b_low b, b_end b, b_high b)
  | None => Err EOther
  end.
Definition shp_geoms (s : shp) : list unit :=
  match s with
  | SMultiPoint l => map (fun _ => tt) l
  | SMultiLine l => map (fun _ => tt) l
  | SMultiPoly l => map (fun _ => tt) l
  | _ => []
  end.
Definition mk_feature (n : fname) (v : Q) : fname * Q := (n, v).

(* ---- dicts keyed by identifiers: an association list in insertion order; a later entry for a key
   replaces the earlier one, so a lookup takes the LAST entry with that key (KeyError = EKey) ---- *)
Definition py_dict_mem {A} (k : Z) (d : list (Z * A)) : bool := existsb (fun kv => Z.eqb (fst kv) k) d.
Fixpoint py_dict_find {A} (d : list (Z * A)) (k : Z) : option A :=
  match d with
  | [] => None
  | (k', v) :: r => match py_dict_find r k with Some w => Some w | None => if Z.eqb k' k then Some v else None end
  end.
Definition py_dict_get {A} (d : list (Z * A)) (k : Z) : res A :=
  match py_dict_find d k with Some v => Ok v | None => Err EKey end.

(* ---- one axis of an xarray array: (coordinate, value) pairs; its pandas index = the coordinates.
   index.min() / index.max() raise ValueError on an empty index ---- *)
From SE Require Export Arr.Index Arr.CropExtend.
Definition py_idx_min (cs : list Q) : res Q := match cs with [] => Err EValue | c :: r => Ok (qmin_list c r) end.
Definition py_idx_max (cs : list Q) : res Q := match cs with [] => Err EValue | c :: r => Ok (qmax_list c r) end.

(* ---- shapely constructors on coordinate lists: a point is a list of exactly two numbers ---- *)
Definition pts_lists (l : list pt) : list (list Q) := map (fun p => [fst p; snd p]) l.
Fixpoint lists_pts (l : list (list Q)) : res (list pt) :=
  match l with
  | [] => Ok []
  | [a; b] :: r => bind (lists_pts r) (fun r' => Ok ((a, b) :: r'))
  | _ => Err EValue
  end.
Fixpoint map_res {A B} (f : A -> res B) (l : list A) : res (list B) :=
  match l with
  | [] => Ok []
  | x :: r => bind (f x) (fun y => bind (map_res f r) (fun r' => Ok (y :: r')))
  end.
Definition shp_linestring (l : list (list Q)) : res shp := bind (lists_pts l) (fun p => Ok (SLine p)).
Definition shp_point (c : list Q) : res shp := match c with [a; b] => Ok (SPoint (a, b)) | _ => Err EValue end.
Definition shp_box (x0 y0 x1 y1 : Q) : shp := SPoly (box_ring x0 y0 x1 y1) [].
Definition shp_polygon (shell : list (list Q)) (holes : list (list (list Q))) : res shp :=
  bind (lists_pts shell) (fun s => bind (map_res lists_pts holes) (fun hs => Ok (SPoly (close_ring s) (map close_ring hs)))).
Definition shp_multipoint (l : list (list Q)) : res shp := bind (lists_pts l) (fun p => Ok (SMultiPoint p)).
Definition shp_multilinestring (ls : list (list (list Q))) : res shp := bind (map_res lists_pts ls) (fun x => Ok (SMultiLine x)).
Definition shp_multipolygon (ps : list shp) : res shp :=
  bind (map_res (fun s => match s with SPoly sh hs => Ok (sh, hs) | _ => Err EType end) ps) (fun x => Ok (SMultiPoly x)).

(* int(x) on a float: truncation toward zero *)
Definition py_int (q : Q) : Z := if qltb q 0 then (- Qfloor (- q))%Z else Qfloor q.

(* ================= C13: enumerate, combinations(…, 2), scipy's COO constructor ================= *)
Definition py_enumerate {A} (l : list A) : list (nat * A) := combine (seq 0 (length l)) l.
Fixpoint py_combinations2 {A} (l : list A) : list (A * A) :=
  match l with
  | [] => []
  | x :: r => map (pair x) r ++ py_combinations2 r
  end.
(* sparse.coo_array((data, (i, j)), shape=(r, c)): entry k is data[k] at row i[k], column j[k] *)
Record coo := mk_coo { coo_data : list Q; coo_i : list nat; coo_j : list nat; coo_rows : Z; coo_cols : Z }.
(* a defaultdict(list-like) used only through d[k].append(v), represented by the log of its insertions:
   values() = one list per key, keys in order of first insertion, values in order of insertion *)
Fixpoint dd_insert {A} (k : nat) (v : A) (d : list (nat * list A)) : list (nat * list A) :=
  match d with
  | [] => [(k, [v])]
  | (k', m) :: r => if Nat.eqb k k' then (k', m ++ [v]) :: r else (k', m) :: dd_insert k v r
  end.
Definition dd_values {A} (log : list (nat * A)) : list (list A) :=
  map snd (fold_left (fun d p => dd_insert (fst p) (snd p) d) log []).

(* ================= C18: pathlib on lists of components (Aoef/Paths.v) ================= *)
Definition py_relative_to (p d : list Z) : res (list Z) :=
  match SE.Aoef.Paths.strip d p with Some r => Ok r | None => Err EValue end.
Definition py_path_join (d p : list Z) : list Z := SE.Aoef.Paths.join d p.
