(* Gen/SrcPaths.v — the `path` field of a recording in an AOEF document (property C18) on the definitions read from the
   source: the statements of RecordingAdapter.assemble_aoef / assemble_soundevent (soundevent/io/aoef/recording.py) that
   compute the local `path` handed to the returned object as `path=path`, as generated in Gen/Source.v (`self.audio_dir` and
   `obj.path` are the parameters).  For EVERY audio directory (given or not) and EVERY path the code as written computes
   what the model Aoef/Paths.v computes: relative_to on write (ValueError outside the directory), join on read. *)
From Coq Require Import ZArith List Bool.
From SE Require Import Base.Res Gen.Prelude Gen.Source Aoef.Paths Aoef.PathsProofs.
Import ListNotations.

Theorem src_save_path dir p : Source.recording_save_path dir p = Paths.save_path dir p.
Proof.
  unfold Source.recording_save_path, Paths.save_path, py_relative_to.
  destruct dir as [a|]; [|reflexivity]. destruct (strip a p); reflexivity.
Qed.

Theorem src_load_path dir q : Source.recording_load_path dir q = Ok (Paths.load_path dir q).
Proof.
  unfold Source.recording_load_path, Paths.load_path, py_path_join. destruct dir; reflexivity.
Qed.

(* saving under A and loading under B, as the code is written, maps A/x to B/x *)
Theorem src_relocation a b x : is_abs x = false ->
  bind (Source.recording_save_path (Some a) (a ++ x)) (Source.recording_load_path (Some b)) = Ok (b ++ x).
Proof.
  intro Hx. rewrite src_save_path. cbn [save_path].
  assert (Hs : strip a (a ++ x) = Some x).
  { induction a as [|c a IH]; [destruct x; reflexivity|]. cbn [app strip]. rewrite Z.eqb_refl. exact IH. }
  rewrite Hs. cbn [bind]. rewrite src_load_path. cbn [load_path]. unfold join. rewrite Hx. reflexivity.
Qed.

(* a recording outside the directory: ValueError, whatever the rest *)
Theorem src_outside_fails a p : strip a p = None -> Source.recording_save_path (Some a) p = Err EValue.
Proof. intro H. rewrite src_save_path. cbn [save_path]. rewrite H. reflexivity. Qed.

Theorem src_no_dir p : Source.recording_save_path None p = Ok p /\ Source.recording_load_path None p = Ok p.
Proof. split; [rewrite src_save_path|rewrite src_load_path]; reflexivity. Qed.

Example src_paths_ex :
  Source.recording_save_path (Some [0; 5; 6]%Z) [0; 5; 6; 7; 8]%Z = Ok [7; 8]%Z /\
  Source.recording_save_path (Some [0; 5; 6]%Z) [0; 5; 9; 8]%Z = Err EValue /\
  Source.recording_load_path (Some [0; 3]%Z) [7; 8]%Z = Ok [0; 3; 7; 8]%Z.
Proof. vm_compute. repeat split. Qed.
