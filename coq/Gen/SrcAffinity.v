(* Gen/SrcAffinity.v — property C06 on the definitions read from the source: the time-only branch
   of soundevent/evaluation/affinity.py and the two type sets that steer the dispatch. *)
From Coq Require Import QArith Lqa Lia Bool Qminmax.
From SE Require Import Base.Num Base.Res Base.NumProofs Geom.Geometry Eval.Affinity Eval.AffinityProofs
  Gen.Prelude Gen.Source Gen.Tactics.
Open Scope Q_scope.

(* the generated function returns, on the time extents of its arguments, a value == the model's *)
Theorem src_affinity_time g1 g2 s1 l1 e1 h1 s2 l2 e2 h2 :
  py_compute_bounds g1 = Ok (s1, l1, e1, h1) -> py_compute_bounds g2 = Ok (s2, l2, e2, h2) ->
  exists q, Source.compute_affinity_in_time g1 g2 = Ok q /\ q == affinity_time s1 e1 s2 e2.
Proof.
  intros H1 H2. autounfold with src. rewrite H1, H2. cbn [bind].
  unfold affinity_time, py_div.
  set (i := pymax 0 (pymin e1 e2 - pymax s1 s2)).
  repeat break_step; eexists; (split; [reflexivity|]); try reflexivity; exfalso; q_hyps;
    repeat match goal with H : ~ _ == _ |- _ => apply H; clear H end; try lra; try (symmetry; lra).
Qed.

Theorem src_affinity_time_err g1 g2 :
  (exists e, py_compute_bounds g1 = Err e) \/ (exists e, py_compute_bounds g2 = Err e) ->
  exists e, Source.compute_affinity_in_time g1 g2 = Err e.
Proof.
  autounfold with src. intros [[e H]|[e H]].
  - rewrite H. eexists; reflexivity.
  - destruct (py_compute_bounds g1) as [[[[a b] c] d]|e1]; [|eexists; reflexivity].
    rewrite H. eexists; reflexivity.
Qed.

(* consequences, stated directly on the generated function *)
Theorem src_time_range g1 g2 s1 l1 e1 h1 s2 l2 e2 h2 :
  py_compute_bounds g1 = Ok (s1, l1, e1, h1) -> py_compute_bounds g2 = Ok (s2, l2, e2, h2) ->
  s1 <= e1 -> s2 <= e2 ->
  exists q, Source.compute_affinity_in_time g1 g2 = Ok q /\ 0 <= q /\ q <= 1.
Proof.
  intros H1 H2 Ha Hb. destruct (src_affinity_time _ _ _ _ _ _ _ _ _ _ H1 H2) as (q & Hq & E).
  exists q. split; [exact Hq|]. rewrite E. apply time_range; assumption.
Qed.

Theorem src_time_symmetric g1 g2 s1 l1 e1 h1 s2 l2 e2 h2 :
  py_compute_bounds g1 = Ok (s1, l1, e1, h1) -> py_compute_bounds g2 = Ok (s2, l2, e2, h2) ->
  exists q q', Source.compute_affinity_in_time g1 g2 = Ok q /\ Source.compute_affinity_in_time g2 g1 = Ok q' /\ q == q'.
Proof.
  intros H1 H2. destruct (src_affinity_time _ _ _ _ _ _ _ _ _ _ H1 H2) as (q & Hq & E).
  destruct (src_affinity_time _ _ _ _ _ _ _ _ _ _ H2 H1) as (q' & Hq' & E').
  exists q, q'. repeat split; try assumption. rewrite E, E'. apply time_symmetric.
Qed.

Theorem src_time_self_one g s l e h :
  py_compute_bounds g = Ok (s, l, e, h) -> s < e ->
  exists q, Source.compute_affinity_in_time g g = Ok q /\ q == 1.
Proof.
  intros H1 Hlt. destruct (src_affinity_time _ _ _ _ _ _ _ _ _ _ H1 H1) as (q & Hq & E).
  exists q. split; [exact Hq|]. rewrite E. apply time_self_one; assumption.
Qed.

Theorem src_time_disjoint_zero g1 g2 s1 l1 e1 h1 s2 l2 e2 h2 :
  py_compute_bounds g1 = Ok (s1, l1, e1, h1) -> py_compute_bounds g2 = Ok (s2, l2, e2, h2) ->
  (e1 <= s2 \/ e2 <= s1) ->
  exists q, Source.compute_affinity_in_time g1 g2 = Ok q /\ q == 0.
Proof.
  intros H1 H2 Hd. destruct (src_affinity_time _ _ _ _ _ _ _ _ _ _ H1 H2) as (q & Hq & E).
  exists q. split; [exact Hq|]. rewrite E. apply time_disjoint_zero; assumption.
Qed.

(* the type sets read from the source are the ones the model's dispatch uses *)
Theorem src_time_types g : type_in g Source.TIME_GEOMETRY_TYPES = is_time_only g.
Proof. destruct g; reflexivity. Qed.

Theorem src_buffer_types g : type_in g Source.BUFFER_GEOMETRY_TYPES = is_buffered_type g.
Proof. destruct g; reflexivity. Qed.

(* ---- the area branch: what compute_affinity does with the three GEOS quantities (the zero-union guard, the division
   and the clamp to 1) — for every value the library may return ---- *)
Theorem src_affinity_area a1 a2 i :
  exists q, Source.compute_affinity_area_tail a1 a2 i = Ok q /\ q == affinity_area a1 a2 i.
Proof.
  autounfold with src. unfold affinity_area, py_div.
  repeat (break_step; cbn [bind]); eexists; (split; [reflexivity|]); try reflexivity; exfalso; q_hyps;
    repeat match goal with H : ~ _ == _ |- _ => apply H; clear H end; try lra; try (symmetry; lra).
Qed.

Theorem src_area_range a1 a2 i : 0 <= i -> i <= a1 + a2 ->
  exists q, Source.compute_affinity_area_tail a1 a2 i = Ok q /\ 0 <= q /\ q <= 1.
Proof.
  intros H1 H2. destruct (src_affinity_area a1 a2 i) as (q & Hq & E). exists q. split; [exact Hq|].
  rewrite E. apply area_range; assumption.
Qed.
