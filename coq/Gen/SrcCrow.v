(* Gen/SrcCrow.v — property C10 on two helpers of the crowsetta export read from the source:
   convert_geometry_to_bbox (io/crowsetta/bbox.py: the two refusals, then the bounds) and
   convert_time_to_sample (io/crowsetta/segment.py: int(time * samplerate), which is the floor the model
   uses on the non-negative domain). *)
From Coq Require Import QArith ZArith Bool Lqa Qround.
From SE Require Import Base.Num Base.Res Base.NumProofs Geom.Geometry Crow.Convert Gen.Prelude Gen.Source.
Open Scope Q_scope.

Theorem src_convert_geometry_to_bbox g cast rot :
  Source.convert_geometry_to_bbox g cast rot =
  if negb (is_bbox g) && negb cast then Err EValue
  else if is_time_geometry g && rot then Err EValue
  else py_compute_bounds g.
Proof.
  autounfold with src. unfold has_type, type_in, is_bbox, is_time_geometry.
  destruct g, cast, rot; reflexivity.
Qed.

Theorem src_convert_time_to_sample sr t : 0 <= t * sr ->
  Source.convert_time_to_sample sr t = Ok (time_to_sample t sr).
Proof.
  intro H. autounfold with src. unfold py_int, time_to_sample.
  destruct (qltb (t * sr) 0) eqn:E; [|reflexivity].
  apply qltb_spec in E. exfalso. lra.
Qed.
