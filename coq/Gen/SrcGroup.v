(* Gen/SrcGroup.v — the adjacency matrix of group_sound_events (property C13) on the definition read
   from the source: _compute_similarity_matrix of soundevent/geometry/operations.py as generated in
   Gen/Source.v.  A sound event is represented by an identifier (Z), the comparison function is a
   parameter.  For EVERY list of events and EVERY comparison function the code as written
     - queries the comparison function exactly on the pairs (events[i], events[j]), i < j < n, in the
       order of Components.pairs n (so never on an event with itself, each unordered pair once);
     - returns the n x n COO matrix whose entries are, for every edge (i, j) of
       Components.edges_of n rel (rel i j = comparison_fn events[i] events[j]) in order, a 1 at
       (i, j) and a 1 at (j, i): the symmetric adjacency of the similarity graph, nothing on the
       diagonal, nothing out of range.
   The proofs state the loop over an abstract list of pairs, so a rewrite of the function that
   computes the same matrix keeps them, and one that computes another matrix does not. *)
From Coq Require Import QArith ZArith List Bool Lia.
From SE Require Import Base.Num Base.Res Gen.Prelude Gen.Source Misc.Components Misc.ComponentsProofs Misc.GroupLoop.
Import ListNotations.
Local Open Scope nat_scope.

Definition ev (evs : list Z) (i : nat) : Z := nth i evs 0%Z.
Definition rel_on (cmp : Z -> Z -> bool) (evs : list Z) (i j : nat) : bool := cmp (ev evs i) (ev evs j).
(* what the loop variable ((index1, se1), (index2, se2)) is for the pair of positions p *)
Definition item (evs : list Z) (p : nat * nat) : (nat * Z) * (nat * Z) :=
  ((fst p, ev evs (fst p)), (snd p, ev evs (snd p))).

(* ---- enumerate / combinations ---- *)
Lemma combine_seq_map {A} (f : nat -> A) m : forall k,
  combine (seq k m) (map f (seq k m)) = map (fun i => (i, f i)) (seq k m).
Proof. induction m as [|m IH]; intro k; [reflexivity|]. cbn [seq map combine]. rewrite IH. reflexivity. Qed.

Lemma map_nth_seq (l : list Z) : map (fun i => nth i l 0%Z) (seq 0 (length l)) = l.
Proof.
  apply nth_ext with (d := 0%Z) (d' := 0%Z); [rewrite map_length, seq_length; reflexivity|].
  intros i Hi. rewrite map_length, seq_length in Hi.
  rewrite (map_nth_lt (fun i => nth i l 0%Z) (seq 0 (length l)) i 0 0%Z) by (rewrite seq_length; exact Hi).
  rewrite seq_nth by exact Hi. reflexivity.
Qed.

Lemma enumerate_spec evs : py_enumerate evs = map (fun i => (i, ev evs i)) (seq 0 (length evs)).
Proof.
  unfold py_enumerate.
  transitivity (combine (seq 0 (length evs)) (map (ev evs) (seq 0 (length evs)))).
  - f_equal. symmetry. apply map_nth_seq.
  - apply combine_seq_map.
Qed.

Lemma combinations_seq {A} (f : nat -> A) m : forall k,
  py_combinations2 (map (fun i => (i, f i)) (seq k m)) =
  map (fun p => ((fst p, f (fst p)), (snd p, f (snd p))))
      (flat_map (fun i => map (pair i) (seq (S i) (k + m - S i))) (seq k m)).
Proof.
  induction m as [|m IH]; intro k; [reflexivity|].
  cbn [seq map py_combinations2 flat_map]. rewrite map_app. f_equal.
  - replace (k + S m - S k) with m by lia. rewrite !map_map. reflexivity.
  - rewrite IH. f_equal. apply flat_map_ext. intro i. replace (S k + m - S i) with (k + S m - S i) by lia. reflexivity.
Qed.

(* the pairs the loop runs over: exactly Components.pairs n, in that order, each with its two events *)
Theorem loop_items evs : py_combinations2 (py_enumerate evs) = map (item evs) (pairs (length evs)).
Proof. rewrite enumerate_spec, combinations_seq. reflexivity. Qed.

(* ---- the loop, over any list of pairs ---- *)
Definition ij (E : list (nat * nat)) : list nat := flat_map (fun p => [fst p; snd p]) E.
Definition ji (E : list (nat * nat)) : list nat := flat_map (fun p => [snd p; fst p]) E.
Definition ones (E : list (nat * nat)) : list Q := flat_map (fun _ => [1; 1]%Q) E.
Definition sel (cmp : Z -> Z -> bool) (evs : list Z) (ps : list (nat * nat)) : list (nat * nat) :=
  filter (fun p => rel_on cmp evs (fst p) (snd p)) ps.

Definition adjacency (cmp : Z -> Z -> bool) (evs : list Z) : coo :=
  let E := edges_of (length evs) (rel_on cmp evs) in
  mk_coo (ones E) (ij E) (ji E) (Z.of_nat (length evs)) (Z.of_nat (length evs)).

Theorem src_similarity_matrix cmp evs :
  Source.compute_similarity_matrix cmp evs = Ok (adjacency cmp evs).
Proof.
  unfold Source.compute_similarity_matrix. rewrite loop_items.
  match goal with |- bind (fold_loop _ _ ?body) _ = _ =>
    assert (H : forall ps c r v,
      fold_loop (S := list nat * list nat * list Q) (R := coo) (map (item evs) ps) (c, r, v) body
      = Ok (LDone (c ++ ij (sel cmp evs ps), r ++ ji (sel cmp evs ps), v ++ ones (sel cmp evs ps))))
  end.
  { induction ps as [|[i j] ps IH]; intros c r v.
    - cbn. rewrite !app_nil_r. reflexivity.
    - cbn [map item fold_loop fst snd sel filter]. fold (sel cmp evs ps). unfold rel_on. cbn [fst snd].
      destruct (cmp (ev evs i) (ev evs j)) eqn:Ecmp; cbn [negb bind].
      + rewrite IH. unfold ij, ji, ones. cbn [flat_map fst snd]. rewrite <- !app_assoc. reflexivity.
      + rewrite IH. reflexivity. }
  rewrite H. cbn [bind app]. unfold adjacency, edges_of, sel, py_len. reflexivity.
Qed.

(* ---- what the matrix says ---- *)
Lemma entries_ij E : combine (ij E) (ji E) = flat_map (fun p => [(fst p, snd p); (snd p, fst p)]) E.
Proof. induction E as [|p E IH]; [reflexivity|]. unfold ij, ji in *. cbn [flat_map app combine]. rewrite IH. reflexivity. Qed.

(* an entry (a, b) is stored iff a and b are two different positions of the input whose events (taken in
   input order) are similar: symmetric, off the diagonal, in range *)
Theorem src_entries cmp evs a b :
  let m := adjacency cmp evs in
  In (a, b) (combine (coo_i m) (coo_j m)) <->
  (a < b /\ b < length evs /\ rel_on cmp evs a b = true) \/ (b < a /\ a < length evs /\ rel_on cmp evs b a = true).
Proof.
  cbn [adjacency coo_i coo_j]. rewrite entries_ij, in_flat_map. split.
  - intros [[i j] [Hin Hab]]. apply in_edges_of in Hin. cbn [fst snd In] in Hab.
    destruct Hab as [Hab|[Hab|[]]]; injection Hab as <- <-; [left|right]; exact Hin.
  - intros [H|H].
    + exists (a, b). split; [apply in_edges_of; exact H|left; reflexivity].
    + exists (b, a). split; [apply in_edges_of; exact H|right; left; reflexivity].
Qed.

Theorem src_entries_symmetric cmp evs a b :
  let m := adjacency cmp evs in
  In (a, b) (combine (coo_i m) (coo_j m)) -> In (b, a) (combine (coo_i m) (coo_j m)).
Proof. intros m H. apply src_entries in H. apply src_entries. tauto. Qed.

Theorem src_no_diagonal cmp evs a :
  let m := adjacency cmp evs in ~ In (a, a) (combine (coo_i m) (coo_j m)).
Proof. intros m H. apply src_entries in H. lia. Qed.

Theorem src_values_one cmp evs x : In x (coo_data (adjacency cmp evs)) -> x = 1%Q.
Proof.
  cbn [adjacency coo_data]. unfold ones. rewrite in_flat_map. intros [p [_ [H|[H|[]]]]]; symmetry; exact H.
Qed.

Theorem src_shape cmp evs :
  coo_rows (adjacency cmp evs) = Z.of_nat (length evs) /\ coo_cols (adjacency cmp evs) = Z.of_nat (length evs) /\
  length (coo_i (adjacency cmp evs)) = length (coo_data (adjacency cmp evs)) /\
  length (coo_j (adjacency cmp evs)) = length (coo_data (adjacency cmp evs)).
Proof.
  cbn [adjacency coo_rows coo_cols coo_i coo_j coo_data]. repeat split.
  - unfold ij, ones. induction (edges_of _ _) as [|p E IH]; [reflexivity|]. cbn [flat_map app length]. rewrite IH. reflexivity.
  - unfold ji, ones. induction (edges_of _ _) as [|p E IH]; [reflexivity|]. cbn [flat_map app length]. rewrite IH. reflexivity.
Qed.

(* the comparison function is applied to the loop items only: positions i < j < n, each unordered pair once *)
Theorem src_queries evs x y :
  In (x, y) (py_combinations2 (py_enumerate evs)) <->
  exists i j, i < j /\ j < length evs /\ x = (i, ev evs i) /\ y = (j, ev evs j).
Proof.
  rewrite loop_items, in_map_iff. split.
  - intros [[i j] [Heq Hin]]. apply in_pairs in Hin. unfold item in Heq. cbn [fst snd] in Heq.
    injection Heq as <- <-. exists i, j. tauto.
  - intros [i [j [H1 [H2 [-> ->]]]]]. exists (i, j). split; [reflexivity|apply in_pairs; tauto].
Qed.

Theorem src_queries_once evs : NoDup (map (fun p : (nat * Z) * (nat * Z) => (fst (fst p), fst (snd p))) (py_combinations2 (py_enumerate evs))).
Proof.
  rewrite loop_items, map_map. unfold item. cbn [fst snd].
  rewrite (map_ext _ (fun p => p)) by (intros [i j]; reflexivity). rewrite map_id. apply NoDup_pairs.
Qed.

Example src_similarity_ex :
  Source.compute_similarity_matrix (fun a b => Z.eqb (Z.abs (a - b)) 1) [10; 20; 11; 21; 12]%Z
  = Ok (mk_coo [1; 1; 1; 1; 1; 1]%Q [0; 2; 1; 3; 2; 4] [2; 0; 3; 1; 4; 2] 5 5).
Proof. vm_compute. reflexivity. Qed.

(* ================= group_sound_events itself ================= *)
(* scipy's connected_components is a parameter `cc` of the generated definition (what it returns for a matrix:
   number of components, one label per node).  For EVERY cc the code as written
     - hands cc the adjacency matrix built by _compute_similarity_matrix (and nothing else);
     - groups the events by label in one pass over zip(events, labels): one list per label, labels in order of
       first occurrence, events in input order. *)
Theorem src_group_sound_events cmp cc evs :
  Source.group_sound_events cmp cc evs = Ok (dd_values (combine (snd (cc (adjacency cmp evs))) evs)).
Proof.
  unfold Source.group_sound_events, Source.compute_similarity_matrix_py. rewrite src_similarity_matrix. cbn [bind].
  destruct (cc (adjacency cmp evs)) as [ncomp labs]. cbn [snd].
  match goal with |- bind (fold_loop _ _ ?body) _ = _ =>
    assert (H : forall (es : list Z) (ls : list nat) acc,
      fold_loop (S := list (nat * Z)) (R := list (list Z)) (combine es ls) acc body
      = Ok (LDone (acc ++ combine ls es)))
  end.
  { induction es as [|e es IH]; intros ls acc; [destruct ls; cbn; rewrite app_nil_r; reflexivity|].
    destruct ls as [|l ls]; [cbn; rewrite app_nil_r; reflexivity|].
    cbn [combine fold_loop bind]. rewrite IH, <- app_assoc. reflexivity. }
  rewrite H. reflexivity.
Qed.

(* the log-based reading of the defaultdict against the position-based grouping loop of the model *)
Definition lift (evs : list Z) (d : list (nat * list nat)) : list (nat * list Z) :=
  map (fun p => (fst p, map (ev evs) (snd p))) d.

Lemma dd_insert_lift evs l i d : dd_insert l (ev evs i) (lift evs d) = lift evs (insert_group l i d).
Proof.
  induction d as [|[l' m] d IH]; [reflexivity|]. cbn [lift map insert_group dd_insert fst snd].
  destruct (Nat.eqb l l').
  - cbn [map fst snd]. rewrite map_app. reflexivity.
  - cbn [map fst snd]. f_equal. exact IH.
Qed.

Lemma fold_lift evs : forall (s labs : list nat) d,
  fold_left (fun d p => dd_insert (fst p) (snd p) d) (combine labs (map (ev evs) s)) (lift evs d)
  = lift evs (fold_left (fun gs p => insert_group (snd p) (fst p) gs) (combine s labs) d).
Proof.
  induction s as [|i s IH]; intros labs d; [destruct labs; reflexivity|].
  destruct labs as [|l labs]; [reflexivity|].
  cbn [map combine fold_left fst snd]. rewrite dd_insert_lift. apply IH.
Qed.

Theorem dd_values_group_by_loop evs labs : length labs = length evs ->
  dd_values (combine labs evs) = map (map (ev evs)) (group_by_loop labs).
Proof.
  intro Hlen. unfold dd_values, group_by_loop.
  rewrite <- (map_nth_seq evs) at 1. fold (ev evs). rewrite <- Hlen.
  change (@nil (nat * list Z)) with (lift evs []). rewrite fold_lift. unfold lift. rewrite !map_map. reflexivity.
Qed.

(* with a component labelling of the right length the result is the model's grouping loop over that labelling,
   events in place of their positions *)
Theorem src_group_sound_events_loop cmp cc evs :
  length (snd (cc (adjacency cmp evs))) = length evs ->
  Source.group_sound_events cmp cc evs = Ok (map (map (ev evs)) (group_by_loop (snd (cc (adjacency cmp evs))))).
Proof. intro H. rewrite src_group_sound_events, dd_values_group_by_loop by exact H. reflexivity. Qed.

(* in particular with the model's label-merging pass over the edges the matrix encodes *)
Theorem src_group_sound_events_model cmp evs :
  let n := length evs in
  let cc := fun m : coo => (0, labels (Z.to_nat (coo_rows m)) (edges_of n (rel_on cmp evs))) in
  Source.group_sound_events cmp cc evs = Ok (map (map (ev evs)) (group_by_loop (labels n (edges_of n (rel_on cmp evs))))).
Proof.
  intros n cc. rewrite src_group_sound_events_loop; subst cc; cbn [snd adjacency coo_rows]; rewrite Nat2Z.id.
  - reflexivity.
  - apply labels_length.
Qed.

Example src_group_ex :
  Source.group_sound_events (fun a b => Z.eqb (Z.abs (a - b)) 1) (fun m => (2, [0; 1; 0; 1; 0])) [10; 20; 11; 21; 12]%Z
  = Ok [[10; 11; 12]; [20; 21]]%Z.
Proof. vm_compute. reflexivity. Qed.

(* … which is the model's group_sound_events (GroupLoop.group_by_loop_eq: the loop is the declarative grouping), so every
   theorem about the model (partition, order kept, same sequence iff connected by a chain) is a theorem about what the
   code as written returns, given a component labelling *)
Theorem src_group_sound_events_is_model cmp evs :
  let n := length evs in
  let cc := fun m : coo => (0, labels (Z.to_nat (coo_rows m)) (edges_of n (rel_on cmp evs))) in
  Source.group_sound_events cmp cc evs = Ok (map (map (ev evs)) (Components.group_sound_events n (rel_on cmp evs))).
Proof.
  intros n cc. subst n cc. rewrite src_group_sound_events_model, group_by_loop_eq. reflexivity.
Qed.

Theorem src_grouping_declarative cmp cc evs :
  length (snd (cc (adjacency cmp evs))) = length evs ->
  Source.group_sound_events cmp cc evs = Ok (map (map (ev evs)) (group_by (snd (cc (adjacency cmp evs))))).
Proof. intro H. rewrite src_group_sound_events_loop by exact H. rewrite group_by_loop_eq. reflexivity. Qed.
