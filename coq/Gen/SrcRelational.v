(* Gen/SrcRelational.v — property C04 on the definitions read from the source: the `after`
   validators of ClipEvaluation (soundevent/data/clip_evaluations.py), of AnnotationProject and the
   `before` validator of Clip, as generated in Gen/Source.v, accept exactly the configurations the
   property describes (the same declarative statements as Misc/RelationalProofs.v proves of the
   hand-written model), and otherwise raise ValueError.  Objects are represented by their uuid. *)
From Coq Require Import QArith Lia Bool List ZArith.
From SE Require Import Base.Num Base.Res Base.NumProofs Gen.Prelude Gen.Source.
Import ListNotations.
Open Scope Z_scope.

Lemma memz_In x l : memz x l = true <-> In x l.
Proof.
  unfold memz. rewrite existsb_exists. split.
  - intros (y & Hy & E). apply Z.eqb_eq in E. subst. exact Hy.
  - intro H. exists x. split; [exact H|apply Z.eqb_refl].
Qed.

Lemma memz_false x l : memz x l = false <-> ~ In x l.
Proof. rewrite <- memz_In. destruct (memz x l); split; congruence. Qed.

Lemma py_set_In x l : In x (py_set l) <-> In x l.
Proof.
  induction l as [|y r IH]; [reflexivity|]. cbn [py_set].
  destruct (memz y (py_set r)) eqn:E.
  - apply memz_In in E. rewrite IH in *. cbn [In]. split; [tauto|]. intros [->|H]; tauto.
  - cbn [In]. rewrite IH. reflexivity.
Qed.

Lemma py_set_NoDup l : NoDup (py_set l).
Proof.
  induction l as [|y r IH]; [constructor|]. cbn [py_set].
  destruct (memz y (py_set r)) eqn:E; [exact IH|]. constructor; [|exact IH]. apply memz_false. exact E.
Qed.

Lemma py_set_length_le l : (length (py_set l) <= length l)%nat.
Proof.
  induction l as [|y r IH]; [constructor|]. cbn [py_set].
  destruct (memz y (py_set r)); cbn [length]; lia.
Qed.

Lemma py_set_length_eq l : length (py_set l) = length l <-> NoDup l.
Proof.
  induction l as [|y r IH]; [split; [constructor|reflexivity]|]. cbn [py_set].
  destruct (memz y (py_set r)) eqn:E.
  - pose proof (py_set_length_le r). split.
    + cbn [length]. intro. lia.
    + intro H0. inversion H0 as [|? ? Hn _]. exfalso. apply Hn. apply py_set_In. apply memz_In. exact E.
  - cbn [length]. split.
    + intro H0. constructor; [|apply IH; lia]. rewrite <- py_set_In. apply memz_false. exact E.
    + intro H0. inversion H0 as [|? ? _ Hr]. f_equal. apply IH. exact Hr.
Qed.

Lemma len_eqb_set l : (py_len l =? py_len (py_set l)) = true <-> NoDup l.
Proof.
  unfold py_len. rewrite Z.eqb_eq, Nat2Z.inj_iff. rewrite <- py_set_length_eq. split; congruence.
Qed.

Lemma subsetz_incl a b : subsetz a b = true <-> incl a b.
Proof. unfold subsetz, incl. rewrite forallb_forall. split; intros H x Hx; apply memz_In, H, Hx. Qed.

Lemma set_eqz_iff a b : set_eqz a b = true <-> (forall x, In x a <-> In x b).
Proof.
  unfold set_eqz. rewrite andb_true_iff, !subsetz_incl. unfold incl. split.
  - intros [H1 H2] x. split; auto.
  - intro H. split; intros x Hx; apply H; exact Hx.
Qed.

Lemma flat_map_single {A} (l : list A) : flat_map (fun x => [x]) l = l.
Proof. induction l as [|x r IH]; [reflexivity|]. cbn [flat_map app]. rewrite IH. reflexivity. Qed.

(* the sound events a list of matches mentions on each side *)
Definition zmatch := (option Z * option Z)%type.
Definition ztargets (ms : list zmatch) : list Z :=
  flat_map (fun m : zmatch => match snd m with Some t => [t] | None => [] end) ms.
Definition zsources (ms : list zmatch) : list Z :=
  flat_map (fun m : zmatch => match fst m with Some t => [t] | None => [] end) ms.

Lemma flat_map_ext_eq {A B} (f g : A -> list B) l : (forall x, f x = g x) -> flat_map f l = flat_map g l.
Proof. intro H. induction l as [|x r IH]; [reflexivity|]. cbn [flat_map]. rewrite H, IH. reflexivity. Qed.

(* both validators of ClipEvaluation, in the order pydantic runs them *)
Definition src_clip_eval (ac pc : Z) (anns preds : list Z) (ms : list zmatch) : res unit :=
  bind (ClipEvaluation__check_clips_match ac pc anns preds ms)
       (fun _ => ClipEvaluation__check_matches ac pc anns preds ms).

Theorem src_clip_eval_iff ac pc anns preds ms :
  src_clip_eval ac pc anns preds ms = Ok tt <->
  ac = pc /\ NoDup (ztargets ms) /\ NoDup (zsources ms) /\
  (forall x, In x (ztargets ms) <-> In x anns) /\ (forall x, In x (zsources ms) <-> In x preds).
Proof.
  unfold src_clip_eval, Source.ClipEvaluation__check_clips_match, Source.ClipEvaluation__check_matches.
  rewrite !flat_map_single.
  assert (Ht : forall l : list zmatch, flat_map (fun '(_, t) => match t with Some v => [v] | None => [] end) l = ztargets l).
  { intro l. apply flat_map_ext_eq. intros [a b]. reflexivity. }
  assert (Hs : forall l : list zmatch, flat_map (fun '(s, _) => match s with Some v => [v] | None => [] end) l = zsources l).
  { intro l. apply flat_map_ext_eq. intros [a b]. reflexivity. }
  rewrite Ht, Hs.
  destruct (ac =? pc) eqn:E1; cbn [negb bind].
  2:{ split; [discriminate|]. intros [H _]. apply Z.eqb_neq in E1. contradiction. }
  apply Z.eqb_eq in E1.
  destruct (py_len (ztargets ms) =? py_len (py_set (ztargets ms))) eqn:E2; cbn [negb].
  2:{ split; [discriminate|]. intros (_ & H & _). apply len_eqb_set in H. congruence. }
  apply len_eqb_set in E2.
  destruct (py_len (zsources ms) =? py_len (py_set (zsources ms))) eqn:E3; cbn [negb].
  2:{ split; [discriminate|]. intros (_ & _ & H & _). apply len_eqb_set in H. congruence. }
  apply len_eqb_set in E3.
  destruct (set_eqz (py_set (ztargets ms)) (py_set anns)) eqn:E4; cbn [negb].
  2:{ split; [discriminate|]. intros (_ & _ & _ & H & _). exfalso.
      assert (E : set_eqz (py_set (ztargets ms)) (py_set anns) = true).
      { apply set_eqz_iff. intro x. rewrite !py_set_In. apply H. }
      congruence. }
  rewrite set_eqz_iff in E4.
  destruct (set_eqz (py_set (zsources ms)) (py_set preds)) eqn:E5; cbn [negb].
  2:{ split; [discriminate|]. intros (_ & _ & _ & _ & H). exfalso.
      assert (E : set_eqz (py_set (zsources ms)) (py_set preds) = true).
      { apply set_eqz_iff. intro x. rewrite !py_set_In. apply H. }
      congruence. }
  rewrite set_eqz_iff in E5.
  split; [intros _|reflexivity].
  repeat split; try assumption.
  - intro H. specialize (E4 x). rewrite !py_set_In in E4. apply E4. exact H.
  - intro H. specialize (E4 x). rewrite !py_set_In in E4. apply E4. exact H.
  - intro H. specialize (E5 x). rewrite !py_set_In in E5. apply E5. exact H.
  - intro H. specialize (E5 x). rewrite !py_set_In in E5. apply E5. exact H.
Qed.

(* a rejection is always a ValueError *)
Theorem src_clip_eval_err ac pc anns preds ms e : src_clip_eval ac pc anns preds ms = Err e -> e = EValue.
Proof.
  unfold src_clip_eval, Source.ClipEvaluation__check_clips_match, Source.ClipEvaluation__check_matches.
  repeat match goal with |- context [if ?c then _ else _] => destruct c; cbn [negb bind] end;
    intro H; try discriminate H; injection H as <-; reflexivity.
Qed.

Theorem src_project_iff tasks anns :
  AnnotationProject__annotations_are_part_of_the_project tasks anns = Ok tt <->
  (forall c, In c (map fst anns) -> In c tasks).
Proof.
  unfold AnnotationProject__annotations_are_part_of_the_project. rewrite flat_map_single.
  induction anns as [|[c u] r IH]; cbn [for_each map fst In bind].
  - split; [intros _ c []|reflexivity].
  - destruct (memz c (py_set tasks)) eqn:E; cbn [negb bind].
    + apply memz_In in E. rewrite py_set_In in E. rewrite IH. split.
      * intros H c0 [<-|H0]; [exact E|apply H; exact H0].
      * intros H c0 H0. apply H. right. exact H0.
    + split; [discriminate|]. intro H. exfalso. apply memz_false in E. apply E. apply py_set_In. apply H. left. reflexivity.
Qed.

Open Scope Q_scope.
Theorem src_clip_times_iff s e : Clip__validate_times s e = Ok tt <-> s <= e.
Proof.
  unfold Clip__validate_times. destruct (qltb e s) eqn:E.
  - apply qltb_spec in E. split; [discriminate|]. intro. exfalso. apply (Qlt_not_le _ _ E). assumption.
  - apply qltb_false in E. split; [intros _; exact E|reflexivity].
Qed.
