(* Gen/Tactics.v — proof automation for the equivalence between the generated definitions
   (Gen/Source.v) and the hand-written models.  The tactics split on every `if` / `match` of
   both sides, turn the boolean comparisons into order facts on Q and close the leaves with lra,
   so that the proofs keep going through when the source is rewritten without changing what it
   computes, and fail when it computes something else. *)
From Coq Require Import QArith Lqa Lia Bool.
From SE Require Import Base.Num Base.Res Base.NumProofs.
Open Scope Q_scope.

Lemma qeqb_false a b : qeqb a b = false -> ~ a == b.
Proof. intros H HH. apply qeqb_spec in HH. congruence. Qed.

Ltac q_hyps :=
  repeat match goal with
  | H : qltb _ _ = true |- _ => apply qltb_spec in H
  | H : qltb _ _ = false |- _ => apply qltb_false in H
  | H : qleb _ _ = true |- _ => apply qleb_spec in H
  | H : qleb _ _ = false |- _ => apply qleb_false in H
  | H : qeqb _ _ = true |- _ => apply qeqb_spec in H
  | H : qeqb ?a ?b = false |- _ => apply qeqb_false in H
  | H : (_ || _)%bool = true |- _ => apply orb_true_iff in H; destruct H
  | H : (_ || _)%bool = false |- _ => apply orb_false_iff in H; destruct H
  | H : (_ && _)%bool = true |- _ => apply andb_true_iff in H; destruct H
  | H : (_ && _)%bool = false |- _ => apply andb_false_iff in H; destruct H
  | H : negb _ = true |- _ => apply negb_true_iff in H
  | H : negb _ = false |- _ => apply negb_false_iff in H
  end.

(* split on the innermost scrutinee first, so that a comparison is destructed before the
   conditional that contains it *)
Ltac break_step :=
  match goal with
  | |- context [if ?c then _ else _] =>
      lazymatch c with
      | context [if _ then _ else _] => fail
      | _ => destruct c eqn:?
      end
  | |- context [match ?x with Some _ => _ | None => _ end] => is_var x; destruct x
  | |- context [match ?x with Ok _ => _ | Err _ => _ end] => destruct x eqn:?
  end.

Ltac q_bool_goal :=
  match goal with
  | |- ?a = ?b =>
      destruct a eqn:?; destruct b eqn:?; try reflexivity; exfalso; q_hyps; lra
  end.

Ltac q_leaf :=
  first
    [ reflexivity
    | discriminate
    | exfalso; q_hyps; lra
    | f_equal; q_bool_goal
    | q_hyps; lra ].

Ltac q_crush := repeat break_step; q_leaf.
