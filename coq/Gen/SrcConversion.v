(* Gen/SrcConversion.v — geometry_to_shapely (soundevent/geometry/conversion.py: nine converters and
   the dispatch) and compute_bounds (geometry/operations.py) as generated in Gen/Source.v produce the
   shapely object / the bounds of the hand-written model (Geom/Geometry.v) for every geometry whose
   polygons have at least one ring (every valid geometry).  The shapely constructors are Prelude glue. *)
From Coq Require Import QArith List Bool.
From SE Require Import Base.Num Base.Res Geom.Geometry Gen.Prelude Gen.Source.
Import ListNotations.
Open Scope Q_scope.

Lemma lists_pts_inv l : lists_pts (pts_lists l) = Ok l.
Proof.
  induction l as [|[a b] r IH]; [reflexivity|].
  change (pts_lists ((a, b) :: r)) with ([a; b] :: pts_lists r). cbn [lists_pts]. rewrite IH. reflexivity.
Qed.

Lemma map_res_inv (r : list (list pt)) : map_res lists_pts (map pts_lists r) = Ok r.
Proof.
  induction r as [|l r IH]; [reflexivity|]. cbn [map map_res]. rewrite lists_pts_inv. cbn [bind]. rewrite IH. reflexivity.
Qed.

Definition rings_ok (g : geom) : Prop :=
  match g with
  | Polygon r => r <> []
  | MultiPolygon ps => Forall (fun r => r <> []) ps
  | _ => True
  end.

Lemma validb_rings_ok g : validb g = true -> rings_ok g.
Proof.
  destruct g; cbn [validb rings_ok]; try (intros; exact I).
  - unfold poly_okb. intro H. apply andb_true_iff in H. destruct H as [H _]. destruct rings; [discriminate|discriminate].
  - intro H. apply andb_true_iff in H. destruct H as [_ H]. apply Forall_forall. intros r Hr.
    rewrite forallb_forall in H. specialize (H r Hr). unfold poly_okb in H. apply andb_true_iff in H. destruct H as [H _].
    destruct r; discriminate.
Qed.

Lemma poly_conv r : r <> [] ->
  polygon_to_shapely (map pts_lists r) = Ok (let p := mk_poly r in SPoly (fst p) (snd p)).
Proof.
  destruct r as [|sh hs]; [congruence|]. intros _. unfold polygon_to_shapely. cbn [map].
  change (py_index (pts_lists sh :: map pts_lists hs) 0) with (Ok (A := list (list Q)) (pts_lists sh)). cbn [bind skipn]. unfold shp_polygon. rewrite lists_pts_inv. cbn [bind].
  rewrite map_res_inv. reflexivity.
Qed.

Lemma multipoly_loop (body : list shp -> list (list (list Q)) -> res (bres (list shp) shp)) :
  (forall polgons poly, body polgons poly =
       bind (py_index poly 0) (fun shell =>
       bind (shp_polygon shell (skipn 1 poly)) (fun polygon => Ok (BNext (polgons ++ [polygon]))))) ->
  forall (ps : list (list (list pt))) (acc : list shp),
  Forall (fun r => r <> []) ps ->
  fold_loop (map (map pts_lists) ps) acc body
  = Ok (LDone (acc ++ map (fun r => SPoly (fst (mk_poly r)) (snd (mk_poly r))) ps)).
Proof.
  intro Hb. induction ps as [|r ps IH]; intros acc H; [cbn; rewrite app_nil_r; reflexivity|].
  inversion H as [|? ? Hr Hps]. subst.
  destruct r as [|sh hs]; [congruence|].
  cbn [map fold_loop]. rewrite Hb.
  change (py_index (pts_lists sh :: map pts_lists hs) 0) with (Ok (A := list (list Q)) (pts_lists sh)). cbn [bind skipn].
  unfold shp_polygon. rewrite lists_pts_inv. cbn [bind]. rewrite map_res_inv. cbn [bind].
  rewrite IH by exact Hps. rewrite <- app_assoc. reflexivity.
Qed.

Lemma map_res_polys (ps : list (list (list pt))) :
  map_res (fun s => match s with SPoly sh hs => Ok (sh, hs) | _ => Err EType end)
          (map (fun r => SPoly (fst (mk_poly r)) (snd (mk_poly r))) ps) = Ok (map mk_poly ps).
Proof.
  induction ps as [|r ps IH]; [reflexivity|]. cbn [map map_res bind]. rewrite IH. cbn [bind].
  destruct (mk_poly r); reflexivity.
Qed.

Theorem src_geometry_to_shapely g : rings_ok g -> Source.geometry_to_shapely g = Ok (to_shapely g).
Proof.
  intro H. unfold Source.geometry_to_shapely, has_type.
  destruct g as [t|s e|t f|l|r|s lo e hi|l|l|l]; cbn [type_of gtype_eqb to_shapely].
  - unfold conv_time_stamp_to_shapely, time_stamp_to_shapely, shp_linestring. reflexivity.
  - reflexivity.
  - reflexivity.
  - unfold conv_linestring_to_shapely, linestring_to_shapely, shp_linestring. rewrite lists_pts_inv. reflexivity.
  - unfold conv_polygon_to_shapely. apply poly_conv. exact H.
  - reflexivity.
  - unfold conv_multipoint_to_shapely, multipoint_to_shapely, shp_multipoint. rewrite lists_pts_inv. reflexivity.
  - unfold conv_multilinestring_to_shapely, multilinestring_to_shapely, shp_multilinestring. rewrite map_res_inv. reflexivity.
  - unfold conv_multipolygon_to_shapely, multipolygon_to_shapely.
    cbv zeta. rewrite (multipoly_loop _ (fun _ _ => eq_refl) l [] H). cbn [bind app]. unfold shp_multipolygon. rewrite map_res_polys. reflexivity.
Qed.

Theorem src_compute_bounds g : rings_ok g -> Source.compute_bounds_py g = py_compute_bounds g.
Proof.
  intro H. unfold Source.compute_bounds_py. rewrite (src_geometry_to_shapely g H). cbn [bind].
  unfold py_shp_bounds, py_compute_bounds, compute_bounds. reflexivity.
Qed.

Corollary src_compute_bounds_valid g : validb g = true -> Source.compute_bounds_py g = py_compute_bounds g.
Proof. intro H. apply src_compute_bounds. apply validb_rings_ok. exact H. Qed.
