(* Gen/SrcSegment.v — property C14 on the definition read from the source: the generator loop of
   soundevent/operations.py segment_clip as generated in Gen/Source.v produces, with the fuel
   [seg_fuel], exactly the windows of the hand-written model (bounds up to ==), never runs out of
   fuel, builds every clip through the Clip constructor without tripping its validator, and
   gives every window an identifier that is a function of the parent id and the window's bounds. *)
From Coq Require Import QArith Lqa Lia Bool Qround.
From SE Require Import Base.Num Base.Res Base.NumProofs Misc.SegmentClip Misc.SegmentClipProofs
  Gen.Prelude Gen.Source Gen.Tactics.
Open Scope Q_scope.

Definition id_of (uuid : Z) (sc : segclip) : Prop :=
  exists ns c1 c2 c3, sc_id sc = (ns, [FS c1; FId uuid; FS c2; FQ (sc_start sc); FS c3; FQ (sc_end sc)]).

Definition seg_match (uuid : Z) (sc : segclip) (w : seg) : Prop :=
  sc_start sc == fst w /\ sc_end sc == snd w /\ id_of uuid sc.

Section Loop.
Variables (uuid : Z) (s e dur hop : Q) (incl : bool).
Hypothesis Hhop : 0 < hop.
Hypothesis Hdur : 0 < dur.

(* what one iteration of the source loop must do *)
Definition body_ok (body : nat -> step segclip) : Prop := forall i,
  let st := s + idx i * hop in
  if (qleb e st || (qltb e (st + dur) && negb incl))%bool then body i = SBreak
  else exists sc, body i = SYield sc /\ seg_match uuid sc (st, pymin (st + dur) e).

Lemma loop_rel body : body_ok body -> forall fuel i,
  match count_loop fuel i body with
  | Some (Ok l) => Forall2 (seg_match uuid) l (seg_loop (S fuel) i s e dur hop incl)
  | Some (Err _) => False
  | None => admissible s e dur hop incl (i + fuel)
  end.
Proof.
  intros Hb. induction fuel as [|f IH]; intro i.
  - cbn [count_loop seg_loop]. specialize (Hb i). cbn zeta in Hb.
    destruct (qleb e (s + idx i * hop)) eqn:E1; cbn [orb] in Hb.
    + rewrite Hb. constructor.
    + destruct (qltb e (s + idx i * hop + dur) && negb incl)%bool eqn:E2.
      * rewrite Hb. constructor.
      * destruct Hb as (sc & -> & _). rewrite Nat.add_0_r. apply step_admissible. auto.
  - cbn [count_loop]. change (seg_loop (S (S f)) i s e dur hop incl) with
      (let st := s + idx i * hop in let en := st + dur in
       if qleb e st then [] else if (qltb e en && negb incl)%bool then []
       else (st, pymin en e) :: seg_loop (S f) (S i) s e dur hop incl).
    cbn zeta. specialize (Hb i). cbn zeta in Hb.
    destruct (qleb e (s + idx i * hop)) eqn:E1; cbn [orb] in Hb.
    + rewrite Hb. constructor.
    + destruct (qltb e (s + idx i * hop + dur) && negb incl)%bool eqn:E2.
      * rewrite Hb. constructor.
      * destruct Hb as (sc & -> & Hm). specialize (IH (S i)).
        destruct (count_loop f (S i) body) as [[l|err]|].
        -- constructor; assumption.
        -- exact IH.
        -- replace (i + S f)%nat with (S i + f)%nat by lia. exact IH.
Qed.

Lemma loop_total body : body_ok body ->
  exists l, count_loop (seg_fuel s e hop) 0 body = Some (Ok l) /\
            Forall2 (seg_match uuid) l (windows s e dur hop incl).
Proof.
  intro Hb. pose proof (loop_rel body Hb (seg_fuel s e hop) 0) as H.
  destruct (count_loop (seg_fuel s e hop) 0 body) as [[l|err]|].
  - exists l. split; [reflexivity|].
    rewrite <- (windows_fuel_irrelevant s e dur hop incl Hhop 1).
    replace (seg_fuel s e hop + 1)%nat with (S (seg_fuel s e hop)) by lia. exact H.
  - contradiction.
  - exfalso. cbn [Nat.add] in H. apply (fuel_enough s e dur hop incl Hhop) in H. lia.
Qed.
End Loop.

(* the loop body read from the source satisfies [body_ok]; the rest is the lemma above *)
Theorem src_segment_clip uuid s e dur hop incl :
  let h := match hop with Some v => v | None => dur end in
  0 < dur -> 0 < h ->
  exists l, Source.segment_clip (seg_fuel s e h) uuid s e dur hop incl = Some (Ok l) /\
            Forall2 (seg_match uuid) l (windows s e dur h incl).
Proof.
  intros h Hd Hh. autounfold with src. fold h.
  assert (E1 : qleb dur 0 = false) by (apply qleb_false; exact Hd).
  assert (E2 : qleb h 0 = false) by (apply qleb_false; exact Hh).
  rewrite E1, E2.
  apply loop_total; [exact Hh|]. intro i. cbn zeta.
  destruct (qleb e (s + idx i * h)) eqn:B1; cbn [orb].
  { reflexivity. }
  destruct (qltb e (s + idx i * h + dur) && negb incl)%bool eqn:B2.
  { reflexivity. }
  apply qleb_false in B1.
  unfold mk_Clip, py_uuid5.
  assert (Hv : qltb (pymin (s + idx i * h + dur) e) (s + idx i * h) = false).
  { apply qltb_false. destruct (pymin_cases (s + idx i * h + dur) e) as [[-> _]|[-> _]]; lra. }
  rewrite Hv. cbn [sbind]. eexists. split; [reflexivity|].
  unfold seg_match, id_of. cbn [sc_start sc_end sc_id fst snd].
  split; [reflexivity|]. split; [reflexivity|]. do 4 eexists. reflexivity.
Qed.

Theorem src_segment_clip_rejects fuel uuid s e dur hop incl :
  let h := match hop with Some v => v | None => dur end in
  (dur <= 0 \/ h <= 0) -> Source.segment_clip fuel uuid s e dur hop incl = Some (Err EValue).
Proof.
  intros h H. autounfold with src. fold h.
  destruct (qleb dur 0) eqn:E1; [reflexivity|].
  destruct (qleb h 0) eqn:E2; [reflexivity|].
  apply qleb_false in E1. apply qleb_false in E2. exfalso. destruct H; lra.
Qed.

(* identifiers within one call are pairwise distinct: they contain the start time, and the start
   times of the model's windows are strictly increasing *)
Theorem src_ids_distinct uuid s e dur hop incl l :
  let h := match hop with Some v => v | None => dur end in
  0 < h ->
  Forall2 (seg_match uuid) l (windows s e dur h incl) ->
  forall j k a b, (j < k)%nat -> nth_error l j = Some a -> nth_error l k = Some b -> sc_id a <> sc_id b.
Proof.
  intros h Hh HF j k a b Hjk Ha Hb Heq.
  assert (Hn : forall n x, nth_error l n = Some x ->
             exists w, nth_error (windows s e dur h incl) n = Some w /\ seg_match uuid x w).
  { clear -HF. induction HF as [|x w l' ws Hxw _ IH]; intros n y Hy.
    - destruct n; discriminate.
    - destruct n as [|n]; cbn [nth_error] in *.
      + injection Hy as <-. exists w. auto.
      + apply IH. exact Hy. }
  destruct (Hn _ _ Ha) as ([sj ej] & Hwj & Hmj & _ & (n1 & a1 & a2 & a3 & Hida)).
  destruct (Hn _ _ Hb) as ([sk ek] & Hwk & Hmk & _ & (n2 & b1 & b2 & b3 & Hidb)).
  pose proof (windows_starts_increasing s e dur h incl Hh j k sj ej sk ek Hjk Hwj Hwk) as Hlt.
  rewrite Hida, Hidb in Heq. injection Heq as _ _ _ Hs _ _.
  cbn [fst] in Hmj, Hmk. rewrite Hs in Hmj. lra.
Qed.
