(* Gen/SrcEncoding.v — property C19 (encoding half) on the definitions read from the source:
   classification_encoding, multilabel_encoding and prediction_encoding of
   soundevent/evaluation/encoding.py as generated in Gen/Source.v, with the encoder's `encode`
   and `num_classes` instantiated by the model of SimpleEncoder (Eval/Encoding.v), compute the
   model's answers for every vocabulary (repeated tags included) and every tag list; in
   particular the element assignments never index out of range. *)
From Coq Require Import QArith Lia Bool List.
From SE Require Import Base.Num Base.Res Eval.Encoding Eval.EncodingProofs Gen.Prelude Gen.Source.
Import ListNotations.
Open Scope Q_scope.

Section Enc.
Variable h : tag -> Z.

(* every index stored in the mapping is a position of the vocabulary *)
Definition vals_below (d : list (tag * nat)) (n : nat) : Prop := forall k v, In (k, v) d -> (v < n)%nat.

Lemma dict_set_vals d k v n : vals_below d n -> (v < n)%nat -> vals_below (dict_set h d k v) n.
Proof.
  induction d as [|[k' v'] r IH]; intros Hd Hv k0 v0 Hin; cbn [dict_set] in Hin.
  - destruct Hin as [E|[]]. injection E as <- <-. exact Hv.
  - destruct (key_match h k' k).
    + destruct Hin as [E|Hin]; [injection E as <- <-; exact Hv|]. apply (Hd k0 v0). right. exact Hin.
    + destruct Hin as [E|Hin]; [apply (Hd k0 v0); left; exact E|].
      apply (IH (fun a b H => Hd a b (or_intror H)) Hv k0 v0 Hin).
Qed.

Lemma fold_vals : forall (l : list tag) off d n,
  vals_below d n -> (off + length l <= n)%nat ->
  vals_below (fold_left (fun d iv => dict_set h d (snd iv) (fst iv)) (combine (seq off (length l)) l) d) n.
Proof.
  induction l as [|t l IH]; intros off d n Hd Hn; [exact Hd|].
  cbn [length seq combine fold_left fst snd]. apply IH; [|cbn [length] in Hn; lia].
  apply dict_set_vals; [exact Hd|cbn [length] in Hn; lia].
Qed.

Lemma dict_get_in d k v : dict_get h d k = Some v -> exists k', In (k', v) d.
Proof.
  induction d as [|[k' v'] r IH]; cbn [dict_get]; [discriminate|].
  destruct (key_match h k' k).
  - intro E. injection E as <-. exists k'. left. reflexivity.
  - intro E. destruct (IH E) as [k0 H]. exists k0. right. exact H.
Qed.

Lemma encode_bound vocab t i : encode h vocab t = Some i -> (i < length vocab)%nat.
Proof.
  unfold encode, mk_mapping. intro E. apply dict_get_in in E. destruct E as [k' Hin].
  refine (fold_vals vocab 0 [] (length vocab) _ _ k' i Hin); [intros ? ? []|lia].
Qed.

Lemma py_set_nth_ok {A} (l : list A) : forall i v, (i < length l)%nat -> py_set_nth l i v = Ok (set_nth l i v).
Proof.
  induction l as [|y r IH]; intros i v Hi; [cbn in Hi; lia|].
  destruct i as [|j]; [reflexivity|]. cbn [py_set_nth set_nth]. rewrite IH by (cbn in Hi; lia). reflexivity.
Qed.

(* ---- classification_encoding ---- *)
Theorem src_classification vocab tags :
  Source.classification_encoding (encode h vocab) tags = Ok (Encoding.classification_encoding h vocab tags).
Proof.
  unfold Source.classification_encoding.
  induction tags as [|t r IH]; [reflexivity|].
  cbn [fold_loop Encoding.classification_encoding].
  destruct (encode h vocab t) as [i|]; cbn [bind]; [reflexivity|]. exact IH.
Qed.

(* ---- multilabel_encoding / prediction_encoding: a fold that assigns into an array of the
   vocabulary's length ---- *)
Lemma fold_set_ok {A B} (key : B -> tag) (val : B -> A) vocab
      (body : list A -> B -> res (bres (list A) (list A))) :
  (forall acc x, body acc x = match encode h vocab (key x) with
                              | Some i => bind (py_set_nth acc i (val x)) (fun acc' => Ok (BNext acc'))
                              | None => Ok (BNext acc)
                              end) ->
  forall (items : list B) (acc : list A),
  length acc = length vocab ->
  fold_loop items acc body
  = Ok (LDone (fold_left (fun acc x => match encode h vocab (key x) with
                                        | Some i => set_nth acc i (val x)
                                        | None => acc
                                        end) items acc)).
Proof.
  intro Hb. induction items as [|x r IH]; intros acc Hl; [reflexivity|].
  cbn [fold_loop fold_left]. rewrite Hb. destruct (encode h vocab (key x)) as [i|] eqn:E; cbn [bind].
  - rewrite py_set_nth_ok by (rewrite Hl; apply (encode_bound _ _ _ E)). cbn [bind].
    apply IH. rewrite set_nth_length. exact Hl.
  - apply IH. exact Hl.
Qed.

Theorem src_multilabel vocab tags :
  Source.multilabel_encoding (encode h vocab) tags (length vocab) = Ok (Encoding.multilabel_encoding h vocab tags).
Proof.
  unfold Source.multilabel_encoding, Encoding.multilabel_encoding, zeros_z.
  rewrite (fold_set_ok (fun t => t) (fun _ => 1%Z) vocab) by (reflexivity || apply repeat_length).
  reflexivity.
Qed.

Theorem src_prediction vocab ptags :
  Source.prediction_encoding (encode h vocab) ptags (length vocab) = Ok (Encoding.prediction_encoding h vocab ptags).
Proof.
  unfold Source.prediction_encoding, Encoding.prediction_encoding, zeros_q.
  rewrite (fold_set_ok fst snd vocab) by ((intros acc [t s]; reflexivity) || apply repeat_length).
  reflexivity.
Qed.
End Enc.
