(* Property C12 — overlap predicates agree with exact interval arithmetic.
   Only property theorems here; each closed by [exact <lemma>]. *)
From Coq Require Import QArith Qminmax.
From SE Require Import Base.Num Base.Res Geom.Geometry Geom.Ops Geom.OpsProofs.
Open Scope Q_scope.

(* true exactly when the length of the intersection is at least the threshold *)
Theorem C12_overlap_iff : forall s1 e1 s2 e2 a r b,
  intervals_overlap s1 e1 s2 e2 a r = Ok b ->
  (b = true <-> threshold s1 e1 s2 e2 a r <= Qmin e1 e2 - Qmax s1 s2).
Proof. exact overlap_iff. Qed.
Print Assumptions C12_overlap_iff.

(* symmetric in its two intervals (result and errors) *)
Theorem C12_overlap_sym : forall s1 e1 s2 e2 a r,
  intervals_overlap s1 e1 s2 e2 a r = intervals_overlap s2 e2 s1 e1 a r.
Proof. exact overlap_sym. Qed.
Print Assumptions C12_overlap_sym.

(* rejects exactly: both thresholds together, or a relative threshold outside [0,1] *)
Theorem C12_overlap_errors : forall s1 e1 s2 e2 a r,
  (exists e, intervals_overlap s1 e1 s2 e2 a r = Err e) <->
  ((exists x y, a = Some x /\ r = Some y) \/ (a = None /\ exists y, r = Some y /\ (y < 0 \/ 1 < y))).
Proof. exact overlap_errors. Qed.
Print Assumptions C12_overlap_errors.

Theorem C12_overlap_error_class : forall s1 e1 s2 e2 a r e,
  intervals_overlap s1 e1 s2 e2 a r = Err e -> e = EValue.
Proof. exact overlap_error_class. Qed.
Print Assumptions C12_overlap_error_class.

(* monotone in the thresholds *)
Theorem C12_mono_abs : forall s1 e1 s2 e2 a1 a2,
  a1 <= a2 ->
  intervals_overlap s1 e1 s2 e2 (Some a2) None = Ok true ->
  intervals_overlap s1 e1 s2 e2 (Some a1) None = Ok true.
Proof. exact mono_abs. Qed.
Print Assumptions C12_mono_abs.

Theorem C12_mono_abs_false : forall s1 e1 s2 e2 a1 a2,
  a1 <= a2 ->
  intervals_overlap s1 e1 s2 e2 (Some a1) None = Ok false ->
  intervals_overlap s1 e1 s2 e2 (Some a2) None = Ok false.
Proof. exact mono_abs_false. Qed.
Print Assumptions C12_mono_abs_false.

Theorem C12_mono_rel : forall s1 e1 s2 e2 r1 r2,
  s1 <= e1 -> s2 <= e2 -> 0 <= r1 -> r1 <= r2 -> r2 <= 1 ->
  intervals_overlap s1 e1 s2 e2 None (Some r2) = Ok true ->
  intervals_overlap s1 e1 s2 e2 None (Some r1) = Ok true.
Proof. exact mono_rel. Qed.
Print Assumptions C12_mono_rel.

(* the geometry predicates equal intervals_overlap on the time / frequency extents *)
Theorem C12_temporal : forall g1 g2 b1 b2 a r,
  compute_bounds g1 = Some b1 -> compute_bounds g2 = Some b2 ->
  have_temporal_overlap g1 g2 a r =
  intervals_overlap (b_start b1) (b_end b1) (b_start b2) (b_end b2) a r.
Proof. exact temporal_is_interval. Qed.
Print Assumptions C12_temporal.

Theorem C12_frequency : forall g1 g2 b1 b2 a r,
  compute_bounds g1 = Some b1 -> compute_bounds g2 = Some b2 ->
  have_frequency_overlap g1 g2 a r =
  intervals_overlap (b_low b1) (b_high b1) (b_low b2) (b_high b2) a r.
Proof. exact frequency_is_interval. Qed.
Print Assumptions C12_frequency.

(* is_in_clip: ends more than m after the clip start and starts more than m before its end *)
Theorem C12_in_clip_iff : forall g b cs ce m,
  compute_bounds g = Some b -> 0 <= m ->
  (is_in_clip g cs ce m = Ok true <-> (cs + m < b_end b /\ b_start b < ce - m)) /\
  (is_in_clip g cs ce m = Ok true \/ is_in_clip g cs ce m = Ok false).
Proof. exact in_clip_iff. Qed.
Print Assumptions C12_in_clip_iff.

Theorem C12_in_clip_negative : forall g cs ce m, m < 0 -> is_in_clip g cs ce m = Err EValue.
Proof. exact in_clip_negative. Qed.
Print Assumptions C12_in_clip_negative.

Theorem C12_inside_is_in : forall g b cs ce,
  compute_bounds g = Some b -> cs < b_start b -> b_end b < ce -> b_start b <= b_end b ->
  is_in_clip g cs ce 0 = Ok true.
Proof. exact inside_is_in. Qed.
Print Assumptions C12_inside_is_in.

Theorem C12_touching_is_out : forall g b cs ce,
  compute_bounds g = Some b -> (b_end b == cs \/ b_start b == ce) ->
  is_in_clip g cs ce 0 = Ok false.
Proof. exact touching_is_out. Qed.
Print Assumptions C12_touching_is_out.

(* non-vacuity: concrete instances meeting the hypotheses *)
Example C12_ex_touch : intervals_overlap 0 1 1 2 None None = Ok true
                    /\ intervals_overlap 0 1 1 2 (Some (1#2)) None = Ok false
                    /\ is_in_clip (TimeInterval 1 2) 2 5 0 = Ok false
                    /\ is_in_clip (TimeStamp 3) 2 5 0 = Ok true
                    /\ compute_bounds (TimeStamp 3) = Some (3, 0, 3, MAXF).
Proof. vm_compute. repeat split. Qed.
Print Assumptions C12_ex_touch.

(* ---- the same predicates as READ FROM THE SOURCE (Gen/Source.v is regenerated from
   soundevent/geometry/operations.py on every run): they compute what the model above computes,
   so every theorem of this file is a theorem about the code as it is written now. ---- *)
From SE Require Gen.Source Gen.EquivOps.

Theorem C12_src_intervals_overlap : forall s1 e1 s2 e2 a r,
  Source.intervals_overlap (s1, e1) (s2, e2) a r = intervals_overlap s1 e1 s2 e2 a r.
Proof. exact EquivOps.src_intervals_overlap. Qed.
Print Assumptions C12_src_intervals_overlap.

Theorem C12_src_have_temporal_overlap : forall g1 g2 a r,
  Source.have_temporal_overlap g1 g2 a r = have_temporal_overlap g1 g2 a r.
Proof. exact EquivOps.src_have_temporal_overlap. Qed.
Print Assumptions C12_src_have_temporal_overlap.

Theorem C12_src_have_frequency_overlap : forall g1 g2 a r,
  Source.have_frequency_overlap g1 g2 a r = have_frequency_overlap g1 g2 a r.
Proof. exact EquivOps.src_have_frequency_overlap. Qed.
Print Assumptions C12_src_have_frequency_overlap.

Theorem C12_src_is_in_clip : forall g cs ce m,
  Source.is_in_clip g cs ce m = is_in_clip g cs ce m.
Proof. exact EquivOps.src_is_in_clip. Qed.
Print Assumptions C12_src_is_in_clip.

(* the bounds these functions read (py_compute_bounds in the generated text) are what compute_bounds and
   geometry_to_shapely, as read from the source, compute for every valid geometry *)
From SE Require Gen.SrcConversion.
From SE Require Import Gen.Prelude.
Theorem C12_src_compute_bounds : forall g,
  validb g = true -> Source.compute_bounds_py g = py_compute_bounds g.
Proof. exact SrcConversion.src_compute_bounds_valid. Qed.
Print Assumptions C12_src_compute_bounds.
