(* Property C02 — AOEF documents are self-contained and resolvable in a single pass. *)
From Coq Require Import ZArith List Bool Arith.
From SE Require Import Aoef.Model Aoef.Schema Aoef.Typing Aoef.SaveProofs Aoef.AuditProofs Aoef.Pinned Aoef.Final Aoef.TagIds.
Import ListNotations.

(* identifiers are unique within every top-level list: for every schema, adapter and object, no side condition *)
Theorem C02_ids_unique : forall sch rt U c, NoDup (map fkey (get_table c (fst (save_root sch rt U)))).
Proof. exact ids_unique_b. Qed.
Print Assumptions C02_ids_unique.

(* tag ids are dense: an id allocated as "number of keys seen so far" is the position of the tag in its list, so the ids of
   every written list are 0, 1, ..., n-1 in order — for every schema, adapter and object *)
Theorem C02_tag_ids_dense : forall sch rt U c,
  tag_ids (get_table c (fst (save_root sch rt U))) = seq 0 (length (get_table c (fst (save_root sch rt U)))).
Proof. exact doc_tag_ids_dense. Qed.
Print Assumptions C02_tag_ids_dense.

(* closed under reference: every identifier mentioned anywhere in the document (tables and the collection's own
   lists) is defined exactly once in its list *)
Theorem C02_closed : forall sch rt U, closure_okb sch rt = true -> Nat.eqb (ncls U) (rcls rt) && typedb sch U = true ->
  forall r, In r (doc_refs (save_root sch rt U)) -> defined_in (save_root sch rt U) r = 1.
Proof. exact closed_b. Qed.
Print Assumptions C02_closed.

(* the objects defined are exactly the distinct objects reachable from the collection *)
Theorem C02_exactly_reachable : forall sch rt U, closure_okb sch rt = true -> wfb sch rt U = true ->
  forall c k, In c (load_order rt) ->
  (In k (map fkey (get_table c (fst (save_root sch rt U)))) <-> exists m, sub m U /\ m <> U /\ nref m = (c, k)).
Proof. exact exactly_reachable_b. Qed.
Print Assumptions C02_exactly_reachable.

Theorem C02_nothing_else : forall sch rt U, closure_okb sch rt = true -> wfb sch rt U = true ->
  forall c, ~ In c (load_order rt) -> get_table c (fst (save_root sch rt U)) = [].
Proof. exact nothing_else_b. Qed.
Print Assumptions C02_nothing_else.

(* a reference into the same list (a sequence's parent) points to an earlier entry *)
Theorem C02_parent_first : forall sch rt U, closure_okb sch rt = true -> wfb sch rt U = true ->
  forall c l1 f l2, In c (load_order rt) -> get_table c (fst (save_root sch rt U)) = l1 ++ f :: l2 ->
  forall k', In (c, k') (concat (fkids f)) -> In k' (map fkey l1).
Proof. exact parent_first_b. Qed.
Print Assumptions C02_parent_first.

(* the tie to this code: the schema read off the adapters passes the closure check for all eight collection types *)
Theorem C02_closure_ok_current : forallb (closure_okb current) roots = true.
Proof. exact closure_ok_current. Qed.
Print Assumptions C02_closure_ok_current.

(* the audit that the harness evaluates on every REAL document is sound *)
Theorem C02_audit_sound : forall d, closedb d = true ->
  (forall r, In r (doc_refs d) -> defined_in d r = 1)
  /\ (forall c t, In (c, t) (fst d) -> NoDup (map fkey t)
      /\ forall l1 f l2, t = l1 ++ f :: l2 -> forall k', In (c, k') (concat (fkids f)) -> In k' (map fkey l1)).
Proof. exact closedb_sound. Qed.
Print Assumptions C02_audit_sound.

(* the check discriminates: the two rows as the pinned tree had them fail it, with a dangling identifier as witness *)
Theorem C02_pinned_prediction_set_open :
  closure_okb current pinned_PredictionSet = false /\
  Nat.eqb (ncls w_prediction_set) (rcls pinned_PredictionSet) && typedb current w_prediction_set = true /\
  exists r, In r (doc_refs (save_root current pinned_PredictionSet w_prediction_set))
            /\ defined_in (save_root current pinned_PredictionSet w_prediction_set) r = 0.
Proof. exact pinned_prediction_set_open. Qed.
Print Assumptions C02_pinned_prediction_set_open.

Theorem C02_pinned_evaluation_set_open :
  closure_okb current pinned_EvaluationSet = false /\
  Nat.eqb (ncls w_evaluation_set) (rcls pinned_EvaluationSet) && typedb current w_evaluation_set = true /\
  exists r, In r (doc_refs (save_root current pinned_EvaluationSet w_evaluation_set))
            /\ defined_in (save_root current pinned_EvaluationSet w_evaluation_set) r = 0.
Proof. exact pinned_evaluation_set_open. Qed.
Print Assumptions C02_pinned_evaluation_set_open.

Example C02_hypotheses_satisfiable :
  wfb current root_AnnotationSet w_annotation_set = true /\ wfb current root_PredictionSet w_prediction_set = true /\
  wfb current root_EvaluationSet w_evaluation_set = true /\ wfb current root_RecordingSet w_recording_set = true.
Proof. exact wf_examples. Qed.
Print Assumptions C02_hypotheses_satisfiable.
