(* Property C16 — range dimensions and coordinate lookup are exact. *)
From Coq Require Import QArith.
From SE Require Import Base.Num Base.Res Arr.Range Arr.Index Arr.RangeProofs Arr.IndexProofs.
Open Scope Q_scope.

(* create_range_dim = the lattice start + i*step, i < ceil(q - 1/2), step recorded as attribute *)
Theorem C16_range_spec : forall a b st, 0 < st -> a < b ->
  create_range_dim a b (Some st) None = Ok (lattice a st (range_count a b st), st).
Proof. exact create_range_dim_spec. Qed.
Print Assumptions C16_range_spec.

Theorem C16_lattice_nth : forall a st n i, (i < n)%nat ->
  nth_error (lattice a st n) i = Some (a + idx i * st).
Proof. exact lattice_nth. Qed.
Print Assumptions C16_lattice_nth.

Theorem C16_lattice_length : forall a st n, length (lattice a st n) = n.
Proof. exact lattice_length. Qed.
Print Assumptions C16_lattice_length.

Theorem C16_coords_inside : forall a b st i, 0 < st -> a < b -> (i < range_count a b st)%nat ->
  a <= a + idx i * st /\ a + idx i * st < b.
Proof. exact range_coords_inside. Qed.
Print Assumptions C16_coords_inside.

Theorem C16_count_whole : forall a b st (n : nat), 0 < st -> (b - a) / st == idx n -> range_count a b st = n.
Proof. exact range_count_whole. Qed.
Print Assumptions C16_count_whole.

Theorem C16_count_round : forall a b st (n : nat),
  idx n - (1 # 2) < (b - a) / st -> (b - a) / st <= idx n + (1 # 2) -> range_count a b st = n.
Proof. exact range_count_round. Qed.
Print Assumptions C16_count_round.

Theorem C16_range_by_size : forall a b (n : Z), (0 < n)%Z -> a < b ->
  exists st, st == (b - a) / inject_Z n /\
  create_range_dim a b None (Some n) = Ok (lattice a st (Z.to_nat n), st).
Proof. exact create_range_dim_size. Qed.
Print Assumptions C16_range_by_size.

Theorem C16_range_needs_step_or_size : forall a b, create_range_dim a b None None = Err EValue.
Proof. exact create_range_dim_errors. Qed.
Print Assumptions C16_range_needs_step_or_size.

Theorem C16_time_range : forall a b st,
  create_time_range a b (Some st) None = create_range_dim a b (Some st) None.
Proof. exact time_range_is_range. Qed.
Print Assumptions C16_time_range.

Theorem C16_time_range_samplerate : forall a b sr, ~ sr == 0 ->
  create_time_range a b None (Some sr) = create_range_dim a b (Some (1 / sr)) None.
Proof. exact time_range_samplerate. Qed.
Print Assumptions C16_time_range_samplerate.

(* get_coord_index: unique i with coord[i] <= v < coord[i+1] (last index at the upper edge) *)
Theorem C16_index_in_range : forall c r v raise,
  incr (c :: r) -> c <= v -> v <= last r c ->
  exists i : nat,
    get_coord_index (c :: r) v raise = Ok (Z.of_nat i) /\
    (i < length (c :: r))%nat /\
    (forall x, nth_error (c :: r) i = Some x -> x <= v) /\
    (forall x, nth_error (c :: r) (S i) = Some x -> v < x) /\
    (forall j x, (j <= i)%nat -> nth_error (c :: r) j = Some x -> x <= v) /\
    (forall j x, (i < j)%nat -> nth_error (c :: r) j = Some x -> v < x).
Proof. exact coord_index_in_range. Qed.
Print Assumptions C16_index_in_range.

Theorem C16_index_unique : forall cs v i j xi xj,
  incr cs -> nth_error cs i = Some xi -> nth_error cs j = Some xj ->
  xi <= v -> xj <= v ->
  (forall x, nth_error cs (S i) = Some x -> v < x) ->
  (forall x, nth_error cs (S j) = Some x -> v < x) -> i = j.
Proof. exact coord_index_unique. Qed.
Print Assumptions C16_index_unique.

Theorem C16_index_outside : forall c r v,
  incr (c :: r) -> (v < c \/ last r c < v) ->
  get_coord_index (c :: r) v true = Err EKey /\
  (v < c -> get_coord_index (c :: r) v false = Ok 0%Z) /\
  (last r c < v -> get_coord_index (c :: r) v false = Ok (Z.of_nat (length (c :: r)))).
Proof. exact coord_index_outside. Qed.
Print Assumptions C16_index_outside.

(* set_value_at_pos: addressed cells get the value, every other element is unchanged, shape kept *)
Theorem C16_set_length : forall indexer v ps old k,
  length ps = length old -> length (set_walk indexer v ps old k) = length old.
Proof. exact set_walk_length. Qed.
Print Assumptions C16_set_length.

Theorem C16_set_exact : forall indexer v ps old k i p o,
  nth_error ps i = Some p -> nth_error old i = Some o ->
  exists y, nth_error (set_walk indexer v ps old k) i = Some y /\
    (addressed indexer p = false -> y = o) /\
    (addressed indexer p = true -> forall x, v = Scalar x -> y = x).
Proof. exact set_walk_nth. Qed.
Print Assumptions C16_set_exact.

Theorem C16_set_block : forall indexer xs ps old k i p o,
  nth_error ps i = Some p -> nth_error old i = Some o -> addressed indexer p = true ->
  nth_error (set_walk indexer (Block xs) ps old k) i =
  Some (nth (k + length (filter (addressed indexer) (firstn i ps))) xs o).
Proof. exact set_walk_block. Qed.
Print Assumptions C16_set_block.

Theorem C16_positions_count : forall shape, length (positions shape) = fold_right Nat.mul 1%nat shape.
Proof. exact positions_length. Qed.
Print Assumptions C16_positions_count.

Example C16_ex :
  range_res_eqb 0 (create_range_dim 0 (21 # 10) (Some (3 # 10)) None)
                  (Ok ([0; 3 # 10; 6 # 10; 9 # 10; 12 # 10; 15 # 10; 18 # 10], 3 # 10)) = true
  /\ get_coord_index [0; 1; 2; 3] (5 # 2) true = Ok 2%Z
  /\ get_coord_index [0; 1; 2; 3] 3 true = Ok 3%Z
  /\ get_coord_index [0; 1; 2; 3] 4 false = Ok 4%Z
  /\ incr [0; 1; 2; 3]
  /\ set_value_at_pos [[0; 1]; [0; 1; 2]] [1; 2; 3; 4; 5; 6] (Scalar 9) [Some 1; None] = Ok [1; 2; 3; 9; 9; 9].
Proof. vm_compute. repeat split; intros; intuition (subst; reflexivity || congruence). Qed.
Print Assumptions C16_ex.

(* ---- get_dim_range and get_coord_index as READ FROM THE SOURCE (Gen/Source.v is regenerated from
   soundevent/arrays/dimensions.py on every run; one axis as (coordinate, value) pairs; pandas'
   get_slice_bound is the model's slice_bound_right): equal to the model on every input. ---- *)
From SE Require Gen.Source Gen.SrcArrays.
From SE Require Import Gen.Prelude.

Theorem C16_src_get_dim_range : forall a,
  Source.get_dim_range a tt = match get_dim_range (coords a) with Some r => Ok r | None => Err EValue end.
Proof. exact SrcArrays.range_model. Qed.
Print Assumptions C16_src_get_dim_range.

Theorem C16_src_get_coord_index : forall a v r,
  Source.get_coord_index a tt v r = get_coord_index (coords a) v r.
Proof. exact SrcArrays.src_get_coord_index. Qed.
Print Assumptions C16_src_get_coord_index.
