(* Property C01 — AOEF save/load round trip is lossless for every collection type. *)
From Coq Require Import ZArith List Bool Arith.
From SE Require Import Aoef.Model Aoef.Schema Aoef.Typing Aoef.Pinned Aoef.Final Aoef.Dispatch Aoef.Codecs.
Import ListNotations.

(* for EVERY schema that passes the boolean check, every collection adapter and every well-formed object graph
   (typed against the schema; objects with the same identifier are the same object): loading what was saved, with
   fresh adapters, gives back exactly the object — every scalar of every nested object, list order, sharing *)
Theorem C01_roundtrip : forall sch rt U, schema_okb sch rt = true -> wfb sch rt U = true ->
  load_root sch rt (save_root sch rt U) = Some U.
Proof. exact roundtrip_b. Qed.
Print Assumptions C01_roundtrip.

(* the loaded object has the collection's own type *)
Theorem C01_same_type : forall sch rt U, schema_okb sch rt = true -> wfb sch rt U = true ->
  exists U', load_root sch rt (save_root sch rt U) = Some U' /\ ncls U' = rcls rt.
Proof. exact roundtrip_type. Qed.
Print Assumptions C01_same_type.

(* any number of consecutive cycles is an exact fixpoint, of the object and of the document *)
Theorem C01_fixpoint : forall sch rt U, schema_okb sch rt = true -> wfb sch rt U = true ->
  forall n, Nat.iter n (cycle sch rt) (Some U) = Some U.
Proof. exact fixpoint_b. Qed.
Print Assumptions C01_fixpoint.

Theorem C01_document_fixpoint : forall sch rt U, schema_okb sch rt = true -> wfb sch rt U = true ->
  forall n, match Nat.iter n (cycle sch rt) (Some U) with
            | Some x => save_root sch rt x = save_root sch rt U
            | None => False
            end.
Proof. exact doc_fixpoint_b. Qed.
Print Assumptions C01_document_fixpoint.

(* the obligation that ties the generic theorem to THIS code: the schema read off the 26 adapter modules
   (Aoef/Schema.v, regenerated on every run, compared with the real documents and loaded objects) passes the check
   for all eight collection types *)
Theorem C01_schema_ok_current : forallb (schema_okb current) roots = true.
Proof. exact schema_ok_current. Qed.
Print Assumptions C01_schema_ok_current.

Theorem C01_roundtrip_current : forall rt U, In rt roots -> wfb current rt U = true ->
  load_root current rt (save_root current rt U) = Some U.
Proof. exact roundtrip_current. Qed.
Print Assumptions C01_roundtrip_current.

(* which adapter writes / re-reads a collection.  For EVERY table order and subclass relation: if every class an object
   is an instance of (other than its own) comes later in the table, isinstance-dispatch picks the object's own class *)
Theorem C01_dispatch_own_class : forall parent fuel order o,
  specific_first parent fuel order o = true -> save_dispatch parent fuel order o = Some o.
Proof. exact dispatch_own_class. Qed.
Print Assumptions C01_dispatch_own_class.

(* ... and the ADAPTERS table as it stands in the source (extracted on every run) has that property for all eight types *)
Theorem C01_dispatch_current : forall rt, In rt roots ->
  save_dispatch collection_parent 3 adapters_order (rcls rt) = Some (rcls rt).
Proof. exact dispatch_current_own. Qed.
Print Assumptions C01_dispatch_current.

Theorem C01_load_dispatch_current : forall rt, In rt roots -> load_dispatch adapters_order (rcls rt) = Some (rcls rt).
Proof. exact load_dispatch_current. Qed.
Print Assumptions C01_load_dispatch_current.

Theorem C01_dispatch_base_first_refuted :
  save_dispatch collection_parent 3 [cRecordingSet; cDataset] cDataset = Some cRecordingSet.
Proof. exact dispatch_base_first_refuted. Qed.
Print Assumptions C01_dispatch_base_first_refuted.

(* the two scalar codecs that are not the identity.  A feature list goes through a dict keyed by label and comes back
   unchanged (order included) exactly under the quantifier's side condition "labels distinct within the list" *)
Theorem C01_feature_codec : forall l, NoDup (map fst l) -> feat_cycle l = l.
Proof. exact feat_roundtrip. Qed.
Print Assumptions C01_feature_codec.

Theorem C01_feature_codec_needs_distinct_labels : exists l, feat_cycle l <> l.
Proof. exact feat_duplicate_refuted. Qed.
Print Assumptions C01_feature_codec_needs_distinct_labels.

Theorem C01_feature_cycle_idempotent : forall l, feat_cycle (feat_cycle l) = feat_cycle l.
Proof. exact feat_cycle_idempotent. Qed.
Print Assumptions C01_feature_cycle_idempotent.

Theorem C01_time_expansion_codec : forall one x, te_dec one (te_enc one x) = x.
Proof. exact te_roundtrip. Qed.
Print Assumptions C01_time_expansion_codec.

(* the check discriminates: the three rows as the pinned tree had them fail it, with a lost object as witness *)
Theorem C01_pinned_license_refuted :
  schema_okb pinned_license root_RecordingSet = false /\
  wfb pinned_license root_RecordingSet w_recording_set = true /\
  load_root pinned_license root_RecordingSet (save_root pinned_license root_RecordingSet w_recording_set) <> Some w_recording_set.
Proof. exact pinned_license_refuted. Qed.
Print Assumptions C01_pinned_license_refuted.

Theorem C01_pinned_prediction_set_refuted :
  schema_okb current pinned_PredictionSet = false /\
  wfb current pinned_PredictionSet w_prediction_set = true /\
  load_root current pinned_PredictionSet (save_root current pinned_PredictionSet w_prediction_set) <> Some w_prediction_set.
Proof. exact pinned_prediction_set_refuted. Qed.
Print Assumptions C01_pinned_prediction_set_refuted.

Theorem C01_pinned_evaluation_set_refuted :
  schema_okb current pinned_EvaluationSet = false /\
  wfb current pinned_EvaluationSet w_evaluation_set = true /\
  load_root current pinned_EvaluationSet (save_root current pinned_EvaluationSet w_evaluation_set) <> Some w_evaluation_set.
Proof. exact pinned_evaluation_set_refuted. Qed.
Print Assumptions C01_pinned_evaluation_set_refuted.

(* non-vacuity: concrete graphs (shared recording and sound event, a sequence below a parent) meet the hypotheses;
   the harness also evaluates wfb on every generated case *)
Example C01_hypotheses_satisfiable :
  wfb current root_AnnotationSet w_annotation_set = true /\ wfb current root_PredictionSet w_prediction_set = true /\
  wfb current root_EvaluationSet w_evaluation_set = true /\ wfb current root_RecordingSet w_recording_set = true.
Proof. exact wf_examples. Qed.
Print Assumptions C01_hypotheses_satisfiable.
