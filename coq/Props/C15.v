(* Property C15 — audio-derived arrays are sample-accurate and their axes tell the truth. *)
From Coq Require Import QArith Qround ZArith List Bool.
From SE Require Import Gen.Prelude Gen.Source Gen.SrcAudio Base.Num Base.Res Arr.Range Arr.RangeProofs Audio.Clip Audio.Resample Audio.Spectrogram Audio.AudioProofs.
Open Scope Q_scope.

(* load_clip: exactly floor(duration*sr) frames, file frames from floor(start*sr) on, zero past the end,
   time axis = the lattice (offset + i)/sr with step 1/sr (so the axis has exactly as many points as frames) *)
Theorem C15_load_clip_spec : forall file ch sr start stop,
  0 < sr -> 0 <= start ->
  let offset := Qfloor (start * sr) in
  let samples := Qfloor ((stop - start) * sr) in
  (offset <= Z.of_nat (length file))%Z -> (1 <= samples)%Z ->
  load_clip file ch sr start stop =
  Ok {| a_frames := read_frames file ch (Z.to_nat offset) (Z.to_nat samples);
        a_times := lattice (inject_Z offset / sr) (1 / sr) (Z.to_nat samples);
        a_step := 1 / sr |}.
Proof. exact load_clip_spec. Qed.
Print Assumptions C15_load_clip_spec.

Theorem C15_read_frames_spec : forall file ch offset n,
  length (read_frames file ch offset n) = n /\
  forall i, (i < n)%nat -> nth_error (read_frames file ch offset n) i = Some (nth (offset + i) file (zero_frame ch)).
Proof. exact read_frames_spec. Qed.
Print Assumptions C15_read_frames_spec.

Theorem C15_clip_time : forall offset sr i, 0 < sr ->
  inject_Z offset / sr + idx i * (1 / sr) == (inject_Z offset + idx i) / sr.
Proof. exact clip_time. Qed.
Print Assumptions C15_clip_time.

Theorem C15_clip_matches_recording : forall file ch offset n i,
  (i < n)%nat -> (offset + i < length file)%nat ->
  nth_error (read_frames file ch offset n) i = nth_error file (offset + i).
Proof. exact clip_matches_recording. Qed.
Print Assumptions C15_clip_matches_recording.

Theorem C15_clip_past_eof_is_zero : forall file ch offset n i,
  (i < n)%nat -> (length file <= offset + i)%nat ->
  nth_error (read_frames file ch offset n) i = Some (zero_frame ch).
Proof. exact clip_past_eof_is_zero. Qed.
Print Assumptions C15_clip_past_eof_is_zero.

Theorem C15_load_recording_spec : forall file sr duration,
  0 < sr -> file <> [] -> duration * sr == idx (length file) ->
  load_recording file sr duration =
  Ok {| a_frames := file; a_times := lattice 0 (1 / sr) (length file); a_step := 1 / sr |}.
Proof. exact load_recording_spec. Qed.
Print Assumptions C15_load_recording_spec.

(* a lattice axis is strictly increasing and coordinate i is exactly first + i*step *)
Theorem C15_lattice_truthful : forall a st n, 0 < st ->
  (forall i, (i < n)%nat -> nth_error (lattice a st n) i = Some (a + idx i * st)) /\
  (forall i j ci cj, (i < j)%nat -> nth_error (lattice a st n) i = Some ci -> nth_error (lattice a st n) j = Some cj -> ci < cj).
Proof. exact lattice_truthful. Qed.
Print Assumptions C15_lattice_truthful.

(* resample: scipy's time vector drifts from the advertised 1/target lattice by less than one step *)
Theorem C15_resample_spec : forall times step target t0 t1 rest,
  times = t0 :: t1 :: rest -> (1 <= resample_num (length times) step target)%Z ->
  resample_axis times step target =
  Some (map (fun i => t0 + idx i * (t1 - t0) * idx (length times) / idx (Z.to_nat (resample_num (length times) step target)))
            (seq 0 (Z.to_nat (resample_num (length times) step target))), 1 / target).
Proof. exact resample_spec. Qed.
Print Assumptions C15_resample_spec.

Theorem C15_resample_within_one_step : forall n step target t0 (num : Z) (i : nat),
  0 < step -> 0 < target -> (1 <= num)%Z -> num = Qfloor (idx n * (target * step)) -> (Z.of_nat i < num)%Z ->
  let c := t0 + idx i * step * idx n / inject_Z num in
  0 <= c - (t0 + idx i * (1 / target)) /\ c - (t0 + idx i * (1 / target)) < 1 / target.
Proof. exact resample_within_one_step. Qed.
Print Assumptions C15_resample_within_one_step.

(* spectrogram: both axes are lattices with exactly the advertised step; the time axis starts at the audio's
   first coordinate and its step is a whole number (>= 1) of audio samples *)
Theorem C15_spectrogram_axes_spec : forall t0 step window hop n a,
  0 < step -> spectrogram_axes t0 step window hop n = Some a ->
  0 < s_time_step a /\ 0 < s_freq_step a /\
  s_times a = lattice t0 (s_time_step a) (length (s_times a)) /\
  s_freqs a = map (fun j => idx j * s_freq_step a) (seq 0 (length (s_freqs a))) /\
  (exists nstep : Z, (1 <= nstep)%Z /\ s_time_step a == inject_Z nstep * step).
Proof. exact spectrogram_axes_spec. Qed.
Print Assumptions C15_spectrogram_axes_spec.

Example C15_ex :
  raudio_eqb 0 (load_clip [[1]; [2]; [3]; [4]] 1 4 (3 # 8) (11 # 8))
    (Ok {| a_frames := [[2]; [3]; [4]; [0]]; a_times := [1 # 4; 1 # 2; 3 # 4; 1]; a_step := 1 # 4 |}) = true
  /\ match spectrogram_axes 0 (1 # 8) (9 # 16) (1 # 4) 16 with
     | Some a => qeqb (s_time_step a) (1 # 4) && Nat.eqb (length (s_freqs a)) 3 | None => false end = true.
Proof. vm_compute. split; reflexivity. Qed.
Print Assumptions C15_ex.

(* ---- on the definition read from the source (Gen/Source.v, regenerated on every run): the backward slice of load_clip on
   the locals it hands to load_audio(offset, samples) and create_time_range(start_time, end_time, samplerate) ---- *)
Theorem C15_src_load_clip_plan : forall start stop sr, qeqb sr 0 = false ->
  Source.load_clip_plan start stop sr = Ok (plan start stop sr).
Proof. exact src_load_clip_plan. Qed.
Print Assumptions C15_src_load_clip_plan.

Theorem C15_src_plan_counts : forall start stop sr o n s e, qeqb sr 0 = false ->
  Source.load_clip_plan start stop sr = Ok (o, n, s, e) ->
  o = Qfloor (start * sr) /\ n = Qfloor ((stop - start) * sr) /\ s = inject_Z o / sr /\ e = s + inject_Z n / sr.
Proof. exact src_plan_counts. Qed.
Print Assumptions C15_src_plan_counts.

Theorem C15_src_zero_samplerate : forall start stop sr, qeqb sr 0 = true -> Source.load_clip_plan start stop sr = Err EOther.
Proof. exact src_load_clip_plan_zero. Qed.
Print Assumptions C15_src_zero_samplerate.

(* the model of load_clip (of which C15_load_clip_spec speaks) reads the frames and builds the axis of exactly this plan *)
Theorem C15_model_uses_plan : forall file ch sr start stop,
  let '(o, n, s, e) := plan start stop sr in
  Clip.load_clip file ch sr start stop =
    if (o <? 0)%Z || (Z.of_nat (length file) <? o)%Z then Err EOther
    else if (n <? 0)%Z then Err EOther
    else mk_audio (read_frames file ch (Z.to_nat o) (Z.to_nat n)) (create_time_range s e None (Some sr)).
Proof. exact model_load_clip_uses_plan. Qed.
Print Assumptions C15_model_uses_plan.

Example C15_src_ex :
  Source.load_clip_plan (7005 # 10000) (11 # 10) 1000 = Ok (700%Z, 399%Z, inject_Z 700 / 1000, inject_Z 700 / 1000 + inject_Z 399 / 1000).
Proof. exact src_plan_ex. Qed.
Print Assumptions C15_src_ex.
