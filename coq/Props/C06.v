(* Property C06 — affinity is a symmetric intersection-over-union in [0, 1]. *)
From Coq Require Import QArith Qminmax.
From SE Require Import Base.Num Base.Res Geom.Geometry Geom.Buffer Eval.Affinity Eval.AffinityProofs.
Open Scope Q_scope.

(* --- time branch: whenever either geometry is time-only --- *)
Theorem C06_dispatch_time : forall g1 g2 ext1 ext2 a1 a2 i,
  is_time_only g1 = true \/ is_time_only g2 = true ->
  compute_affinity g1 g2 ext1 ext2 a1 a2 i = affinity_time (fst ext1) (snd ext1) (fst ext2) (snd ext2).
Proof. exact dispatch_time. Qed.
Print Assumptions C06_dispatch_time.

Theorem C06_time_is_iou : forall s1 e1 s2 e2,
  let i := Qmax 0 (Qmin e1 e2 - Qmax s1 s2) in
  let u := (e1 - s1) + (e2 - s2) - i in
  (u == 0 -> affinity_time s1 e1 s2 e2 == 0) /\ (~ u == 0 -> affinity_time s1 e1 s2 e2 == i / u).
Proof. exact time_is_iou. Qed.
Print Assumptions C06_time_is_iou.

Theorem C06_time_range : forall s1 e1 s2 e2, s1 <= e1 -> s2 <= e2 ->
  0 <= affinity_time s1 e1 s2 e2 /\ affinity_time s1 e1 s2 e2 <= 1.
Proof. exact time_range. Qed.
Print Assumptions C06_time_range.

Theorem C06_time_symmetric : forall s1 e1 s2 e2, affinity_time s1 e1 s2 e2 == affinity_time s2 e2 s1 e1.
Proof. exact time_symmetric. Qed.
Print Assumptions C06_time_symmetric.

Theorem C06_time_disjoint_zero : forall s1 e1 s2 e2, (e1 <= s2 \/ e2 <= s1) -> affinity_time s1 e1 s2 e2 == 0.
Proof. exact time_disjoint_zero. Qed.
Print Assumptions C06_time_disjoint_zero.

Theorem C06_time_self_one : forall s e, s < e -> affinity_time s e s e == 1.
Proof. exact time_self_one. Qed.
Print Assumptions C06_time_self_one.

Theorem C06_time_shift_invariant : forall s1 e1 s2 e2 d,
  affinity_time (s1 + d) (e1 + d) (s2 + d) (e2 + d) == affinity_time s1 e1 s2 e2.
Proof. exact time_shift_invariant. Qed.
Print Assumptions C06_time_shift_invariant.

Theorem C06_stamp_extent_shift : forall t tb d, 0 <= t - tb -> 0 <= d ->
  match prepared_extent (TimeStamp (t + d)) tb, prepared_extent (TimeStamp t) tb with
  | Some (s', e'), Some (s, e) => s' == s + d /\ e' == e + d
  | _, _ => False
  end.
Proof. exact stamp_extent_shift. Qed.
Print Assumptions C06_stamp_extent_shift.

(* --- area branch, for every answer GEOS may give --- *)
Theorem C06_dispatch_area : forall g1 g2 ext1 ext2 a1 a2 i,
  is_time_only g1 = false -> is_time_only g2 = false ->
  compute_affinity g1 g2 ext1 ext2 a1 a2 i = affinity_area a1 a2 i.
Proof. exact dispatch_area. Qed.
Print Assumptions C06_dispatch_area.

Theorem C06_area_range : forall a1 a2 i, 0 <= i -> i <= a1 + a2 ->
  0 <= affinity_area a1 a2 i /\ affinity_area a1 a2 i <= 1.
Proof. exact area_range. Qed.
Print Assumptions C06_area_range.

Theorem C06_area_is_iou : forall a1 a2 i, 0 <= i -> i <= a1 -> i <= a2 -> 0 < a1 + a2 - i ->
  affinity_area a1 a2 i == i / (a1 + a2 - i).
Proof. exact area_is_iou. Qed.
Print Assumptions C06_area_is_iou.

Theorem C06_area_symmetric : forall a1 a2 i, affinity_area a1 a2 i == affinity_area a2 a1 i.
Proof. exact area_symmetric. Qed.
Print Assumptions C06_area_symmetric.

(* 1, never more, even if the intersection area comes back slightly larger than the area *)
Theorem C06_area_self_one : forall a i, 0 < a -> a <= i -> i < 2 * a -> affinity_area a a i == 1.
Proof. exact area_self_one. Qed.
Print Assumptions C06_area_self_one.

Theorem C06_area_disjoint_zero : forall a1 a2, affinity_area a1 a2 0 == 0.
Proof. exact area_disjoint_zero. Qed.
Print Assumptions C06_area_disjoint_zero.

(* --- two bounding boxes: the area intersection-over-union, unconditionally --- *)
Theorem C06_box_range : forall r1 r2, rect_ok r1 -> rect_ok r2 -> 0 <= affinity_box r1 r2 /\ affinity_box r1 r2 <= 1.
Proof. exact box_range. Qed.
Print Assumptions C06_box_range.

Theorem C06_box_is_area_iou : forall r1 r2, rect_ok r1 -> rect_ok r2 ->
  0 < rect_area r1 + rect_area r2 - rect_inter_area r1 r2 ->
  affinity_box r1 r2 == rect_inter_area r1 r2 / (rect_area r1 + rect_area r2 - rect_inter_area r1 r2).
Proof. exact box_is_area_iou. Qed.
Print Assumptions C06_box_is_area_iou.

Theorem C06_box_symmetric : forall r1 r2, affinity_box r1 r2 == affinity_box r2 r1.
Proof. exact box_symmetric. Qed.
Print Assumptions C06_box_symmetric.

Theorem C06_box_self_one : forall r, b_start r < b_end r -> b_low r < b_high r -> affinity_box r r == 1.
Proof. exact box_self_one. Qed.
Print Assumptions C06_box_self_one.

Theorem C06_box_disjoint_in_time_zero : forall r1 r2,
  (b_end r1 <= b_start r2 \/ b_end r2 <= b_start r1) -> affinity_box r1 r2 == 0.
Proof. exact box_disjoint_in_time_zero. Qed.
Print Assumptions C06_box_disjoint_in_time_zero.

Example C06_ex :
  qeqb (affinity_box (0, 0, 2, 2) (1, 1, 3, 3)) (1 # 7) = true
  /\ qeqb (affinity_time 0 2 1 3) (1 # 3) = true
  /\ qeqb (affinity_area 2 2 (2 + (1 # 1000000))) 1 = true
  /\ rect_ok (0, 0, 2, 2).
Proof. vm_compute. repeat split; discriminate. Qed.
Print Assumptions C06_ex.

(* ---- the time-only branch and the two type sets as READ FROM THE SOURCE (Gen/Source.v is
   regenerated from soundevent/evaluation/affinity.py on every run) ---- *)
From SE Require Gen.Source Gen.SrcAffinity.
From SE Require Import Gen.Prelude.

Theorem C06_src_affinity_time : forall g1 g2 s1 l1 e1 h1 s2 l2 e2 h2,
  py_compute_bounds g1 = Ok (s1, l1, e1, h1) -> py_compute_bounds g2 = Ok (s2, l2, e2, h2) ->
  exists q, Source.compute_affinity_in_time g1 g2 = Ok q /\ q == affinity_time s1 e1 s2 e2.
Proof. exact SrcAffinity.src_affinity_time. Qed.
Print Assumptions C06_src_affinity_time.

Theorem C06_src_time_range : forall g1 g2 s1 l1 e1 h1 s2 l2 e2 h2,
  py_compute_bounds g1 = Ok (s1, l1, e1, h1) -> py_compute_bounds g2 = Ok (s2, l2, e2, h2) ->
  s1 <= e1 -> s2 <= e2 ->
  exists q, Source.compute_affinity_in_time g1 g2 = Ok q /\ 0 <= q /\ q <= 1.
Proof. exact SrcAffinity.src_time_range. Qed.
Print Assumptions C06_src_time_range.

Theorem C06_src_time_symmetric : forall g1 g2 s1 l1 e1 h1 s2 l2 e2 h2,
  py_compute_bounds g1 = Ok (s1, l1, e1, h1) -> py_compute_bounds g2 = Ok (s2, l2, e2, h2) ->
  exists q q', Source.compute_affinity_in_time g1 g2 = Ok q /\ Source.compute_affinity_in_time g2 g1 = Ok q' /\ q == q'.
Proof. exact SrcAffinity.src_time_symmetric. Qed.
Print Assumptions C06_src_time_symmetric.

Theorem C06_src_time_self_one : forall g s l e h,
  py_compute_bounds g = Ok (s, l, e, h) -> s < e ->
  exists q, Source.compute_affinity_in_time g g = Ok q /\ q == 1.
Proof. exact SrcAffinity.src_time_self_one. Qed.
Print Assumptions C06_src_time_self_one.

Theorem C06_src_time_disjoint_zero : forall g1 g2 s1 l1 e1 h1 s2 l2 e2 h2,
  py_compute_bounds g1 = Ok (s1, l1, e1, h1) -> py_compute_bounds g2 = Ok (s2, l2, e2, h2) ->
  (e1 <= s2 \/ e2 <= s1) ->
  exists q, Source.compute_affinity_in_time g1 g2 = Ok q /\ q == 0.
Proof. exact SrcAffinity.src_time_disjoint_zero. Qed.
Print Assumptions C06_src_time_disjoint_zero.

Theorem C06_src_time_types : forall g, type_in g Source.TIME_GEOMETRY_TYPES = is_time_only g.
Proof. exact SrcAffinity.src_time_types. Qed.
Print Assumptions C06_src_time_types.

Theorem C06_src_buffer_types : forall g, type_in g Source.BUFFER_GEOMETRY_TYPES = is_buffered_type g.
Proof. exact SrcAffinity.src_buffer_types. Qed.
Print Assumptions C06_src_buffer_types.

(* the bounds these functions read (py_compute_bounds in the generated text) are what compute_bounds and
   geometry_to_shapely, as read from the source, compute for every valid geometry *)
From SE Require Gen.SrcConversion.
Theorem C06_src_compute_bounds : forall g,
  validb g = true -> Source.compute_bounds_py g = py_compute_bounds g.
Proof. exact SrcConversion.src_compute_bounds_valid. Qed.
Print Assumptions C06_src_compute_bounds.

(* the area branch as READ FROM THE SOURCE (everything after `shp2 = geometry_to_shapely(geometry2)`; the two areas and
   the intersection area are parameters): the zero-union guard, the division and the clamp to 1 *)
Theorem C06_src_affinity_area : forall a1 a2 i,
  exists q, Source.compute_affinity_area_tail a1 a2 i = Ok q /\ q == affinity_area a1 a2 i.
Proof. exact SrcAffinity.src_affinity_area. Qed.
Print Assumptions C06_src_affinity_area.

Theorem C06_src_area_range : forall a1 a2 i, 0 <= i -> i <= a1 + a2 ->
  exists q, Source.compute_affinity_area_tail a1 a2 i = Ok q /\ 0 <= q /\ q <= 1.
Proof. exact SrcAffinity.src_area_range. Qed.
Print Assumptions C06_src_area_range.
