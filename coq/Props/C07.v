(* Property C07 — matching is an optimal one-to-one assignment that covers every geometry once. *)
From Coq Require Import QArith Permutation.
From SE Require Import Base.Num Base.Res Eval.Match Eval.MatchProofs.
Open Scope Q_scope.

(* the brute-force optimum bounds every one-to-one partial pairing, for every matrix and size *)
Theorem C07_brute_best_max : forall M n m p, pairing n m p -> weight M p <= brute_best M n m.
Proof. exact brute_best_max. Qed.
Print Assumptions C07_brute_best_max.

(* the checker is sound: an output it accepts covers every source and target exactly once, pairs only
   positive affinities and reports M[i][j], reports 0 for one-sided entries, is itself a one-to-one
   pairing whose weight is the reported total, and that total is maximal (up to tol) *)
Theorem C07_checker_sound : forall M n m tol out, checker M n m tol out = true -> spec M n m tol out.
Proof. exact checker_sound. Qed.
Print Assumptions C07_checker_sound.

(* the post-processing of the solver's answer, for all sizes (including n = 0, m = 0, n <> m) *)
Theorem C07_coverage : forall M n m lsa, pairing n m lsa ->
  Permutation (opt_list (map e_src (select_matches M n m lsa))) (seq 0 n) /\
  Permutation (opt_list (map e_tgt (select_matches M n m lsa))) (seq 0 m).
Proof. exact select_matches_coverage. Qed.
Print Assumptions C07_coverage.

Theorem C07_entries : forall M n m lsa e, In e (select_matches M n m lsa) -> entry_spec M e.
Proof. exact select_entries. Qed.
Print Assumptions C07_entries.

Theorem C07_total : forall M n m lsa, nonneg M -> total (select_matches M n m lsa) == weight M lsa.
Proof. exact select_total. Qed.
Print Assumptions C07_total.

(* with the solver contract lsa_spec (checked by the checker on every recorded run), the output is optimal *)
Theorem C07_model_spec : forall M n m lsa, nonneg M -> lsa_spec M n m lsa ->
  let out := select_matches M n m lsa in
  Permutation (opt_list (map e_src out)) (seq 0 n) /\
  Permutation (opt_list (map e_tgt out)) (seq 0 m) /\
  (forall e, In e out -> entry_spec M e) /\
  (forall p, pairing n m p -> weight M p <= total out).
Proof. exact select_matches_spec. Qed.
Print Assumptions C07_model_spec.

Example C07_ex :
  let M := [[0; 1 # 2]; [1 # 4; 0]; [0; 0]] in
  checker M 3 2 0 (select_matches M 3 2 [(0, 1); (1, 0)]%nat) = true
  /\ entries_same (select_matches [[0]] 1 1 [(0, 0)]%nat) [(Some 0%nat, None, 0); (None, Some 0%nat, 0)] = true
  /\ checker [[0]] 1 1 0 [(Some 0%nat, Some 0%nat, 0)] = false
  /\ checker [] 0 0 0 [] = true.
Proof. vm_compute. repeat split. Qed.
Print Assumptions C07_ex.

(* ---- the loop of match_geometries that reports the selected pairs, as READ FROM THE SOURCE (Gen/Source.v is
   regenerated from soundevent/evaluation/match.py on every run; the affinity matrix and the pairs chosen by
   _select_matches — scipy's solver and the leftover rows / columns — are its parameters): a selected pair with
   affinity <= 0 is reported as two one-sided entries with affinity 0, every other pair as it is with M[i][j],
   one-sided pairs with 0; with the model's selection it is the model's select_matches. ---- *)
From SE Require Gen.Source Gen.SrcMatch.
From SE Require Import Gen.Prelude.

Theorem C07_src_match_tail : forall M ms,
  Source.match_geometries_tail M ms = Ok (flat_map (SrcMatch.emit_pair M) ms).
Proof. exact SrcMatch.src_match_tail. Qed.
Print Assumptions C07_src_match_tail.

Theorem C07_src_match_select : forall M n m lsa,
  Source.match_geometries_tail M
    (map (fun p => (Some (fst p), Some (snd p))) lsa
     ++ map (fun r => (Some r, None)) (filter (fun r => negb (mem r (map fst lsa))) (seq 0 n))
     ++ map (fun c => (None, Some c)) (filter (fun c => negb (mem c (map snd lsa))) (seq 0 m)))
  = Ok (select_matches M n m lsa).
Proof. exact SrcMatch.src_match_select. Qed.
Print Assumptions C07_src_match_select.
