(* Property C19 — tag encoding projects faithfully onto the vocabulary; equal objects hash equally. *)
From Coq Require Import QArith.
From SE Require Import Base.Num Base.Res Eval.Encoding Eval.EncodingProofs.
Open Scope Q_scope.

Section WithHash.
Variable h : tag -> Z.
(* In the model two tags are equal iff all their declared fields are (tag_eqb_eq), so every function h
   respects equality; that the real hash() respects the real == is the correspondence/oracle half of the check. *)

Theorem C19_encode_iff : forall vocab t i,
  NoDup vocab -> (encode h vocab t = Some i <-> nth_error vocab i = Some t).
Proof. exact (encode_iff h). Qed.

Theorem C19_encode_none : forall vocab t, NoDup vocab -> (encode h vocab t = None <-> ~ In t vocab).
Proof. exact (encode_none h). Qed.

Theorem C19_decode_encode : forall vocab i t, NoDup vocab -> decode vocab i = Some t -> encode h vocab t = Some i.
Proof. exact (decode_encode h). Qed.

Theorem C19_encode_decode : forall vocab i t, NoDup vocab -> encode h vocab t = Some i -> decode vocab i = Some t.
Proof. exact (encode_decode h). Qed.

Theorem C19_classification_first : forall vocab tags r,
  classification_encoding h vocab tags = r <->
  ((r = None /\ forall t, In t tags -> encode h vocab t = None) \/
   (exists pre t post i, tags = pre ++ t :: post /\ (forall x, In x pre -> encode h vocab x = None)
                         /\ encode h vocab t = Some i /\ r = Some i)).
Proof. exact (classification_first h). Qed.

Theorem C19_multilabel_indicator : forall vocab tags j,
  NoDup vocab -> (j < length vocab)%nat ->
  (nth j (multilabel_encoding h vocab tags) 0%Z = 1%Z <-> exists t, In t tags /\ encode h vocab t = Some j) /\
  (nth j (multilabel_encoding h vocab tags) 0%Z = 1%Z \/ nth j (multilabel_encoding h vocab tags) 0%Z = 0%Z).
Proof. exact (multilabel_indicator h). Qed.

Theorem C19_multilabel_length : forall vocab tags, length (multilabel_encoding h vocab tags) = length vocab.
Proof. exact (multilabel_length h). Qed.

Theorem C19_prediction_length : forall vocab ptags, length (prediction_encoding h vocab ptags) = length vocab.
Proof. exact (prediction_length h). Qed.

Theorem C19_prediction_nil : forall vocab j, nth j (prediction_encoding h vocab []) 0 = 0.
Proof. exact (prediction_nil h). Qed.

(* the last predicted tag encoding to slot j decides it; others leave it unchanged *)
Theorem C19_prediction_snoc : forall vocab ptags p j, (j < length vocab)%nat ->
  nth j (prediction_encoding h vocab (ptags ++ [p])) 0 =
  match encode h vocab (fst p) with
  | Some i => if Nat.eqb i j then snd p else nth j (prediction_encoding h vocab ptags) 0
  | None => nth j (prediction_encoding h vocab ptags) 0
  end.
Proof. exact (prediction_snoc h). Qed.

(* tags outside the vocabulary never influence any result *)
Theorem C19_classification_oov : forall vocab tags,
  classification_encoding h vocab (filter (fun t => match encode h vocab t with Some _ => true | None => false end) tags)
  = classification_encoding h vocab tags.
Proof. exact (classification_oov h). Qed.

Theorem C19_multilabel_oov : forall vocab tags,
  multilabel_encoding h vocab (filter (fun t => match encode h vocab t with Some _ => true | None => false end) tags)
  = multilabel_encoding h vocab tags.
Proof. exact (multilabel_oov h). Qed.

Theorem C19_prediction_oov : forall vocab ptags,
  prediction_encoding h vocab (filter (fun p => match encode h vocab (fst p) with Some _ => true | None => false end) ptags)
  = prediction_encoding h vocab ptags.
Proof. exact (prediction_oov h). Qed.
End WithHash.
Print Assumptions C19_encode_iff.
Print Assumptions C19_encode_none.
Print Assumptions C19_decode_encode.
Print Assumptions C19_encode_decode.
Print Assumptions C19_classification_first.
Print Assumptions C19_multilabel_indicator.
Print Assumptions C19_multilabel_length.
Print Assumptions C19_prediction_length.
Print Assumptions C19_prediction_nil.
Print Assumptions C19_prediction_snoc.
Print Assumptions C19_classification_oov.
Print Assumptions C19_multilabel_oov.
Print Assumptions C19_prediction_oov.

(* equal objects hash equally: the hashed projection is a function of the compared fields *)
Theorem C19_hash_respects_eq : forall (K : Type) (H : list Z -> K) idxs (a b : obj),
  obj_eqb a b = true -> H (proj idxs a) = H (proj idxs b).
Proof. exact @hash_respects_eq. Qed.
Print Assumptions C19_hash_respects_eq.

Theorem C19_tag_hash_respects : forall a b, tag_eqb a b = true -> tag_hash a = tag_hash b.
Proof. exact tag_hash_respects. Qed.
Print Assumptions C19_tag_hash_respects.

Example C19_ex :
  let t1 : tag := ([1; 7]%Z, 5%Z) in let t2 : tag := ([1; 8]%Z, 5%Z) in let t3 : tag := ([2; 7]%Z, 5%Z) in
  NoDup [t1; t2] /\ encode tag_hash [t1; t2] t2 = Some 1%nat /\ encode tag_hash [t1; t2] t3 = None
  /\ classification_encoding tag_hash [t1; t2] [t3; t2; t1] = Some 1%nat
  /\ multilabel_encoding tag_hash [t1; t2] [t3; t2; t2] = [0; 1]%Z
  /\ qlist_eqb (prediction_encoding tag_hash [t1; t2] [(t2, 1 # 4); (t3, 1); (t2, 1 # 2)]) [0; 1 # 2] = true.
Proof.
  vm_compute. repeat split; try reflexivity.
  repeat constructor; cbn; intuition congruence.
Qed.
Print Assumptions C19_ex.

(* ---- the three encodings as READ FROM THE SOURCE (Gen/Source.v is regenerated from
   soundevent/evaluation/encoding.py on every run): with the encoder's `encode` and `num_classes` given
   by the model of SimpleEncoder they compute the model's answers for every vocabulary (repeated tags
   included) and every tag list; in particular the element assignments never index out of range. ---- *)
From SE Require Gen.Source Gen.SrcEncoding.

Theorem C19_src_classification : forall (h : tag -> Z) vocab tags,
  Source.classification_encoding (encode h vocab) tags = Ok (classification_encoding h vocab tags).
Proof. exact SrcEncoding.src_classification. Qed.
Print Assumptions C19_src_classification.

Theorem C19_src_multilabel : forall (h : tag -> Z) vocab tags,
  Source.multilabel_encoding (encode h vocab) tags (length vocab) = Ok (multilabel_encoding h vocab tags).
Proof. exact SrcEncoding.src_multilabel. Qed.
Print Assumptions C19_src_multilabel.

Theorem C19_src_prediction : forall (h : tag -> Z) vocab ptags,
  Source.prediction_encoding (encode h vocab) ptags (length vocab) = Ok (prediction_encoding h vocab ptags).
Proof. exact SrcEncoding.src_prediction. Qed.
Print Assumptions C19_src_prediction.

Theorem C19_src_encode_in_range : forall (h : tag -> Z) vocab t i, encode h vocab t = Some i -> (i < length vocab)%nat.
Proof. exact SrcEncoding.encode_bound. Qed.
Print Assumptions C19_src_encode_in_range.
