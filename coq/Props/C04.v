(* Property C04 — relational schema invariants cannot be bypassed at construction. *)
From Coq Require Import QArith.
From SE Require Import Base.Num Base.Res Misc.Relational Misc.RelationalProofs.
Open Scope Q_scope.

Theorem C04_clip_eval_iff : forall ac pc anns preds ms,
  clip_eval_ok ac pc anns preds ms = true <->
  ac = pc /\ NoDup (targets ms) /\ NoDup (sources ms) /\
  (forall x, In x (targets ms) <-> In x anns) /\ (forall x, In x (sources ms) <-> In x preds).
Proof. exact clip_eval_iff. Qed.
Print Assumptions C04_clip_eval_iff.

Theorem C04_every_annotation_once : forall ac pc anns preds ms a,
  clip_eval_ok ac pc anns preds ms = true -> In a anns -> count_occ Nat.eq_dec (targets ms) a = 1%nat.
Proof. exact every_annotation_once. Qed.
Print Assumptions C04_every_annotation_once.

Theorem C04_every_prediction_once : forall ac pc anns preds ms p,
  clip_eval_ok ac pc anns preds ms = true -> In p preds -> count_occ Nat.eq_dec (sources ms) p = 1%nat.
Proof. exact every_prediction_once. Qed.
Print Assumptions C04_every_prediction_once.

Theorem C04_no_foreign_target : forall ac pc anns preds ms t,
  clip_eval_ok ac pc anns preds ms = true -> In t (targets ms) -> In t anns.
Proof. exact no_foreign_target. Qed.
Print Assumptions C04_no_foreign_target.

Theorem C04_match_ok_iff : forall m, match_ok m = true <-> (fst m <> None \/ snd m <> None).
Proof. exact match_ok_iff. Qed.
Print Assumptions C04_match_ok_iff.

Theorem C04_project_ok_iff : forall task_clips ann_clips,
  project_ok task_clips ann_clips = true <-> (forall c, In c ann_clips -> In c task_clips).
Proof. exact project_ok_iff. Qed.
Print Assumptions C04_project_ok_iff.

Theorem C04_clip_ok_iff : forall s e, clip_ok s e = true <-> s <= e.
Proof. exact clip_ok_iff. Qed.
Print Assumptions C04_clip_ok_iff.

Theorem C04_unit_ok_iff : forall x, unit_ok x = true <-> 0 <= x /\ x <= 1.
Proof. exact unit_ok_iff. Qed.
Print Assumptions C04_unit_ok_iff.

Theorem C04_construct_iff : forall ac pc anns preds ms affs mscores score,
  construct_clip_eval ac pc anns preds ms affs mscores score = true <->
  (forall m, In m ms -> fst m <> None \/ snd m <> None) /\
  (forall a, In a affs -> 0 <= a /\ a <= 1) /\
  (forall s v, In s mscores -> s = Some v -> 0 <= v /\ v <= 1) /\
  clip_eval_ok ac pc anns preds ms = true /\
  (forall v, score = Some v -> 0 <= v /\ v <= 1).
Proof. exact construct_iff. Qed.
Print Assumptions C04_construct_iff.

Example C04_ex :
  clip_eval_ok 1 1 [] [] [] = true
  /\ clip_eval_ok 1 1 [10; 11]%nat [20]%nat [(None, Some 10); (None, Some 11); (Some 20, None)]%nat = true
  /\ clip_eval_ok 1 1 [10]%nat [20]%nat [(Some 20, Some 10); (None, Some 10)]%nat = false
  /\ clip_eval_ok 1 2 [] [] [] = false
  /\ clip_eval_ok 1 1 [10]%nat [] [] = false.
Proof. vm_compute. repeat split. Qed.
Print Assumptions C04_ex.

(* ---- the validators as READ FROM THE SOURCE (Gen/Source.v is regenerated from
   soundevent/data/clip_evaluations.py, annotation_projects.py and clips.py on every run; objects are
   represented by their uuid): the same declarative statements as above, about the code as written. ---- *)
From Coq Require Import ZArith List.
From SE Require Gen.Source Gen.SrcRelational.
From SE Require Import Gen.Prelude.
Import SrcRelational.

Theorem C04_src_clip_eval_iff : forall ac pc anns preds ms,
  src_clip_eval ac pc anns preds ms = Ok tt <->
  ac = pc /\ NoDup (ztargets ms) /\ NoDup (zsources ms) /\
  (forall x, In x (ztargets ms) <-> In x anns) /\ (forall x, In x (zsources ms) <-> In x preds).
Proof. exact src_clip_eval_iff. Qed.
Print Assumptions C04_src_clip_eval_iff.

Theorem C04_src_clip_eval_err : forall ac pc anns preds ms e, src_clip_eval ac pc anns preds ms = Err e -> e = EValue.
Proof. exact src_clip_eval_err. Qed.
Print Assumptions C04_src_clip_eval_err.

Theorem C04_src_project_iff : forall tasks anns,
  Source.AnnotationProject__annotations_are_part_of_the_project tasks anns = Ok tt <->
  (forall c, In c (map fst anns) -> In c tasks).
Proof. exact src_project_iff. Qed.
Print Assumptions C04_src_project_iff.

Theorem C04_src_clip_times_iff : forall s e, Source.Clip__validate_times s e = Ok tt <-> s <= e.
Proof. exact src_clip_times_iff. Qed.
Print Assumptions C04_src_clip_times_iff.

Example C04_src_ex :
  src_clip_eval 1 1 [10; 11]%Z [20]%Z [(Some 20, Some 10); (None, Some 11)]%Z = Ok tt
  /\ src_clip_eval 1 1 [10; 11]%Z [20]%Z [(Some 20, Some 10); (None, Some 10)]%Z = Err EValue
  /\ src_clip_eval 1 2 []%Z []%Z [] = Err EValue.
Proof. vm_compute. repeat split. Qed.
Print Assumptions C04_src_ex.
