(* Property C14 — clip segmentation tiles the clip on the hop lattice. *)
From Coq Require Import QArith.
From SE Require Import Base.Num Base.Res Misc.SegmentClip Misc.SegmentClipProofs.
Open Scope Q_scope.

(* accepted inputs produce exactly the window list [windows]; rejected ones are exactly dur<=0 or hop<=0 *)
Theorem C14_ok : forall s e dur hop incl,
  0 < dur -> 0 < hop -> segment_clip s e dur hop incl = Ok (windows s e dur hop incl).
Proof. exact segment_clip_ok. Qed.
Print Assumptions C14_ok.

Theorem C14_rejects_nonpositive : forall s e dur hop incl,
  (dur <= 0 \/ hop <= 0) <-> segment_clip s e dur hop incl = Err EValue.
Proof. exact rejects_nonpositive. Qed.
Print Assumptions C14_rejects_nonpositive.

(* k-th window starts at start + k*hop, ends at min(start+dur, clip end) *)
Theorem C14_lattice : forall s e dur hop incl k st en,
  nth_error (windows s e dur hop incl) k = Some (st, en) ->
  st = s + idx k * hop /\ en = pymin (st + dur) e /\ admissible s e dur hop incl k.
Proof. exact windows_nth. Qed.
Print Assumptions C14_lattice.

(* window k is produced iff it starts inside the clip and (fits completely or incl) *)
Theorem C14_produced_iff : forall s e dur hop incl, 0 < hop -> forall k,
  (s + idx k * hop < e /\ (incl = true \/ s + idx k * hop + dur <= e))
  <-> (k < length (windows s e dur hop incl))%nat.
Proof. exact windows_produced. Qed.
Print Assumptions C14_produced_iff.

Theorem C14_inside_parent : forall s e dur hop incl, 0 < hop -> forall k st en,
  0 < dur -> nth_error (windows s e dur hop incl) k = Some (st, en) -> s <= st /\ st < en /\ en <= e.
Proof. exact windows_inside. Qed.
Print Assumptions C14_inside_parent.

Theorem C14_exact_duration : forall s e dur hop k st en,
  nth_error (windows s e dur hop false) k = Some (st, en) -> en == st + dur.
Proof. intros s e dur hop k st en. exact (windows_complete_when_not_incl s e dur hop false k st en eq_refl). Qed.
Print Assumptions C14_exact_duration.

Theorem C14_truncated_at_end : forall s e dur hop incl k st en,
  nth_error (windows s e dur hop incl) k = Some (st, en) -> e < st + dur -> en = e.
Proof. exact windows_truncated. Qed.
Print Assumptions C14_truncated_at_end.

Theorem C14_covers : forall s e dur hop t,
  0 < hop -> 0 < dur -> hop <= dur -> s <= t -> t < e ->
  exists k st en, nth_error (windows s e dur hop true) k = Some (st, en) /\ st <= t /\ t < en.
Proof. exact windows_cover. Qed.
Print Assumptions C14_covers.

(* identifiers are a function of (parent id, start, end); starts are strictly increasing, so the
   triples — hence the uuid5 values, uuid5 assumed injective — are pairwise distinct *)
Theorem C14_ids_distinct : forall s e dur hop incl, 0 < hop -> forall j k sj ej sk ek,
  (j < k)%nat -> nth_error (windows s e dur hop incl) j = Some (sj, ej) ->
  nth_error (windows s e dur hop incl) k = Some (sk, ek) -> sj < sk.
Proof. exact windows_starts_increasing. Qed.
Print Assumptions C14_ids_distinct.

(* the loop ends by a break, never by its bound *)
Theorem C14_fuel_irrelevant : forall s e dur hop incl, 0 < hop -> forall extra,
  seg_loop (seg_fuel s e hop + extra) 0 s e dur hop incl = windows s e dur hop incl.
Proof. exact windows_fuel_irrelevant. Qed.
Print Assumptions C14_fuel_irrelevant.

Example C14_ex :
  res_eqb segs_eqb (segment_clip 0 10 1 (9#2) false) (Ok [(0, 1); (9#2, 11#2); (9, 10)]) = true
  /\ res_eqb segs_eqb (segment_clip 0 10 3 3 true) (Ok [(0, 3); (3, 6); (6, 9); (9, 10)]) = true.
Proof. vm_compute. split; reflexivity. Qed.
Print Assumptions C14_ex.

(* ---- the generator loop as READ FROM THE SOURCE (Gen/Source.v is regenerated from
   soundevent/operations.py on every run): with the fuel [seg_fuel] it ends by its own break, never
   raises, passes the Clip constructor's validator, and yields exactly [windows] (bounds up to ==),
   each with an identifier built from the parent id and the window's own bounds. ---- *)
From SE Require Gen.Source Gen.SrcSegment.
From SE Require Import Gen.Prelude.

Theorem C14_src_segment_clip : forall uuid s e dur hop incl,
  let h := match hop with Some v => v | None => dur end in
  0 < dur -> 0 < h ->
  exists l, Source.segment_clip (seg_fuel s e h) uuid s e dur hop incl = Some (Ok l) /\
            Forall2 (SrcSegment.seg_match uuid) l (windows s e dur h incl).
Proof. exact SrcSegment.src_segment_clip. Qed.
Print Assumptions C14_src_segment_clip.

Theorem C14_src_rejects_nonpositive : forall fuel uuid s e dur hop incl,
  let h := match hop with Some v => v | None => dur end in
  (dur <= 0 \/ h <= 0) -> Source.segment_clip fuel uuid s e dur hop incl = Some (Err EValue).
Proof. exact SrcSegment.src_segment_clip_rejects. Qed.
Print Assumptions C14_src_rejects_nonpositive.

Theorem C14_src_ids_distinct : forall uuid s e dur hop incl l,
  let h := match hop with Some v => v | None => dur end in
  0 < h ->
  Forall2 (SrcSegment.seg_match uuid) l (windows s e dur h incl) ->
  forall j k a b, (j < k)%nat -> nth_error l j = Some a -> nth_error l k = Some b -> sc_id a <> sc_id b.
Proof. exact SrcSegment.src_ids_distinct. Qed.
Print Assumptions C14_src_ids_distinct.

Example C14_src_ex :
  match Source.segment_clip 20 7 0 10 3 None true with
  | Some (Ok l) => map (fun c => (sc_start c, sc_end c)) l = [(0 + 0 * 3, 0 + 0 * 3 + 3); (0 + 1 * 3, 0 + 1 * 3 + 3); (0 + 2 * 3, 0 + 2 * 3 + 3); (0 + 3 * 3, 10)]
  | _ => False
  end.
Proof. vm_compute. reflexivity. Qed.
Print Assumptions C14_src_ex.
