(* Property C13 — grouping returns the connected components of the similarity graph. *)
From Coq Require Import List Arith Permutation Relations.
From Coq Require Import ZArith QArith.
From SE Require Import Base.Res Gen.Prelude Gen.Source Gen.SrcGroup Misc.Components Misc.ComponentsProofs Misc.GroupLoop.
Local Open Scope nat_scope.
Import ListNotations.

(* every event in exactly one sequence *)
Theorem C13_partition : forall n rel, Permutation (concat (group_sound_events n rel)) (seq 0 n).
Proof. exact ComponentsProofs.partition. Qed.
Print Assumptions C13_partition.

Theorem C13_groups_nonempty : forall n rel g, In g (group_sound_events n rel) -> g <> [].
Proof. exact nonempty_groups. Qed.
Print Assumptions C13_groups_nonempty.

(* input order kept inside each sequence *)
Theorem C13_order_kept : forall n rel g, In g (group_sound_events n rel) -> exists p, g = filter p (seq 0 n).
Proof. exact order_kept. Qed.
Print Assumptions C13_order_kept.

(* two events share a sequence iff they are linked by a chain of pairwise-similar events *)
Theorem C13_same_group_iff_connected : forall n rel a b,
  (forall x y, rel x y = rel y x) -> a < n -> b < n ->
  ((exists g, In g (group_sound_events n rel) /\ In a g /\ In b g) <->
   clos_refl_sym_trans nat (fun a b => a < n /\ b < n /\ a <> b /\ rel a b = true) a b).
Proof. exact same_group_iff_connected. Qed.
Print Assumptions C13_same_group_iff_connected.

Theorem C13_empty : forall rel, group_sound_events 0 rel = [].
Proof. exact empty_input. Qed.
Print Assumptions C13_empty.

(* the comparison function is called exactly on the pairs i<j<n, each once *)
Theorem C13_queries : forall n i j, In (i, j) (pairs n) <-> i < j /\ j < n.
Proof. exact in_pairs. Qed.
Print Assumptions C13_queries.

Theorem C13_queries_once : forall n, NoDup (pairs n).
Proof. exact NoDup_pairs. Qed.
Print Assumptions C13_queries_once.

Example C13_ex :
  group_sound_events 5 (rel_of [(0, 3); (3, 4)]) = [[0; 3; 4]; [1]; [2]]
  /\ pairs 3 = [(0, 1); (0, 2); (1, 2)].
Proof. vm_compute. split; reflexivity. Qed.
Print Assumptions C13_ex.

(* the property's own clause on the comparison function: only pairs of distinct input events (boolean form used by
   the correspondence on the calls the real function makes; the model's calls satisfy it) *)
Theorem C13_calls_distinct : forall n, calls_okb n (pairs n) = true.
Proof. exact pairs_calls_ok. Qed.
Print Assumptions C13_calls_distinct.

Theorem C13_calls_okb_sound : forall n calls,
  calls_okb n calls = true <-> forall i j, In (i, j) calls -> i <> j /\ i < n /\ j < n.
Proof. exact calls_ok_spec. Qed.
Print Assumptions C13_calls_okb_sound.

(* ---- on the definition read from the source (Gen/Source.v, regenerated on every run) ---- *)
(* the code as written builds, for every list of events and every comparison function, the symmetric
   adjacency of the model's edge list: a 1 at (i, j) and at (j, i) for every edge (i, j) of edges_of, n x n *)
Theorem C13_src_similarity_matrix : forall cmp evs,
  Source.compute_similarity_matrix cmp evs = Ok (adjacency cmp evs).
Proof. exact src_similarity_matrix. Qed.
Print Assumptions C13_src_similarity_matrix.

Theorem C13_src_entries : forall cmp evs a b,
  let m := adjacency cmp evs in
  In (a, b) (combine (coo_i m) (coo_j m)) <->
  (a < b /\ b < length evs /\ rel_on cmp evs a b = true) \/ (b < a /\ a < length evs /\ rel_on cmp evs b a = true).
Proof. exact src_entries. Qed.
Print Assumptions C13_src_entries.

Theorem C13_src_entries_symmetric : forall cmp evs a b,
  let m := adjacency cmp evs in
  In (a, b) (combine (coo_i m) (coo_j m)) -> In (b, a) (combine (coo_i m) (coo_j m)).
Proof. exact src_entries_symmetric. Qed.
Print Assumptions C13_src_entries_symmetric.

Theorem C13_src_no_diagonal : forall cmp evs a,
  let m := adjacency cmp evs in ~ In (a, a) (combine (coo_i m) (coo_j m)).
Proof. exact src_no_diagonal. Qed.
Print Assumptions C13_src_no_diagonal.

Theorem C13_src_values_one : forall cmp evs x, In x (coo_data (adjacency cmp evs)) -> x = 1%Q.
Proof. exact src_values_one. Qed.
Print Assumptions C13_src_values_one.

Theorem C13_src_shape : forall cmp evs,
  coo_rows (adjacency cmp evs) = Z.of_nat (length evs) /\ coo_cols (adjacency cmp evs) = Z.of_nat (length evs) /\
  length (coo_i (adjacency cmp evs)) = length (coo_data (adjacency cmp evs)) /\
  length (coo_j (adjacency cmp evs)) = length (coo_data (adjacency cmp evs)).
Proof. exact src_shape. Qed.
Print Assumptions C13_src_shape.

(* the comparison function is only applied to (events[i], events[j]) with i < j < n, each such pair once *)
Theorem C13_src_queries : forall evs x y,
  In (x, y) (py_combinations2 (py_enumerate evs)) <->
  exists i j, i < j /\ j < length evs /\ x = (i, ev evs i) /\ y = (j, ev evs j).
Proof. exact src_queries. Qed.
Print Assumptions C13_src_queries.

Theorem C13_src_queries_once : forall evs,
  NoDup (map (fun p : (nat * Z) * (nat * Z) => (fst (fst p), fst (snd p))) (py_combinations2 (py_enumerate evs))).
Proof. exact src_queries_once. Qed.
Print Assumptions C13_src_queries_once.

(* group_sound_events as written: for EVERY behaviour cc of scipy's connected_components it hands cc the adjacency
   matrix above and groups the events by label in one pass (labels in order of first occurrence, events in input order) *)
Theorem C13_src_group_sound_events : forall cmp cc evs,
  Source.group_sound_events cmp cc evs = Ok (dd_values (combine (snd (cc (adjacency cmp evs))) evs)).
Proof. exact src_group_sound_events. Qed.
Print Assumptions C13_src_group_sound_events.

Theorem C13_src_grouping_is_model_loop : forall cmp cc evs,
  length (snd (cc (adjacency cmp evs))) = length evs ->
  Source.group_sound_events cmp cc evs = Ok (map (map (ev evs)) (group_by_loop (snd (cc (adjacency cmp evs))))).
Proof. exact src_group_sound_events_loop. Qed.
Print Assumptions C13_src_grouping_is_model_loop.

Theorem C13_src_with_model_components : forall cmp evs,
  let n := length evs in
  let cc := fun m : coo => (0, labels (Z.to_nat (coo_rows m)) (edges_of n (rel_on cmp evs))) in
  Source.group_sound_events cmp cc evs = Ok (map (map (ev evs)) (group_by_loop (labels n (edges_of n (rel_on cmp evs))))).
Proof. exact src_group_sound_events_model. Qed.
Print Assumptions C13_src_with_model_components.

(* the grouping written as the loop is the declarative grouping, for every list of labels *)
Theorem C13_loop_is_grouping : forall labs, group_by_loop labs = group_by labs.
Proof. exact group_by_loop_eq. Qed.
Print Assumptions C13_loop_is_grouping.

(* hence, given the component labelling, the code as written returns the model's group_sound_events — of which
   C13_partition, C13_order_kept and C13_same_group_iff_connected speak — with the events in place of their positions *)
Theorem C13_src_is_model : forall cmp evs,
  let n := length evs in
  let cc := fun m : coo => (0, labels (Z.to_nat (coo_rows m)) (edges_of n (rel_on cmp evs))) in
  Source.group_sound_events cmp cc evs = Ok (map (map (ev evs)) (Components.group_sound_events n (rel_on cmp evs))).
Proof. exact src_group_sound_events_is_model. Qed.
Print Assumptions C13_src_is_model.

Theorem C13_src_grouping_declarative : forall cmp cc evs,
  length (snd (cc (adjacency cmp evs))) = length evs ->
  Source.group_sound_events cmp cc evs = Ok (map (map (ev evs)) (group_by (snd (cc (adjacency cmp evs))))).
Proof. exact src_grouping_declarative. Qed.
Print Assumptions C13_src_grouping_declarative.

Example C13_src_group_ex :
  Source.group_sound_events (fun a b => Z.eqb (Z.abs (a - b)) 1) (fun m => (2, [0; 1; 0; 1; 0])) [10; 20; 11; 21; 12]%Z
  = Ok [[10; 11; 12]; [20; 21]]%Z.
Proof. exact src_group_ex. Qed.
Print Assumptions C13_src_group_ex.

Example C13_src_ex :
  Source.compute_similarity_matrix (fun a b => Z.eqb (Z.abs (a - b)) 1) [10; 20; 11; 21; 12]%Z
  = Ok (mk_coo [1; 1; 1; 1; 1; 1]%Q [0; 2; 1; 3; 2; 4] [2; 0; 3; 1; 4; 2] 5 5).
Proof. exact src_similarity_ex. Qed.
Print Assumptions C13_src_ex.
