(* Property C13 — grouping returns the connected components of the similarity graph. *)
From Coq Require Import List Arith Permutation Relations.
From SE Require Import Misc.Components Misc.ComponentsProofs.
Import ListNotations.

(* every event in exactly one sequence *)
Theorem C13_partition : forall n rel, Permutation (concat (group_sound_events n rel)) (seq 0 n).
Proof. exact partition. Qed.
Print Assumptions C13_partition.

Theorem C13_groups_nonempty : forall n rel g, In g (group_sound_events n rel) -> g <> [].
Proof. exact nonempty_groups. Qed.
Print Assumptions C13_groups_nonempty.

(* input order kept inside each sequence *)
Theorem C13_order_kept : forall n rel g, In g (group_sound_events n rel) -> exists p, g = filter p (seq 0 n).
Proof. exact order_kept. Qed.
Print Assumptions C13_order_kept.

(* two events share a sequence iff they are linked by a chain of pairwise-similar events *)
Theorem C13_same_group_iff_connected : forall n rel a b,
  (forall x y, rel x y = rel y x) -> a < n -> b < n ->
  ((exists g, In g (group_sound_events n rel) /\ In a g /\ In b g) <->
   clos_refl_sym_trans nat (fun a b => a < n /\ b < n /\ a <> b /\ rel a b = true) a b).
Proof. exact same_group_iff_connected. Qed.
Print Assumptions C13_same_group_iff_connected.

Theorem C13_empty : forall rel, group_sound_events 0 rel = [].
Proof. exact empty_input. Qed.
Print Assumptions C13_empty.

(* the comparison function is called exactly on the pairs i<j<n, each once *)
Theorem C13_queries : forall n i j, In (i, j) (pairs n) <-> i < j /\ j < n.
Proof. exact in_pairs. Qed.
Print Assumptions C13_queries.

Theorem C13_queries_once : forall n, NoDup (pairs n).
Proof. exact NoDup_pairs. Qed.
Print Assumptions C13_queries_once.

Example C13_ex :
  group_sound_events 5 (rel_of [(0, 3); (3, 4)]) = [[0; 3; 4]; [1]; [2]]
  /\ pairs 3 = [(0, 1); (0, 2); (1, 2)].
Proof. vm_compute. split; reflexivity. Qed.
Print Assumptions C13_ex.
