(* Property C11 — buffering grows a geometry and never leaves the valid domain.
   The closed forms (time stamp, interval, box), the guard and the dispatch are proved; the shapely
   branch is GEOS and is decided by the differential / oracle half of the check (partial). *)
From Coq Require Import QArith Qminmax.
From SE Require Import Base.Num Base.Res Geom.Geometry Geom.Buffer Geom.BufferProofs.
Open Scope Q_scope.

Theorem C11_negative_rejected : forall g tb fb, (tb < 0 \/ fb < 0) <-> buffer_geometry g tb fb = Err EValue.
Proof. exact negative_rejected. Qed.
Print Assumptions C11_negative_rejected.

Theorem C11_dispatch : forall g tb fb, 0 <= tb -> 0 <= fb ->
  buffer_geometry g tb fb =
  match g with
  | TimeStamp t => Ok (Closed (buffer_timestamp t tb))
  | TimeInterval s e => Ok (Closed (buffer_interval s e tb))
  | BBox s lo e hi => Ok (Closed (buffer_bbox s lo e hi tb fb))
  | _ => Ok Shapely
  end.
Proof. exact dispatch. Qed.
Print Assumptions C11_dispatch.

Theorem C11_timestamp_exact : forall t tb, 0 <= t -> 0 <= tb ->
  exists s' e', buffer_timestamp t tb = TimeInterval s' e' /\
    s' == Qmax (t - tb) 0 /\ e' == t + tb /\ validb (TimeInterval s' e') = true /\ s' <= t /\ t <= e'.
Proof. exact timestamp_exact. Qed.
Print Assumptions C11_timestamp_exact.

Theorem C11_interval_exact : forall s e tb, 0 <= s -> s <= e -> 0 <= tb ->
  exists s' e', buffer_interval s e tb = TimeInterval s' e' /\
    s' == Qmax (s - tb) 0 /\ e' == e + tb /\ validb (TimeInterval s' e') = true /\ s' <= s /\ e <= e'.
Proof. exact interval_exact. Qed.
Print Assumptions C11_interval_exact.

Theorem C11_bbox_exact : forall s lo e hi tb fb,
  validb (BBox s lo e hi) = true -> 0 <= tb -> 0 <= fb ->
  exists s' lo' e' hi', buffer_bbox s lo e hi tb fb = BBox s' lo' e' hi' /\
    s' == Qmax (s - tb) 0 /\ lo' == Qmax (lo - fb) 0 /\ e' == e + tb /\ hi' == Qmin (hi + fb) MAXF /\
    validb (BBox s' lo' e' hi') = true /\
    s' <= s /\ lo' <= lo /\ e <= e' /\ hi <= hi'.
Proof. exact bbox_exact. Qed.
Print Assumptions C11_bbox_exact.

Theorem C11_interval_monotone : forall s e tb1 tb2, tb1 <= tb2 ->
  match buffer_interval s e tb1, buffer_interval s e tb2 with
  | TimeInterval s1 e1, TimeInterval s2 e2 => s2 <= s1 /\ e1 <= e2
  | _, _ => False
  end.
Proof. exact interval_monotone. Qed.
Print Assumptions C11_interval_monotone.

Theorem C11_bbox_monotone : forall s lo e hi tb1 tb2 fb1 fb2, tb1 <= tb2 -> fb1 <= fb2 ->
  match buffer_bbox s lo e hi tb1 fb1, buffer_bbox s lo e hi tb2 fb2 with
  | BBox s1 l1 e1 h1, BBox s2 l2 e2 h2 => s2 <= s1 /\ l2 <= l1 /\ e1 <= e2 /\ h1 <= h2
  | _, _ => False
  end.
Proof. exact bbox_monotone. Qed.
Print Assumptions C11_bbox_monotone.

Theorem C11_zero_identity_interval : forall s e, 0 <= s -> geom_eqb (buffer_interval s e 0) (TimeInterval s e) = true.
Proof. exact zero_identity_interval. Qed.
Print Assumptions C11_zero_identity_interval.

Theorem C11_zero_identity_bbox : forall s lo e hi,
  validb (BBox s lo e hi) = true -> geom_eqb (buffer_bbox s lo e hi 0 0) (BBox s lo e hi) = true.
Proof. exact zero_identity_bbox. Qed.
Print Assumptions C11_zero_identity_bbox.

Example C11_ex :
  res_eqb buffered_eqb (buffer_geometry (BBox 1 2 3 (MAXF - 1)) 2 5) (Ok (Closed (BBox 0 0 5 MAXF))) = true
  /\ buffer_geometry (Point 1 2) 1 1 = Ok Shapely
  /\ buffer_geometry (Point 1 2) (-1) 1 = Err EValue
  /\ validb (BBox 1 2 3 (MAXF - 1)) = true.
Proof. vm_compute. repeat split. Qed.
Print Assumptions C11_ex.

(* ---- the guard, the dispatch and the closed forms as READ FROM THE SOURCE (Gen/Source.v is
   regenerated from soundevent/geometry/operations.py on every run) ---- *)
From SE Require Gen.Source Gen.SrcBuffer.
From SE Require Import Gen.Prelude.

Theorem C11_src_negative_rejected : forall g tb fb,
  (tb < 0 \/ fb < 0) <-> Source.buffer_geometry g tb fb = Err EValue.
Proof. exact SrcBuffer.src_negative_rejected. Qed.
Print Assumptions C11_src_negative_rejected.

Theorem C11_src_dispatch : forall g tb fb, 0 <= tb -> 0 <= fb ->
  Source.buffer_geometry g tb fb =
  match g with
  | TimeStamp t => bind (Source.buffer_timestamp t tb) (fun r => Ok (Closed r))
  | TimeInterval s e => bind (Source.buffer_interval (s, e) tb) (fun r => Ok (Closed r))
  | BBox s lo e hi => bind (Source.buffer_bounding_box_geometry (s, lo, e, hi) tb fb) (fun r => Ok (Closed r))
  | _ => Ok Shapely
  end.
Proof. exact SrcBuffer.src_dispatch. Qed.
Print Assumptions C11_src_dispatch.

Theorem C11_src_timestamp_exact : forall t tb, 0 <= t -> 0 <= tb ->
  exists s' e', Source.buffer_timestamp t tb = Ok (TimeInterval s' e') /\
    s' == Qmax (t - tb) 0 /\ e' == t + tb /\ validb (TimeInterval s' e') = true /\ s' <= t /\ t <= e'.
Proof. exact SrcBuffer.src_timestamp_exact. Qed.
Print Assumptions C11_src_timestamp_exact.

Theorem C11_src_interval_exact : forall s e tb, 0 <= s -> s <= e -> 0 <= tb ->
  exists s' e', Source.buffer_interval (s, e) tb = Ok (TimeInterval s' e') /\
    s' == Qmax (s - tb) 0 /\ e' == e + tb /\ validb (TimeInterval s' e') = true /\ s' <= s /\ e <= e'.
Proof. exact SrcBuffer.src_interval_exact. Qed.
Print Assumptions C11_src_interval_exact.

Theorem C11_src_bbox_exact : forall s lo e hi tb fb,
  validb (BBox s lo e hi) = true -> 0 <= tb -> 0 <= fb ->
  exists s' lo' e' hi', Source.buffer_bounding_box_geometry (s, lo, e, hi) tb fb = Ok (BBox s' lo' e' hi') /\
    s' == Qmax (s - tb) 0 /\ lo' == Qmax (lo - fb) 0 /\ e' == e + tb /\ hi' == Qmin (hi + fb) MAXF /\
    validb (BBox s' lo' e' hi') = true /\
    s' <= s /\ lo' <= lo /\ e <= e' /\ hi <= hi'.
Proof. exact SrcBuffer.src_bbox_exact. Qed.
Print Assumptions C11_src_bbox_exact.

Theorem C11_src_interval_monotone : forall s e tb1 tb2, tb1 <= tb2 ->
  match Source.buffer_interval (s, e) tb1, Source.buffer_interval (s, e) tb2 with
  | Ok (TimeInterval s1 e1), Ok (TimeInterval s2 e2) => s2 <= s1 /\ e1 <= e2
  | _, _ => False
  end.
Proof. exact SrcBuffer.src_interval_monotone. Qed.
Print Assumptions C11_src_interval_monotone.

Theorem C11_src_bbox_monotone : forall s lo e hi tb1 tb2 fb1 fb2, tb1 <= tb2 -> fb1 <= fb2 ->
  match Source.buffer_bounding_box_geometry (s, lo, e, hi) tb1 fb1,
        Source.buffer_bounding_box_geometry (s, lo, e, hi) tb2 fb2 with
  | Ok (BBox s1 l1 e1 h1), Ok (BBox s2 l2 e2 h2) => s2 <= s1 /\ l2 <= l1 /\ e1 <= e2 /\ h1 <= h2
  | _, _ => False
  end.
Proof. exact SrcBuffer.src_bbox_monotone. Qed.
Print Assumptions C11_src_bbox_monotone.

(* the source as read and the hand-written model agree on every input (coordinates up to ==) *)
Theorem C11_src_matches_model : forall g tb fb,
  match Source.buffer_geometry g tb fb, buffer_geometry g tb fb with
  | Ok (Closed a), Ok (Closed b) => geom_eqb a b = true
  | Ok Shapely, Ok Shapely => True
  | Err e1, Err e2 => e1 = e2
  | _, _ => False
  end.
Proof. exact SrcBuffer.src_matches_model. Qed.
Print Assumptions C11_src_matches_model.
