(* Property C05 — bounds, geometric features and anchor points agree with the coordinates. *)
From Coq Require Import QArith.
From SE Require Import Base.Num Base.Res Geom.Geometry Geom.Features Geom.FeaturesProofs.
Open Scope Q_scope.

(* compute_bounds is the coordinate-wise min / max (and both are attained) *)
Theorem C05_bounds_minmax : forall g b, compute_bounds g = Some b ->
  (forall p, In p (shp_env_pts (to_shapely g)) -> in_env b p) /\ attained b (shp_env_pts (to_shapely g)).
Proof. exact bounds_minmax. Qed.
Print Assumptions C05_bounds_minmax.

Theorem C05_bounds_defined : forall g, validb g = true -> exists b, compute_bounds g = Some b.
Proof. exact bounds_defined. Qed.
Print Assumptions C05_bounds_defined.

Theorem C05_bounds_ordered : forall g b, compute_bounds g = Some b -> b_start b <= b_end b /\ b_low b <= b_high b.
Proof. exact bounds_ordered. Qed.
Print Assumptions C05_bounds_ordered.

(* time-only geometries span the full band; boxes and points are their own bounds *)
Theorem C05_bounds_timestamp : forall t, compute_bounds (TimeStamp t) = Some (t, 0, t, MAXF).
Proof. exact bounds_timestamp. Qed.
Print Assumptions C05_bounds_timestamp.

Theorem C05_bounds_interval : forall s e b, s <= e ->
  compute_bounds (TimeInterval s e) = Some b -> bounds_eqb b (s, 0, e, MAXF) = true.
Proof. exact bounds_interval. Qed.
Print Assumptions C05_bounds_interval.

Theorem C05_bounds_box : forall s lo e hi b, s <= e -> lo <= hi ->
  compute_bounds (BBox s lo e hi) = Some b -> bounds_eqb b (s, lo, e, hi) = true.
Proof. exact bounds_box. Qed.
Print Assumptions C05_bounds_box.

Theorem C05_bounds_point : forall t f, compute_bounds (Point t f) = Some (t, f, t, f).
Proof. exact bounds_point. Qed.
Print Assumptions C05_bounds_point.

(* the shapely conversion keeps every coordinate and the kind *)
Theorem C05_to_shapely_kind : forall g,
  shp_kind (to_shapely g) =
  match g with
  | TimeStamp _ | LineString _ => KLineString
  | TimeInterval _ _ | Polygon _ | BBox _ _ _ _ => KPolygon
  | Point _ _ => KPoint | MultiPoint _ => KMultiPoint
  | MultiLineString _ => KMultiLineString | MultiPolygon _ => KMultiPolygon
  end.
Proof. exact to_shapely_kind. Qed.
Print Assumptions C05_to_shapely_kind.

Theorem C05_to_shapely_coords : forall g p,
  In p (shp_coords (to_shapely g)) <->
  match g with
  | TimeStamp t => p = (t, 0) \/ p = (t, MAXF)
  | TimeInterval s e => In p [(s, 0); (s, MAXF); (e, 0); (e, MAXF)]
  | BBox s lo e hi => In p [(s, lo); (s, hi); (e, lo); (e, hi)]
  | _ => In p (pts_of g)
  end.
Proof. exact to_shapely_coords. Qed.
Print Assumptions C05_to_shapely_coords.

(* features: duration = end - start, low, high, bandwidth = high - low, consistent with the bounds *)
Theorem C05_features_consistent : forall g b fs,
  validb g = true -> compute_bounds g = Some b -> features g = Some fs ->
  forall f, In f fs -> feat_consistent b f.
Proof. exact features_consistent. Qed.
Print Assumptions C05_features_consistent.

Theorem C05_num_segments : forall g fs x,
  features g = Some fs -> In (NumSegments, x) fs ->
  match g with
  | MultiPoint l => x = nb (length l)
  | MultiLineString l => x = nb (length l)
  | MultiPolygon l => x = nb (length l)
  | _ => False
  end.
Proof. exact features_num_segments. Qed.
Print Assumptions C05_num_segments.

(* named positions: corner / edge midpoint / centre of the bounds, and inside them *)
Theorem C05_point_table : forall g b v h, compute_bounds g = Some b ->
  geometry_point g v h =
  Some (match h with HLeft => b_start b | HCenter => (b_start b + b_end b) / 2 | HRight => b_end b end,
        match v with VBottom => b_low b | VCenter => (b_low b + b_high b) / 2 | VTop => b_high b end).
Proof. exact point_table. Qed.
Print Assumptions C05_point_table.

Theorem C05_point_in_bounds : forall g b v h p,
  compute_bounds g = Some b -> b_start b <= b_end b -> b_low b <= b_high b ->
  geometry_point g v h = Some p -> in_env b p.
Proof. exact point_in_bounds. Qed.
Print Assumptions C05_point_in_bounds.

Theorem C05_convex_in_env : forall b p q w,
  in_env b p -> in_env b q -> 0 <= w -> w <= 1 ->
  in_env b (w * fst p + (1 - w) * fst q, w * snd p + (1 - w) * snd q).
Proof. exact convex_in_env. Qed.
Print Assumptions C05_convex_in_env.

Example C05_ex :
  obounds_eqb (compute_bounds (LineString [(1, 5); (3, 2); (2, 9)])) (Some (1, 2, 3, 9)) = true
  /\ validb (LineString [(1, 5); (3, 2); (2, 9)]) = true
  /\ ofeats_eqb (features (MultiPoint [(1, 5); (3, 2)])) (Some [(Duration, 2); (LowFreq, 2); (HighFreq, 5); (Bandwidth, 3); (NumSegments, 2)]) = true
  /\ opt_pt_eqb (geometry_point (TimeInterval 1 3) VCenter HLeft) (Some (1, 2500000)) = true.
Proof. vm_compute. repeat split. Qed.
Print Assumptions C05_ex.

(* ---- compute_geometric_features as READ FROM THE SOURCE (Gen/Source.v is regenerated from
   soundevent/geometry/features.py on every run: the nine per-type functions and the dispatch table
   _COMPUTE_FEATURES): it returns exactly the model's feature list for every geometry, so the theorems
   above about [features] are theorems about the code as written. ---- *)
From SE Require Gen.Source Gen.SrcFeatures.
From SE Require Import Gen.Prelude.

Theorem C05_src_features : forall g,
  Source.compute_geometric_features g = match features g with Some fs => Ok fs | None => Err EOther end.
Proof. exact SrcFeatures.src_features. Qed.
Print Assumptions C05_src_features.

(* ---- geometry_to_shapely (nine converters + dispatch, soundevent/geometry/conversion.py) and
   compute_bounds (geometry/operations.py) as READ FROM THE SOURCE: they produce the shapely object and
   the bounds of the model for every geometry whose polygons have a ring (every valid geometry). ---- *)
From SE Require Gen.SrcConversion.

Theorem C05_src_geometry_to_shapely : forall g,
  SrcConversion.rings_ok g -> Source.geometry_to_shapely g = Ok (to_shapely g).
Proof. exact SrcConversion.src_geometry_to_shapely. Qed.
Print Assumptions C05_src_geometry_to_shapely.

Theorem C05_src_compute_bounds : forall g,
  validb g = true -> Source.compute_bounds_py g = py_compute_bounds g.
Proof. exact SrcConversion.src_compute_bounds_valid. Qed.
Print Assumptions C05_src_compute_bounds.
