(* Property C20 — rasterisation marks exactly the bins a geometry covers, on the template's axes.
   The model takes the template's time and frequency coordinate lists only: dimension order, extra
   dimensions and contents cannot influence it (that the implementation agrees with this model for
   both orders / extra dimensions / contents is the correspondence half).  GDAL's polygon fill is a
   contract (centre inside <=> set); cells whose centre lies on an edge and cells near zero-area
   shapes are left undecided by the model. *)
From Coq Require Import QArith.
From SE Require Import Base.Num Base.Res Geom.Geometry Arr.Index Geom.Raster Geom.RasterProofs.
Open Scope Q_scope.

Theorem C20_values_length_err : forall tc fc geoms l fill at_,
  length l <> length geoms -> rasterize tc fc geoms (VList l) fill at_ = Err EValue.
Proof. exact values_length_err. Qed.
Print Assumptions C20_values_length_err.

Theorem C20_single_value_ok : forall tc fc geoms v fill at_, rasterize tc fc geoms (VOne v) fill at_ <> Err EValue.
Proof. exact single_value_ok. Qed.
Print Assumptions C20_single_value_ok.

Theorem C20_grid_shape : forall tc fc geoms values fill at_ g,
  rasterize tc fc geoms values fill at_ = Ok g ->
  length g = length tc /\ forall row, In row g -> length row = length fc.
Proof. exact grid_shape. Qed.
Print Assumptions C20_grid_shape.

(* later geometries overwrite earlier ones *)
Theorem C20_overwrite : forall at_ shapes m v fill i j,
  cell_value at_ (shapes ++ [(m, v)]) fill i j =
  match shape_status at_ m (idx i + (1 # 2), idx j + (1 # 2)) with
  | SIn => Some v
  | SOut => cell_value at_ shapes fill i j
  | SAmb => None
  end.
Proof. exact cell_overwrite. Qed.
Print Assumptions C20_overwrite.

(* untouched cells hold the fill value *)
Theorem C20_untouched_fill : forall at_ shapes fill i j,
  (forall sv, In sv shapes -> shape_status at_ (fst sv) (idx i + (1 # 2), idx j + (1 # 2)) = SOut) ->
  cell_value at_ shapes fill i j = Some fill.
Proof. exact cell_untouched. Qed.
Print Assumptions C20_untouched_fill.

(* the centre rule for a rectangle, and for a bounding box mapped to bins (i0,j0)-(i1,j1):
   exactly the bins i0 <= i < i1, j0 <= j < j1 *)
Theorem C20_rect_status : forall x0 y0 x1 y1 p,
  x0 <= x1 -> y0 <= y1 ->
  ~ fst p == x0 -> ~ fst p == x1 -> ~ snd p == y0 -> ~ snd p == y1 ->
  rings_status [box_ring x0 y0 x1 y1] p = if in_rect x0 y0 x1 y1 p then SIn else SOut.
Proof. exact rect_status. Qed.
Print Assumptions C20_rect_status.

Theorem C20_box_cells : forall (i0 j0 i1 j1 : Z) (i j : nat),
  (i0 <= i1)%Z -> (j0 <= j1)%Z ->
  rings_status [box_ring (zq i0) (zq j0) (zq i1) (zq j1)] (idx i + (1 # 2), idx j + (1 # 2)) =
  if ((i0 <=? Z.of_nat i)%Z && (Z.of_nat i <? i1)%Z && (j0 <=? Z.of_nat j)%Z && (Z.of_nat j <? j1)%Z)%bool
  then SIn else SOut.
Proof. exact box_cells. Qed.
Print Assumptions C20_box_cells.

Theorem C20_map_pt_spec : forall tc fc p q,
  map_pt tc fc p = Some q ->
  exists i j, get_coord_index tc (fst p) false = Ok i /\ get_coord_index fc (snd p) false = Ok j /\ q = (zq i, zq j).
Proof. exact map_pt_spec. Qed.
Print Assumptions C20_map_pt_spec.

Example C20_ex :
  rasterize [0; 1; 2; 3] [0; 10; 20] [BBox (1 # 2) 0 (5 # 2) 20] (VOne 7) 0 false
  = Ok [[Some 7; Some 7; Some 0]; [Some 7; Some 7; Some 0]; [Some 0; Some 0; Some 0]; [Some 0; Some 0; Some 0]]
  /\ rasterize [0; 1] [0; 1] [] (VList [1]) 0 false = Err EValue.
Proof. vm_compute. split; reflexivity. Qed.
Print Assumptions C20_ex.

(* ---- the vertex-to-bin lookup rasterize uses, as READ FROM THE SOURCE (Gen/Source.v is regenerated
   from soundevent/arrays/dimensions.py on every run): get_coord_index equals the model's. ---- *)
From SE Require Gen.Source Gen.SrcArrays.
From SE Require Import Gen.Prelude Arr.Index Arr.CropExtend.

Theorem C20_src_get_coord_index : forall a v r,
  Source.get_coord_index a tt v r = get_coord_index (coords a) v r.
Proof. exact SrcArrays.src_get_coord_index. Qed.
Print Assumptions C20_src_get_coord_index.
