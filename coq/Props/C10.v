(* Property C10 — crowsetta conversions preserve times, frequencies, labels and order. *)
From Coq Require Import String List Bool ZArith QArith Qround.
From SE Require Import Base.Num Base.Res Geom.Geometry Crow.Labels Crow.Convert Crow.CrowProofs.
Open Scope string_scope.

(* ---- label_to_tags: the cascade, in precedence order ---- *)
Theorem C10_l2t_empty : forall label tag_fn tm trm km key term_ fb el,
  smem label el = true -> label_to_tags label tag_fn tm trm km key term_ fb el = [].
Proof. exact l2t_empty. Qed.
Print Assumptions C10_l2t_empty.

Theorem C10_l2t_fn : forall label tag_fn tm trm km key term_ fb el ts,
  smem label el = false -> fn_hit label tag_fn = Some ts -> label_to_tags label tag_fn tm trm km key term_ fb el = ts.
Proof. exact l2t_fn. Qed.
Print Assumptions C10_l2t_fn.

Theorem C10_l2t_term_mapping : forall label tag_fn tm trm km key term_ fb el t,
  smem label el = false -> fn_hit label tag_fn = None -> term_hit label trm = Some t ->
  label_to_tags label tag_fn tm trm km key term_ fb el = [(t, label)].
Proof. exact l2t_term_mapping. Qed.
Print Assumptions C10_l2t_term_mapping.

Theorem C10_l2t_tag_mapping : forall label tag_fn tm trm km key term_ fb el ts,
  smem label el = false -> fn_hit label tag_fn = None -> term_hit label trm = None -> term_ = None ->
  tagmap_hit label tm = Some ts -> label_to_tags label tag_fn tm trm km key term_ fb el = ts.
Proof. exact l2t_tag_mapping. Qed.
Print Assumptions C10_l2t_tag_mapping.

Theorem C10_l2t_key_mapping : forall label tag_fn tm trm km key term_ fb el k,
  smem label el = false -> fn_hit label tag_fn = None -> term_hit label trm = None -> term_ = None ->
  tagmap_hit label tm = None -> keymap_hit label km = Some k ->
  label_to_tags label tag_fn tm trm km key term_ fb el = [(term_from_key k, label)].
Proof. exact l2t_key_mapping. Qed.
Print Assumptions C10_l2t_key_mapping.

Theorem C10_l2t_explicit_term : forall label tag_fn tm trm km key term_ fb el t,
  smem label el = false -> fn_hit label tag_fn = None -> term_hit label trm = None -> term_ = Some t ->
  label_to_tags label tag_fn tm trm km key term_ fb el = [(t, label)].
Proof. exact l2t_explicit_term. Qed.
Print Assumptions C10_l2t_explicit_term.

Theorem C10_l2t_explicit_key_or_fallback : forall label tag_fn tm trm km key term_ fb el,
  smem label el = false -> fn_hit label tag_fn = None -> term_hit label trm = None -> term_ = None ->
  tagmap_hit label tm = None -> keymap_hit label km = None ->
  label_to_tags label tag_fn tm trm km key term_ fb el =
  [(term_from_key (match key with Some k => k | None => fb end), label)].
Proof. exact l2t_explicit_key_or_fallback. Qed.
Print Assumptions C10_l2t_explicit_key_or_fallback.

(* ---- label_from_tags ---- *)
Theorem C10_lft_seq_fn : forall tags f sk idx sep el lf lm vo ts, label_from_tags tags (Some f) sk idx sep el lf lm vo ts = f tags.
Proof. exact lft_seq_fn. Qed.
Print Assumptions C10_lft_seq_fn.
Theorem C10_lft_empty : forall sk idx sep el lf lm vo ts, label_from_tags [] None sk idx sep el lf lm vo ts = el.
Proof. exact lft_empty. Qed.
Print Assumptions C10_lft_empty.
Theorem C10_lft_select : forall t tags k idx sep el lf lm vo ts,
  label_from_tags (t :: tags) None (Some k) idx sep el lf lm vo ts =
  match find (fun x => String.eqb (key_from_term (fst x)) k) (t :: tags) with
  | None => el | Some x => label_from_tag x lf lm true ts end.
Proof. exact lft_select. Qed.
Print Assumptions C10_lft_select.
Theorem C10_lft_index : forall t tags (i : Z) sep el lf lm vo ts,
  exists x, nth_error (t :: tags) (Z.to_nat (i mod Z.of_nat (length (t :: tags)))) = Some x /\
  label_from_tags (t :: tags) None None (Some i) sep el lf lm vo ts = label_from_tag x lf lm vo ts.
Proof. exact lft_index. Qed.
Print Assumptions C10_lft_index.
Theorem C10_lft_join : forall t tags sep el lf lm vo ts,
  label_from_tags (t :: tags) None None None sep el lf lm vo ts = join sep (map (fun x => label_from_tag x lf lm vo ts) (t :: tags)).
Proof. exact lft_join. Qed.
Print Assumptions C10_lft_join.
Theorem C10_label_from_tag_plain : forall t vo sep,
  label_from_tag t None None vo sep = if vo then snd t else key_from_term (fst t) ++ sep ++ snd t.
Proof. exact label_from_tag_plain. Qed.
Print Assumptions C10_label_from_tag_plain.

Open Scope Q_scope.
(* ---- import ---- *)
Theorem C10_import_seconds : forall s e sr te adjust,
  segment_to_interval {| onset_s := Some s; offset_s := Some e; onset_sample := None; offset_sample := None |} sr te adjust =
  let scale := (adjust && negb (qeqb te 1))%bool in
  let s' := if scale then s / te else s in let e' := if scale then e / te else e in
  if interval_ok s' e' then Ok (s', e') else Err EValidation.
Proof. exact import_seconds. Qed.
Print Assumptions C10_import_seconds.
Theorem C10_import_samples_once : forall (k : Z) sr te, 0 < sr -> 0 < te -> inject_Z k / (sr / te) / te == inject_Z k / sr.
Proof. exact import_samples_once. Qed.
Print Assumptions C10_import_samples_once.
Theorem C10_import_box : forall b te, 0 < te -> ~ te == 1 ->
  box_ok (c_onset b / te) (c_low b * te) (c_offset b / te) (c_high b * te) = true ->
  c_onset b <= c_offset b -> c_low b <= c_high b ->
  exists r, bbox_to_box b te true = Ok r /\ bounds_eqb r (c_onset b / te, c_low b * te, c_offset b / te, c_high b * te) = true.
Proof. exact import_box. Qed.
Print Assumptions C10_import_box.

(* ---- export ---- *)
Theorem C10_export_segment_spec : forall g sr cast seg,
  segment_from_geometry (Some g) sr cast = Ok seg ->
  exists s e, onset_s seg = Some s /\ offset_s seg = Some e /\
    onset_sample seg = Some (Qfloor (s * sr)) /\ offset_sample seg = Some (Qfloor (e * sr)) /\
    (match g with TimeInterval a b => s = a /\ e = b
     | _ => cast = true /\ exists b, compute_bounds g = Some b /\ s = b_start b /\ e = b_end b end).
Proof. exact export_segment_spec. Qed.
Print Assumptions C10_export_segment_spec.
Theorem C10_export_no_cast : forall g sr, (match g with TimeInterval _ _ => False | _ => True end) ->
  segment_from_geometry (Some g) sr false = Err EValue.
Proof. exact export_no_cast. Qed.
Print Assumptions C10_export_no_cast.
Theorem C10_export_no_geometry : forall sr cast r, segment_from_geometry None sr cast = Err EValue /\ bbox_from_geometry None sr cast r = Err EValue.
Proof. exact export_no_geometry. Qed.
Print Assumptions C10_export_no_geometry.
Theorem C10_export_box_spec : forall g sr cast rt b,
  bbox_from_geometry (Some g) sr cast rt = Ok b ->
  exists bd, compute_bounds g = Some bd /\ c_onset b = b_start bd /\ c_offset b = b_end bd /\ c_low b = b_low bd /\
    c_high b = pymin (b_high bd) (sr / 2) /\ c_high b <= sr / 2 /\ c_high b <= b_high bd /\
    c_onset b < c_offset b /\ c_low b < c_high b /\ (is_bbox g = true \/ cast = true) /\ (is_time_geometry g = false \/ rt = false).
Proof. exact export_box_spec. Qed.
Print Assumptions C10_export_box_spec.

(* ---- sequences: order kept, errors skipped or raised ---- *)
Theorem C10_collect_all_ok : forall (A B : Type) (f : A -> res B) ie l ys,
  Forall2 (fun x y => f x = Ok y) l ys -> collect f ie l = Ok ys.
Proof. exact @collect_all_ok. Qed.
Print Assumptions C10_collect_all_ok.
Theorem C10_collect_raises : forall (A B : Type) (f : A -> res B) l1 x l2 ys,
  Forall2 (fun a y => f a = Ok y) l1 ys -> f x = Err EValue -> collect f false (l1 ++ x :: l2) = Err EValue.
Proof. exact @collect_raises. Qed.
Print Assumptions C10_collect_raises.
Theorem C10_collect_skips : forall (A B : Type) (f : A -> res B) x l, f x = Err EValue -> collect f true (x :: l) = collect f true l.
Proof. exact @collect_skips. Qed.
Print Assumptions C10_collect_skips.

(* ---- export after import reproduces onsets, offsets, frequency bounds ---- *)
Theorem C10_roundtrip_segment : forall s e sr adjust cast, 0 <= s -> s <= e ->
  exists r, segment_to_interval {| onset_s := Some s; offset_s := Some e; onset_sample := None; offset_sample := None |} sr 1 adjust = Ok r /\
    segment_from_geometry (Some (TimeInterval (fst r) (snd r))) sr cast =
    Ok {| onset_s := Some s; offset_s := Some e; onset_sample := Some (Qfloor (s * sr)); offset_sample := Some (Qfloor (e * sr)) |}.
Proof. exact roundtrip_segment. Qed.
Print Assumptions C10_roundtrip_segment.
Theorem C10_roundtrip_box : forall b sr, cbox_ok b = true -> c_high b <= MAXF -> c_high b <= sr / 2 ->
  exists r, bbox_to_box b 1 true = Ok r /\
    match r with (s, lo, e, hi) =>
      exists b', bbox_from_geometry (Some (BBox s lo e hi)) sr true true = Ok b' /\ cbox_eqb b' b = true end.
Proof. exact roundtrip_box. Qed.
Print Assumptions C10_roundtrip_box.

Example C10_ex :
  tags_eqb (label_to_tags "song" None None None (Some [("other", "k")]) (Some "species") None "crowsetta" ["__empty__"])
           [(("soundevent:species", "species"), "song")] = true
  /\ String.eqb (label_from_tags [(("a:x", "species"), "Myotis"); (("a:y", "call"), "fm")] None None (Some (-1)%Z) "," "__empty__" None None false ":") "call:fm" = true
  /\ res_eqb qpair_eqb (segment_to_interval {| onset_s := None; offset_s := None; onset_sample := Some 8192%Z; offset_sample := Some 16384%Z |} 81920 10 true)
             (Ok (1 # 10, 2 # 10)) = true.
Proof. vm_compute. repeat split. Qed.
Print Assumptions C10_ex.

(* ---- two helpers of the export as READ FROM THE SOURCE (Gen/Source.v is regenerated from
   soundevent/io/crowsetta/bbox.py and segment.py on every run) ---- *)
From SE Require Gen.Source Gen.SrcCrow.
From SE Require Import Gen.Prelude.

Theorem C10_src_convert_geometry_to_bbox : forall g cast rot,
  Source.convert_geometry_to_bbox g cast rot =
  if negb (is_bbox g) && negb cast then Err EValue
  else if is_time_geometry g && rot then Err EValue
  else py_compute_bounds g.
Proof. exact SrcCrow.src_convert_geometry_to_bbox. Qed.
Print Assumptions C10_src_convert_geometry_to_bbox.

Theorem C10_src_convert_time_to_sample : forall sr t, 0 <= t * sr ->
  Source.convert_time_to_sample sr t = Ok (time_to_sample t sr).
Proof. exact SrcCrow.src_convert_time_to_sample. Qed.
Print Assumptions C10_src_convert_time_to_sample.
