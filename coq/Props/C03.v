(* Property C03 — geometry validation accepts exactly the valid geometries and normalises them. *)
From Coq Require Import QArith.
From SE Require Import Base.Num Base.Res Geom.Geometry Geom.Validate Geom.ValidateProofs.
Open Scope Q_scope.

(* construction succeeds iff the coordinates have the required shape (t = dump g0 for a g0 of that
   type) and the rules hold (accept g0); the object is the normalised input *)
Theorem C03_accept_iff : forall T t g,
  validate T t = Ok g <->
  exists g0, t = dump g0 /\ type_of g0 = T /\ accept g0 = true /\ g = normalise g0.
Proof. exact accept_iff. Qed.
Print Assumptions C03_accept_iff.

Theorem C03_reject_class : forall T t e, validate T t = Err e -> e = EValidation.
Proof. exact reject_class. Qed.
Print Assumptions C03_reject_class.

(* what acceptance means coordinate-wise: every time >= 0, every frequency in [0, MAXF] *)
Theorem C03_accept_points : forall g0, accept g0 = true ->
  forall p, In p (pts_of g0) -> 0 <= fst p /\ 0 <= snd p /\ snd p <= MAXF.
Proof. exact accept_points. Qed.
Print Assumptions C03_accept_points.

(* every accepted geometry is valid (per-type rules), in normal form, of the requested class *)
Theorem C03_accepted_valid : forall T t g, validate T t = Ok g -> validb g = true /\ type_of g = T.
Proof. exact accepted_valid. Qed.
Print Assumptions C03_accepted_valid.

Theorem C03_normalise_shape : forall g0,
  match g0 with
  | LineString l => normalise g0 = LineString l \/ normalise g0 = LineString (rev l)
  | BBox s lo e hi =>
      exists s' lo' e' hi', normalise g0 = BBox s' lo' e' hi' /\
        ((s' = s /\ e' = e) \/ (s' = e /\ e' = s)) /\ ((lo' = lo /\ hi' = hi) \/ (lo' = hi /\ hi' = lo))
  | _ => normalise g0 = g0
  end.
Proof. exact normalise_shape. Qed.
Print Assumptions C03_normalise_shape.

(* re-validating the JSON dump yields an equal geometry *)
Theorem C03_revalidate : forall T t g, validate T t = Ok g -> validate T (dump g) = Ok g.
Proof. exact revalidate. Qed.
Print Assumptions C03_revalidate.

Theorem C03_parse_dump : forall g, parse (type_of g) (dump g) = Some g.
Proof. exact parse_dump. Qed.
Print Assumptions C03_parse_dump.

(* geometry_validate: instance of the class named by the tag; everything else is a ValueError *)
Theorem C03_tag_class : forall tag t g,
  geometry_validate tag t = Ok g -> tag_lookup tag = Some (type_of g) /\ validb g = true.
Proof. exact tag_class. Qed.
Print Assumptions C03_tag_class.

Theorem C03_modes_agree : forall tag T t, tag_lookup tag = Some T ->
  (forall g, geometry_validate tag t = Ok g <-> validate T t = Ok g) /\
  ((exists e, validate T t = Err e) <-> geometry_validate tag t = Err EValue).
Proof. exact geometry_validate_same. Qed.
Print Assumptions C03_modes_agree.

Theorem C03_unknown_tag : forall tag t, tag_lookup tag = None -> geometry_validate tag t = Err EValue.
Proof. exact unknown_tag. Qed.
Print Assumptions C03_unknown_tag.

Example C03_ex :
  rgeom_eqb (validate TBBox (Lst [Num 3; Num MAXF; Num 1; Num 0])) (Ok (BBox 1 0 3 MAXF)) = true
  /\ validate TBBox (Lst [Num 3; Num (MAXF + 1); Num 1; Num 0]) = Err EValidation
  /\ validate TLineString (Lst [Lst [Num 2; Num 1]; Lst [Num 1; Num 1; Num 1]]) = Err EValidation
  /\ rgeom_eqb (validate TLineString (Lst [Lst [Num 2; Num 1]; Lst [Num 1; Num 5]])) (Ok (LineString [(1, 5); (2, 1)])) = true
  /\ validate TMultiLineString (Lst [Lst [Lst [Num 1; Num 1]; Lst [Num 1; Num 2]]]) = Err EValidation
  /\ validate TTimeInterval (Lst [Num 2; Num 1]) = Err EValidation.
Proof. vm_compute. repeat split. Qed.
Print Assumptions C03_ex.

(* ---- the validators as READ FROM THE SOURCE (Gen/Source.v is regenerated from
   soundevent/data/geometries.py on every run; the @field_validator("coordinates") methods of each
   class, composed in source order = pydantic's run order).  For every coordinate structure of the
   shape pydantic hands to the validators, the generated chain accepts exactly when the model
   [validate] accepts the JSON tree, and returns the coordinates of the model's normalised geometry:
   so C03_accept_iff, C03_accepted_valid, C03_normalise_shape and C03_revalidate above are theorems
   about the validators as they are written now.  [src_rel enc r m] reads: both reject, or both accept
   and [enc] of the returned coordinates is the dump of the model's geometry. ---- *)
From SE Require Gen.Source Gen.SrcValidate.
Import SrcValidate.

Theorem C03_src_TimeStamp : forall v, src_rel Num (Source.TimeStamp_validate v) (validate TTimeStamp (Num v)).
Proof. exact src_TimeStamp. Qed.
Print Assumptions C03_src_TimeStamp.

Theorem C03_src_TimeInterval : forall v, src_rel t1 (Source.TimeInterval_validate v) (validate TTimeInterval (t1 v)).
Proof. exact src_TimeInterval. Qed.
Print Assumptions C03_src_TimeInterval.

Theorem C03_src_Point : forall v, src_rel t1 (Source.Point_validate v) (validate TPoint (t1 v)).
Proof. exact src_Point. Qed.
Print Assumptions C03_src_Point.

Theorem C03_src_LineString : forall v, src_rel t2 (Source.LineString_validate v) (validate TLineString (t2 v)).
Proof. exact src_LineString. Qed.
Print Assumptions C03_src_LineString.

Theorem C03_src_Polygon : forall v, src_rel t3 (Source.Polygon_validate v) (validate TPolygon (t3 v)).
Proof. exact src_Polygon. Qed.
Print Assumptions C03_src_Polygon.

Theorem C03_src_BoundingBox : forall v, src_rel t1 (Source.BoundingBox_validate v) (validate TBBox (t1 v)).
Proof. exact src_BoundingBox. Qed.
Print Assumptions C03_src_BoundingBox.

Theorem C03_src_MultiPoint : forall v, src_rel t2 (Source.MultiPoint_validate v) (validate TMultiPoint (t2 v)).
Proof. exact src_MultiPoint. Qed.
Print Assumptions C03_src_MultiPoint.

Theorem C03_src_MultiLineString : forall v,
  src_rel t3 (Source.MultiLineString_validate v) (validate TMultiLineString (t3 v)).
Proof. exact src_MultiLineString. Qed.
Print Assumptions C03_src_MultiLineString.

Theorem C03_src_MultiPolygon : forall v,
  src_rel t4 (Source.MultiPolygon_validate v) (validate TMultiPolygon (t4 v)).
Proof. exact src_MultiPolygon. Qed.
Print Assumptions C03_src_MultiPolygon.

(* what acceptance by the generated validators means, in one statement *)
Theorem C03_src_accept_valid : forall (A : Type) (enc : A -> tree) (r : res A) T t v',
  src_rel enc r (validate T t) -> r = Ok v' ->
  exists g, validate T t = Ok g /\ enc v' = dump g /\ validb g = true /\ type_of g = T.
Proof. exact @src_accept_valid. Qed.
Print Assumptions C03_src_accept_valid.

Example C03_src_ex :
  Source.BoundingBox_validate [3; 200; 1; 100] = Ok [1; 100; 3; 200]
  /\ Source.LineString_validate [[2; 10]; [1; 20]] = Ok [[1; 20]; [2; 10]]
  /\ Source.Polygon_validate [[[0; 0]; [1; 0]; [1; 5000001]]] = Err EValue
  /\ Source.MultiLineString_validate [[[1; 0]; [1; 5]]] = Err EValue.
Proof. vm_compute. repeat split. Qed.
Print Assumptions C03_src_ex.
