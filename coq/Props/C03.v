(* Property C03 — geometry validation accepts exactly the valid geometries and normalises them. *)
From Coq Require Import QArith.
From SE Require Import Base.Num Base.Res Geom.Geometry Geom.Validate Geom.ValidateProofs.
Open Scope Q_scope.

(* construction succeeds iff the coordinates have the required shape (t = dump g0 for a g0 of that
   type) and the rules hold (accept g0); the object is the normalised input *)
Theorem C03_accept_iff : forall T t g,
  validate T t = Ok g <->
  exists g0, t = dump g0 /\ type_of g0 = T /\ accept g0 = true /\ g = normalise g0.
Proof. exact accept_iff. Qed.
Print Assumptions C03_accept_iff.

Theorem C03_reject_class : forall T t e, validate T t = Err e -> e = EValidation.
Proof. exact reject_class. Qed.
Print Assumptions C03_reject_class.

(* what acceptance means coordinate-wise: every time >= 0, every frequency in [0, MAXF] *)
Theorem C03_accept_points : forall g0, accept g0 = true ->
  forall p, In p (pts_of g0) -> 0 <= fst p /\ 0 <= snd p /\ snd p <= MAXF.
Proof. exact accept_points. Qed.
Print Assumptions C03_accept_points.

(* every accepted geometry is valid (per-type rules), in normal form, of the requested class *)
Theorem C03_accepted_valid : forall T t g, validate T t = Ok g -> validb g = true /\ type_of g = T.
Proof. exact accepted_valid. Qed.
Print Assumptions C03_accepted_valid.

Theorem C03_normalise_shape : forall g0,
  match g0 with
  | LineString l => normalise g0 = LineString l \/ normalise g0 = LineString (rev l)
  | BBox s lo e hi =>
      exists s' lo' e' hi', normalise g0 = BBox s' lo' e' hi' /\
        ((s' = s /\ e' = e) \/ (s' = e /\ e' = s)) /\ ((lo' = lo /\ hi' = hi) \/ (lo' = hi /\ hi' = lo))
  | _ => normalise g0 = g0
  end.
Proof. exact normalise_shape. Qed.
Print Assumptions C03_normalise_shape.

(* re-validating the JSON dump yields an equal geometry *)
Theorem C03_revalidate : forall T t g, validate T t = Ok g -> validate T (dump g) = Ok g.
Proof. exact revalidate. Qed.
Print Assumptions C03_revalidate.

Theorem C03_parse_dump : forall g, parse (type_of g) (dump g) = Some g.
Proof. exact parse_dump. Qed.
Print Assumptions C03_parse_dump.

(* geometry_validate: instance of the class named by the tag; everything else is a ValueError *)
Theorem C03_tag_class : forall tag t g,
  geometry_validate tag t = Ok g -> tag_lookup tag = Some (type_of g) /\ validb g = true.
Proof. exact tag_class. Qed.
Print Assumptions C03_tag_class.

Theorem C03_modes_agree : forall tag T t, tag_lookup tag = Some T ->
  (forall g, geometry_validate tag t = Ok g <-> validate T t = Ok g) /\
  ((exists e, validate T t = Err e) <-> geometry_validate tag t = Err EValue).
Proof. exact geometry_validate_same. Qed.
Print Assumptions C03_modes_agree.

Theorem C03_unknown_tag : forall tag t, tag_lookup tag = None -> geometry_validate tag t = Err EValue.
Proof. exact unknown_tag. Qed.
Print Assumptions C03_unknown_tag.

Example C03_ex :
  rgeom_eqb (validate TBBox (Lst [Num 3; Num MAXF; Num 1; Num 0])) (Ok (BBox 1 0 3 MAXF)) = true
  /\ validate TBBox (Lst [Num 3; Num (MAXF + 1); Num 1; Num 0]) = Err EValidation
  /\ validate TLineString (Lst [Lst [Num 2; Num 1]; Lst [Num 1; Num 1; Num 1]]) = Err EValidation
  /\ rgeom_eqb (validate TLineString (Lst [Lst [Num 2; Num 1]; Lst [Num 1; Num 5]])) (Ok (LineString [(1, 5); (2, 1)])) = true
  /\ validate TMultiLineString (Lst [Lst [Lst [Num 1; Num 1]; Lst [Num 1; Num 2]]]) = Err EValidation
  /\ validate TTimeInterval (Lst [Num 2; Num 1]) = Err EValidation.
Proof. vm_compute. repeat split. Qed.
Print Assumptions C03_ex.
