(* Property C18 — audio paths are stored relative to the audio directory and relocate on load. *)
From Coq Require Import ZArith List Bool.
From SE Require Import Base.Res Gen.Prelude Gen.Source Gen.SrcPaths Aoef.Paths Aoef.PathsProofs.
Import ListNotations.

(* every recording path in the document is the path relative to the directory *)
Theorem C18_stored_relative : forall a x, save_path (Some a) (a ++ x) = Ok x.
Proof. exact stored_relative. Qed.
Print Assumptions C18_stored_relative.

Theorem C18_stored_relative_all : forall a xs, save_paths (Some a) (map (app a) xs) = Ok xs.
Proof. exact save_paths_inside. Qed.
Print Assumptions C18_stored_relative_all.

Theorem C18_stored_only_relative : forall a ps qs, save_paths (Some a) ps = Ok qs -> ps = map (app a) qs.
Proof. exact save_paths_ok_inv. Qed.
Print Assumptions C18_stored_only_relative.

(* one recording outside the directory: the conversion fails, for any position among any number of recordings *)
Theorem C18_outside_fails : forall a b ps p, In p ps -> (forall r, p <> a ++ r) -> relocated (Some a) b ps = Err EValue.
Proof. exact relocate_fails. Qed.
Print Assumptions C18_outside_fails.

(* saving under A and loading under B maps A/x to B/x for every recording *)
Theorem C18_relocate : forall a b xs, (forall x, In x xs -> is_abs x = false) ->
  relocated (Some a) (Some b) (map (app a) xs) = Ok (map (app b) xs).
Proof. exact relocate. Qed.
Print Assumptions C18_relocate.

(* without an audio directory paths pass through unchanged *)
Theorem C18_no_dir_identity : forall ps, relocated None None ps = Ok ps.
Proof. exact no_dir_identity. Qed.
Print Assumptions C18_no_dir_identity.

Example C18_example :
  relocated (Some [0; 1; 2]%Z) (Some [0; 7]%Z) [[0; 1; 2; 3; 4]; [0; 1; 2; 5]]%Z = Ok [[0; 7; 3; 4]; [0; 7; 5]]%Z
  /\ relocated (Some [0; 1; 2]%Z) (Some [0; 7]%Z) [[0; 1; 2; 3; 4]; [0; 1; 9; 5]]%Z = Err EValue.
Proof. exact relocate_example. Qed.
Print Assumptions C18_example.

(* ---- on the definitions read from the source (Gen/Source.v, regenerated on every run): the statements of
   RecordingAdapter.assemble_aoef / assemble_soundevent that compute the `path` handed to the returned object ---- *)
Theorem C18_src_save_path : forall dir p, Source.recording_save_path dir p = Paths.save_path dir p.
Proof. exact src_save_path. Qed.
Print Assumptions C18_src_save_path.

Theorem C18_src_load_path : forall dir q, Source.recording_load_path dir q = Ok (Paths.load_path dir q).
Proof. exact src_load_path. Qed.
Print Assumptions C18_src_load_path.

Theorem C18_src_relocation : forall a b x, is_abs x = false ->
  bind (Source.recording_save_path (Some a) (a ++ x)) (Source.recording_load_path (Some b)) = Ok (b ++ x).
Proof. exact src_relocation. Qed.
Print Assumptions C18_src_relocation.

Theorem C18_src_outside_fails : forall a p, strip a p = None -> Source.recording_save_path (Some a) p = Err EValue.
Proof. exact src_outside_fails. Qed.
Print Assumptions C18_src_outside_fails.

Theorem C18_src_no_dir : forall p, Source.recording_save_path None p = Ok p /\ Source.recording_load_path None p = Ok p.
Proof. exact src_no_dir. Qed.
Print Assumptions C18_src_no_dir.

Example C18_src_ex :
  Source.recording_save_path (Some [0; 5; 6]%Z) [0; 5; 6; 7; 8]%Z = Ok [7; 8]%Z /\
  Source.recording_save_path (Some [0; 5; 6]%Z) [0; 5; 9; 8]%Z = Err EValue /\
  Source.recording_load_path (Some [0; 3]%Z) [7; 8]%Z = Ok [0; 3; 7; 8]%Z.
Proof. exact src_paths_ex. Qed.
Print Assumptions C18_src_ex.
