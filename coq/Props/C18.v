(* Property C18 — audio paths are stored relative to the audio directory and relocate on load. *)
From Coq Require Import ZArith List Bool.
From SE Require Import Base.Res Aoef.Paths Aoef.PathsProofs.
Import ListNotations.

(* every recording path in the document is the path relative to the directory *)
Theorem C18_stored_relative : forall a x, save_path (Some a) (a ++ x) = Ok x.
Proof. exact stored_relative. Qed.
Print Assumptions C18_stored_relative.

Theorem C18_stored_relative_all : forall a xs, save_paths (Some a) (map (app a) xs) = Ok xs.
Proof. exact save_paths_inside. Qed.
Print Assumptions C18_stored_relative_all.

Theorem C18_stored_only_relative : forall a ps qs, save_paths (Some a) ps = Ok qs -> ps = map (app a) qs.
Proof. exact save_paths_ok_inv. Qed.
Print Assumptions C18_stored_only_relative.

(* one recording outside the directory: the conversion fails, for any position among any number of recordings *)
Theorem C18_outside_fails : forall a b ps p, In p ps -> (forall r, p <> a ++ r) -> relocated (Some a) b ps = Err EValue.
Proof. exact relocate_fails. Qed.
Print Assumptions C18_outside_fails.

(* saving under A and loading under B maps A/x to B/x for every recording *)
Theorem C18_relocate : forall a b xs, (forall x, In x xs -> is_abs x = false) ->
  relocated (Some a) (Some b) (map (app a) xs) = Ok (map (app b) xs).
Proof. exact relocate. Qed.
Print Assumptions C18_relocate.

(* without an audio directory paths pass through unchanged *)
Theorem C18_no_dir_identity : forall ps, relocated None None ps = Ok ps.
Proof. exact no_dir_identity. Qed.
Print Assumptions C18_no_dir_identity.

Example C18_example :
  relocated (Some [0; 1; 2]%Z) (Some [0; 7]%Z) [[0; 1; 2; 3; 4]; [0; 1; 2; 5]]%Z = Ok [[0; 7; 3; 4]; [0; 7; 5]]%Z
  /\ relocated (Some [0; 1; 2]%Z) (Some [0; 7]%Z) [[0; 1; 2; 3; 4]; [0; 1; 9; 5]]%Z = Err EValue.
Proof. exact relocate_example. Qed.
Print Assumptions C18_example.
