(* Property C17 — cropping and extending keep data on its coordinates and hit the requested size. *)
From Coq Require Import QArith.
From SE Require Import Base.Num Base.Res Arr.Range Arr.Index Arr.IndexProofs Arr.CropExtend Arr.CropExtendProofs.
Open Scope Q_scope.

(* crop_dim: exactly the samples inside the requested interval.  Unconditional for closed ends; for an
   open end only when no coordinate lies strictly within eps of that end (the statement without this
   proviso is refuted below: known finding C17-crop-eps-open-end). *)
Theorem C17_crop_exact_closed : forall a s e eps r,
  crop_dim a (Some s) (Some e) true true eps = Ok r ->
  r = filter (fun p => in_intervalb s e true true (fst p)) a.
Proof. exact crop_exact_closed. Qed.
Print Assumptions C17_crop_exact_closed.

Theorem C17_crop_exact_partial : forall a s e rc lc eps r,
  crop_dim a (Some s) (Some e) rc lc eps = Ok r -> 0 < eps ->
  (rc = false -> forall c, In c (coords a) -> ~ (e - eps < c /\ c < e)) ->
  (lc = false -> forall c, In c (coords a) -> ~ (s < c /\ c < s + eps)) ->
  r = filter (fun p => in_intervalb s e lc rc (fst p)) a.
Proof. exact crop_exact_partial. Qed.
Print Assumptions C17_crop_exact_partial.

Theorem C17_crop_exact_refuted :
  exists a s e r, crop_dim a (Some s) (Some e) false true (1 # 100000) = Ok r /\
    r <> filter (fun p => in_intervalb s e true false (fst p)) a.
Proof. exact crop_exact_refuted. Qed.
Print Assumptions C17_crop_exact_refuted.

Theorem C17_crop_rejects : forall a s e rc lc eps cs ce,
  get_dim_range (coords a) = Some (cs, ce) -> (e < s \/ s < cs \/ ce < e) ->
  crop_dim a (Some s) (Some e) rc lc eps = Err EValue.
Proof. exact crop_rejects. Qed.
Print Assumptions C17_crop_rejects.

Theorem C17_crop_sublist : forall a s e rc lc eps r p, crop_dim a s e rc lc eps = Ok r -> In p r -> In p a.
Proof. exact crop_sublist. Qed.
Print Assumptions C17_crop_sublist.

(* extend_dim: the axis continued on its own lattice; originals keep coordinate and value; every new
   sample holds the fill value; the added points are exactly the lattice points strictly between the
   (eps-shifted) requested ends and the axis *)
Theorem C17_extend_spec : forall a step start stop fill eps lc rc r c0 rest,
  0 < step -> incr (coords a) -> coords a = c0 :: rest ->
  extend_dim a step start stop fill eps lc rc = Ok r ->
  let cs := c0 in let ce := last rest c0 in
  let s := opt_default start cs in let e := opt_default stop ce in
  let s' := if lc then s - eps else s in
  let e' := if rc then e + eps else e in
  let down := if qleb s' (cs - step) then arange_down_rev (cs - step) s' step else [] in
  let up := if qleb ce e' then tl (arange ce e' step) else [] in
  r = map (fun c => (c, fill)) down ++ a ++ map (fun c => (c, fill)) up.
Proof. exact extend_dim_spec. Qed.
Print Assumptions C17_extend_spec.

Theorem C17_extend_left_points : forall c0 step s' x, 0 < step ->
  In x (arange_down_rev (c0 - step) s' step) <-> exists k : nat, x = c0 - step - idx k * step /\ s' < x.
Proof. exact extend_left_points. Qed.
Print Assumptions C17_extend_left_points.

Theorem C17_extend_right_points : forall ce step e' x, 0 < step ->
  In x (tl (arange ce e' step)) <-> exists k : nat, x = ce + idx (S k) * step /\ x < e'.
Proof. exact extend_right_points. Qed.
Print Assumptions C17_extend_right_points.

Theorem C17_extend_rejects : forall a step s e fill eps lc rc cs ce,
  get_dim_range (coords a) = Some (cs, ce) -> e < s ->
  extend_dim a step (Some s) (Some e) fill eps lc rc = Err EValue.
Proof. exact extend_rejects. Qed.
Print Assumptions C17_extend_rejects.

(* widths: exactly `width` samples for every width >= 1, placed at start / centre / end *)
Theorem C17_adjust_width_exact : forall a step w fill pos r,
  adjust_dim_width a step w fill pos = Ok r -> (1 <= w)%Z /\ length r = Z.to_nat w.
Proof. exact adjust_width_exact. Qed.
Print Assumptions C17_adjust_width_exact.

Theorem C17_adjust_width_rejects : forall a step w fill pos, (w < 1)%Z -> adjust_dim_width a step w fill pos = Err EValue.
Proof. exact adjust_width_rejects. Qed.
Print Assumptions C17_adjust_width_rejects.

Theorem C17_crop_width_length : forall a w pos r, (1 <= w)%nat -> crop_dim_width a w pos = Ok r -> length r = w.
Proof. exact crop_width_length. Qed.
Print Assumptions C17_crop_width_length.

Theorem C17_crop_width_placement : forall a w pos r, (1 <= w)%nat -> crop_dim_width a w pos = Ok r ->
  exists from, r = slice_list a from w /\
    match pos with
    | PStart => from = 0%nat
    | PEnd => from = (length a - w)%nat
    | PCenter => from = (Nat.div (length a) 2 - Nat.div w 2)%nat
    end.
Proof. exact crop_width_placement. Qed.
Print Assumptions C17_crop_width_placement.

Theorem C17_extend_width_length : forall a step w fill pos r, extend_dim_width a step w fill pos = Ok r -> length r = w.
Proof. exact extend_width_length. Qed.
Print Assumptions C17_extend_width_length.

Theorem C17_extend_width_placement : forall a step w fill pos r c0 rest,
  0 < step -> incr (coords a) -> coords a = c0 :: rest ->
  extend_dim_width a step w fill pos = Ok r ->
  let extra := (w - length a)%nat in
  let ce := last rest c0 in
  let up k := map (fun i => (ce + step * idx (S i), fill)) (seq 0 k) in
  let down k := rev (map (fun i => (c0 - step * idx (S i), fill)) (seq 0 k)) in
  r = match pos with
      | PStart => a ++ up extra
      | PEnd => down extra ++ a
      | PCenter => down (Nat.div extra 2) ++ a ++ up (extra - Nat.div extra 2)%nat
      end.
Proof. exact extend_width_placement. Qed.
Print Assumptions C17_extend_width_placement.

Example C17_ex :
  raxis_eqb 0 (adjust_dim_width [(0, 1); (1, 2); (2, 3)] 1 6 0 PCenter) (Ok [(-1, 0); (0, 1); (1, 2); (2, 3); (3, 0); (4, 0)]) = true
  /\ raxis_eqb 0 (crop_dim [(0, 1); (1, 2); (2, 3); (3, 4)] (Some 1) (Some 3) false true (1 # 100000)) (Ok [(1, 2); (2, 3)]) = true
  /\ raxis_eqb 0 (extend_dim [(0, 1); (1, 2)] 1 (Some (-2)) (Some 3) 9 (1 # 100000) true false) (Ok [(-2, 9); (-1, 9); (0, 1); (1, 2); (2, 9)]) = true
  /\ incr (coords [(0, 1); (1, 2); (2, 3)]).
Proof. vm_compute. repeat split; intros; intuition (subst; reflexivity || congruence). Qed.
Print Assumptions C17_ex.

(* ---- crop_dim as READ FROM THE SOURCE (Gen/Source.v is regenerated from
   soundevent/arrays/operations.py and dimensions.py on every run; xarray's label slice is the model's
   sel_slice): equal to the model on every input, errors included. ---- *)
From SE Require Gen.Source Gen.SrcArrays.
From SE Require Import Gen.Prelude.

Theorem C17_src_crop_dim : forall a start stop rc lc eps,
  Source.crop_dim a tt start stop rc lc eps = crop_dim a start stop rc lc eps.
Proof. exact SrcArrays.src_crop_dim. Qed.
Print Assumptions C17_src_crop_dim.
