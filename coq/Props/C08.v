(* Property C08 — detection evaluation accounts for every sound event and only credits overlaps. *)
From Coq Require Import QArith Permutation.
From SE Require Import Base.Num Base.Res Eval.Match Eval.MatchProofs Eval.Detection Eval.DetectionProofs.
Open Scope Q_scope.

(* exactly the clips present in both inputs, in prediction order, each against annotations of the same clip *)
Theorem C08_clips_exactly_common : forall pred_ids ann_ids,
  map snd (pair_clips pred_ids ann_ids)
  = map fst (filter (fun ip => mem (snd ip) ann_ids) (combine (seq 0 (length pred_ids)) pred_ids)).
Proof. exact clips_exactly_common. Qed.
Print Assumptions C08_clips_exactly_common.

Theorem C08_paired_same_clip : forall pred_ids ann_ids ia ip,
  In (ia, ip) (pair_clips pred_ids ann_ids) ->
  exists cid, nth_error pred_ids ip = Some cid /\ nth_error ann_ids ia = Some cid.
Proof. exact paired_same_clip. Qed.
Print Assumptions C08_paired_same_clip.

(* every annotated and every predicted sound event (with or without geometry) is in exactly one match;
   holds for any valid solver answer, so C04's ClipEvaluation validator never fires *)
Theorem C08_every_event_once : forall pgeo ageo M lsa ytrue yscore,
  pairing (length (with_geo pgeo)) (length (with_geo ageo)) lsa ->
  Permutation (opt_list (map d_src (evaluate_clip pgeo ageo M lsa ytrue yscore))) (seq 0 (length pgeo)) /\
  Permutation (opt_list (map d_tgt (evaluate_clip pgeo ageo M lsa ytrue yscore))) (seq 0 (length ageo)).
Proof. exact every_event_once. Qed.
Print Assumptions C08_every_event_once.

(* a pair has positive affinity, reports that affinity and the probability of the annotation's class;
   unpaired events report affinity 0 and score 0 *)
Theorem C08_match_reports : forall pgeo ageo M lsa ytrue yscore d,
  In d (evaluate_clip pgeo ageo M lsa ytrue yscore) ->
  match d with
  | (Some p, Some t, a, s) =>
      exists i j, p = nth i (with_geo pgeo) 0%nat /\ t = nth j (with_geo ageo) 0%nat /\ a == mget M i j /\ 0 < a /\
                  s = classification_score (nth t ytrue None) (nth p yscore [])
  | (Some _, None, a, s) | (None, Some _, a, s) => a == 0 /\ s = 0
  | (None, None, _, _) => False
  end.
Proof. exact match_reports. Qed.
Print Assumptions C08_match_reports.

Theorem C08_classification_score : forall y s,
  classification_score y s = match y with Some k => nth k s 0 | None => 1 - qsum s end.
Proof. exact classification_score_spec. Qed.
Print Assumptions C08_classification_score.

(* clip score = mean of its match scores; overall score = mean of the clip scores (0 when there are none) *)
Theorem C08_mean_spec : forall l, l <> [] -> mean l * inject_Z (Z.of_nat (length l)) == qsum l.
Proof. exact mean_spec. Qed.
Print Assumptions C08_mean_spec.

Theorem C08_mean_empty : mean [] = 0.
Proof. exact mean_empty. Qed.
Print Assumptions C08_mean_empty.

Example C08_ex :
  dmatches_same 0
    (evaluate_clip [false; true] [true] [[1 # 2]] [(0, 0)%nat] [Some 1%nat] [[]; [1 # 4; 3 # 4]])
    [(Some 1%nat, Some 0%nat, 1 # 2, 3 # 4); (Some 0%nat, None, 0, 0)] = true
  /\ pair_clips [3; 1; 2]%nat [2; 3]%nat = [(1, 0); (0, 2)]%nat.
Proof. vm_compute. split; reflexivity. Qed.
Print Assumptions C08_ex.

(* ---- which clips are evaluated, as READ FROM THE SOURCE (Gen/Source.v is regenerated from
   soundevent/evaluation/tasks/common.py on every run; a clip prediction / annotation is represented by
   (clip uuid, own id)): iterate_over_valid_clips lists, in the order of the predictions, exactly the
   predictions whose clip is annotated, each with the last annotation of that clip. ---- *)
From Coq Require Import ZArith List.
From SE Require Gen.Source Gen.SrcClips.
From SE Require Import Gen.Prelude.

Theorem C08_src_pairs : forall preds anns,
  Source.iterate_over_valid_clips preds anns = Ok (SrcClips.pairs_spec preds anns).
Proof. exact SrcClips.src_pairs. Qed.
Print Assumptions C08_src_pairs.

Theorem C08_src_pairs_predictions : forall preds anns,
  map snd (SrcClips.pairs_spec preds anns)
  = filter (fun p => existsb (fun a => Z.eqb (fst a) (fst p)) anns) preds.
Proof. exact SrcClips.src_pairs_predictions. Qed.
Print Assumptions C08_src_pairs_predictions.

Theorem C08_src_pairs_same_clip : forall preds anns a p,
  In (a, p) (SrcClips.pairs_spec preds anns) -> In a anns /\ In p preds /\ fst a = fst p.
Proof. exact SrcClips.src_pairs_same_clip. Qed.
Print Assumptions C08_src_pairs_same_clip.
