(* Property C09 — evaluation metrics are what their terms say, in all four tasks. *)
From Coq Require Import QArith Permutation.
From SE Require Import Base.Num Base.Res Eval.Metrics Eval.MetricsProofs.
Open Scope Q_scope.

(* pairwise distinct terms within each list *)
Theorem C09_run_single_terms : forall nc ys rows det, NoDup (map fst (run_single nc ys rows det)).
Proof. exact run_single_terms. Qed.
Print Assumptions C09_run_single_terms.
Theorem C09_run_multilabel_terms : forall nc inds rows, NoDup (map fst (run_multilabel nc inds rows)).
Proof. exact run_multilabel_terms. Qed.
Print Assumptions C09_run_multilabel_terms.
Theorem C09_item_terms : forall y row, NoDup (map fst (item_metrics y row)).
Proof. exact item_terms. Qed.
Print Assumptions C09_item_terms.
Theorem C09_clip_multilabel_terms : forall ind row, NoDup (map fst (clip_multilabel_metrics ind row)).
Proof. exact clip_multilabel_terms. Qed.
Print Assumptions C09_clip_multilabel_terms.

(* each value is the independently defined metric its term names *)
Theorem C09_run_single_values : forall nc ys rows det n v,
  In (n, v) (run_single nc ys rows det) -> metric_named_single nc (combine ys rows) n = Some v.
Proof. exact run_single_values. Qed.
Print Assumptions C09_run_single_values.
Theorem C09_run_single_reports : forall nc ys rows det,
  map fst (run_single nc ys rows det) = (if det then [MMeanAP] else []) ++ [MBalancedAccuracy; MAccuracy; MTop3].
Proof. exact run_single_reports. Qed.
Print Assumptions C09_run_single_reports.
Theorem C09_run_multilabel_values : forall nc inds rows n v,
  In (n, v) (run_multilabel nc inds rows) -> n = MMeanAP /\ v = mean_ap_multi nc (combine inds rows).
Proof. exact run_multilabel_values. Qed.
Print Assumptions C09_run_multilabel_values.
Theorem C09_item_values : forall y row n v,
  In (n, v) (item_metrics y row) -> n = MTrueClassProb /\ v = true_class_probability y row.
Proof. exact item_values. Qed.
Print Assumptions C09_item_values.
Theorem C09_clip_multilabel_values : forall ind row n v,
  In (n, v) (clip_multilabel_metrics ind row) ->
  (n = MJaccard /\ v = jaccard (ind, row)) \/ (n = MAP /\ v = ap_clip (ind, row)).
Proof. exact clip_multilabel_values. Qed.
Print Assumptions C09_clip_multilabel_values.

(* scores aggregate as means *)
Theorem C09_mean_spec : forall l, l <> [] -> mean_scores l * inject_Z (Z.of_nat (length l)) == qsum l.
Proof. exact qmean_spec. Qed.
Print Assumptions C09_mean_spec.

(* the result does not depend on the order of the evaluated items *)
Theorem C09_accuracy_perm : forall nc items items', Permutation items items' -> accuracy nc items = accuracy nc items'.
Proof. exact accuracy_perm. Qed.
Print Assumptions C09_accuracy_perm.
Theorem C09_balanced_accuracy_perm : forall nc items items',
  Permutation items items' -> balanced_accuracy nc items = balanced_accuracy nc items'.
Proof. exact balanced_accuracy_perm. Qed.
Print Assumptions C09_balanced_accuracy_perm.
Theorem C09_top3_perm : forall nc items items', Permutation items items' -> top3_accuracy nc items = top3_accuracy nc items'.
Proof. exact top3_perm. Qed.
Print Assumptions C09_top3_perm.
Theorem C09_ap_perm : forall s s', Permutation s s' -> ap s == ap s'.
Proof. exact ap_perm. Qed.
Print Assumptions C09_ap_perm.
Theorem C09_mean_ap_single_perm : forall nc items items',
  Permutation items items' -> mean_ap_single nc items == mean_ap_single nc items'.
Proof. exact mean_ap_single_perm. Qed.
Print Assumptions C09_mean_ap_single_perm.
Theorem C09_mean_ap_multi_perm : forall nc items items',
  Permutation items items' -> mean_ap_multi nc items == mean_ap_multi nc items'.
Proof. exact mean_ap_multi_perm. Qed.
Print Assumptions C09_mean_ap_multi_perm.
Theorem C09_mean_scores_perm : forall l l', Permutation l l' -> mean_scores l == mean_scores l'.
Proof. exact mean_scores_perm. Qed.
Print Assumptions C09_mean_scores_perm.

Theorem C09_accuracy_range : forall nc items, items <> [] -> 0 <= accuracy nc items /\ accuracy nc items <= 1.
Proof. exact accuracy_range. Qed.
Print Assumptions C09_accuracy_range.

Example C09_ex :
  let items := [(Some 0%nat, [3 # 4; 1 # 8]); (Some 1%nat, [1 # 2; 1 # 4]); (None, [1 # 8; 1 # 8])] in
  qeqb (accuracy 2 items) (2 # 3) = true
  /\ qeqb (balanced_accuracy 2 items) (2 # 3) = true
  /\ qeqb (top3_accuracy 2 items) 1 = true
  /\ qeqb (mean_ap_single 2 items) 1 = true
  /\ qeqb (jaccard ([true; false; true], [3 # 4; 3 # 4; 1 # 4])) (1 # 3) = true.
Proof. vm_compute. repeat split. Qed.
Print Assumptions C09_ex.

(* ---- which clips are evaluated, as READ FROM THE SOURCE (Gen/Source.v is regenerated from
   soundevent/evaluation/tasks/common.py on every run; a clip prediction / annotation is represented by
   (clip uuid, own id)): iterate_over_valid_clips lists, in the order of the predictions, exactly the
   predictions whose clip is annotated, each with the last annotation of that clip. ---- *)
From Coq Require Import ZArith List.
From SE Require Gen.Source Gen.SrcClips.
From SE Require Import Gen.Prelude.

Theorem C09_src_pairs : forall preds anns,
  Source.iterate_over_valid_clips preds anns = Ok (SrcClips.pairs_spec preds anns).
Proof. exact SrcClips.src_pairs. Qed.
Print Assumptions C09_src_pairs.

Theorem C09_src_pairs_predictions : forall preds anns,
  map snd (SrcClips.pairs_spec preds anns)
  = filter (fun p => existsb (fun a => Z.eqb (fst a) (fst p)) anns) preds.
Proof. exact SrcClips.src_pairs_predictions. Qed.
Print Assumptions C09_src_pairs_predictions.

Theorem C09_src_pairs_same_clip : forall preds anns a p,
  In (a, p) (SrcClips.pairs_spec preds anns) -> In a anns /\ In p preds /\ fst a = fst p.
Proof. exact SrcClips.src_pairs_same_clip. Qed.
Print Assumptions C09_src_pairs_same_clip.
