(* Arr/Range.v — soundevent.arrays.dimensions: create_range_dim / create_time_range /
   create_frequency_range (np.arange + the trailing-element rule). *)
From SE Require Export Base.Num Base.Res.
From Coq Require Import Qround.
Open Scope Q_scope.

(* np.arange(start, stop, step): ceil((stop-start)/step) values start + i*step *)
Definition arange_len (start stop step : Q) : nat := Z.to_nat (Qceiling ((stop - start) / step)).
Definition arange (start stop step : Q) : list Q :=
  map (fun i => start + idx i * step) (seq 0 (arange_len start stop step)).

Definition last_opt {A} (l : list A) : option A :=
  match l with [] => None | x :: r => Some (last r x) end.

(* result: coordinates and the 'step' attribute *)
Definition create_range_dim (start stop : Q) (step : option Q) (size : option Z) : res (list Q * Q) :=
  match (match step, size with
         | Some st, _ => Ok st
         | None, Some n => if (n =? 0)%Z then Err EOther (* ZeroDivisionError *) else Ok ((stop - start) / inject_Z n)
         | None, None => Err EValue
         end) with
  | Err e => Err e
  | Ok st =>
      if qeqb st 0 then Err EOther (* np.arange with a zero step: ZeroDivisionError *) else
      let coords := arange start stop st in
      match last_opt coords with
      | None => Ok ([], st)                      (* empty range: no coordinates *)
      | Some l =>
          if qleb (stop - st / 2) l then Ok (removelast coords, st) else Ok (coords, st)
      end
  end.

Definition create_time_range (start stop : Q) (step samplerate : option Q) : res (list Q * Q) :=
  match step, samplerate with
  | Some st, _ => create_range_dim start stop (Some st) None
  | None, Some sr => if qeqb sr 0 then Err EOther else create_range_dim start stop (Some (1 / sr)) None
  | None, None => Err EValue
  end.

Definition create_frequency_range (low high step : Q) : res (list Q * Q) :=
  create_range_dim low high (Some step) None.

(* comparison helpers for the correspondence *)
Definition range_res_eqb (tol : Q) (x y : res (list Q * Q)) : bool :=
  res_eqb (fun a b => qlist_close tol (fst a) (fst b) && qclose tol (snd a) (snd b)) x y.
