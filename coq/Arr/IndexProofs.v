From Coq Require Import QArith Lqa Lia Sorted.
From SE Require Import Base.Num Base.Res Base.NumProofs Arr.Range Arr.Index.
Open Scope Q_scope.

(* strictly increasing coordinate list *)
Fixpoint incr (cs : list Q) : Prop :=
  match cs with
  | [] => True
  | c :: r => (forall x, In x r -> c < x) /\ incr r
  end.

Lemma sbr_le_length cs v : (slice_bound_right cs v <= length cs)%nat.
Proof. induction cs as [|c r IH]; cbn; [lia|]. destruct (qleb c v); cbn; lia. Qed.

(* everything before the bound is <= v *)
Lemma sbr_prefix cs v : forall i c, (i < slice_bound_right cs v)%nat -> nth_error cs i = Some c -> c <= v.
Proof.
  induction cs as [|c0 r IH]; intros i c Hi Hn; cbn in Hi; [lia|].
  destruct (qleb c0 v) eqn:E; [|lia]. apply qleb_spec in E.
  destruct i as [|i]; cbn in Hn; [injection Hn as <-; exact E|].
  apply (IH i c); [lia|exact Hn].
Qed.

(* on an increasing list everything from the bound on is > v *)
Lemma sbr_suffix cs v : incr cs ->
  forall i c, (slice_bound_right cs v <= i)%nat -> nth_error cs i = Some c -> v < c.
Proof.
  induction cs as [|c0 r IH]; intros Hinc i c Hi Hn; [destruct i; discriminate|].
  destruct Hinc as [Hlt Hinc]. cbn in Hi. destruct (qleb c0 v) eqn:E.
  - destruct i as [|i]; [lia|]. cbn in Hn. apply (IH Hinc i c); [lia|exact Hn].
  - apply qleb_false in E. destruct i as [|i]; cbn in Hn.
    + injection Hn as <-. exact E.
    + apply nth_error_In in Hn. specialize (Hlt c Hn). lra.
Qed.

Lemma qmin_list_incr c r : (forall x, In x r -> c < x) -> qmin_list c r = c.
Proof.
  unfold qmin_list. revert c. induction r as [|x r IH]; intros c H; [reflexivity|].
  cbn [fold_left]. assert (Hx : c < x) by (apply H; left; reflexivity).
  assert (E : pymin c x = c).
  { unfold pymin. assert (qltb x c = false) by (apply qltb_false; lra). rewrite H0. reflexivity. }
  rewrite E. apply IH. intros y Hy. apply H. right. exact Hy.
Qed.

Lemma last_cons {A} (r : list A) : forall x c, last (x :: r) c = last r x.
Proof.
  induction r as [|y r IH]; intros x c; [reflexivity|].
  change (last (x :: y :: r) c) with (last (y :: r) c). rewrite (IH y c), (IH y x). reflexivity.
Qed.

Lemma qmax_list_incr r : forall c, incr (c :: r) -> qmax_list c r = last r c.
Proof.
  unfold qmax_list. induction r as [|x r IH]; intros c H; [reflexivity|].
  cbn [fold_left]. destruct H as [Hlt Hinc].
  assert (Hx : c < x) by (apply Hlt; left; reflexivity).
  assert (E : pymax c x = x).
  { unfold pymax. assert (qltb c x = true) by (apply qltb_spec; exact Hx). rewrite H. reflexivity. }
  rewrite E. rewrite (IH x Hinc). symmetry. apply last_cons.
Qed.

Lemma range_of_incr c r : incr (c :: r) -> get_dim_range (c :: r) = Some (c, last r c).
Proof.
  intro H. unfold get_dim_range. rewrite (qmax_list_incr r c H).
  destruct H as [Hlt _]. rewrite (qmin_list_incr c r Hlt). reflexivity.
Qed.

(* in range: the unique i with coord[i] <= v < coord[i+1] (the last index at the upper edge) *)
Lemma coord_index_in_range c r v raise :
  incr (c :: r) -> c <= v -> v <= last r c ->
  exists i : nat,
    get_coord_index (c :: r) v raise = Ok (Z.of_nat i) /\
    (i < length (c :: r))%nat /\
    (forall x, nth_error (c :: r) i = Some x -> x <= v) /\
    (forall x, nth_error (c :: r) (S i) = Some x -> v < x) /\
    (forall j x, (j <= i)%nat -> nth_error (c :: r) j = Some x -> x <= v) /\
    (forall j x, (i < j)%nat -> nth_error (c :: r) j = Some x -> v < x).
Proof.
  intros Hinc Hlo Hhi. unfold get_coord_index. rewrite (range_of_incr c r Hinc).
  assert (E1 : qltb v c = false) by (apply qltb_false; exact Hlo).
  assert (E2 : qltb (last r c) v = false) by (apply qltb_false; exact Hhi).
  rewrite E1, E2. cbn [orb].
  set (k := slice_bound_right (c :: r) v).
  assert (Hk1 : (1 <= k)%nat).
  { unfold k. cbn. assert (E : qleb c v = true) by (apply qleb_spec; exact Hlo). rewrite E. lia. }
  pose proof (sbr_le_length (c :: r) v) as Hk2. fold k in Hk2.
  exists (k - 1)%nat. repeat split.
  - f_equal. lia.
  - lia.
  - intros x Hx. apply (sbr_prefix (c :: r) v (k - 1)%nat x); [fold k; lia|exact Hx].
  - intros x Hx. apply (sbr_suffix (c :: r) v Hinc (S (k - 1)) x); [fold k; lia|exact Hx].
  - intros j x Hj Hx. apply (sbr_prefix (c :: r) v j x); [fold k; lia|exact Hx].
  - intros j x Hj Hx. apply (sbr_suffix (c :: r) v Hinc j x); [fold k; lia|exact Hx].
Qed.

(* uniqueness: any index with coord[i] <= v < coord[i+1] (or last with coord[i] <= v) is the one returned *)
Lemma coord_index_unique cs v i j xi xj :
  incr cs -> nth_error cs i = Some xi -> nth_error cs j = Some xj ->
  xi <= v -> xj <= v ->
  (forall x, nth_error cs (S i) = Some x -> v < x) ->
  (forall x, nth_error cs (S j) = Some x -> v < x) -> i = j.
Proof.
  intros Hinc Hi Hj Hxi Hxj Hni Hnj.
  assert (Hmono : forall cs a b xa xb, incr cs -> (a < b)%nat -> nth_error cs a = Some xa -> nth_error cs b = Some xb -> xa < xb).
  { clear. induction cs as [|c r IH]; intros a b xa xb Hinc Hab Ha Hb; [destruct a; discriminate|].
    destruct Hinc as [Hlt Hinc]. destruct b as [|b]; [lia|]. cbn in Hb.
    destruct a as [|a]; cbn in Ha.
    - injection Ha as <-. apply Hlt. apply nth_error_In in Hb. exact Hb.
    - apply (IH a b xa xb Hinc); [lia|exact Ha|exact Hb]. }
  destruct (Nat.lt_trichotomy i j) as [H|[H|H]]; [|exact H|]; exfalso.
  - destruct (nth_error cs (S i)) as [x|] eqn:E.
    + specialize (Hni x eq_refl).
      destruct (Nat.eq_dec (S i) j) as [<-|Hne].
      * rewrite E in Hj. injection Hj as <-. lra.
      * pose proof (Hmono cs (S i) j x xj Hinc ltac:(lia) E Hj). lra.
    + apply nth_error_None in E. assert (nth_error cs j <> None) by congruence.
      apply nth_error_Some in H0. lia.
  - destruct (nth_error cs (S j)) as [x|] eqn:E.
    + specialize (Hnj x eq_refl).
      destruct (Nat.eq_dec (S j) i) as [<-|Hne].
      * rewrite E in Hi. injection Hi as <-. lra.
      * pose proof (Hmono cs (S j) i x xi Hinc ltac:(lia) E Hi). lra.
    + apply nth_error_None in E. assert (nth_error cs i <> None) by congruence.
      apply nth_error_Some in H0. lia.
Qed.

(* outside the range: raises KeyError or clamps to 0 / size *)
Lemma coord_index_outside c r v :
  incr (c :: r) -> (v < c \/ last r c < v) ->
  get_coord_index (c :: r) v true = Err EKey /\
  (v < c -> get_coord_index (c :: r) v false = Ok 0%Z) /\
  (last r c < v -> get_coord_index (c :: r) v false = Ok (Z.of_nat (length (c :: r)))).
Proof.
  intros Hinc Hout. unfold get_coord_index. rewrite (range_of_incr c r Hinc).
  assert (Hcl : c <= last r c).
  { destruct Hinc as [Hlt _]. destruct r as [|x r]; [cbn; lra|].
    assert (In (last (x :: r) c) (x :: r)).
    { clear. revert x. induction r as [|y r IH]; intro x; [left; reflexivity|].
      right. change (last (x :: y :: r) c) with (last (y :: r) c). apply IH. }
    specialize (Hlt _ H). lra. }
  destruct Hout as [H|H].
  - assert (E : qltb v c = true) by (apply qltb_spec; exact H). rewrite E. cbn [orb].
    repeat split; try reflexivity. intro. exfalso. lra.
  - assert (E : qltb (last r c) v = true) by (apply qltb_spec; exact H).
    assert (E' : qltb v c = false) by (apply qltb_false; lra). rewrite E, E'. cbn [orb].
    repeat split; try reflexivity. intro. exfalso. lra.
Qed.

(* ---- set_value_at_pos ---- *)
Lemma set_walk_length indexer v : forall ps old k,
  length ps = length old -> length (set_walk indexer v ps old k) = length old.
Proof.
  induction ps as [|p pr IH]; intros old k H; destruct old as [|o orest]; try discriminate; [reflexivity|].
  cbn [set_walk]. destruct (addressed indexer p); cbn [length]; rewrite IH; auto.
Qed.

(* every position that is not addressed keeps its old value; an addressed one receives the value *)
Lemma set_walk_nth indexer v : forall ps old k i p o,
  nth_error ps i = Some p -> nth_error old i = Some o ->
  exists y, nth_error (set_walk indexer v ps old k) i = Some y /\
    (addressed indexer p = false -> y = o) /\
    (addressed indexer p = true -> forall x, v = Scalar x -> y = x).
Proof.
  induction ps as [|p0 pr IH]; intros old k i p o Hp Ho; [destruct i; discriminate|].
  destruct old as [|o0 orest]; [destruct i; discriminate|].
  cbn [set_walk]. destruct i as [|i]; cbn in Hp, Ho.
  - injection Hp as <-. injection Ho as <-.
    destruct (addressed indexer p0) eqn:E; cbn [nth_error]; eexists; split; try reflexivity.
    + split; [discriminate|]. intros _ x ->. reflexivity.
    + split; [reflexivity|discriminate].
  - destruct (addressed indexer p0); cbn [nth_error]; apply IH; assumption.
Qed.

(* Block values are written in row-major order of the addressed positions *)
Lemma set_walk_block indexer xs : forall ps old k i p o,
  nth_error ps i = Some p -> nth_error old i = Some o -> addressed indexer p = true ->
  nth_error (set_walk indexer (Block xs) ps old k) i =
  Some (nth (k + length (filter (addressed indexer) (firstn i ps))) xs o).
Proof.
  induction ps as [|p0 pr IH]; intros old k i p o Hp Ho Ha; [destruct i; discriminate|].
  destruct old as [|o0 orest]; [destruct i; discriminate|].
  cbn [set_walk]. destruct i as [|i]; cbn in Hp, Ho.
  - injection Hp as <-. injection Ho as <-. rewrite Ha. cbn. rewrite Nat.add_0_r. reflexivity.
  - cbn [firstn filter]. destruct (addressed indexer p0) eqn:E; cbn [nth_error].
    + rewrite (IH orest (S k) i p o Hp Ho Ha). cbn [length]. f_equal. f_equal. lia.
    + rewrite (IH orest k i p o Hp Ho Ha). reflexivity.
Qed.

Lemma positions_length shape : length (positions shape) = fold_right Nat.mul 1%nat shape.
Proof.
  induction shape as [|n r IH]; [reflexivity|]. cbn [positions fold_right].
  rewrite <- IH. generalize (positions r) as ps. intro ps.
  assert (H : forall a, length (flat_map (fun i => map (cons i) ps) (seq a n)) = (n * length ps)%nat).
  { induction n as [|n IHn]; intro a; [reflexivity|].
    cbn [seq flat_map]. rewrite app_length, map_length, IHn. lia. }
  apply H.
Qed.
