From Coq Require Import QArith Lqa Lia Qround.
From SE Require Import Base.Num Base.Res Base.NumProofs Arr.Range.
Open Scope Q_scope.

Lemma inject_Z_pred (n : Z) : inject_Z (n - 1) == inject_Z n - 1.
Proof. unfold Zminus. rewrite inject_Z_plus, inject_Z_opp. reflexivity. Qed.

Lemma Qceiling_unique (x : Q) (n : Z) : inject_Z n - 1 < x -> x <= inject_Z n -> Qceiling x = n.
Proof.
  intros H1 H2.
  assert (Hle : (Qceiling x <= n)%Z).
  { rewrite <- (Qceiling_Z n). apply Qceiling_resp_le. exact H2. }
  pose proof (Qle_ceiling x) as H3.
  assert (Hlt : (n - 1 < Qceiling x)%Z).
  { rewrite Zlt_Qlt. rewrite inject_Z_pred. lra. }
  lia.
Qed.

Lemma Qceiling_bounds (x : Q) : inject_Z (Qceiling x) - 1 < x /\ x <= inject_Z (Qceiling x).
Proof.
  split; [|apply Qle_ceiling].
  pose proof (Qceiling_lt x) as H. rewrite inject_Z_pred in H. lra.
Qed.

Lemma idx_to_nat (z : Z) : (0 <= z)%Z -> idx (Z.to_nat z) = inject_Z z.
Proof. intro H. unfold idx. rewrite Z2Nat.id by exact H. reflexivity. Qed.

Definition lattice (start step : Q) (n : nat) : list Q :=
  map (fun i => start + idx i * step) (seq 0 n).

Lemma lattice_length a st n : length (lattice a st n) = n.
Proof. unfold lattice. rewrite map_length, seq_length. reflexivity. Qed.

Lemma lattice_nth a st n i : (i < n)%nat -> nth_error (lattice a st n) i = Some (a + idx i * st).
Proof.
  intro H. unfold lattice. rewrite nth_error_map.
  rewrite (nth_error_nth' (seq 0 n) 0%nat) by (rewrite seq_length; exact H).
  rewrite seq_nth by exact H. reflexivity.
Qed.

Lemma lattice_S a st n : lattice a st (S n) = lattice a st n ++ [a + idx n * st].
Proof. unfold lattice. rewrite seq_S, map_app. reflexivity. Qed.

Lemma last_opt_app {A} (l : list A) (x : A) : last_opt (l ++ [x]) = Some x.
Proof.
  destruct l as [|y l]; [reflexivity|]. cbn [app last_opt]. f_equal. apply last_last.
Qed.

Lemma arange_is_lattice a b st : arange a b st = lattice a st (arange_len a b st).
Proof. reflexivity. Qed.

(* the number of coordinates create_range_dim keeps: ceil(q - 1/2) with q = (stop-start)/step *)
Definition range_count (a b st : Q) : nat := Z.to_nat (Qceiling ((b - a) / st - (1 # 2))).

Lemma create_range_dim_spec a b st :
  0 < st -> a < b ->
  create_range_dim a b (Some st) None = Ok (lattice a st (range_count a b st), st).
Proof.
  intros Hst Hab. unfold create_range_dim.
  assert (Est : qeqb st 0 = false).
  { destruct (qeqb st 0) eqn:E; [|reflexivity]. apply qeqb_spec in E. lra. }
  rewrite Est. rewrite arange_is_lattice.
  set (q := (b - a) / st).
  assert (Hq : 0 < q). { unfold q. apply Qlt_shift_div_l; lra. }
  assert (Hqst : q * st == b - a). { unfold q. field. lra. }
  assert (Hrc : range_count a b st = Z.to_nat (Qceiling (q - (1 # 2)))) by reflexivity.
  assert (Hal : arange_len a b st = Z.to_nat (Qceiling q)) by reflexivity.
  rewrite Hrc, Hal. clearbody q. clear Hrc Hal.
  pose proof (Qceiling_bounds q) as [Hc1 Hc2].
  set (n0 := Qceiling q) in *. clearbody n0.
  assert (Hn0 : (1 <= n0)%Z).
  { assert (0 < inject_Z n0) by lra. change 0 with (inject_Z 0) in H. rewrite <- Zlt_Qlt in H. lia. }
  destruct (Z.to_nat n0) as [|m] eqn:Em; [lia|].
  assert (Hm : idx m == inject_Z n0 - 1).
  { unfold idx. replace (Z.of_nat m) with (n0 - 1)%Z by lia.
    rewrite inject_Z_pred. reflexivity. }
  assert (Hms : idx m * st == (inject_Z n0 - 1) * st) by (rewrite Hm; reflexivity).
  assert (Hhalf : st / 2 == st * (1 # 2)) by field.
  rewrite lattice_S, last_opt_app.
  destruct (qleb (b - st / 2) (a + idx m * st)) eqn:E.
  - apply qleb_spec in E. rewrite removelast_last. f_equal. f_equal. f_equal.
    rewrite (Qceiling_unique (q - (1 # 2)) (n0 - 1)).
    + lia.
    + rewrite inject_Z_pred. lra.
    + rewrite inject_Z_pred. apply (Qmult_le_r _ _ st Hst). lra.
  - apply qleb_false in E. rewrite <- lattice_S. f_equal. f_equal. f_equal.
    rewrite (Qceiling_unique (q - (1 # 2)) n0).
    + lia.
    + apply (Qmult_lt_r _ _ st Hst). lra.
    + lra.
Qed.

(* every coordinate is start + i*step and lies in [start, stop) *)
Lemma range_coords_inside a b st i :
  0 < st -> a < b -> (i < range_count a b st)%nat ->
  a <= a + idx i * st /\ a + idx i * st < b.
Proof.
  intros Hst Hab Hi. pose proof (idx_nonneg i). split; [nra|].
  unfold range_count in Hi. set (q := (b - a) / st) in *.
  assert (Hqst : q * st == b - a). { unfold q. field. lra. }
  clearbody q.
  pose proof (Qceiling_bounds (q - (1 # 2))) as [Hc1 _].
  assert (Hz : (Z.of_nat i < Qceiling (q - (1 # 2)))%Z) by lia.
  assert (Hi' : idx i + 1 <= inject_Z (Qceiling (q - (1 # 2)))).
  { unfold idx. change 1 with (inject_Z 1). rewrite <- inject_Z_plus, <- Zle_Qle. lia. }
  nra.
Qed.

(* exactly (stop-start)/step coordinates when that is a whole number *)
Lemma range_count_whole a b st (n : nat) :
  0 < st -> (b - a) / st == idx n -> range_count a b st = n.
Proof.
  intros Hst Hq. unfold range_count. rewrite Hq.
  rewrite (Qceiling_unique (idx n - (1 # 2)) (Z.of_nat n)); [lia| |]; unfold idx; lra.
Qed.

(* rounding-robust count: any quotient within 1/2 (exclusive below) of a whole number gives it *)
Lemma range_count_round a b st (n : nat) :
  idx n - (1 # 2) < (b - a) / st -> (b - a) / st <= idx n + (1 # 2) -> range_count a b st = n.
Proof.
  intros H1 H2. unfold range_count.
  rewrite (Qceiling_unique ((b - a) / st - (1 # 2)) (Z.of_nat n)); [lia| |]; unfold idx in *; lra.
Qed.

Lemma create_range_dim_size a b (n : Z) :
  (0 < n)%Z -> a < b ->
  exists st, st == (b - a) / inject_Z n /\
  create_range_dim a b None (Some n) = Ok (lattice a st (Z.to_nat n), st).
Proof.
  intros Hn Hab. exists ((b - a) / inject_Z n). split; [reflexivity|].
  assert (Hnq : 0 < inject_Z n). { change 0 with (inject_Z 0). rewrite <- Zlt_Qlt. exact Hn. }
  assert (Hst : 0 < (b - a) / inject_Z n). { apply Qlt_shift_div_l; lra. }
  pose proof (create_range_dim_spec a b _ Hst Hab) as H.
  unfold create_range_dim in *. assert (E : (n =? 0)%Z = false) by (apply Z.eqb_neq; lia). rewrite E.
  rewrite H. f_equal. f_equal. f_equal.
  apply range_count_whole; [exact Hst|].
  rewrite idx_to_nat by lia. field. split; lra.
Qed.

Lemma create_range_dim_errors a b :
  create_range_dim a b None None = Err EValue.
Proof. reflexivity. Qed.

Lemma time_range_is_range a b st :
  create_time_range a b (Some st) None = create_range_dim a b (Some st) None.
Proof. reflexivity. Qed.

Lemma time_range_samplerate a b sr :
  ~ sr == 0 -> create_time_range a b None (Some sr) = create_range_dim a b (Some (1 / sr)) None.
Proof.
  intro H. unfold create_time_range. destruct (qeqb sr 0) eqn:E; [|reflexivity].
  apply qeqb_spec in E. contradiction.
Qed.
