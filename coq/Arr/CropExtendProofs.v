From Coq Require Import QArith Lqa Lia Qround.
From SE Require Import Base.Num Base.Res Base.NumProofs Arr.Range Arr.Index Arr.RangeProofs Arr.IndexProofs Arr.CropExtend.
Open Scope Q_scope.

(* ---------- crop_dim ---------- *)
Definition in_intervalb (s e : Q) (lc rc : bool) (c : Q) : bool :=
  (if lc then qleb s c else qltb s c) && (if rc then qleb c e else qltb c e).

Lemma filter_ext_in' {A} (f g : A -> bool) l : (forall x, In x l -> f x = g x) -> filter f l = filter g l.
Proof.
  induction l as [|x l IH]; intro H; [reflexivity|]. cbn. rewrite (H x (or_introl eq_refl)).
  rewrite IH; [reflexivity|]. intros y Hy. apply H. right. exact Hy.
Qed.

(* exactly the samples inside the requested interval, provided no coordinate lies strictly within
   eps of an open end (on the inside) *)
Theorem crop_exact_partial a s e rc lc eps r :
  crop_dim a (Some s) (Some e) rc lc eps = Ok r -> 0 < eps ->
  (rc = false -> forall c, In c (coords a) -> ~ (e - eps < c /\ c < e)) ->
  (lc = false -> forall c, In c (coords a) -> ~ (s < c /\ c < s + eps)) ->
  r = filter (fun p => in_intervalb s e lc rc (fst p)) a.
Proof.
  unfold crop_dim. destruct (get_dim_range (coords a)) as [[cs ce]|]; [|discriminate]. cbn [opt_default].
  destruct (qltb e s); [discriminate|]. destruct (qltb s cs || qltb ce e)%bool; [discriminate|].
  intros H Heps Hr Hl. injection H as <-. unfold sel_slice. apply filter_ext_in'.
  intros [c v] Hin. cbn [fst]. assert (Hc : In c (coords a)) by (apply in_map_iff; exists (c, v); auto).
  unfold in_intervalb. f_equal.
  - destruct lc; [reflexivity|]. specialize (Hl eq_refl c Hc).
    destruct (qleb (s + eps) c) eqn:E1; destruct (qltb s c) eqn:E2; try reflexivity.
    + apply qleb_spec in E1. apply qltb_false in E2. lra.
    + apply qleb_false in E1. apply qltb_spec in E2. exfalso. apply Hl. split; assumption.
  - destruct rc; [reflexivity|]. specialize (Hr eq_refl c Hc).
    destruct (qleb c (e - eps)) eqn:E1; destruct (qltb c e) eqn:E2; try reflexivity.
    + apply qleb_spec in E1. apply qltb_false in E2. lra.
    + apply qleb_false in E1. apply qltb_spec in E2. exfalso. apply Hr. split; assumption.
Qed.

(* both ends closed: exact without any proviso *)
Theorem crop_exact_closed a s e eps r :
  crop_dim a (Some s) (Some e) true true eps = Ok r ->
  r = filter (fun p => in_intervalb s e true true (fst p)) a.
Proof.
  unfold crop_dim. destruct (get_dim_range (coords a)) as [[cs ce]|]; [|discriminate]. cbn [opt_default].
  destruct (qltb e s); [discriminate|]. destruct (qltb s cs || qltb ce e)%bool; [discriminate|].
  intro H. injection H as <-. reflexivity.
Qed.

(* the statement without the proviso is false of the code: the eps shift drops a sample *)
Theorem crop_exact_refuted :
  exists a s e r, crop_dim a (Some s) (Some e) false true (1 # 100000) = Ok r /\
    r <> filter (fun p => in_intervalb s e true false (fst p)) a.
Proof.
  exists [(0, 1); (1, 2); (2, 3); (3, 4); (4, 5); (5, 6); (6, 7)], 0, (5 + (1 # 1000000)).
  eexists. split; [vm_compute; reflexivity|]. vm_compute. discriminate.
Qed.

Theorem crop_rejects a s e rc lc eps cs ce :
  get_dim_range (coords a) = Some (cs, ce) -> (e < s \/ s < cs \/ ce < e) ->
  crop_dim a (Some s) (Some e) rc lc eps = Err EValue.
Proof.
  intros Hr H. unfold crop_dim. rewrite Hr. cbn [opt_default].
  destruct (qltb e s) eqn:E1; [reflexivity|]. apply qltb_false in E1.
  destruct (qltb s cs) eqn:E2; [reflexivity|]. destruct (qltb ce e) eqn:E3; [reflexivity|].
  apply qltb_false in E2. apply qltb_false in E3. exfalso. lra.
Qed.

(* cropping never changes a kept sample: the result is a sub-list of the axis *)
Theorem crop_sublist a s e rc lc eps r p :
  crop_dim a s e rc lc eps = Ok r -> In p r -> In p a.
Proof.
  unfold crop_dim. destruct (get_dim_range (coords a)) as [[cs ce]|]; [|discriminate].
  destruct (qltb _ _); [discriminate|]. destruct (_ || _)%bool; [discriminate|].
  intro H. injection H as <-. unfold sel_slice. intro Hp. apply filter_In in Hp. tauto.
Qed.

(* ---------- the outward lattices of extend_dim ---------- *)
Lemma in_arange_down a b st x : 0 < st ->
  In x (arange_down_rev a b st) <-> exists k : nat, x = a - idx k * st /\ b < a - idx k * st.
Proof.
  intro Hst. unfold arange_down_rev. rewrite <- in_rev, in_map_iff. split.
  - intros [k [<- Hk]]. exists k. split; [reflexivity|]. apply in_seq in Hk.
    set (q := (a - b) / st) in *. assert (Hq : q * st == a - b) by (unfold q; field; lra).
    pose proof (Qceiling_bounds q) as [Hc1 _].
    assert (Hz : (Z.of_nat k < Qceiling q)%Z) by lia.
    assert (Hi : idx k + 1 <= inject_Z (Qceiling q)).
    { unfold idx. change 1 with (inject_Z 1). rewrite <- inject_Z_plus, <- Zle_Qle. lia. }
    clearbody q. nra.
  - intros [k [-> Hk]]. exists k. split; [reflexivity|]. apply in_seq.
    set (q := (a - b) / st) in *. assert (Hq : q * st == a - b) by (unfold q; field; lra).
    pose proof (Qle_ceiling q) as Hc.
    assert (Hkq : idx k < q). { clearbody q. apply (Qmult_lt_r _ _ st Hst). lra. }
    assert (Hz : (Z.of_nat k < Qceiling q)%Z). { rewrite Zlt_Qlt. unfold idx in Hkq. lra. }
    lia.
Qed.

Lemma in_arange a b st x : 0 < st ->
  In x (arange a b st) <-> exists k : nat, x = a + idx k * st /\ a + idx k * st < b.
Proof.
  intro Hst. unfold arange. rewrite in_map_iff. split.
  - intros [k [<- Hk]]. exists k. split; [reflexivity|]. apply in_seq in Hk. unfold arange_len in Hk.
    set (q := (b - a) / st) in *. assert (Hq : q * st == b - a) by (unfold q; field; lra).
    pose proof (Qceiling_bounds q) as [Hc1 _].
    assert (Hz : (Z.of_nat k < Qceiling q)%Z) by lia.
    assert (Hi : idx k + 1 <= inject_Z (Qceiling q)).
    { unfold idx. change 1 with (inject_Z 1). rewrite <- inject_Z_plus, <- Zle_Qle. lia. }
    clearbody q. nra.
  - intros [k [-> Hk]]. exists k. split; [reflexivity|]. apply in_seq. unfold arange_len.
    set (q := (b - a) / st) in *. assert (Hq : q * st == b - a) by (unfold q; field; lra).
    pose proof (Qle_ceiling q) as Hc.
    assert (Hkq : idx k < q). { clearbody q. apply (Qmult_lt_r _ _ st Hst). lra. }
    assert (Hz : (Z.of_nat k < Qceiling q)%Z). { rewrite Zlt_Qlt. unfold idx in Hkq. lra. }
    lia.
Qed.

(* tl (arange a b st) = the points a + k*st, k >= 1, below b *)
Lemma in_tl_arange a b st x : 0 < st ->
  In x (tl (arange a b st)) <-> exists k : nat, x = a + idx (S k) * st /\ a + idx (S k) * st < b.
Proof.
  intro Hst. unfold arange. destruct (arange_len a b st) as [|n] eqn:En.
  - cbn. split; [tauto|]. intros [k [_ Hk]].
    assert (Hin : In (a + idx (S k) * st) (arange a b st)) by (apply in_arange; [exact Hst|exists (S k); auto]).
    unfold arange in Hin. rewrite En in Hin. destruct Hin.
  - cbn [seq map tl]. rewrite <- seq_shift, map_map, in_map_iff. split.
    + intros [k [<- Hk]]. exists k. split; [reflexivity|].
      assert (Hin : In (a + idx (S k) * st) (arange a b st)).
      { unfold arange. rewrite En. apply in_map_iff. exists (S k). split; [reflexivity|]. apply in_seq. apply in_seq in Hk. lia. }
      apply in_arange in Hin; [|exact Hst]. destruct Hin as [k' [Hx Hlt]]. rewrite Hx. exact Hlt.
    + intros [k [-> Hk]]. exists k. split; [reflexivity|].
      assert (Hin : In (a + idx (S k) * st) (arange a b st)) by (apply in_arange; [exact Hst|exists (S k); auto]).
      unfold arange in Hin. rewrite En in Hin. apply in_map_iff in Hin. destruct Hin as [j [Hj Hin]].
      apply in_seq in Hin. apply in_seq.
      assert (Hj' : a + idx j * st == a + idx (S k) * st) by (rewrite Hj; reflexivity).
      assert (Hjk : idx j == idx (S k)). { apply (Qmult_inj_r _ _ st); [intro Hz; lra|]. lra. }
      unfold idx in Hjk. apply (proj1 (inject_Z_injective _ _)) in Hjk. lia.
Qed.

(* ---------- reindex ---------- *)
Lemma reindex_length a cs fill : length (reindex a cs fill) = length cs.
Proof. apply map_length. Qed.

Lemma reindex_coords a cs fill : coords (reindex a cs fill) = cs.
Proof. unfold coords, reindex. rewrite map_map. cbn. apply map_id. Qed.

Lemma reindex_app a c1 c2 fill : reindex a (c1 ++ c2) fill = reindex a c1 fill ++ reindex a c2 fill.
Proof. apply map_app. Qed.

Lemma lookup_none a c : (forall x, In x (coords a) -> ~ x == c) -> lookup a c = None.
Proof.
  induction a as [|[c' v] a IH]; intro H; [reflexivity|]. cbn [lookup].
  destruct (qeqb c' c) eqn:E.
  - apply qeqb_spec in E. exfalso. apply (H c'); [left; reflexivity|exact E].
  - apply IH. intros x Hx. apply H. right. exact Hx.
Qed.

Lemma reindex_new a cs fill : (forall c x, In c cs -> In x (coords a) -> ~ x == c) ->
  reindex a cs fill = map (fun c => (c, fill)) cs.
Proof.
  intro H. unfold reindex. apply map_ext_in. intros c Hc.
  rewrite lookup_none; [reflexivity|]. intros x Hx. apply (H c x Hc Hx).
Qed.

Lemma incr_tail_gt c r x : incr (c :: r) -> In x r -> c < x.
Proof. intros [H _] Hx. apply H. exact Hx. Qed.

Lemma reindex_self a fill : incr (coords a) -> reindex a (coords a) fill = a.
Proof.
  induction a as [|[c v] a IH]; intro Hinc; [reflexivity|].
  cbn [coords map fst] in Hinc. destruct Hinc as [Hlt Hinc].
  unfold reindex. cbn [coords map fst lookup].
  assert (E : qeqb c c = true) by (apply qeqb_spec; reflexivity). rewrite E. cbn [opt_default]. f_equal.
  rewrite <- (IH Hinc) at 2. unfold reindex. apply map_ext_in. intros x Hx. f_equal. cbn [lookup].
  assert (E2 : qeqb c x = false).
  { destruct (qeqb c x) eqn:E2; [|reflexivity]. apply qeqb_spec in E2. specialize (Hlt x Hx). lra. }
  rewrite E2. reflexivity.
Qed.

Lemma incr_le_last r : forall c x, incr (c :: r) -> In x (c :: r) -> x <= last r c.
Proof.
  induction r as [|y r IH]; intros c x Hinc Hx.
  - destruct Hx as [<-|[]]. cbn. lra.
  - rewrite last_cons. destruct Hinc as [Hlt Hinc]. destruct Hx as [<-|Hx].
    + specialize (IH y y Hinc (or_introl eq_refl)). specialize (Hlt y (or_introl eq_refl)). lra.
    + apply IH; assumption.
Qed.

(* ---------- width operations ---------- *)
Theorem crop_width_length a w pos r : (1 <= w)%nat -> crop_dim_width a w pos = Ok r -> length r = w.
Proof.
  intro Hw. unfold crop_dim_width. destruct (length a <=? w)%nat eqn:E; [discriminate|].
  apply Nat.leb_gt in E. intro H. injection H as <-. destruct pos.
  - rewrite firstn_length. lia.
  - unfold slice_list. rewrite firstn_length, skipn_length.
    change (fst (Nat.divmod (length a) 1 0 1)) with (Nat.div (length a) 2).
    change (fst (Nat.divmod w 1 0 1)) with (Nat.div w 2).
    pose proof (Nat.div_mod_eq (length a) 2). pose proof (Nat.div_mod_eq w 2).
    pose proof (Nat.mod_upper_bound (length a) 2 ltac:(lia)). pose proof (Nat.mod_upper_bound w 2 ltac:(lia)). lia.
  - assert (Ew : (w =? 0)%nat = false) by (apply Nat.eqb_neq; lia). rewrite Ew. rewrite skipn_length. lia.
Qed.

(* placement: the kept block is the first / last / centred w samples *)
Theorem crop_width_placement a w pos r : (1 <= w)%nat -> crop_dim_width a w pos = Ok r ->
  exists from, r = slice_list a from w /\
    match pos with
    | PStart => from = 0%nat
    | PEnd => from = (length a - w)%nat
    | PCenter => from = (Nat.div (length a) 2 - Nat.div w 2)%nat
    end.
Proof.
  intro Hw. unfold crop_dim_width. destruct (length a <=? w)%nat eqn:E; [discriminate|].
  apply Nat.leb_gt in E. intro H. injection H as <-. destruct pos.
  - exists 0%nat. split; reflexivity.
  - eexists. split; reflexivity.
  - assert (Ew : (w =? 0)%nat = false) by (apply Nat.eqb_neq; lia). rewrite Ew.
    exists (length a - w)%nat. split; [|reflexivity]. unfold slice_list.
    rewrite firstn_all2; [reflexivity|]. rewrite skipn_length. lia.
Qed.

Lemma up_length (ce step : Q) k : length (map (fun i => ce + step * idx (S i)) (seq 0 k)) = k.
Proof. rewrite map_length, seq_length. reflexivity. Qed.

Theorem extend_width_length a step w fill pos r : extend_dim_width a step w fill pos = Ok r -> length r = w.
Proof.
  unfold extend_dim_width. destruct (coords a) as [|c0 rest] eqn:Ec; [discriminate|].
  destruct (w <=? length a)%nat eqn:E; [discriminate|]. apply Nat.leb_gt in E.
  intro H. injection H as <-. rewrite reindex_length.
  assert (Hn : length (c0 :: rest) = length a) by (rewrite <- Ec; apply map_length).
  pose proof (Nat.div_mod_eq (w - length a) 2). pose proof (Nat.mod_upper_bound (w - length a) 2 ltac:(lia)).
  cbn [length] in Hn.
  destruct pos; cbn [app length]; rewrite ?app_length, ?rev_length, ?map_length, ?seq_length; cbn [app length];
    rewrite ?app_length, ?map_length, ?seq_length;
    try change (fst (Nat.divmod (w - length a) 1 0 1)) with (Nat.div (w - length a) 2); lia.
Qed.

(* adjust_dim_width returns exactly `width` samples for every width >= 1 *)
Theorem adjust_width_exact a step w fill pos r :
  adjust_dim_width a step w fill pos = Ok r -> (1 <= w)%Z /\ length r = Z.to_nat w.
Proof.
  unfold adjust_dim_width. destruct (w <? 1)%Z eqn:E1; [discriminate|]. apply Z.ltb_ge in E1.
  destruct (Z.to_nat w =? length a)%nat eqn:E2.
  - apply Nat.eqb_eq in E2. intro H. injection H as <-. split; [exact E1|]. symmetry. exact E2.
  - destruct (Z.to_nat w <? length a)%nat eqn:E3.
    + intro H. split; [exact E1|]. apply (crop_width_length a _ pos r); [lia|exact H].
    + intro H. split; [exact E1|]. apply (extend_width_length a step _ fill pos r H).
Qed.

Theorem adjust_width_rejects a step w fill pos : (w < 1)%Z -> adjust_dim_width a step w fill pos = Err EValue.
Proof. intro H. unfold adjust_dim_width. apply Z.ltb_lt in H. rewrite H. reflexivity. Qed.

(* placement when extending a strictly increasing axis with step > 0: the original block sits at
   offset 0 / extra / extra/2, every new sample holds the fill value and continues the lattice *)
Theorem extend_width_placement a step w fill pos r c0 rest :
  0 < step -> incr (coords a) -> coords a = c0 :: rest ->
  extend_dim_width a step w fill pos = Ok r ->
  let extra := (w - length a)%nat in
  let ce := last rest c0 in
  let up k := map (fun i => (ce + step * idx (S i), fill)) (seq 0 k) in
  let down k := rev (map (fun i => (c0 - step * idx (S i), fill)) (seq 0 k)) in
  r = match pos with
      | PStart => a ++ up extra
      | PEnd => down extra ++ a
      | PCenter => down (Nat.div extra 2) ++ a ++ up (extra - Nat.div extra 2)%nat
      end.
Proof.
  intros Hst Hinc Hc. unfold extend_dim_width. rewrite Hc.
  destruct (w <=? length a)%nat; [discriminate|]. intro H. injection H as <-. cbn zeta.
  rewrite ?app_comm_cons, <- Hc.
  assert (Hfirst : forall x, In x (coords a) -> c0 <= x).
  { intros x Hx. rewrite Hc in Hx, Hinc. destruct Hx as [<-|Hx]; [lra|]. pose proof (incr_tail_gt c0 rest x Hinc Hx). lra. }
  assert (Hlast : forall x, In x (coords a) -> x <= last rest c0).
  { rewrite Hc. rewrite Hc in Hinc. intros x Hx. apply incr_le_last; assumption. }
  assert (Hup : forall k, reindex a (map (fun i => last rest c0 + step * idx (S i)) (seq 0 k)) fill
                          = map (fun i => (last rest c0 + step * idx (S i), fill)) (seq 0 k)).
  { intro k. rewrite reindex_new; [rewrite map_map; reflexivity|].
    intros c x Hcin Hx Heq. apply in_map_iff in Hcin. destruct Hcin as [i [<- _]].
    specialize (Hlast x Hx). pose proof (idx_nonneg i). rewrite idx_S in Heq. nra. }
  assert (Hdown : forall k, reindex a (rev (map (fun i => c0 - step * idx (S i)) (seq 0 k))) fill
                            = rev (map (fun i => (c0 - step * idx (S i), fill)) (seq 0 k))).
  { intro k. rewrite reindex_new; [rewrite <- map_rev, <- map_rev, map_map; reflexivity|].
    intros c x Hcin Hx Heq. apply in_rev in Hcin. apply in_map_iff in Hcin. destruct Hcin as [i [<- _]].
    specialize (Hfirst x Hx). pose proof (idx_nonneg i). rewrite idx_S in Heq. nra. }
  destruct pos; rewrite !reindex_app, ?Hup, ?Hdown, (reindex_self a fill Hinc); reflexivity.
Qed.

(* ---------- extend_dim ---------- *)
Lemma last_app_nonempty {A} (l1 l2 : list A) d : l2 <> [] -> last (l1 ++ l2) d = last l2 d.
Proof.
  intro H. induction l1 as [|x l1 IH]; [reflexivity|]. cbn [app].
  destruct (l1 ++ l2) as [|y l] eqn:E; [destruct l1; [contradiction|discriminate]|].
  cbn [last]. exact IH.
Qed.

(* the axis is continued on its own lattice; originals keep coordinate and value, new samples hold
   the fill value.  s' / e' are the requested ends shifted by eps where the end is closed. *)
Theorem extend_dim_spec a step start stop fill eps lc rc r c0 rest :
  0 < step -> incr (coords a) -> coords a = c0 :: rest ->
  extend_dim a step start stop fill eps lc rc = Ok r ->
  let cs := c0 in let ce := last rest c0 in
  let s := opt_default start cs in let e := opt_default stop ce in
  let s' := if lc then s - eps else s in
  let e' := if rc then e + eps else e in
  let down := if qleb s' (cs - step) then arange_down_rev (cs - step) s' step else [] in
  let up := if qleb ce e' then tl (arange ce e' step) else [] in
  r = map (fun c => (c, fill)) down ++ a ++ map (fun c => (c, fill)) up.
Proof.
  intros Hst Hinc Hc. unfold extend_dim. rewrite Hc.
  rewrite (range_of_incr c0 rest) by (rewrite <- Hc; exact Hinc).
  cbn zeta. set (s := opt_default start c0). set (e := opt_default stop (last rest c0)).
  destruct (qltb e s); [discriminate|]. intro H. injection H as <-.
  set (s' := if lc then s - eps else s). set (e' := if rc then e + eps else e).
  rewrite <- Hc.
  assert (Hfirst : forall x, In x (coords a) -> c0 <= x).
  { intros x Hx. rewrite Hc in Hx, Hinc. destruct Hx as [<-|Hx]; [lra|]. pose proof (incr_tail_gt c0 rest x Hinc Hx). lra. }
  assert (Hlast : forall x, In x (coords a) -> x <= last rest c0).
  { rewrite Hc. rewrite Hc in Hinc. intros x Hx. apply incr_le_last; assumption. }
  assert (Hne : coords a <> []) by (rewrite Hc; discriminate).
  assert (Hl : forall l, last (l ++ coords a) 0 = last rest c0).
  { intro l. rewrite (last_app_nonempty l (coords a) 0 Hne). rewrite Hc. apply last_cons. }
  assert (Hdown : forall x, In x (arange_down_rev (c0 - step) s' step) -> x < c0).
  { intros x Hx. apply in_arange_down in Hx; [|exact Hst]. destruct Hx as [k [-> _]]. pose proof (idx_nonneg k). nra. }
  assert (Hup : forall x, In x (tl (arange (last rest c0) e' step)) -> last rest c0 < x).
  { intros x Hx. apply in_tl_arange in Hx; [|exact Hst]. destruct Hx as [k [-> _]]. pose proof (idx_nonneg k). rewrite idx_S. nra. }
  assert (Hrd : reindex a (arange_down_rev (c0 - step) s' step) fill
                = map (fun c => (c, fill)) (arange_down_rev (c0 - step) s' step)).
  { apply reindex_new. intros c x Hcin Hx Heq. specialize (Hdown c Hcin). specialize (Hfirst x Hx). lra. }
  assert (Hru : reindex a (tl (arange (last rest c0) e' step)) fill
                = map (fun c => (c, fill)) (tl (arange (last rest c0) e' step))).
  { apply reindex_new. intros c x Hcin Hx Heq. specialize (Hup c Hcin). specialize (Hlast x Hx). lra. }
  pose proof (Hl []) as Hl0. cbn [app] in Hl0.
  destruct (qleb s' (c0 - step)); destruct (qleb (last rest c0) e').
  - rewrite Hl, !reindex_app, Hrd, Hru, (reindex_self a fill Hinc), <- app_assoc. reflexivity.
  - rewrite reindex_app, Hrd, (reindex_self a fill Hinc). cbn [map]. rewrite app_nil_r. reflexivity.
  - rewrite Hl0, reindex_app, Hru, (reindex_self a fill Hinc). reflexivity.
  - rewrite (reindex_self a fill Hinc). cbn [map app]. rewrite app_nil_r. reflexivity.
Qed.

(* which lattice points are added: exactly those strictly inside (s', e') beyond the axis *)
Theorem extend_left_points c0 step s' x : 0 < step ->
  In x (arange_down_rev (c0 - step) s' step) <-> exists k : nat, x = c0 - step - idx k * step /\ s' < x.
Proof.
  intro Hst. rewrite in_arange_down by exact Hst. split; intros [k [-> H]]; exists k; split; auto.
Qed.

Theorem extend_right_points ce step e' x : 0 < step ->
  In x (tl (arange ce e' step)) <-> exists k : nat, x = ce + idx (S k) * step /\ x < e'.
Proof.
  intro Hst. rewrite in_tl_arange by exact Hst. split; intros [k [-> H]]; exists k; split; auto.
Qed.

Theorem extend_rejects a step s e fill eps lc rc cs ce :
  get_dim_range (coords a) = Some (cs, ce) -> e < s ->
  extend_dim a step (Some s) (Some e) fill eps lc rc = Err EValue.
Proof.
  intros Hr H. unfold extend_dim. rewrite Hr. cbn [opt_default].
  assert (E : qltb e s = true) by (apply qltb_spec; exact H). rewrite E. reflexivity.
Qed.
