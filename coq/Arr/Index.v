(* Arr/Index.v — get_dim_range, get_coord_index (dimensions.py) and set_value_at_pos
   (arrays/operations.py). *)
From SE Require Export Base.Num Base.Res Arr.Range.
Open Scope Q_scope.

(* pandas Index.get_slice_bound(v, 'right') on an increasing index = searchsorted(v, 'right'):
   the number of leading coordinates <= v *)
Fixpoint slice_bound_right (cs : list Q) (v : Q) : nat :=
  match cs with
  | [] => O
  | c :: r => if qleb c v then S (slice_bound_right r v) else O
  end.

Definition get_dim_range (cs : list Q) : option (Q * Q) :=
  match cs with
  | [] => None
  | c :: r => Some (qmin_list c r, qmax_list c r)
  end.

(* result is a Python int: Z (value < start with raise_error=False gives 0, value > stop gives size) *)
Definition get_coord_index (cs : list Q) (v : Q) (raise_error : bool) : res Z :=
  match get_dim_range cs with
  | None => Err EValue
  | Some (start, stop) =>
      if qltb v start || qltb stop v then
        if raise_error then Err EKey
        else if qltb v start then Ok 0%Z else Ok (Z.of_nat (length cs))
      else Ok (Z.of_nat (slice_bound_right cs v) - 1)%Z
  end.

(* ---- set_value_at_pos on an n-d array stored row-major ---- *)
(* an indexer entry: None = slice(None), Some i = integer index on that axis *)
Fixpoint positions (shape : list nat) : list (list nat) :=
  match shape with
  | [] => [[]]
  | n :: r => flat_map (fun i => map (cons i) (positions r)) (seq 0 n)
  end.

Fixpoint addressed (indexer : list (option nat)) (p : list nat) : bool :=
  match indexer, p with
  | [], [] => true
  | None :: ir, _ :: pr => addressed ir pr
  | Some i :: ir, j :: pr => Nat.eqb i j && addressed ir pr
  | _, _ => false
  end.

Inductive setval := Scalar (x : Q) | Block (xs : list Q).

(* walk the positions in row-major order; k counts the addressed positions met so far *)
Fixpoint set_walk (indexer : list (option nat)) (v : setval) (ps : list (list nat)) (old : list Q) (k : nat) : list Q :=
  match ps, old with
  | p :: pr, o :: orest =>
      if addressed indexer p then
        (match v with Scalar x => x | Block xs => nth k xs o end) :: set_walk indexer v pr orest (S k)
      else o :: set_walk indexer v pr orest k
  | _, _ => []
  end.

Definition nb_addressed (indexer : list (option nat)) (shape : list nat) : nat :=
  length (filter (addressed indexer) (positions shape)).

(* query: one optional coordinate value per axis; coords: the coordinate list of each axis *)
Fixpoint build_indexer (coords : list (list Q)) (query : list (option Q)) : res (list (option nat)) :=
  match coords, query with
  | [], [] => Ok []
  | cs :: cr, q :: qr =>
      match build_indexer cr qr with
      | Err e => Err e
      | Ok rest =>
          match q with
          | None => Ok (None :: rest)
          | Some v =>
              match get_coord_index cs v true with
              | Err e => Err e
              | Ok i => Ok (Some (Z.to_nat i) :: rest)
              end
          end
      end
  | _, _ => Err EOther
  end.

(* first failing axis in query order is what Python reports; all failures are KeyError, so the
   class does not depend on the order *)
Definition set_value_at_pos (coords : list (list Q)) (data : list Q) (v : setval) (query : list (option Q))
  : res (list Q) :=
  match build_indexer coords query with
  | Err e => Err e
  | Ok indexer =>
      let shape := map (@length Q) coords in
      match v with
      | Block xs =>
          if Nat.eqb (length xs) (nb_addressed indexer shape)
          then Ok (set_walk indexer v (positions shape) data 0)
          else Err EValue            (* numpy: could not broadcast *)
      | Scalar _ => Ok (set_walk indexer v (positions shape) data 0)
      end
  end.
