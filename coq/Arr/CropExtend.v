(* Arr/CropExtend.v — crop_dim, extend_dim, crop_dim_width, extend_dim_width, adjust_dim_width
   (soundevent/arrays/operations.py) on one axis: the data along the axis is a list of
   (coordinate, value) pairs in increasing coordinate order. *)
From SE Require Export Base.Num Base.Res Arr.Range Arr.Index.
From Coq Require Import Qround.
Open Scope Q_scope.

Definition axis := list (Q * Q).
Definition coords (a : axis) : list Q := map fst a.

Definition opt_default (x : option Q) (d : Q) : Q := match x with Some v => v | None => d end.

(* arr.sel({dim: slice(lo, hi)}) on an increasing index: labels lo <= c <= hi *)
Definition sel_slice (a : axis) (lo hi : Q) : axis :=
  filter (fun p => qleb lo (fst p) && qleb (fst p) hi) a.

Definition crop_dim (a : axis) (start stop : option Q) (right_closed left_closed : bool) (eps : Q) : res axis :=
  match get_dim_range (coords a) with
  | None => Err EValue
  | Some (cs, ce) =>
      let left_closed := match start with None => true | Some _ => left_closed end in
      let right_closed := match stop with None => true | Some _ => right_closed end in
      let start := opt_default start cs in
      let stop := opt_default stop ce in
      if qltb stop start then Err EValue
      else if qltb start cs || qltb ce stop then Err EValue
      else
        let slice_end := if right_closed then stop else stop - eps in
        let slice_start := if left_closed then start else start + eps in
        Ok (sel_slice a slice_start slice_end)
  end.

(* np.arange(a, b, -st)[::-1] for st > 0: a - i*st > b, listed increasingly *)
Definition arange_down_rev (a b st : Q) : list Q :=
  rev (map (fun i => a - idx i * st) (seq 0 (Z.to_nat (Qceiling ((a - b) / st))))).

(* reindex: a coordinate keeps its old value, a new one gets the fill value *)
Fixpoint lookup (a : axis) (c : Q) : option Q :=
  match a with
  | [] => None
  | (c', v) :: r => if qeqb c' c then Some v else lookup r c
  end.
Definition reindex (a : axis) (cs : list Q) (fill : Q) : axis :=
  map (fun c => (c, opt_default (lookup a c) fill)) cs.

Definition extend_dim (a : axis) (step : Q) (start stop : option Q) (fill eps : Q)
           (left_closed right_closed : bool) : res axis :=
  match get_dim_range (coords a) with
  | None => Err EValue
  | Some (cs, ce) =>
      let start := opt_default start cs in
      let stop := opt_default stop ce in
      if qltb stop start then Err EValue
      else
        let start := if left_closed then start - eps else start in
        let stop := if right_closed then stop + eps else stop in
        let c1 := if qleb start (cs - step)
                  then arange_down_rev (cs - step) start step ++ coords a else coords a in
        let last1 := last c1 0 in
        let c2 := if qleb ce stop then c1 ++ tl (arange last1 stop step) else c1 in
        Ok (reindex a c2 fill)
  end.

Inductive position := PStart | PCenter | PEnd.

Definition slice_list {A} (l : list A) (from len : nat) : list A := firstn len (skipn from l).

Definition crop_dim_width (a : axis) (width : nat) (pos : position) : res axis :=
  let n := length a in
  if (n <=? width)%nat then Err EValue
  else Ok (match pos with
           | PStart => firstn width a
           | PEnd => if (width =? 0)%nat then a else skipn (n - width) a
           | PCenter => slice_list a (Nat.div n 2 - Nat.div width 2) width
           end).

Definition extend_dim_width (a : axis) (step : Q) (width : nat) (fill : Q) (pos : position) : res axis :=
  let n := length a in
  match coords a with
  | [] => Err EOther
  | c0 :: rest =>
      let cs := c0 in
      let ce := last rest c0 in
      if (width <=? n)%nat then Err EValue
      else
        let extra := (width - n)%nat in
        (* current_end + step * np.arange(1, k + 1)  /  current_start - step * np.arange(k, 0, -1) *)
        let up (k : nat) := map (fun i => ce + step * idx (S i)) (seq 0 k) in
        let down (k : nat) := rev (map (fun i => cs - step * idx (S i)) (seq 0 k)) in
        let cs' := match pos with
                   | PStart => coords a ++ up extra
                   | PEnd => down extra ++ coords a
                   | PCenter => let es := Nat.div extra 2 in down es ++ coords a ++ up (extra - es)%nat
                   end in
        Ok (reindex a cs' fill)
  end.

Definition adjust_dim_width (a : axis) (step : Q) (width : Z) (fill : Q) (pos : position) : res axis :=
  if (width <? 1)%Z then Err EValue
  else
    let w := Z.to_nat width in
    if (w =? length a)%nat then Ok a
    else if (w <? length a)%nat then crop_dim_width a w pos
    else extend_dim_width a step w fill pos.

(* estimate_dim_step: mean of the differences (tolerance check omitted: regular axes only) *)
Definition estimate_step (cs : list Q) : option Q :=
  match cs with
  | c0 :: (_ :: _) as r => Some ((last r c0 - c0) / idx (length r))
  | _ => None
  end.

Fixpoint axis_close (tol : Q) (a b : axis) : bool :=
  match a, b with
  | [], [] => true
  | (c, v) :: a', (c', v') :: b' => qclose tol c c' && qeqb v v' && axis_close tol a' b'
  | _, _ => false
  end.
Definition raxis_eqb (tol : Q) := res_eqb (axis_close tol).
