(* Geom/Validate.v — model of the validators of soundevent/data/geometries.py and of
   geometry_validate.  Input is a JSON-like numeric tree.  pydantic's shape check followed by the
   tuple-unpacking arity checks of the validators is [parse]; the range / ordering rules are
   [accept]; the two normalising validators are [normalise].  Every failure is a validation error. *)
From SE Require Export Geom.Geometry.
Open Scope Q_scope.

Inductive tree := Num (q : Q) | Lst (l : list tree).

Fixpoint all_some {A} (l : list (option A)) : option (list A) :=
  match l with
  | [] => Some []
  | None :: _ => None
  | Some x :: r => match all_some r with Some r' => Some (x :: r') | None => None end
  end.

Definition as_num (t : tree) : option Q := match t with Num q => Some q | _ => None end.
Definition as_pt (t : tree) : option pt :=
  match t with Lst [Num a; Num b] => Some (a, b) | _ => None end.
Definition as_pts (t : tree) : option (list pt) :=
  match t with Lst l => all_some (map as_pt l) | _ => None end.
Definition as_ptss (t : tree) : option (list (list pt)) :=
  match t with Lst l => all_some (map as_pts l) | _ => None end.
Definition as_ptsss (t : tree) : option (list (list (list pt))) :=
  match t with Lst l => all_some (map as_ptss l) | _ => None end.

Definition parse (T : gtype) (t : tree) : option geom :=
  match T with
  | TTimeStamp => option_map TimeStamp (as_num t)
  | TTimeInterval => match t with Lst [Num a; Num b] => Some (TimeInterval a b) | _ => None end
  | TPoint => match t with Lst [Num a; Num b] => Some (Point a b) | _ => None end
  | TLineString => option_map LineString (as_pts t)
  | TPolygon => option_map Polygon (as_ptss t)
  | TBBox => match t with Lst [Num a; Num b; Num c; Num d] => Some (BBox a b c d) | _ => None end
  | TMultiPoint => option_map MultiPoint (as_pts t)
  | TMultiLineString => option_map MultiLineString (as_ptss t)
  | TMultiPolygon => option_map MultiPolygon (as_ptsss t)
  end.

(* the accept condition on the coordinates as given (before normalisation) *)
Definition accept (g : geom) : bool :=
  match g with
  | TimeStamp t => qleb 0 t
  | TimeInterval s e => qleb s e && qleb 0 s && qleb 0 e
  | Point t f => pt_okb (t, f)
  | LineString l => line_okb l
  | Polygon rs => poly_okb rs
  | BBox s lo e hi => qleb 0 s && qleb 0 lo && qleb lo MAXF && qleb 0 e && qleb 0 hi && qleb hi MAXF
  | MultiPoint l => (1 <=? length l)%nat && forallb pt_okb l
  | MultiLineString ls =>
      (1 <=? length ls)%nat && forallb line_okb ls
      && forallb (fun l => qltb (first_time l) (last_time l)) ls
  | MultiPolygon ps => (1 <=? length ps)%nat && forallb poly_okb ps
  end.

Definition normalise (g : geom) : geom :=
  match g with
  | LineString l => if qltb (last_time l) (first_time l) then LineString (rev l) else g
  | BBox s lo e hi =>
      let (s', e') := if qltb e s then (e, s) else (s, e) in
      let (lo', hi') := if qltb hi lo then (hi, lo) else (lo, hi) in
      BBox s' lo' e' hi'
  | _ => g
  end.

Definition validate (T : gtype) (t : tree) : res geom :=
  match parse T t with
  | None => Err EValidation
  | Some g => if accept g then Ok (normalise g) else Err EValidation
  end.

(* JSON dump of the coordinates of a geometry *)
Definition dump_pt (p : pt) : tree := Lst [Num (fst p); Num (snd p)].
Definition dump_pts (l : list pt) : tree := Lst (map dump_pt l).
Definition dump_ptss (l : list (list pt)) : tree := Lst (map dump_pts l).
Definition dump_ptsss (l : list (list (list pt))) : tree := Lst (map dump_ptss l).
Definition dump (g : geom) : tree :=
  match g with
  | TimeStamp t => Num t
  | TimeInterval s e => Lst [Num s; Num e]
  | Point t f => Lst [Num t; Num f]
  | LineString l => dump_pts l
  | Polygon rs => dump_ptss rs
  | BBox s lo e hi => Lst [Num s; Num lo; Num e; Num hi]
  | MultiPoint l => dump_pts l
  | MultiLineString ls => dump_ptss ls
  | MultiPolygon ps => dump_ptsss ps
  end.

(* geometry_validate: the type tag selects the class; an unknown tag is a ValueError, a
   validation failure is re-raised as ValueError *)
Definition tag_lookup (tag : nat) : option gtype :=
  nth_error [TTimeStamp; TTimeInterval; TPoint; TLineString; TPolygon; TBBox; TMultiPoint;
             TMultiLineString; TMultiPolygon] tag.

Definition geometry_validate (tag : nat) (t : tree) : res geom :=
  match tag_lookup tag with
  | None => Err EValue
  | Some T => match validate T t with Ok g => Ok g | Err _ => Err EValue end
  end.

Definition rgeom_eqb := res_eqb geom_eqb.
