(* Geom/Raster.v — model of soundevent.geometry.operations.rasterize.
   The template is given by its time and frequency coordinate lists (its dimension order, extra
   dimensions and contents do not enter the model: the property says they must not matter).
   Vertices are mapped to bin indices with get_coord_index(raise_error=False); rasterio/GDAL burns
   the mapped shapes: a cell (i, j) is set when its centre (i+1/2, j+1/2) lies inside the polygon.
   The model decides every cell whose centre is strictly inside or strictly outside; a centre on an
   edge, and the cells near zero-area shapes (points, lines: GDAL burns them with a line algorithm),
   are left undecided (None) and are not compared. *)
From SE Require Export Geom.Geometry Arr.Index.
Open Scope Q_scope.

Inductive status := SIn | SOut | SAmb.

Definition zq (z : Z) : Q := inject_Z z.

Definition map_pt (tc fc : list Q) (p : pt) : option pt :=
  match get_coord_index tc (fst p) false, get_coord_index fc (snd p) false with
  | Ok i, Ok j => Some (zq i, zq j)
  | _, _ => None
  end.

Fixpoint map_all {A B} (f : A -> option B) (l : list A) : option (list B) :=
  match l with
  | [] => Some []
  | x :: r => match f x, map_all f r with Some y, Some r' => Some (y :: r') | _, _ => None end
  end.

(* --- point in ring, even-odd rule, with on-edge detection --- *)
Definition on_segment (p a b : pt) : bool :=
  let cross := (fst b - fst a) * (snd p - snd a) - (snd b - snd a) * (fst p - fst a) in
  qeqb cross 0
  && qleb (pymin (fst a) (fst b)) (fst p) && qleb (fst p) (pymax (fst a) (fst b))
  && qleb (pymin (snd a) (snd b)) (snd p) && qleb (snd p) (pymax (snd a) (snd b)).

(* does the ray from p towards +x cross the segment a-b (half-open in y) *)
Definition crosses (p a b : pt) : bool :=
  if Bool.eqb (qltb (snd p) (snd a)) (qltb (snd p) (snd b)) then false
  else qltb (fst p) (fst a + (snd p - snd a) * (fst b - fst a) / (snd b - snd a)).

Fixpoint ring_edges (first : pt) (r : list pt) : list (pt * pt) :=
  match r with
  | [] => []
  | [a] => [(a, first)]
  | a :: ((b :: _) as rest) => (a, b) :: ring_edges first rest
  end.
Definition edges_of_ring (r : list pt) : list (pt * pt) :=
  match r with [] => [] | a :: _ => ring_edges a r end.

Definition rings_status (rings : list (list pt)) (p : pt) : status :=
  let es := flat_map edges_of_ring rings in
  if existsb (fun e => on_segment p (fst e) (snd e)) es then SAmb
  else if Nat.odd (length (filter (fun e => crosses p (fst e) (snd e)) es)) then SIn else SOut.

Definition pts_bbox_near (l : list pt) (p : pt) : bool :=
  match env_of l with
  | None => false
  | Some b => qleb (b_start b - 2) (fst p) && qleb (fst p) (b_end b + 2)
              && qleb (b_low b - 2) (snd p) && qleb (snd p) (b_high b + 2)
  end.

(* mapped shape: polygons as lists of rings; zero-area shapes as their point list *)
Inductive mshape := MPolys (polys : list (list (list pt))) | MThin (pts : list pt).

Definition mshape_pts (m : mshape) : list pt :=
  match m with MPolys ps => concat (map (@concat pt) ps) | MThin l => l end.

Definition shape_status (all_touched : bool) (m : mshape) (p : pt) : status :=
  let near := pts_bbox_near (mshape_pts m) p in
  match m with
  | MThin _ => if near then SAmb else SOut
  | MPolys ps =>
      let sts := map (fun rings => rings_status rings p) ps in
      if existsb (fun s => match s with SIn => true | _ => false end) sts then SIn
      else if existsb (fun s => match s with SAmb => true | _ => false end) sts then SAmb
      else if all_touched && near then SAmb else SOut
  end.

Definition map_shape (tc fc : list Q) (s : shp) : option mshape :=
  let mp := map_all (map_pt tc fc) in
  match s with
  | SPoint p => option_map MThin (mp [p])
  | SLine l => option_map MThin (mp l)
  | SMultiPoint l => option_map MThin (mp l)
  | SMultiLine ls => option_map MThin (mp (concat ls))
  | SPoly sh hs => option_map (fun rs => MPolys [rs]) (map_all mp (sh :: hs))
  | SMultiPoly ps => option_map MPolys (map_all (fun p => map_all mp (fst p :: snd p)) ps)
  end.

(* one cell: later geometries overwrite earlier ones; None = undecided *)
Definition cell_value (all_touched : bool) (shapes : list (mshape * Q)) (fill : Q) (i j : nat) : option Q :=
  let centre := (idx i + (1 # 2), idx j + (1 # 2)) in
  fold_left (fun acc sv =>
               match shape_status all_touched (fst sv) centre with
               | SIn => Some (snd sv) | SOut => acc | SAmb => None
               end) shapes (Some fill).

Definition grid (nt nf : nat) (f : nat -> nat -> option Q) : list (list (option Q)) :=
  map (fun i => map (fun j => f i j) (seq 0 nf)) (seq 0 nt).

(* values: a single number is used for every geometry; a list must have the same length *)
Inductive vals := VOne (v : Q) | VList (l : list Q).

Definition rasterize (tc fc : list Q) (geoms : list geom) (values : vals) (fill : Q) (all_touched : bool)
  : res (list (list (option Q))) :=
  let vs := match values with VOne v => repeat v (length geoms) | VList l => l end in
  if negb (Nat.eqb (length vs) (length geoms)) then Err EValue
  else
    match map_all (fun g => map_shape tc fc (to_shapely g)) geoms with
    | None => Err EOther
    | Some ms => Ok (grid (length tc) (length fc) (cell_value all_touched (combine ms vs) fill))
    end.

(* comparison with an observed grid: every decided cell must agree *)
Definition cell_agrees (m : option Q) (o : Q) : bool := match m with None => true | Some v => qeqb v o end.
Fixpoint row_agrees (m : list (option Q)) (o : list Q) : bool :=
  match m, o with
  | [], [] => true
  | x :: m', y :: o' => cell_agrees x y && row_agrees m' o'
  | _, _ => false
  end.
Fixpoint grid_agrees (m : list (list (option Q))) (o : list (list Q)) : bool :=
  match m, o with
  | [], [] => true
  | x :: m', y :: o' => row_agrees x y && grid_agrees m' o'
  | _, _ => false
  end.
Definition decided_cells (m : list (list (option Q))) : nat :=
  length (filter (fun c => match c with Some _ => true | None => false end) (concat m)).
