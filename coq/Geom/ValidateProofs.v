From Coq Require Import QArith Lqa Lia.
From SE Require Import Base.Num Base.Res Base.NumProofs Geom.Geometry Geom.Validate.
Open Scope Q_scope.

(* ---------- parse / dump are inverse ---------- *)
Lemma all_some_map {A B} (f : A -> option B) (g : B -> A) l :
  (forall x, f (g x) = Some x) -> all_some (map f (map g l)) = Some l.
Proof. intro H. induction l as [|x l IH]; cbn; [reflexivity|]. rewrite H, IH. reflexivity. Qed.

Lemma all_some_inv {A B} (f : A -> option B) (g : B -> A) :
  (forall a b, f a = Some b -> a = g b) ->
  forall l r, all_some (map f l) = Some r -> l = map g r.
Proof.
  intros H l. induction l as [|a l IH]; intros r E; cbn in E.
  - injection E as <-. reflexivity.
  - destruct (f a) as [b|] eqn:Ea; [|discriminate].
    destruct (all_some (map f l)) as [r'|] eqn:El; [|discriminate].
    injection E as <-. cbn. f_equal; [apply H; exact Ea|apply IH; reflexivity].
Qed.

Lemma as_pt_dump p : as_pt (dump_pt p) = Some p.
Proof. destruct p. reflexivity. Qed.
Lemma as_pt_inv t p : as_pt t = Some p -> t = dump_pt p.
Proof.
  destruct t as [q|[|[a|] [|[b|] [|]]]]; cbn; try discriminate.
  intro H. injection H as <-. reflexivity.
Qed.

Lemma as_pts_dump l : as_pts (dump_pts l) = Some l.
Proof. unfold as_pts, dump_pts. apply all_some_map. apply as_pt_dump. Qed.
Lemma as_pts_inv t l : as_pts t = Some l -> t = dump_pts l.
Proof.
  destruct t as [q|ts]; cbn; [discriminate|]. intro H. unfold dump_pts. f_equal.
  apply (all_some_inv as_pt dump_pt as_pt_inv). exact H.
Qed.

Lemma as_ptss_dump l : as_ptss (dump_ptss l) = Some l.
Proof. unfold as_ptss, dump_ptss. apply all_some_map. apply as_pts_dump. Qed.
Lemma as_ptss_inv t l : as_ptss t = Some l -> t = dump_ptss l.
Proof.
  destruct t as [q|ts]; cbn; [discriminate|]. intro H. unfold dump_ptss. f_equal.
  apply (all_some_inv as_pts dump_pts as_pts_inv). exact H.
Qed.

Lemma as_ptsss_dump l : as_ptsss (dump_ptsss l) = Some l.
Proof. unfold as_ptsss, dump_ptsss. apply all_some_map. apply as_ptss_dump. Qed.
Lemma as_ptsss_inv t l : as_ptsss t = Some l -> t = dump_ptsss l.
Proof.
  destruct t as [q|ts]; cbn; [discriminate|]. intro H. unfold dump_ptsss. f_equal.
  apply (all_some_inv as_ptss dump_ptss as_ptss_inv). exact H.
Qed.

Lemma parse_dump g : parse (type_of g) (dump g) = Some g.
Proof.
  destruct g; cbn [parse dump type_of]; try reflexivity;
    rewrite ?as_pts_dump, ?as_ptss_dump, ?as_ptsss_dump; reflexivity.
Qed.

Lemma parse_inv T t g : parse T t = Some g -> t = dump g /\ type_of g = T.
Proof.
  destruct T; cbn.
  - destruct t as [q|]; cbn; [|discriminate]. intro H. injection H as <-. auto.
  - destruct t as [q|[|[a|] [|[b|] [|]]]]; try discriminate. intro H. injection H as <-. auto.
  - destruct t as [q|[|[a|] [|[b|] [|]]]]; try discriminate. intro H. injection H as <-. auto.
  - destruct (as_pts t) eqn:E; cbn; [|discriminate]. intro H. injection H as <-. apply as_pts_inv in E. auto.
  - destruct (as_ptss t) eqn:E; cbn; [|discriminate]. intro H. injection H as <-. apply as_ptss_inv in E. auto.
  - destruct t as [q|[|[a|] [|[b|] [|[c|] [|[d|] [|]]]]]]; try discriminate. intro H. injection H as <-. auto.
  - destruct (as_pts t) eqn:E; cbn; [|discriminate]. intro H. injection H as <-. apply as_pts_inv in E. auto.
  - destruct (as_ptss t) eqn:E; cbn; [|discriminate]. intro H. injection H as <-. apply as_ptss_inv in E. auto.
  - destruct (as_ptsss t) eqn:E; cbn; [|discriminate]. intro H. injection H as <-. apply as_ptsss_inv in E. auto.
Qed.

(* ---------- acceptance is exactly: right shape, rules hold; result is the normalised input ---------- *)
Theorem accept_iff T t g :
  validate T t = Ok g <->
  exists g0, t = dump g0 /\ type_of g0 = T /\ accept g0 = true /\ g = normalise g0.
Proof.
  unfold validate. split.
  - destruct (parse T t) as [g0|] eqn:E; [|discriminate].
    destruct (accept g0) eqn:Ea; [|discriminate]. intro H. injection H as <-.
    apply parse_inv in E. exists g0. tauto.
  - intros (g0 & -> & <- & Ha & ->). rewrite parse_dump, Ha. reflexivity.
Qed.

Theorem reject_class T t e : validate T t = Err e -> e = EValidation.
Proof.
  unfold validate. destruct (parse T t); [destruct (accept g)|]; congruence.
Qed.

(* ---------- normal form ---------- *)
Lemma last_rev_first (l : list pt) : last_time (rev l) = first_time l.
Proof.
  unfold last_time, first_time. destruct l as [|p l]; [reflexivity|].
  cbn [rev]. rewrite last_last. reflexivity.
Qed.

Lemma first_rev_last (l : list pt) : first_time (rev l) = last_time l.
Proof.
  unfold last_time, first_time. destruct l as [|p l] using rev_ind; [reflexivity|].
  rewrite rev_unit, last_last. reflexivity.
Qed.

Lemma forallb_rev {A} (f : A -> bool) l : forallb f (rev l) = forallb f l.
Proof.
  induction l as [|x l IH]; [reflexivity|]. cbn [rev]. rewrite forallb_app, IH. cbn. 
  destruct (f x), (forallb f l); reflexivity.
Qed.

Theorem normal_valid g0 : accept g0 = true -> validb (normalise g0) = true /\ type_of (normalise g0) = type_of g0.
Proof.
  destruct g0; cbn [accept normalise]; intro H; try (split; [|reflexivity]).
  - exact H.
  - cbn [validb]. repeat (apply andb_true_iff in H; destruct H as [H ?]). rewrite H, H0, H1. reflexivity.
  - exact H.
  - destruct (qltb (last_time l) (first_time l)) eqn:E; cbn [validb type_of]; split; try reflexivity.
    + unfold line_okb in *. rewrite rev_length, forallb_rev, H. cbn.
      rewrite first_rev_last, last_rev_first. apply qleb_spec. apply qltb_spec in E. lra.
    + rewrite H. cbn. apply qleb_spec. apply qltb_false in E. exact E.
  - exact H.
  - repeat (apply andb_true_iff in H; destruct H as [H ?]).
    destruct (qltb e s) eqn:E1; destruct (qltb hi lo) eqn:E2; cbn [validb type_of]; split; try reflexivity;
      rewrite ?H, ?H0, ?H1, ?H2, ?H3, ?H4; cbn [andb];
      try apply qltb_spec in E1; try apply qltb_false in E1; try apply qltb_spec in E2; try apply qltb_false in E2;
      apply andb_true_iff; split; apply qleb_spec; lra.
  - exact H.
  - cbn [validb]. apply andb_true_iff in H. destruct H as [H H2]. apply andb_true_iff in H. destruct H as [H0 H1].
    rewrite H0. cbn [andb]. rewrite forallb_forall in *. intros l Hl. rewrite (H1 l Hl), (H2 l Hl). reflexivity.
  - exact H.
Qed.

Lemma accept_normalise g0 : accept g0 = true -> accept (normalise g0) = true.
Proof.
  destruct g0; cbn [accept normalise]; intro H; try exact H.
  - destruct (qltb (last_time l) (first_time l)); cbn [accept]; [|exact H].
    unfold line_okb in *. rewrite rev_length, forallb_rev. exact H.
  - repeat (apply andb_true_iff in H; destruct H as [H ?]).
    destruct (qltb e s), (qltb hi lo); cbn [accept]; rewrite ?H, ?H0, ?H1, ?H2, ?H3, ?H4; reflexivity.
Qed.

Lemma normalise_idem g0 : normalise (normalise g0) = normalise g0.
Proof.
  destruct g0; cbn [normalise]; try reflexivity.
  - destruct (qltb (last_time l) (first_time l)) eqn:E; cbn [normalise].
    + rewrite first_rev_last, last_rev_first.
      assert (E' : qltb (first_time l) (last_time l) = false).
      { apply qltb_false. apply qltb_spec in E. lra. }
      rewrite E'. reflexivity.
    + rewrite E. reflexivity.
  - destruct (qltb e s) eqn:E1; destruct (qltb hi lo) eqn:E2; cbn [normalise];
      try (assert (E1' : qltb s e = false) by (apply qltb_false; apply qltb_spec in E1; lra); rewrite E1');
      try (assert (E2' : qltb lo hi = false) by (apply qltb_false; apply qltb_spec in E2; lra); rewrite E2');
      rewrite ?E1, ?E2; reflexivity.
Qed.

(* re-validating the JSON dump of an accepted geometry yields the same geometry *)
Theorem revalidate T t g : validate T t = Ok g -> validate T (dump g) = Ok g.
Proof.
  intro H. apply accept_iff in H. destruct H as (g0 & -> & <- & Ha & ->).
  apply accept_iff. exists (normalise g0). repeat split.
  - apply normal_valid. exact Ha.
  - apply accept_normalise. exact Ha.
  - symmetry. apply normalise_idem.
Qed.

(* the accepted geometry is valid, in normal form, and of the requested class *)
Theorem accepted_valid T t g : validate T t = Ok g -> validb g = true /\ type_of g = T.
Proof.
  intro H. apply accept_iff in H. destruct H as (g0 & -> & <- & Ha & ->). apply normal_valid. exact Ha.
Qed.

(* normalisation only reverses a line / swaps box corners *)
Theorem normalise_shape g0 :
  match g0 with
  | LineString l => normalise g0 = LineString l \/ normalise g0 = LineString (rev l)
  | BBox s lo e hi =>
      exists s' lo' e' hi', normalise g0 = BBox s' lo' e' hi' /\
        ((s' = s /\ e' = e) \/ (s' = e /\ e' = s)) /\ ((lo' = lo /\ hi' = hi) \/ (lo' = hi /\ hi' = lo))
  | _ => normalise g0 = g0
  end.
Proof.
  destruct g0; cbn [normalise]; try reflexivity.
  - destruct (qltb (last_time l) (first_time l)); auto.
  - destruct (qltb e s), (qltb hi lo); do 4 eexists; (split; [reflexivity|]); tauto.
Qed.

(* geometry_validate: class named by the tag; unknown tag or invalid coordinates => ValueError *)
Theorem tag_class tag t g : geometry_validate tag t = Ok g -> tag_lookup tag = Some (type_of g) /\ validb g = true.
Proof.
  unfold geometry_validate. destruct (tag_lookup tag) as [T|]; [|discriminate].
  destruct (validate T t) as [g'|e] eqn:E; [|discriminate]. intro H. injection H as <-.
  apply accepted_valid in E. destruct E as [Hv <-]. auto.
Qed.

Theorem geometry_validate_same tag T t :
  tag_lookup tag = Some T ->
  (forall g, geometry_validate tag t = Ok g <-> validate T t = Ok g) /\
  ((exists e, validate T t = Err e) <-> geometry_validate tag t = Err EValue).
Proof.
  intro HT. unfold geometry_validate. rewrite HT. destruct (validate T t) as [g'|e]; split.
  - intro g. tauto.
  - split; [intros [e H]; discriminate|discriminate].
  - intro g. split; discriminate.
  - split; [reflexivity|]. intros _. eauto.
Qed.

Theorem unknown_tag tag t : tag_lookup tag = None -> geometry_validate tag t = Err EValue.
Proof. intro H. unfold geometry_validate. rewrite H. reflexivity. Qed.

(* boundary values: 0 and MAXF are accepted, anything beyond is rejected, at any depth *)
Lemma pt_okb_spec t f : pt_okb (t, f) = true <-> 0 <= t /\ 0 <= f /\ f <= MAXF.
Proof.
  unfold pt_okb. cbn [fst snd]. rewrite !andb_true_iff, !qleb_spec. tauto.
Qed.

Theorem accept_points g0 :
  accept g0 = true -> forall p, In p (pts_of g0) -> 0 <= fst p /\ 0 <= snd p /\ snd p <= MAXF.
Proof.
  assert (Hall : forall l, forallb pt_okb l = true -> forall p, In p l -> 0 <= fst p /\ 0 <= snd p /\ snd p <= MAXF).
  { intros l H p Hp. rewrite forallb_forall in H. specialize (H p Hp). destruct p. apply pt_okb_spec. exact H. }
  assert (Hring : forall rs, forallb ring_okb rs = true -> forall p, In p (concat rs) -> 0 <= fst p /\ 0 <= snd p /\ snd p <= MAXF).
  { intros rs H p Hp. apply in_concat in Hp. destruct Hp as [r [Hr Hp]]. rewrite forallb_forall in H.
    specialize (H r Hr). unfold ring_okb in H. apply andb_true_iff in H. apply (Hall r (proj2 H) p Hp). }
  assert (HM : 0 <= MAXF) by (unfold MAXF; lra).
  destruct g0; cbn [accept pts_of]; intros H p Hp.
  - apply qleb_spec in H. destruct Hp as [<-|[<-|[]]]; cbn; lra.
  - repeat (apply andb_true_iff in H; destruct H as [H ?]). apply qleb_spec in H, H0, H1.
    destruct Hp as [<-|[<-|[]]]; cbn; lra.
  - destruct Hp as [<-|[]]. apply pt_okb_spec. exact H.
  - unfold line_okb in H. apply andb_true_iff in H. apply (Hall l (proj2 H) p Hp).
  - unfold poly_okb in H. apply andb_true_iff in H. apply (Hring rings (proj2 H) p Hp).
  - repeat (apply andb_true_iff in H; destruct H as [H ?]). apply qleb_spec in H, H0, H1, H2, H3, H4.
    destruct Hp as [<-|[<-|[]]]; cbn; lra.
  - apply andb_true_iff in H. apply (Hall l (proj2 H) p Hp).
  - apply andb_true_iff in H. destruct H as [H _]. apply andb_true_iff in H. destruct H as [_ H].
    apply in_concat in Hp. destruct Hp as [l [Hl Hp]]. rewrite forallb_forall in H. specialize (H l Hl).
    unfold line_okb in H. apply andb_true_iff in H. apply (Hall l (proj2 H) p Hp).
  - apply andb_true_iff in H. destruct H as [_ H].
    apply in_concat in Hp. destruct Hp as [rs [Hrs Hp]]. apply in_map_iff in Hrs. destruct Hrs as [poly [<- Hpoly]].
    rewrite forallb_forall in H. specialize (H poly Hpoly). unfold poly_okb in H. apply andb_true_iff in H.
    apply (Hring poly (proj2 H) p Hp).
Qed.
