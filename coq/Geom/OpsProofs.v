(* Geom/OpsProofs.v — proofs about the overlap predicates (property C12). *)
From Coq Require Import QArith Lqa Lia Qminmax.
From SE Require Import Base.Num Base.Res Base.NumProofs Geom.Geometry Geom.Ops.
Open Scope Q_scope.

(* the threshold the documentation describes *)
Definition threshold (s1 e1 s2 e2 : Q) (a r : option Q) : Q :=
  match a, r with
  | Some x, _ => x
  | None, Some rr => rr * Qmin (e1 - s1) (e2 - s2)
  | None, None => 0
  end.

Definition inter_len (s1 e1 s2 e2 : Q) : Q := Qmin e1 e2 - Qmax s1 s2.

Lemma qleb_compat a a' b b' : a == a' -> b == b' -> qleb a b = qleb a' b'.
Proof.
  intros Ha Hb. destruct (qleb a' b') eqn:E.
  - apply qleb_spec in E. apply qleb_spec. lra.
  - apply qleb_false in E. apply qleb_false. lra.
Qed.

Lemma overlap_iff s1 e1 s2 e2 a r b :
  intervals_overlap s1 e1 s2 e2 a r = Ok b ->
  (b = true <-> threshold s1 e1 s2 e2 a r <= inter_len s1 e1 s2 e2).
Proof.
  unfold intervals_overlap, threshold, inter_len.
  pose proof (pymax_Qmax s1 s2) as Hmax. pose proof (pymin_Qmin e1 e2) as Hmin.
  pose proof (pymin_Qmin (e1 - s1) (e2 - s2)) as Hw.
  destruct a as [x|], r as [rr|]; try discriminate.
  - intro H. injection H as <-. rewrite qleb_spec. lra.
  - destruct (qltb rr 0 || qltb 1 rr)%bool; [discriminate|].
    intro H. injection H as <-. rewrite qleb_spec.
    rewrite Hw, Hmax, Hmin. reflexivity.
  - intro H. injection H as <-. rewrite qleb_spec. lra.
Qed.

Lemma overlap_sym s1 e1 s2 e2 a r :
  intervals_overlap s1 e1 s2 e2 a r = intervals_overlap s2 e2 s1 e1 a r.
Proof.
  unfold intervals_overlap.
  assert (Hd : pymin e1 e2 - pymax s1 s2 == pymin e2 e1 - pymax s2 s1).
  { rewrite !pymin_Qmin, !pymax_Qmax. rewrite (Q.min_comm e1 e2), (Q.max_comm s1 s2). reflexivity. }
  assert (Hw : pymin (e1 - s1) (e2 - s2) == pymin (e2 - s2) (e1 - s1)).
  { rewrite !pymin_Qmin. apply Q.min_comm. }
  destruct a as [x|], r as [rr|]; try reflexivity.
  - f_equal. apply qleb_compat; [reflexivity|exact Hd].
  - destruct (qltb rr 0 || qltb 1 rr)%bool; [reflexivity|].
    f_equal. apply qleb_compat; [rewrite Hw; reflexivity|exact Hd].
  - f_equal. apply qleb_compat; [reflexivity|exact Hd].
Qed.

Lemma overlap_errors s1 e1 s2 e2 a r :
  (exists e, intervals_overlap s1 e1 s2 e2 a r = Err e) <->
  ((exists x y, a = Some x /\ r = Some y) \/ (a = None /\ exists y, r = Some y /\ (y < 0 \/ 1 < y))).
Proof.
  unfold intervals_overlap. destruct a as [x|], r as [rr|].
  - split; [intros _; left; eauto | intros _; eauto].
  - split; [intros [e H]; discriminate|].
    intros [(x0 & y & _ & H)|(H & _)]; discriminate.
  - destruct (qltb rr 0) eqn:E0; [|destruct (qltb 1 rr) eqn:E1]; cbn [orb].
    + apply qltb_spec in E0. split; [intros _; right; split; [reflexivity|exists rr; auto] | intros _; eauto].
    + apply qltb_spec in E1. split; [intros _; right; split; [reflexivity|exists rr; auto] | intros _; eauto].
    + apply qltb_false in E0. apply qltb_false in E1.
      split; [intros [e H]; discriminate|].
      intros [(x & y & H & _)|(_ & y & H & Hy)]; [discriminate|].
      injection H as <-. exfalso. lra.
  - split; [intros [e H]; discriminate|].
    intros [(x & y & H & _)|(_ & y & H & _)]; discriminate.
Qed.

Lemma overlap_error_class s1 e1 s2 e2 a r e :
  intervals_overlap s1 e1 s2 e2 a r = Err e -> e = EValue.
Proof.
  unfold intervals_overlap. destruct a, r; try discriminate; try congruence.
  destruct (qltb q 0 || qltb 1 q)%bool; congruence.
Qed.

Lemma mono_abs s1 e1 s2 e2 a1 a2 :
  a1 <= a2 ->
  intervals_overlap s1 e1 s2 e2 (Some a2) None = Ok true ->
  intervals_overlap s1 e1 s2 e2 (Some a1) None = Ok true.
Proof.
  intros Hle H. pose proof (overlap_iff _ _ _ _ _ _ _ H) as [H1 _].
  specialize (H1 eq_refl). unfold threshold in H1.
  unfold intervals_overlap. f_equal. apply qleb_spec.
  unfold inter_len in H1. rewrite pymin_Qmin, pymax_Qmax. lra.
Qed.

Lemma mono_rel s1 e1 s2 e2 r1 r2 :
  s1 <= e1 -> s2 <= e2 -> 0 <= r1 -> r1 <= r2 -> r2 <= 1 ->
  intervals_overlap s1 e1 s2 e2 None (Some r2) = Ok true ->
  intervals_overlap s1 e1 s2 e2 None (Some r1) = Ok true.
Proof.
  intros Hw1 Hw2 H0 Hle H1 H.
  pose proof (overlap_iff _ _ _ _ _ _ _ H) as [Ht _].
  specialize (Ht eq_refl). unfold threshold, inter_len in Ht.
  unfold intervals_overlap.
  assert (E0 : qltb r1 0 = false) by (apply qltb_false; lra).
  assert (E1 : qltb 1 r1 = false) by (apply qltb_false; lra).
  rewrite E0, E1. cbn [orb]. f_equal. apply qleb_spec.
  rewrite !pymin_Qmin, pymax_Qmax.
  assert (Hm : 0 <= Qmin (e1 - s1) (e2 - s2)).
  { apply Q.min_glb; lra. }
  nra.
Qed.

(* larger thresholds can only turn true into false: contrapositive forms *)
Lemma mono_abs_false s1 e1 s2 e2 a1 a2 :
  a1 <= a2 ->
  intervals_overlap s1 e1 s2 e2 (Some a1) None = Ok false ->
  intervals_overlap s1 e1 s2 e2 (Some a2) None = Ok false.
Proof.
  intros Hle H. unfold intervals_overlap in *. injection H as H. f_equal.
  apply qleb_false in H. apply qleb_false. lra.
Qed.

Lemma temporal_is_interval g1 g2 b1 b2 a r :
  compute_bounds g1 = Some b1 -> compute_bounds g2 = Some b2 ->
  have_temporal_overlap g1 g2 a r =
  intervals_overlap (b_start b1) (b_end b1) (b_start b2) (b_end b2) a r.
Proof. intros H1 H2. unfold have_temporal_overlap, with_bounds. rewrite H1, H2. reflexivity. Qed.

Lemma frequency_is_interval g1 g2 b1 b2 a r :
  compute_bounds g1 = Some b1 -> compute_bounds g2 = Some b2 ->
  have_frequency_overlap g1 g2 a r =
  intervals_overlap (b_low b1) (b_high b1) (b_low b2) (b_high b2) a r.
Proof. intros H1 H2. unfold have_frequency_overlap, with_bounds. rewrite H1, H2. reflexivity. Qed.

Lemma in_clip_iff g b cs ce m :
  compute_bounds g = Some b -> 0 <= m ->
  (is_in_clip g cs ce m = Ok true <-> (cs + m < b_end b /\ b_start b < ce - m)) /\
  (is_in_clip g cs ce m = Ok true \/ is_in_clip g cs ce m = Ok false).
Proof.
  intros Hb Hm. unfold is_in_clip, with_bounds, is_in_clip_b. rewrite Hb.
  assert (E : qltb m 0 = false) by (apply qltb_false; exact Hm). rewrite E.
  destruct (qleb (b_end b) (cs + m)) eqn:E1; [|destruct (qleb (ce - m) (b_start b)) eqn:E2]; cbn [orb].
  - apply qleb_spec in E1. split; [|right; reflexivity].
    split; [discriminate|]. intros [H _]. exfalso. lra.
  - apply qleb_spec in E2. split; [|right; reflexivity].
    split; [discriminate|]. intros [_ H]. exfalso. lra.
  - apply qleb_false in E1. apply qleb_false in E2. split; [|left; reflexivity].
    split; [intros _; split; assumption | reflexivity].
Qed.

Lemma in_clip_negative g cs ce m : m < 0 -> is_in_clip g cs ce m = Err EValue.
Proof.
  intro H. unfold is_in_clip. assert (E : qltb m 0 = true) by (apply qltb_spec; exact H).
  rewrite E. reflexivity.
Qed.

(* corollaries named in the property: wholly inside => in; touching an edge => out *)
Lemma inside_is_in g b cs ce :
  compute_bounds g = Some b -> cs < b_start b -> b_end b < ce -> b_start b <= b_end b ->
  is_in_clip g cs ce 0 = Ok true.
Proof.
  intros Hb H1 H2 H3. apply (in_clip_iff g b cs ce 0 Hb); lra.
Qed.

Lemma touching_is_out g b cs ce :
  compute_bounds g = Some b -> (b_end b == cs \/ b_start b == ce) ->
  is_in_clip g cs ce 0 = Ok false.
Proof.
  intros Hb H. destruct (in_clip_iff g b cs ce 0 Hb) as [Hiff [Ht|Hf]]; try lra; [|exact Hf].
  apply Hiff in Ht. exfalso. destruct H; lra.
Qed.
