(* Geom/Features.v — compute_geometric_features (geometry/features.py) and get_geometry_point
   (geometry/operations.py). *)
From SE Require Export Geom.Geometry.
Open Scope Q_scope.

Inductive fname := Duration | LowFreq | HighFreq | Bandwidth | NumSegments.
Definition fname_eqb (a b : fname) : bool :=
  match a, b with
  | Duration, Duration | LowFreq, LowFreq | HighFreq, HighFreq | Bandwidth, Bandwidth
  | NumSegments, NumSegments => true
  | _, _ => false
  end.

Definition bounds_features (b : bounds) : list (fname * Q) :=
  [(Duration, b_end b - b_start b); (LowFreq, b_low b); (HighFreq, b_high b);
   (Bandwidth, b_high b - b_low b)].

Definition nb (n : nat) : Q := inject_Z (Z.of_nat n).

Definition features (g : geom) : option (list (fname * Q)) :=
  match g with
  | TimeStamp _ => Some [(Duration, 0)]
  | TimeInterval s e => Some [(Duration, e - s)]
  | BBox s lo e hi => Some [(Duration, e - s); (LowFreq, lo); (HighFreq, hi); (Bandwidth, hi - lo)]
  | Point _ _ =>
      match compute_bounds g with
      | Some b => Some [(Duration, 0); (LowFreq, b_low b); (HighFreq, b_high b); (Bandwidth, 0)]
      | None => None
      end
  | LineString _ | Polygon _ => option_map bounds_features (compute_bounds g)
  | MultiPoint l => option_map (fun b => bounds_features b ++ [(NumSegments, nb (length l))]) (compute_bounds g)
  | MultiLineString l => option_map (fun b => bounds_features b ++ [(NumSegments, nb (length l))]) (compute_bounds g)
  | MultiPolygon l => option_map (fun b => bounds_features b ++ [(NumSegments, nb (length l))]) (compute_bounds g)
  end.

Inductive hpos := HLeft | HCenter | HRight.
Inductive vpos := VBottom | VCenter | VTop.

(* position names are "<vertical>-<horizontal>"; "center" alone is the centre *)
Definition point_of_bounds (b : bounds) (v : vpos) (h : hpos) : pt :=
  (match h with HLeft => b_start b | HCenter => (b_start b + b_end b) / 2 | HRight => b_end b end,
   match v with VBottom => b_low b | VCenter => (b_low b + b_high b) / 2 | VTop => b_high b end).

Definition geometry_point (g : geom) (v : vpos) (h : hpos) : option pt :=
  option_map (fun b => point_of_bounds b v h) (compute_bounds g).

Fixpoint feats_eqb (a b : list (fname * Q)) : bool :=
  match a, b with
  | [], [] => true
  | (n, x) :: a', (m, y) :: b' => fname_eqb n m && qeqb x y && feats_eqb a' b'
  | _, _ => false
  end.
Definition obounds_eqb (a b : option bounds) : bool :=
  match a, b with Some x, Some y => bounds_eqb x y | None, None => true | _, _ => false end.
Definition opt_pt_eqb (a b : option pt) : bool :=
  match a, b with Some x, Some y => pt_eqb x y | None, None => true | _, _ => false end.
Definition ofeats_eqb (a b : option (list (fname * Q))) : bool :=
  match a, b with Some x, Some y => feats_eqb x y | None, None => true | _, _ => false end.

Inductive skind := KPoint | KLineString | KPolygon | KMultiPoint | KMultiLineString | KMultiPolygon.
Definition shp_kind (s : shp) : skind :=
  match s with
  | SPoint _ => KPoint | SLine _ => KLineString | SPoly _ _ => KPolygon
  | SMultiPoint _ => KMultiPoint | SMultiLine _ => KMultiLineString | SMultiPoly _ => KMultiPolygon
  end.
Definition skind_eqb (a b : skind) : bool :=
  match a, b with
  | KPoint, KPoint | KLineString, KLineString | KPolygon, KPolygon | KMultiPoint, KMultiPoint
  | KMultiLineString, KMultiLineString | KMultiPolygon, KMultiPolygon => true
  | _, _ => false
  end.

(* coordinate lists compared as sets (used for zero-width boxes, where GEOS drops the repeated
   closing point of the ring) *)
Definition pts_subset (a b : list pt) : bool := forallb (fun p => existsb (pt_eqb p) b) a.
Definition pts_same_set (a b : list pt) : bool := pts_subset a b && pts_subset b a.
