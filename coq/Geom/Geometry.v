(* Geom/Geometry.v — the nine geometry types of soundevent.data.geometries, their
   conversion to shapely (soundevent/geometry/conversion.py) and compute_bounds
   (soundevent/geometry/operations.py).  Model only: no proofs in this file. *)
From SE Require Export Base.Num Base.Res.
Open Scope Q_scope.

Definition pt := (Q * Q)%type.

Inductive geom :=
| TimeStamp (t : Q)
| TimeInterval (s e : Q)
| Point (t f : Q)
| LineString (l : list pt)
| Polygon (rings : list (list pt))
| BBox (s lo e hi : Q)
| MultiPoint (l : list pt)
| MultiLineString (ls : list (list pt))
| MultiPolygon (ps : list (list (list pt))).

Inductive gtype := TTimeStamp | TTimeInterval | TPoint | TLineString | TPolygon
                 | TBBox | TMultiPoint | TMultiLineString | TMultiPolygon.

Definition gtype_eqb (a b : gtype) : bool :=
  match a, b with
  | TTimeStamp, TTimeStamp | TTimeInterval, TTimeInterval | TPoint, TPoint
  | TLineString, TLineString | TPolygon, TPolygon | TBBox, TBBox
  | TMultiPoint, TMultiPoint | TMultiLineString, TMultiLineString
  | TMultiPolygon, TMultiPolygon => true
  | _, _ => false
  end.

Definition type_of (g : geom) : gtype :=
  match g with
  | TimeStamp _ => TTimeStamp | TimeInterval _ _ => TTimeInterval
  | Point _ _ => TPoint | LineString _ => TLineString | Polygon _ => TPolygon
  | BBox _ _ _ _ => TBBox | MultiPoint _ => TMultiPoint
  | MultiLineString _ => TMultiLineString | MultiPolygon _ => TMultiPolygon
  end.

(* ---- validity: the accept condition of the validators (C03) ---- *)
Definition pt_okb (p : pt) : bool :=
  qleb 0 (fst p) && qleb 0 (snd p) && qleb (snd p) MAXF.

Definition first_time (l : list pt) : Q := match l with [] => 0 | p :: _ => fst p end.
Definition last_time (l : list pt) : Q := fst (last l (0, 0)).

Definition ring_okb (r : list pt) : bool := (3 <=? length r)%nat && forallb pt_okb r.
Definition line_okb (l : list pt) : bool := (2 <=? length l)%nat && forallb pt_okb l.
Definition poly_okb (rs : list (list pt)) : bool := (1 <=? length rs)%nat && forallb ring_okb rs.

Definition validb (g : geom) : bool :=
  match g with
  | TimeStamp t => qleb 0 t
  | TimeInterval s e => qleb 0 s && qleb 0 e && qleb s e
  | Point t f => pt_okb (t, f)
  | LineString l => line_okb l && qleb (first_time l) (last_time l)
  | Polygon rs => poly_okb rs
  | BBox s lo e hi =>
      qleb 0 s && qleb 0 lo && qleb lo MAXF && qleb 0 e && qleb 0 hi && qleb hi MAXF
      && qleb s e && qleb lo hi
  | MultiPoint l => (1 <=? length l)%nat && forallb pt_okb l
  | MultiLineString ls =>
      (1 <=? length ls)%nat
      && forallb (fun l => line_okb l && qltb (first_time l) (last_time l)) ls
  | MultiPolygon ps => (1 <=? length ps)%nat && forallb poly_okb ps
  end.

(* ---- shapely conversion ---- *)
(* shapely.geometry.box(minx, miny, maxx, maxy): counter-clockwise from (maxx, miny) *)
Definition box_ring (x0 y0 x1 y1 : Q) : list pt :=
  [(x1, y0); (x1, y1); (x0, y1); (x0, y0); (x1, y0)].

Inductive shp :=
| SPoint (p : pt)
| SLine (l : list pt)
| SPoly (shell : list pt) (holes : list (list pt))
| SMultiPoint (l : list pt)
| SMultiLine (ls : list (list pt))
| SMultiPoly (ps : list (list pt * list (list pt))).

(* shapely closes rings that are not closed *)
Definition pt_eqb (a b : pt) : bool := qeqb (fst a) (fst b) && qeqb (snd a) (snd b).
Definition close_ring (r : list pt) : list pt :=
  match r with
  | [] => []
  | p :: _ => if pt_eqb p (last r p) then r else r ++ [p]
  end.

Definition mk_poly (rings : list (list pt)) : list pt * list (list pt) :=
  (close_ring (hd [] rings), map close_ring (tl rings)).

Definition to_shapely (g : geom) : shp :=
  match g with
  | TimeStamp t => SLine [(t, 0); (t, MAXF)]
  | TimeInterval s e => SPoly (box_ring s 0 e MAXF) []
  | Point t f => SPoint (t, f)
  | LineString l => SLine l
  | Polygon rs => let p := mk_poly rs in SPoly (fst p) (snd p)
  | BBox s lo e hi => SPoly (box_ring s lo e hi) []
  | MultiPoint l => SMultiPoint l
  | MultiLineString ls => SMultiLine ls
  | MultiPolygon ps => SMultiPoly (map mk_poly ps)
  end.

(* all coordinates, in shapely.get_coordinates order *)
Definition shp_coords (s : shp) : list pt :=
  match s with
  | SPoint p => [p]
  | SLine l => l
  | SPoly sh hs => sh ++ concat hs
  | SMultiPoint l => l
  | SMultiLine ls => concat ls
  | SMultiPoly ps => concat (map (fun p => fst p ++ concat (snd p)) ps)
  end.

(* the points that determine the GEOS envelope: shells only for polygons *)
Definition shp_env_pts (s : shp) : list pt :=
  match s with
  | SPoint p => [p]
  | SLine l => l
  | SPoly sh _ => sh
  | SMultiPoint l => l
  | SMultiLine ls => concat ls
  | SMultiPoly ps => concat (map fst ps)
  end.

Definition bounds := (Q * Q * Q * Q)%type.   (* start, low, end, high *)

Definition b_start (b : bounds) : Q := fst (fst (fst b)).
Definition b_low (b : bounds) : Q := snd (fst (fst b)).
Definition b_end (b : bounds) : Q := snd (fst b).
Definition b_high (b : bounds) : Q := snd b.

Definition env_step (b : bounds) (p : pt) : bounds :=
  (pymin (b_start b) (fst p), pymin (b_low b) (snd p),
   pymax (b_end b) (fst p), pymax (b_high b) (snd p)).

Definition env_of (l : list pt) : option bounds :=
  match l with
  | [] => None
  | p :: r => Some (fold_left env_step r (fst p, snd p, fst p, snd p))
  end.

Definition shp_bounds (s : shp) : option bounds := env_of (shp_env_pts s).

Definition compute_bounds (g : geom) : option bounds := shp_bounds (to_shapely g).

Definition bounds_eqb (a b : bounds) : bool :=
  qeqb (b_start a) (b_start b) && qeqb (b_low a) (b_low b)
  && qeqb (b_end a) (b_end b) && qeqb (b_high a) (b_high b).

(* every coordinate pair of a geometry, as the data class stores them; time-only
   geometries contribute the band corners *)
Definition pts_of (g : geom) : list pt :=
  match g with
  | TimeStamp t => [(t, 0); (t, MAXF)]
  | TimeInterval s e => [(s, 0); (e, MAXF)]
  | Point t f => [(t, f)]
  | LineString l => l
  | Polygon rs => concat rs
  | BBox s lo e hi => [(s, lo); (e, hi)]
  | MultiPoint l => l
  | MultiLineString ls => concat ls
  | MultiPolygon ps => concat (map (@concat pt) ps)
  end.

(* ---- structural equality (coordinates compared with ==) ---- *)
Fixpoint pts_eqb (a b : list pt) : bool :=
  match a, b with
  | [], [] => true
  | x :: a', y :: b' => pt_eqb x y && pts_eqb a' b'
  | _, _ => false
  end.
Fixpoint ptss_eqb (a b : list (list pt)) : bool :=
  match a, b with
  | [], [] => true
  | x :: a', y :: b' => pts_eqb x y && ptss_eqb a' b'
  | _, _ => false
  end.
Fixpoint ptsss_eqb (a b : list (list (list pt))) : bool :=
  match a, b with
  | [], [] => true
  | x :: a', y :: b' => ptss_eqb x y && ptsss_eqb a' b'
  | _, _ => false
  end.
Definition geom_eqb (a b : geom) : bool :=
  match a, b with
  | TimeStamp t, TimeStamp t' => qeqb t t'
  | TimeInterval s e, TimeInterval s' e' => qeqb s s' && qeqb e e'
  | Point t f, Point t' f' => qeqb t t' && qeqb f f'
  | LineString l, LineString l' => pts_eqb l l'
  | Polygon r, Polygon r' => ptss_eqb r r'
  | BBox s lo e hi, BBox s' lo' e' hi' => qeqb s s' && qeqb lo lo' && qeqb e e' && qeqb hi hi'
  | MultiPoint l, MultiPoint l' => pts_eqb l l'
  | MultiLineString l, MultiLineString l' => ptss_eqb l l'
  | MultiPolygon p, MultiPolygon p' => ptsss_eqb p p'
  | _, _ => false
  end.
