From Coq Require Import QArith Lqa Lia.
From SE Require Import Base.Num Base.Res Base.NumProofs Geom.Geometry Arr.Index Geom.Raster.
Open Scope Q_scope.

(* ---------- values / geometries length ---------- *)
Theorem values_length_err tc fc geoms l fill at_ :
  length l <> length geoms -> rasterize tc fc geoms (VList l) fill at_ = Err EValue.
Proof.
  intro H. unfold rasterize. destruct (Nat.eqb_spec (length l) (length geoms)) as [E|E]; [contradiction|reflexivity].
Qed.

Theorem single_value_ok tc fc geoms v fill at_ :
  rasterize tc fc geoms (VOne v) fill at_ <> Err EValue.
Proof.
  unfold rasterize. rewrite repeat_length, Nat.eqb_refl. cbn [negb].
  destruct (map_all _ geoms); discriminate.
Qed.

(* ---------- later geometries overwrite earlier ones; untouched cells hold the fill value ---------- *)
Theorem cell_overwrite at_ shapes m v fill i j :
  cell_value at_ (shapes ++ [(m, v)]) fill i j =
  match shape_status at_ m (idx i + (1 # 2), idx j + (1 # 2)) with
  | SIn => Some v
  | SOut => cell_value at_ shapes fill i j
  | SAmb => None
  end.
Proof. unfold cell_value. rewrite fold_left_app. reflexivity. Qed.

Theorem cell_untouched at_ shapes fill i j :
  (forall sv, In sv shapes -> shape_status at_ (fst sv) (idx i + (1 # 2), idx j + (1 # 2)) = SOut) ->
  cell_value at_ shapes fill i j = Some fill.
Proof.
  unfold cell_value. generalize (Some fill) as acc. induction shapes as [|sv shapes IH]; intros acc H; [reflexivity|].
  cbn [fold_left]. rewrite (H sv (or_introl eq_refl)). apply IH. intros x Hx. apply H. right. exact Hx.
Qed.

Theorem cell_no_geometry at_ fill i j : cell_value at_ [] fill i j = Some fill.
Proof. reflexivity. Qed.

(* ---------- a rectangle in bin-index space ---------- *)
Lemma on_segment_vertical p x ya yb : ~ fst p == x -> on_segment p (x, ya) (x, yb) = false.
Proof.
  intro H. unfold on_segment. cbn [fst snd].
  destruct (qleb (pymin x x) (fst p)) eqn:E1; destruct (qleb (fst p) (pymax x x)) eqn:E2;
    rewrite ?andb_false_r, ?andb_false_l; try reflexivity.
  exfalso. apply qleb_spec in E1, E2.
  assert (pymin x x = x) by (unfold pymin; destruct (qltb x x); reflexivity).
  assert (pymax x x = x) by (unfold pymax; destruct (qltb x x); reflexivity).
  rewrite H0 in E1. rewrite H1 in E2. apply H. lra.
Qed.

Lemma on_segment_horizontal p xa xb y : ~ snd p == y -> on_segment p (xa, y) (xb, y) = false.
Proof.
  intro H. unfold on_segment. cbn [fst snd].
  destruct (qleb (pymin y y) (snd p)) eqn:E1; destruct (qleb (snd p) (pymax y y)) eqn:E2;
    rewrite ?andb_false_r, ?andb_false_l; try reflexivity.
  exfalso. apply qleb_spec in E1, E2.
  assert (pymin y y = y) by (unfold pymin; destruct (qltb y y); reflexivity).
  assert (pymax y y = y) by (unfold pymax; destruct (qltb y y); reflexivity).
  rewrite H0 in E1. rewrite H1 in E2. apply H. lra.
Qed.

Lemma crosses_horizontal p xa xb y : crosses p (xa, y) (xb, y) = false.
Proof. unfold crosses. cbn [snd]. rewrite Bool.eqb_reflx. reflexivity. Qed.

Lemma crosses_vertical p x ya yb :
  crosses p (x, ya) (x, yb) = negb (Bool.eqb (qltb (snd p) ya) (qltb (snd p) yb)) && qltb (fst p) x.
Proof.
  unfold crosses. cbn [fst snd]. destruct (Bool.eqb (qltb (snd p) ya) (qltb (snd p) yb)); [reflexivity|].
  cbn [negb andb].
  assert (H : x + (snd p - ya) * (x - x) / (yb - ya) == x) by (unfold Qdiv; ring).
  unfold qltb. f_equal. destruct (Qle_bool x (fst p)) eqn:E.
  - apply Qle_bool_iff in E. apply Qle_bool_iff. lra.
  - destruct (Qle_bool (x + (snd p - ya) * (x - x) / (yb - ya)) (fst p)) eqn:E2; [|reflexivity].
    apply Qle_bool_iff in E2. assert (E' : Qle_bool x (fst p) = true) by (apply Qle_bool_iff; lra). congruence.
Qed.

Definition in_rect (x0 y0 x1 y1 : Q) (p : pt) : bool :=
  qltb x0 (fst p) && qltb (fst p) x1 && qltb y0 (snd p) && qltb (snd p) y1.

(* the centre rule for a rectangle: strictly inside <-> set; never undecided when the centre is
   off the grid lines through the corners *)
Theorem rect_status x0 y0 x1 y1 p :
  x0 <= x1 -> y0 <= y1 ->
  ~ fst p == x0 -> ~ fst p == x1 -> ~ snd p == y0 -> ~ snd p == y1 ->
  rings_status [box_ring x0 y0 x1 y1] p = if in_rect x0 y0 x1 y1 p then SIn else SOut.
Proof.
  intros Hx Hy Nx0 Nx1 Ny0 Ny1. unfold rings_status, box_ring.
  cbn [flat_map edges_of_ring ring_edges app existsb filter fst snd].
  rewrite (on_segment_vertical p x1 y0 y1 Nx1), (on_segment_horizontal p x1 x0 y1 Ny1),
          (on_segment_vertical p x0 y1 y0 Nx0), (on_segment_horizontal p x0 x1 y0 Ny0),
          (on_segment_vertical p x1 y0 y0 Nx1).
  cbn [orb].
  rewrite (crosses_vertical p x1 y0 y1), (crosses_horizontal p x1 x0 y1),
          (crosses_vertical p x0 y1 y0), (crosses_horizontal p x0 x1 y0), (crosses_vertical p x1 y0 y0).
  rewrite Bool.eqb_reflx. cbn [negb andb].
  unfold in_rect.
  destruct (qltb (snd p) y0) eqn:A; destruct (qltb (snd p) y1) eqn:B;
  destruct (qltb (fst p) x1) eqn:C; destruct (qltb (fst p) x0) eqn:D;
  destruct (qltb x0 (fst p)) eqn:E; destruct (qltb y0 (snd p)) eqn:F;
  cbn; try reflexivity; exfalso;
  repeat match goal with
         | H : qltb _ _ = true |- _ => apply qltb_spec in H
         | H : qltb _ _ = false |- _ => apply qltb_false in H
         end; try lra;
  try (apply Nx0; lra); try (apply Ny0; lra); try (apply Nx1; lra); try (apply Ny1; lra).
Qed.

(* bin centres are never on the integer grid *)
Lemma centre_off_grid (i : nat) (z : Z) : ~ idx i + (1 # 2) == zq z.
Proof.
  unfold idx, zq, inject_Z, Qeq, Qplus. cbn [Qnum Qden]. intro H. lia.
Qed.

Lemma zq_le a b : (a <= b)%Z -> zq a <= zq b.
Proof. intro H. unfold zq. rewrite <- Zle_Qle. exact H. Qed.

(* a bounding box whose corners map to bins (i0, j0) and (i1, j1): a cell holds the value exactly when
   i0 <= i < i1 and j0 <= j < j1 — from the bin containing the start (inclusive) to the bin containing
   the end (exclusive) on each axis; every other cell keeps what it had *)
Theorem box_cells (i0 j0 i1 j1 : Z) (i j : nat) :
  (i0 <= i1)%Z -> (j0 <= j1)%Z ->
  rings_status [box_ring (zq i0) (zq j0) (zq i1) (zq j1)] (idx i + (1 # 2), idx j + (1 # 2)) =
  if ((i0 <=? Z.of_nat i)%Z && (Z.of_nat i <? i1)%Z && (j0 <=? Z.of_nat j)%Z && (Z.of_nat j <? j1)%Z)%bool
  then SIn else SOut.
Proof.
  intros Hi Hj.
  rewrite rect_status; cbn [fst snd]; try apply centre_off_grid; try (apply zq_le; assumption).
  unfold in_rect. cbn [fst snd].
  assert (L : forall (z : Z) (k : nat), qltb (zq z) (idx k + (1 # 2)) = (z <=? Z.of_nat k)%Z).
  { intros z k. destruct (Z.leb_spec z (Z.of_nat k)) as [H|H].
    - apply qltb_spec. unfold zq, idx. rewrite Zle_Qle in H. lra.
    - apply qltb_false. unfold zq, idx. assert (H' : (Z.of_nat k + 1 <= z)%Z) by lia.
      rewrite Zle_Qle, inject_Z_plus in H'. change (inject_Z 1) with 1 in H'. lra. }
  assert (R : forall (z : Z) (k : nat), qltb (idx k + (1 # 2)) (zq z) = (Z.of_nat k <? z)%Z).
  { intros z k. destruct (Z.ltb_spec (Z.of_nat k) z) as [H|H].
    - apply qltb_spec. unfold zq, idx. assert (H' : (Z.of_nat k + 1 <= z)%Z) by lia.
      rewrite Zle_Qle, inject_Z_plus in H'. change (inject_Z 1) with 1 in H'. lra.
    - apply qltb_false. unfold zq, idx. rewrite Zle_Qle in H. lra. }
  rewrite !L, !R. reflexivity.
Qed.

(* the mapped vertices are bin indices: the vertex map is get_coord_index with clamping (C16) *)
Theorem map_pt_spec tc fc p q :
  map_pt tc fc p = Some q ->
  exists i j, get_coord_index tc (fst p) false = Ok i /\ get_coord_index fc (snd p) false = Ok j /\ q = (zq i, zq j).
Proof.
  unfold map_pt. destruct (get_coord_index tc (fst p) false) as [i|]; [|discriminate].
  destruct (get_coord_index fc (snd p) false) as [j|]; [|discriminate].
  intro H. injection H as <-. eauto.
Qed.

(* the result is a grid over the template's axes: one row per time coordinate, one cell per frequency *)
Theorem grid_shape tc fc geoms values fill at_ g :
  rasterize tc fc geoms values fill at_ = Ok g ->
  length g = length tc /\ forall row, In row g -> length row = length fc.
Proof.
  unfold rasterize. destruct (negb _); [discriminate|]. destruct (map_all _ geoms) as [ms|]; [|discriminate].
  intro H. injection H as <-. unfold grid. split.
  - rewrite map_length, seq_length. reflexivity.
  - intros row Hr. apply in_map_iff in Hr. destruct Hr as [i [<- _]]. rewrite map_length, seq_length. reflexivity.
Qed.
