(* Geom/Ops.v — overlap predicates of soundevent/geometry/operations.py:
   intervals_overlap, have_temporal_overlap, have_frequency_overlap, is_in_clip. *)
From SE Require Export Geom.Geometry.
Open Scope Q_scope.

Definition intervals_overlap (s1 e1 s2 e2 : Q) (a r : option Q) : res bool :=
  match a, r with
  | Some _, Some _ => Err EValue
  | _, _ =>
      let start := pymax s1 s2 in
      let stop := pymin e1 e2 in
      let overlap := match a with Some x => x | None => 0 end in
      match r with
      | Some rr =>
          if qltb rr 0 || qltb 1 rr then Err EValue
          else
            let min_width := pymin (e1 - s1) (e2 - s2) in
            Ok (qleb (rr * min_width) (stop - start))
      | None => Ok (qleb overlap (stop - start))
      end
  end.

Definition with_bounds {A} (g : geom) (f : bounds -> res A) : res A :=
  match compute_bounds g with Some b => f b | None => Err EOther end.

Definition have_temporal_overlap (g1 g2 : geom) (a r : option Q) : res bool :=
  with_bounds g1 (fun b1 => with_bounds g2 (fun b2 =>
    intervals_overlap (b_start b1) (b_end b1) (b_start b2) (b_end b2) a r)).

Definition have_frequency_overlap (g1 g2 : geom) (a r : option Q) : res bool :=
  with_bounds g1 (fun b1 => with_bounds g2 (fun b2 =>
    intervals_overlap (b_low b1) (b_high b1) (b_low b2) (b_high b2) a r)).

Definition is_in_clip_b (b : bounds) (cs ce m : Q) : res bool :=
  if qltb m 0 then Err EValue
  else if qleb (b_end b) (cs + m) || qleb (ce - m) (b_start b) then Ok false
  else Ok true.

Definition is_in_clip (g : geom) (cs ce m : Q) : res bool :=
  if qltb m 0 then Err EValue
  else with_bounds g (fun b => is_in_clip_b b cs ce m).
