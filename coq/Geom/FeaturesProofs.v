From Coq Require Import QArith Lqa Lia.
From SE Require Import Base.Num Base.Res Base.NumProofs Geom.Geometry Geom.Features.
Open Scope Q_scope.

(* ---------- the envelope is the coordinate-wise min / max ---------- *)
Definition in_env (b : bounds) (p : pt) : Prop :=
  b_start b <= fst p /\ fst p <= b_end b /\ b_low b <= snd p /\ snd p <= b_high b.

Definition attained (b : bounds) (l : list pt) : Prop :=
  (exists p, In p l /\ fst p == b_start b) /\ (exists p, In p l /\ fst p == b_end b) /\
  (exists p, In p l /\ snd p == b_low b) /\ (exists p, In p l /\ snd p == b_high b).

Lemma env_step_spec b p :
  let b' := env_step b p in
  b_start b' <= b_start b /\ b_start b' <= fst p /\ b_end b <= b_end b' /\ fst p <= b_end b' /\
  b_low b' <= b_low b /\ b_low b' <= snd p /\ b_high b <= b_high b' /\ snd p <= b_high b' /\
  (b_start b' = b_start b \/ b_start b' = fst p) /\ (b_end b' = b_end b \/ b_end b' = fst p) /\
  (b_low b' = b_low b \/ b_low b' = snd p) /\ (b_high b' = b_high b \/ b_high b' = snd p).
Proof.
  unfold env_step, b_start, b_end, b_low, b_high. cbn [fst snd].
  destruct b as [[[s lo] e] hi]. cbn [fst snd].
  destruct (pymin_cases s (fst p)) as [[-> A]|[-> A]]; destruct (pymin_cases lo (snd p)) as [[-> B]|[-> B]];
  destruct (pymax_cases e (fst p)) as [[-> C]|[-> C]]; destruct (pymax_cases hi (snd p)) as [[-> D]|[-> D]];
  repeat split; try lra; auto.
Qed.

Lemma fold_env l : forall b0 (seen : list pt),
  (forall p, In p seen -> in_env b0 p) -> attained b0 seen ->
  let b := fold_left env_step l b0 in
  (forall p, In p (seen ++ l) -> in_env b p) /\ attained b (seen ++ l).
Proof.
  induction l as [|q l IH]; intros b0 seen Hin Hat; cbn [fold_left].
  - rewrite app_nil_r. split; assumption.
  - replace (seen ++ q :: l) with ((seen ++ [q]) ++ l) by (rewrite <- app_assoc; reflexivity).
    pose proof (env_step_spec b0 q) as S. cbn zeta in S.
    destruct S as (S1 & S2 & S3 & S4 & S5 & S6 & S7 & S8 & C1 & C2 & C3 & C4).
    apply IH.
    + intros p Hp. apply in_app_or in Hp. unfold in_env. destruct Hp as [Hp|[<-|[]]].
      * specialize (Hin p Hp). unfold in_env in Hin. lra.
      * lra.
    + destruct Hat as ((p1 & I1 & A1) & (p2 & I2 & A2) & (p3 & I3 & A3) & (p4 & I4 & A4)).
      unfold attained. repeat split.
      * destruct C1 as [->| ->];
          [exists p1; split; [apply in_or_app; left; exact I1|exact A1]
          |exists q; split; [apply in_or_app; right; left; reflexivity|reflexivity]].
      * destruct C2 as [->| ->];
          [exists p2; split; [apply in_or_app; left; exact I2|exact A2]
          |exists q; split; [apply in_or_app; right; left; reflexivity|reflexivity]].
      * destruct C3 as [->| ->];
          [exists p3; split; [apply in_or_app; left; exact I3|exact A3]
          |exists q; split; [apply in_or_app; right; left; reflexivity|reflexivity]].
      * destruct C4 as [->| ->];
          [exists p4; split; [apply in_or_app; left; exact I4|exact A4]
          |exists q; split; [apply in_or_app; right; left; reflexivity|reflexivity]].
Qed.

Theorem env_of_minmax l b : env_of l = Some b -> (forall p, In p l -> in_env b p) /\ attained b l.
Proof.
  destruct l as [|p l]; [discriminate|]. cbn [env_of]. intro H. injection H as <-.
  apply (fold_env l (fst p, snd p, fst p, snd p) [p]).
  - intros q [<-|[]]. unfold in_env, b_start, b_end, b_low, b_high. cbn. lra.
  - unfold attained, b_start, b_end, b_low, b_high. cbn.
    repeat split; exists p; split; auto using in_eq; reflexivity.
Qed.

Lemma env_of_some l : l <> [] -> exists b, env_of l = Some b.
Proof. destruct l; [congruence|]. intros _. eexists. reflexivity. Qed.

(* compute_bounds = min/max over the coordinates that shapely's envelope uses *)
Theorem bounds_minmax g b :
  compute_bounds g = Some b ->
  (forall p, In p (shp_env_pts (to_shapely g)) -> in_env b p) /\ attained b (shp_env_pts (to_shapely g)).
Proof. apply env_of_minmax. Qed.

(* min / max determine the envelope up to == *)
Lemma minmax_unique l b b' :
  (forall p, In p l -> in_env b p) -> attained b l ->
  (forall p, In p l -> in_env b' p) -> attained b' l -> bounds_eqb b b' = true.
Proof.
  intros H1 ((p1 & I1 & A1) & (p2 & I2 & A2) & (p3 & I3 & A3) & (p4 & I4 & A4))
         H2 ((q1 & J1 & B1) & (q2 & J2 & B2) & (q3 & J3 & B3) & (q4 & J4 & B4)).
  pose proof (H1 q1 J1) as X1. pose proof (H1 q2 J2) as X2. pose proof (H1 q3 J3) as X3. pose proof (H1 q4 J4) as X4.
  pose proof (H2 p1 I1) as Y1. pose proof (H2 p2 I2) as Y2. pose proof (H2 p3 I3) as Y3. pose proof (H2 p4 I4) as Y4.
  unfold in_env in *. unfold bounds_eqb. rewrite !andb_true_iff. repeat split; apply qeqb_spec; lra.
Qed.

(* ---------- closed forms for the time-only types, points and boxes ---------- *)
Theorem bounds_timestamp t : compute_bounds (TimeStamp t) = Some (t, 0, t, MAXF).
Proof.
  unfold compute_bounds, shp_bounds. cbn. unfold env_step, b_start, b_low, b_end, b_high. cbn.
  assert (H1 : pymin t t = t) by (unfold pymin; destruct (qltb t t); reflexivity).
  assert (H2 : pymax t t = t) by (unfold pymax; destruct (qltb t t); reflexivity).
  rewrite H1, H2. reflexivity.
Qed.

Theorem bounds_point t f : compute_bounds (Point t f) = Some (t, f, t, f).
Proof. reflexivity. Qed.

Theorem bounds_box s lo e hi b :
  s <= e -> lo <= hi -> compute_bounds (BBox s lo e hi) = Some b -> bounds_eqb b (s, lo, e, hi) = true.
Proof.
  intros Hs Hf H. apply bounds_minmax in H. destruct H as [Hin Hat].
  apply (minmax_unique (box_ring s lo e hi) b (s, lo, e, hi) Hin Hat).
  - intros p Hp. unfold in_env, b_start, b_end, b_low, b_high. cbn [fst snd].
    cbn in Hp. destruct Hp as [<-|[<-|[<-|[<-|[<-|[]]]]]]; cbn; lra.
  - unfold attained, b_start, b_end, b_low, b_high. cbn [fst snd]. repeat split.
    + exists (s, hi). split; [cbn; tauto|reflexivity].
    + exists (e, lo). split; [cbn; tauto|reflexivity].
    + exists (e, lo). split; [cbn; tauto|reflexivity].
    + exists (e, hi). split; [cbn; tauto|reflexivity].
Qed.

Theorem bounds_interval s e b :
  s <= e -> compute_bounds (TimeInterval s e) = Some b -> bounds_eqb b (s, 0, e, MAXF) = true.
Proof.
  intros Hs H. apply (bounds_box s 0 e MAXF b Hs); [unfold MAXF; lra|exact H].
Qed.

Lemma line_ok_nonnil l : line_okb l = true -> l <> [].
Proof. intros H ->. cbn in H. discriminate. Qed.
Lemma ring_ok_nonnil r : ring_okb r = true -> r <> [].
Proof. intros H ->. cbn in H. discriminate. Qed.
Lemma close_ring_nonnil r : r <> [] -> close_ring r <> [].
Proof.
  destruct r as [|p r]; [congruence|]. intros _. unfold close_ring.
  destruct (pt_eqb p (last (p :: r) p)); [discriminate|]. destruct r; discriminate.
Qed.
Lemma poly_ok_shell rs : poly_okb rs = true -> close_ring (hd [] rs) <> [].
Proof.
  unfold poly_okb. destruct rs as [|r rs]; [cbn; discriminate|]. cbn [hd forallb length].
  intro H. apply andb_true_iff in H. destruct H as [_ H]. apply andb_true_iff in H. destruct H as [H _].
  apply close_ring_nonnil, ring_ok_nonnil. exact H.
Qed.

Theorem bounds_defined g : validb g = true -> exists b, compute_bounds g = Some b.
Proof.
  intro H. unfold compute_bounds, shp_bounds. apply env_of_some.
  destruct g; cbn [to_shapely shp_env_pts validb] in *; try discriminate.
  - apply andb_true_iff in H. destruct H as [H _]. apply line_ok_nonnil. exact H.
  - unfold mk_poly. cbn [fst]. apply poly_ok_shell. exact H.
  - intros ->. cbn in H. discriminate.
  - destruct ls as [|l ls]; [cbn in H; discriminate|]. cbn [concat].
    apply andb_true_iff in H. destruct H as [_ H]. cbn [forallb] in H. apply andb_true_iff in H.
    destruct H as [H _]. apply andb_true_iff in H. destruct H as [H _].
    apply line_ok_nonnil in H. destruct l; [congruence|discriminate].
  - destruct ps as [|p ps]; [cbn in H; discriminate|]. cbn [map concat].
    apply andb_true_iff in H. destruct H as [_ H]. cbn [forallb] in H. apply andb_true_iff in H.
    destruct H as [H _]. apply poly_ok_shell in H. unfold mk_poly. cbn [fst].
    destruct (close_ring (hd [] p)); [congruence|discriminate].
Qed.

(* ---------- features are consistent with the bounds ---------- *)
Definition feat_consistent (b : bounds) (f : fname * Q) : Prop :=
  match fst f with
  | Duration => snd f == b_end b - b_start b
  | LowFreq => snd f == b_low b
  | HighFreq => snd f == b_high b
  | Bandwidth => snd f == b_high b - b_low b
  | NumSegments => True
  end.

Lemma bounds_features_consistent b f : In f (bounds_features b) -> feat_consistent b f.
Proof.
  unfold bounds_features. intros [<-|[<-|[<-|[<-|[]]]]]; unfold feat_consistent; cbn; reflexivity.
Qed.

Lemma bounds_eqb_fields b b' : bounds_eqb b b' = true ->
  b_start b == b_start b' /\ b_low b == b_low b' /\ b_end b == b_end b' /\ b_high b == b_high b'.
Proof.
  unfold bounds_eqb. rewrite !andb_true_iff. intros [[[H1 H2] H3] H4].
  apply qeqb_spec in H1, H2, H3, H4. tauto.
Qed.

Theorem features_consistent g b fs :
  validb g = true -> compute_bounds g = Some b -> features g = Some fs ->
  forall f, In f fs -> feat_consistent b f.
Proof.
  intros Hv Hb Hf f Hin. destruct g; cbn [features] in Hf.
  - injection Hf as <-. destruct Hin as [<-|[]]. rewrite bounds_timestamp in Hb. injection Hb as <-.
    unfold feat_consistent, b_end, b_start. cbn. lra.
  - injection Hf as <-. destruct Hin as [<-|[]]. cbn [validb] in Hv.
    apply andb_true_iff in Hv. destruct Hv as [_ Hv]. apply qleb_spec in Hv.
    apply (bounds_interval s e b Hv) in Hb. apply bounds_eqb_fields in Hb.
    unfold feat_consistent, b_start, b_end in *. cbn in *. lra.
  - rewrite Hb in Hf. injection Hf as <-. rewrite bounds_point in Hb. injection Hb as <-.
    destruct Hin as [<-|[<-|[<-|[<-|[]]]]]; unfold feat_consistent, b_start, b_end, b_low, b_high; cbn; lra.
  - rewrite Hb in Hf. injection Hf as <-. apply bounds_features_consistent. exact Hin.
  - rewrite Hb in Hf. injection Hf as <-. apply bounds_features_consistent. exact Hin.
  - injection Hf as <-. cbn [validb] in Hv. repeat (apply andb_true_iff in Hv; destruct Hv as [Hv ?]).
    apply qleb_spec in H, H0. apply (bounds_box s lo e hi b H0 H) in Hb. apply bounds_eqb_fields in Hb.
    unfold b_start, b_end, b_low, b_high in Hb. cbn in Hb.
    destruct Hin as [<-|[<-|[<-|[<-|[]]]]]; unfold feat_consistent, b_start, b_end, b_low, b_high; cbn; lra.
  - rewrite Hb in Hf. cbn in Hf. injection Hf as <-.
    destruct Hin as [<-|[<-|[<-|[<-|[<-|[]]]]]]; unfold feat_consistent; cbn [fst snd]; try reflexivity; exact I.
  - rewrite Hb in Hf. cbn in Hf. injection Hf as <-.
    destruct Hin as [<-|[<-|[<-|[<-|[<-|[]]]]]]; unfold feat_consistent; cbn [fst snd]; try reflexivity; exact I.
  - rewrite Hb in Hf. cbn in Hf. injection Hf as <-.
    destruct Hin as [<-|[<-|[<-|[<-|[<-|[]]]]]]; unfold feat_consistent; cbn [fst snd]; try reflexivity; exact I.
Qed.

(* the number of parts of a multi-geometry *)
Theorem features_num_segments g fs x :
  features g = Some fs -> In (NumSegments, x) fs ->
  match g with
  | MultiPoint l => x = nb (length l)
  | MultiLineString l => x = nb (length l)
  | MultiPolygon l => x = nb (length l)
  | _ => False
  end.
Proof.
  intros Hf Hin.
  destruct g; cbn [features] in Hf;
    try (destruct (compute_bounds _) as [b|]; [|discriminate]); cbn in Hf; injection Hf as <-;
    cbn in Hin;
    repeat (destruct Hin as [Hin|Hin]; [try discriminate; try (injection Hin as <-; reflexivity)|]);
    try contradiction.
Qed.

(* ---------- anchor points: corners, edge midpoints and centre of the bounds ---------- *)
Theorem point_table g b v h :
  compute_bounds g = Some b ->
  geometry_point g v h =
  Some (match h with HLeft => b_start b | HCenter => (b_start b + b_end b) / 2 | HRight => b_end b end,
        match v with VBottom => b_low b | VCenter => (b_low b + b_high b) / 2 | VTop => b_high b end).
Proof. intro H. unfold geometry_point. rewrite H. reflexivity. Qed.

Theorem point_in_bounds g b v h p :
  compute_bounds g = Some b -> b_start b <= b_end b -> b_low b <= b_high b ->
  geometry_point g v h = Some p -> in_env b p.
Proof.
  intros Hb H1 H2 Hp. rewrite (point_table g b v h Hb) in Hp. injection Hp as <-.
  unfold in_env. cbn [fst snd].
  assert (Hm1 : (b_start b + b_end b) / 2 == (b_start b + b_end b) * (1 # 2)) by field.
  assert (Hm2 : (b_low b + b_high b) / 2 == (b_low b + b_high b) * (1 # 2)) by field.
  destruct h, v; repeat split; lra.
Qed.

(* the envelope really is ordered, so the hypotheses of point_in_bounds hold *)
Theorem bounds_ordered g b : compute_bounds g = Some b -> b_start b <= b_end b /\ b_low b <= b_high b.
Proof.
  intro H. apply bounds_minmax in H. destruct H as [Hin ((p1 & I1 & A1) & _ & (p3 & I3 & A3) & _)].
  pose proof (Hin p1 I1) as X1. pose proof (Hin p3 I3) as X3. unfold in_env in *. lra.
Qed.

(* any convex combination of two points of the envelope lies in the envelope (so does, by iteration,
   any centroid / point on surface that is a convex combination of the geometry's points) *)
Theorem convex_in_env b p q w :
  in_env b p -> in_env b q -> 0 <= w -> w <= 1 ->
  in_env b (w * fst p + (1 - w) * fst q, w * snd p + (1 - w) * snd q).
Proof. unfold in_env. cbn [fst snd]. intros Hp Hq H0 H1. repeat split; nra. Qed.

(* ---------- the shapely conversion keeps every coordinate and the kind ---------- *)
Theorem to_shapely_kind g :
  shp_kind (to_shapely g) =
  match g with
  | TimeStamp _ | LineString _ => KLineString
  | TimeInterval _ _ | Polygon _ | BBox _ _ _ _ => KPolygon
  | Point _ _ => KPoint | MultiPoint _ => KMultiPoint
  | MultiLineString _ => KMultiLineString | MultiPolygon _ => KMultiPolygon
  end.
Proof. destruct g; reflexivity. Qed.

Lemma close_ring_incl r p : In p (close_ring r) <-> In p r.
Proof.
  unfold close_ring. destruct r as [|q r]; [tauto|]. destruct (pt_eqb q (last (q :: r) q)); [tauto|].
  rewrite in_app_iff. cbn. tauto.
Qed.

Theorem to_shapely_coords g p :
  In p (shp_coords (to_shapely g)) <->
  match g with
  | TimeStamp t => p = (t, 0) \/ p = (t, MAXF)
  | TimeInterval s e => In p [(s, 0); (s, MAXF); (e, 0); (e, MAXF)]
  | BBox s lo e hi => In p [(s, lo); (s, hi); (e, lo); (e, hi)]
  | _ => In p (pts_of g)
  end.
Proof.
  destruct g; cbn [to_shapely shp_coords pts_of].
  - cbn. intuition congruence.
  - rewrite app_nil_r. cbn. intuition congruence.
  - cbn. tauto.
  - tauto.
  - unfold mk_poly. cbn [fst snd]. rewrite in_app_iff, close_ring_incl.
    destruct rings as [|r rs]; cbn [hd tl concat map].
    + cbn. tauto.
    + rewrite in_app_iff. rewrite !in_concat. split.
      * intros [H|[x [Hx Hp]]]; [left; exact H|right]. apply in_map_iff in Hx. destruct Hx as [y [<- Hy]].
        exists y. split; [exact Hy|apply close_ring_incl; exact Hp].
      * intros [H|[x [Hx Hp]]]; [left; exact H|right]. exists (close_ring x).
        split; [apply in_map; exact Hx|apply close_ring_incl; exact Hp].
  - rewrite app_nil_r. cbn. intuition congruence.
  - tauto.
  - tauto.
  - rewrite !in_concat. split.
    + intros [x [Hx Hp]]. apply in_map_iff in Hx. destruct Hx as [poly [<- Hpoly]].
      apply in_map_iff in Hpoly. destruct Hpoly as [rings [<- Hrings]].
      exists (concat rings). split; [apply in_map; exact Hrings|].
      unfold mk_poly in Hp. cbn [fst snd] in Hp. rewrite in_app_iff, close_ring_incl in Hp.
      destruct rings as [|r rs]; cbn [hd tl concat map] in *.
      * destruct Hp as [[]|Hp]. cbn in Hp. destruct Hp.
      * rewrite in_app_iff. destruct Hp as [Hp|Hp]; [left; exact Hp|right].
        apply in_concat in Hp. destruct Hp as [y [Hy Hp]]. apply in_map_iff in Hy. destruct Hy as [z [<- Hz]].
        apply in_concat. exists z. split; [exact Hz|apply close_ring_incl; exact Hp].
    + intros [x [Hx Hp]]. apply in_map_iff in Hx. destruct Hx as [rings [<- Hrings]].
      exists (fst (mk_poly rings) ++ concat (snd (mk_poly rings))). split.
      * apply in_map_iff. exists (mk_poly rings). split; [reflexivity|apply in_map; exact Hrings].
      * unfold mk_poly. cbn [fst snd]. rewrite in_app_iff, close_ring_incl.
        destruct rings as [|r rs]; cbn [hd tl concat map] in *; [destruct Hp|].
        apply in_app_or in Hp. destruct Hp as [Hp|Hp]; [left; exact Hp|right].
        apply in_concat in Hp. destruct Hp as [z [Hz Hp]].
        apply in_concat. exists (close_ring z). split; [apply in_map; exact Hz|apply close_ring_incl; exact Hp].
Qed.
