From Coq Require Import QArith Lqa Lia Qminmax.
From SE Require Import Base.Num Base.Res Base.NumProofs Geom.Geometry Geom.Buffer.
Open Scope Q_scope.

Lemma MAXF_pos : 0 < MAXF. Proof. unfold MAXF. lra. Qed.

Theorem negative_rejected g tb fb : (tb < 0 \/ fb < 0) <-> buffer_geometry g tb fb = Err EValue.
Proof.
  unfold buffer_geometry. destruct (qltb tb 0) eqn:E1; [|destruct (qltb fb 0) eqn:E2]; cbn [orb].
  - apply qltb_spec in E1. tauto.
  - apply qltb_spec in E2. tauto.
  - apply qltb_false in E1. apply qltb_false in E2.
    split; [intros [H|H]; exfalso; lra|]. destruct g; discriminate.
Qed.

Theorem dispatch g tb fb : 0 <= tb -> 0 <= fb ->
  buffer_geometry g tb fb =
  match g with
  | TimeStamp t => Ok (Closed (buffer_timestamp t tb))
  | TimeInterval s e => Ok (Closed (buffer_interval s e tb))
  | BBox s lo e hi => Ok (Closed (buffer_bbox s lo e hi tb fb))
  | _ => Ok Shapely
  end.
Proof.
  intros H1 H2. unfold buffer_geometry.
  assert (E1 : qltb tb 0 = false) by (apply qltb_false; exact H1).
  assert (E2 : qltb fb 0 = false) by (apply qltb_false; exact H2). rewrite E1, E2. reflexivity.
Qed.

(* the closed forms are exactly the interval / box widened by the buffers and clamped at 0 / MAXF *)
Theorem interval_exact s e tb : 0 <= s -> s <= e -> 0 <= tb ->
  exists s' e', buffer_interval s e tb = TimeInterval s' e' /\
    s' == Qmax (s - tb) 0 /\ e' == e + tb /\ validb (TimeInterval s' e') = true /\ s' <= s /\ e <= e'.
Proof.
  intros Hs He Htb. unfold buffer_interval. do 2 eexists. split; [reflexivity|].
  pose proof (pymax_Qmax (s - tb) 0) as Hm. pose proof (pymax_ub (s - tb) 0) as [U1 U2].
  destruct (pymax_cases (s - tb) 0) as [[E C]|[E C]]; rewrite E in *;
    (split; [exact Hm|]); (split; [reflexivity|]); cbn [validb]; repeat split; try lra;
    rewrite !andb_true_iff; repeat split; apply qleb_spec; lra.
Qed.

Theorem timestamp_exact t tb : 0 <= t -> 0 <= tb ->
  exists s' e', buffer_timestamp t tb = TimeInterval s' e' /\
    s' == Qmax (t - tb) 0 /\ e' == t + tb /\ validb (TimeInterval s' e') = true /\ s' <= t /\ t <= e'.
Proof. intros Ht Htb. apply (interval_exact t t tb Ht); lra. Qed.

Theorem bbox_exact s lo e hi tb fb :
  validb (BBox s lo e hi) = true -> 0 <= tb -> 0 <= fb ->
  exists s' lo' e' hi', buffer_bbox s lo e hi tb fb = BBox s' lo' e' hi' /\
    s' == Qmax (s - tb) 0 /\ lo' == Qmax (lo - fb) 0 /\ e' == e + tb /\ hi' == Qmin (hi + fb) MAXF /\
    validb (BBox s' lo' e' hi') = true /\
    s' <= s /\ lo' <= lo /\ e <= e' /\ hi <= hi'.
Proof.
  intros Hv Htb Hfb. cbn [validb] in Hv. repeat (apply andb_true_iff in Hv; destruct Hv as [Hv ?]).
  apply qleb_spec in Hv, H, H0, H1, H2, H3, H4, H5. pose proof MAXF_pos as HM.
  unfold buffer_bbox. do 4 eexists. split; [reflexivity|].
  pose proof (pymax_Qmax (s - tb) 0) as M1. pose proof (pymax_Qmax (lo - fb) 0) as M2.
  pose proof (pymin_Qmin (hi + fb) MAXF) as M3.
  destruct (pymax_cases (s - tb) 0) as [[E1 C1]|[E1 C1]]; rewrite E1 in *;
  destruct (pymax_cases (lo - fb) 0) as [[E2 C2]|[E2 C2]]; rewrite E2 in *;
  destruct (pymin_cases (hi + fb) MAXF) as [[E3 C3]|[E3 C3]]; rewrite E3 in *;
    (split; [exact M1|]); (split; [exact M2|]); (split; [reflexivity|]); (split; [exact M3|]);
    cbn [validb]; repeat split; try lra;
    rewrite !andb_true_iff; repeat split; apply qleb_spec; lra.
Qed.

(* larger buffers give supersets (closed forms): bounds move outwards monotonically *)
Theorem interval_monotone s e tb1 tb2 : tb1 <= tb2 ->
  match buffer_interval s e tb1, buffer_interval s e tb2 with
  | TimeInterval s1 e1, TimeInterval s2 e2 => s2 <= s1 /\ e1 <= e2
  | _, _ => False
  end.
Proof.
  intro H. unfold buffer_interval.
  destruct (pymax_cases (s - tb1) 0) as [[-> C1]|[-> C1]]; destruct (pymax_cases (s - tb2) 0) as [[-> C2]|[-> C2]]; lra.
Qed.

Theorem bbox_monotone s lo e hi tb1 tb2 fb1 fb2 : tb1 <= tb2 -> fb1 <= fb2 ->
  match buffer_bbox s lo e hi tb1 fb1, buffer_bbox s lo e hi tb2 fb2 with
  | BBox s1 l1 e1 h1, BBox s2 l2 e2 h2 => s2 <= s1 /\ l2 <= l1 /\ e1 <= e2 /\ h1 <= h2
  | _, _ => False
  end.
Proof.
  intros Ht Hf. unfold buffer_bbox.
  destruct (pymax_cases (s - tb1) 0) as [[-> C1]|[-> C1]]; destruct (pymax_cases (s - tb2) 0) as [[-> C2]|[-> C2]];
  destruct (pymax_cases (lo - fb1) 0) as [[-> C3]|[-> C3]]; destruct (pymax_cases (lo - fb2) 0) as [[-> C4]|[-> C4]];
  destruct (pymin_cases (hi + fb1) MAXF) as [[-> C5]|[-> C5]]; destruct (pymin_cases (hi + fb2) MAXF) as [[-> C6]|[-> C6]];
  repeat split; lra.
Qed.

(* zero buffers are the identity on valid intervals and boxes *)
Theorem zero_identity_interval s e : 0 <= s -> geom_eqb (buffer_interval s e 0) (TimeInterval s e) = true.
Proof.
  intro H. unfold buffer_interval, geom_eqb. apply andb_true_iff. split; apply qeqb_spec; [|lra].
  destruct (pymax_cases (s - 0) 0) as [[-> C]|[-> C]]; lra.
Qed.

Theorem zero_identity_bbox s lo e hi :
  validb (BBox s lo e hi) = true -> geom_eqb (buffer_bbox s lo e hi 0 0) (BBox s lo e hi) = true.
Proof.
  intro Hv. cbn [validb] in Hv. repeat (apply andb_true_iff in Hv; destruct Hv as [Hv ?]).
  apply qleb_spec in Hv, H, H0, H1, H2, H3, H4, H5.
  unfold buffer_bbox, geom_eqb. rewrite !andb_true_iff. repeat split; apply qeqb_spec.
  - destruct (pymax_cases (s - 0) 0) as [[-> C]|[-> C]]; lra.
  - destruct (pymax_cases (lo - 0) 0) as [[-> C]|[-> C]]; lra.
  - lra.
  - destruct (pymin_cases (hi + 0) MAXF) as [[-> C]|[-> C]]; lra.
Qed.
