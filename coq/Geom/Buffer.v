(* Geom/Buffer.v — buffer_geometry (geometry/operations.py): the negative guard, the type
   dispatch and the three closed forms.  The shapely branch (all other types) is delegated to
   GEOS; the model returns [Shapely] for it and the check treats it by contract (DESIGN.md C11). *)
From SE Require Export Geom.Geometry.
Open Scope Q_scope.

Inductive buffered := Closed (g : geom) | Shapely.

Definition buffer_timestamp (t tb : Q) : geom := TimeInterval (pymax (t - tb) 0) (t + tb).
Definition buffer_interval (s e tb : Q) : geom := TimeInterval (pymax (s - tb) 0) (e + tb).
Definition buffer_bbox (s lo e hi tb fb : Q) : geom :=
  BBox (pymax (s - tb) 0) (pymax (lo - fb) 0) (e + tb) (pymin (hi + fb) MAXF).

Definition buffer_geometry (g : geom) (tb fb : Q) : res buffered :=
  if qltb tb 0 || qltb fb 0 then Err EValue
  else match g with
       | TimeStamp t => Ok (Closed (buffer_timestamp t tb))
       | TimeInterval s e => Ok (Closed (buffer_interval s e tb))
       | BBox s lo e hi => Ok (Closed (buffer_bbox s lo e hi tb fb))
       | _ => Ok Shapely
       end.

Definition buffered_eqb (a b : buffered) : bool :=
  match a, b with
  | Closed x, Closed y => geom_eqb x y
  | Shapely, Shapely => true
  | _, _ => false
  end.
