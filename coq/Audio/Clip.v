(* Audio/Clip.v — load_recording / load_clip (soundevent/audio/io.py).
   The file is a list of frames (one list of channel values per frame); libsndfile's
   seek + read(frames=n, fill_value=0) is [read_frames]; the time axis is C16's create_time_range. *)
From SE Require Export Base.Num Base.Res Arr.Range.
From Coq Require Import Qround.
Open Scope Q_scope.

Definition frame := list Q.
Definition zero_frame (ch : nat) : frame := repeat 0 ch.

Definition read_frames (file : list frame) (ch : nat) (offset n : nat) : list frame :=
  map (fun i => nth (offset + i) file (zero_frame ch)) (seq 0 n).

Record audio := { a_frames : list frame; a_times : list Q; a_step : Q }.

(* xarray refuses data and coordinate of different lengths *)
Definition mk_audio (frames : list frame) (axis : res (list Q * Q)) : res audio :=
  match axis with
  | Err e => Err e
  | Ok (coords, step) =>
      if Nat.eqb (length coords) (length frames)
      then Ok {| a_frames := frames; a_times := coords; a_step := step |}
      else Err EValue
  end.

Definition load_recording (file : list frame) (sr duration : Q) : res audio :=
  mk_audio file (create_time_range 0 duration None (Some sr)).

Definition load_clip (file : list frame) (ch : nat) (sr start stop : Q) : res audio :=
  let offset := Qfloor (start * sr) in
  let samples := Qfloor ((stop - start) * sr) in
  if (offset <? 0)%Z || (Z.of_nat (length file) <? offset)%Z then Err EOther       (* seek fails *)
  else if (samples <? 0)%Z then Err EOther
  else
    let start' := inject_Z offset / sr in
    let stop' := start' + inject_Z samples / sr in
    mk_audio (read_frames file ch (Z.to_nat offset) (Z.to_nat samples))
             (create_time_range start' stop' None (Some sr)).

(* an axis tells the truth about its step: strictly increasing, every coordinate within one step of
   first + i*step *)
Definition axis_ok_b (coords : list Q) (step : Q) : bool :=
  match coords with
  | [] => true
  | c0 :: _ =>
      forallb (fun p => qltb (qabs (snd p - (c0 + idx (fst p) * step))) step) (combine (seq 0 (length coords)) coords)
      && (fix incr (l : list Q) : bool :=
            match l with x :: ((y :: _) as r) => qltb x y && incr r | _ => true end) coords
  end.

Fixpoint frames_eqb (a b : list frame) : bool :=
  match a, b with
  | [], [] => true
  | x :: a', y :: b' => qlist_eqb x y && frames_eqb a' b'
  | _, _ => false
  end.
Definition audio_eqb (tol : Q) (a b : audio) : bool :=
  frames_eqb (a_frames a) (a_frames b) && qlist_close tol (a_times a) (a_times b) && qclose tol (a_step a) (a_step b).
Definition raudio_eqb (tol : Q) := res_eqb (audio_eqb tol).
