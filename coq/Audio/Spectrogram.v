(* Audio/Spectrogram.v — the axes of soundevent.audio.compute_spectrogram (scipy.signal.stft with
   boundary='zeros', padded=True).  t0: first time coordinate of the audio; step: its advertised step;
   n: number of audio samples. *)
From SE Require Export Base.Num Base.Res.
From Coq Require Import Qround.
Open Scope Q_scope.

Record spec_axes := { s_times : list Q; s_time_step : Q; s_freqs : list Q; s_freq_step : Q }.

Definition spectrogram_axes (t0 step window hop : Q) (n : nat) : option spec_axes :=
  let sr := 1 / step in
  let nperseg := Qfloor (window * sr) in
  let noverlap := Qfloor ((window - hop) * sr) in
  let nstep := (nperseg - noverlap)%Z in
  if (nperseg <=? 0)%Z || (nstep <=? 0)%Z || (noverlap <? 0)%Z || (Z.of_nat n <? nperseg)%Z then None
  else
    let l := (Z.of_nat n + 2 * (nperseg / 2))%Z in
    let nadd := (((- (l - nperseg)) mod nstep) mod nperseg)%Z in
    let frames := Z.to_nat ((l + nadd - noverlap) / nstep) in
    let hop_s := inject_Z nstep / sr in
    Some {| s_times := map (fun k => t0 + idx k * hop_s) (seq 0 frames);
            s_time_step := hop_s;
            s_freqs := map (fun j => idx j * (sr / inject_Z nperseg)) (seq 0 (Z.to_nat (nperseg / 2) + 1));
            s_freq_step := sr / inject_Z nperseg |}.
