From Coq Require Import QArith Lqa Lia Qround.
From SE Require Import Base.Num Base.Res Base.NumProofs Arr.Range Arr.RangeProofs Audio.Clip Audio.Resample Audio.Spectrogram.
Open Scope Q_scope.

(* ---------- a lattice axis tells the truth about its step ---------- *)
Theorem lattice_truthful a st n :
  0 < st ->
  (forall i, (i < n)%nat -> nth_error (lattice a st n) i = Some (a + idx i * st)) /\
  (forall i j ci cj, (i < j)%nat -> nth_error (lattice a st n) i = Some ci -> nth_error (lattice a st n) j = Some cj -> ci < cj).
Proof.
  intro Hst. split; [intros i Hi; apply lattice_nth; exact Hi|].
  intros i j ci cj Hij Hi Hj.
  assert (Hjn : (j < n)%nat).
  { apply nth_error_Some_lt in Hj || (assert (H : nth_error (lattice a st n) j <> None) by congruence; apply nth_error_Some in H; rewrite lattice_length in H; exact H). }
  rewrite lattice_nth in Hi by lia. rewrite lattice_nth in Hj by lia.
  injection Hi as <-. injection Hj as <-. pose proof (idx_lt _ _ Hij). nra.
Qed.

(* ---------- read_frames: libsndfile seek + read with zero fill ---------- *)
Theorem read_frames_spec file ch offset n :
  length (read_frames file ch offset n) = n /\
  forall i, (i < n)%nat ->
    nth_error (read_frames file ch offset n) i = Some (nth (offset + i) file (zero_frame ch)).
Proof.
  unfold read_frames. split; [rewrite map_length, seq_length; reflexivity|].
  intros i Hi. rewrite nth_error_map, (nth_error_nth' (seq 0 n) 0%nat) by (rewrite seq_length; exact Hi).
  rewrite seq_nth by exact Hi. reflexivity.
Qed.

Lemma inv_pos sr : 0 < sr -> 0 < 1 / sr.
Proof. intro H. unfold Qdiv. rewrite Qmult_1_l. apply Qinv_lt_0_compat. exact H. Qed.

(* ---------- load_clip ---------- *)
Theorem load_clip_spec file ch sr start stop :
  0 < sr -> 0 <= start ->
  let offset := Qfloor (start * sr) in
  let samples := Qfloor ((stop - start) * sr) in
  (offset <= Z.of_nat (length file))%Z -> (1 <= samples)%Z ->
  load_clip file ch sr start stop =
  Ok {| a_frames := read_frames file ch (Z.to_nat offset) (Z.to_nat samples);
        a_times := lattice (inject_Z offset / sr) (1 / sr) (Z.to_nat samples);
        a_step := 1 / sr |}.
Proof.
  intros Hsr Hstart offset samples Hoff Hs. unfold load_clip. fold offset samples.
  assert (H0 : (0 <= offset)%Z).
  { unfold offset. change 0%Z with (Qfloor 0). apply Qfloor_resp_le. nra. }
  assert (E1 : (offset <? 0)%Z = false) by (apply Z.ltb_ge; exact H0).
  assert (E2 : (Z.of_nat (length file) <? offset)%Z = false) by (apply Z.ltb_ge; exact Hoff).
  assert (E3 : (samples <? 0)%Z = false) by (apply Z.ltb_ge; lia).
  rewrite E1, E2, E3. cbn [orb].
  rewrite time_range_samplerate by (intro Hz; lra).
  pose proof (inv_pos sr Hsr) as Hst.
  assert (Hsq : 1 <= inject_Z samples). { change 1 with (inject_Z 1). rewrite <- Zle_Qle. exact Hs. }
  assert (Hinv : 0 < / sr) by (apply Qinv_lt_0_compat; exact Hsr).
  assert (Hlt : inject_Z offset / sr < inject_Z offset / sr + inject_Z samples / sr).
  { unfold Qdiv. nra. }
  rewrite (create_range_dim_spec _ _ _ Hst Hlt).
  assert (Hc : range_count (inject_Z offset / sr) (inject_Z offset / sr + inject_Z samples / sr) (1 / sr) = Z.to_nat samples).
  { apply range_count_whole; [exact Hst|]. rewrite idx_to_nat by lia. field. lra. }
  rewrite Hc. unfold mk_audio. rewrite lattice_length.
  destruct (read_frames_spec file ch (Z.to_nat offset) (Z.to_nat samples)) as [Hl _]. rewrite Hl, Nat.eqb_refl. reflexivity.
Qed.

(* frame i carries time (offset + i) / samplerate *)
Theorem clip_time offset sr i : 0 < sr ->
  inject_Z offset / sr + idx i * (1 / sr) == (inject_Z offset + idx i) / sr.
Proof. intro H. field. lra. Qed.

(* ---------- load_recording ---------- *)
Theorem load_recording_spec file sr duration :
  0 < sr -> file <> [] -> duration * sr == idx (length file) ->
  load_recording file sr duration =
  Ok {| a_frames := file; a_times := lattice 0 (1 / sr) (length file); a_step := 1 / sr |}.
Proof.
  intros Hsr Hne Hd. unfold load_recording.
  rewrite time_range_samplerate by (intro Hz; lra).
  pose proof (inv_pos sr Hsr) as Hst.
  assert (Hn : 1 <= idx (length file)).
  { destruct file; [congruence|]. cbn [length]. rewrite idx_S. pose proof (idx_nonneg (length file)). lra. }
  assert (Hdur : 0 < duration).
  { destruct (Qlt_le_dec 0 duration) as [H|H]; [exact H|]. exfalso. nra. }
  rewrite (create_range_dim_spec 0 duration _ Hst Hdur).
  assert (Hc : range_count 0 duration (1 / sr) = length file).
  { apply range_count_whole; [exact Hst|]. rewrite <- Hd. field. lra. }
  rewrite Hc. unfold mk_audio. rewrite lattice_length, Nat.eqb_refl. reflexivity.
Qed.

(* a clip frame is the recording's frame at the same time *)
Theorem clip_matches_recording file ch offset n i :
  (i < n)%nat -> (offset + i < length file)%nat ->
  nth_error (read_frames file ch offset n) i = nth_error file (offset + i).
Proof.
  intros Hi Hin. destruct (read_frames_spec file ch offset n) as [_ H]. rewrite (H i Hi).
  symmetry. apply nth_error_nth'. exact Hin.
Qed.

Theorem clip_past_eof_is_zero file ch offset n i :
  (i < n)%nat -> (length file <= offset + i)%nat ->
  nth_error (read_frames file ch offset n) i = Some (zero_frame ch).
Proof.
  intros Hi Hin. destruct (read_frames_spec file ch offset n) as [_ H]. rewrite (H i Hi).
  f_equal. apply nth_overflow. exact Hin.
Qed.

(* ---------- resample ---------- *)
Theorem resample_spec times step target t0 t1 rest :
  times = t0 :: t1 :: rest -> (1 <= resample_num (length times) step target)%Z ->
  resample_axis times step target =
  Some (map (fun i => t0 + idx i * (t1 - t0) * idx (length times) / idx (Z.to_nat (resample_num (length times) step target)))
            (seq 0 (Z.to_nat (resample_num (length times) step target))), 1 / target).
Proof.
  intros -> Hn. unfold resample_axis.
  destruct (Z.to_nat (resample_num (length (t0 :: t1 :: rest)) step target)) eqn:E; [lia|reflexivity].
Qed.

(* every resampled coordinate lies within one advertised step (1/target) of first + i/target, the axis
   starts at the source's start and is strictly increasing *)
Theorem resample_within_one_step n step target t0 (num : Z) (i : nat) :
  0 < step -> 0 < target -> (1 <= num)%Z -> num = Qfloor (idx n * (target * step)) -> (Z.of_nat i < num)%Z ->
  let c := t0 + idx i * step * idx n / inject_Z num in
  0 <= c - (t0 + idx i * (1 / target)) /\ c - (t0 + idx i * (1 / target)) < 1 / target.
Proof.
  intros Hstep Htar Hnum Hfl Hi. cbn zeta.
  set (r := idx n * (target * step)) in *.
  pose proof (Qfloor_le r) as Hf1. pose proof (Qlt_floor r) as Hf2. rewrite <- Hfl in Hf1, Hf2.
  rewrite inject_Z_plus in Hf2. change (inject_Z 1) with 1 in Hf2.
  assert (Hq : 1 <= inject_Z num). { change 1 with (inject_Z 1). rewrite <- Zle_Qle. exact Hnum. }
  assert (Hiq : idx i + 1 <= inject_Z num).
  { unfold idx. change 1 with (inject_Z 1). rewrite <- inject_Z_plus, <- Zle_Qle. lia. }
  pose proof (idx_nonneg i) as Hi0.
  assert (E : t0 + idx i * step * idx n / inject_Z num - (t0 + idx i * (1 / target))
              == idx i * (r - inject_Z num) / (target * inject_Z num)).
  { unfold r. field. split; lra. }
  rewrite E. clearbody r.
  assert (Hden : 0 < target * inject_Z num) by nra.
  split.
  - apply Qle_shift_div_l; [exact Hden|]. nra.
  - apply Qlt_shift_div_r; [exact Hden|].
    assert (Ht : 1 / target * (target * inject_Z num) == inject_Z num) by (field; lra).
    rewrite Ht. nra.
Qed.

(* ---------- spectrogram ---------- *)
Theorem spectrogram_axes_spec t0 step window hop n a :
  0 < step -> spectrogram_axes t0 step window hop n = Some a ->
  0 < s_time_step a /\ 0 < s_freq_step a /\
  s_times a = lattice t0 (s_time_step a) (length (s_times a)) /\
  s_freqs a = map (fun j => idx j * s_freq_step a) (seq 0 (length (s_freqs a))) /\
  (exists nstep : Z, (1 <= nstep)%Z /\ s_time_step a == inject_Z nstep * step).
Proof.
  intros Hstep. unfold spectrogram_axes.
  set (sr := 1 / step). set (nperseg := Qfloor (window * sr)). set (noverlap := Qfloor ((window - hop) * sr)).
  destruct ((nperseg <=? 0)%Z || (nperseg - noverlap <=? 0)%Z || (noverlap <? 0)%Z || (Z.of_nat n <? nperseg)%Z)%bool eqn:E; [discriminate|].
  apply orb_false_iff in E. destruct E as [E E4]. apply orb_false_iff in E. destruct E as [E E3].
  apply orb_false_iff in E. destruct E as [E1 E2]. apply Z.leb_gt in E1, E2.
  intro H. injection H as <-. cbn [s_times s_time_step s_freqs s_freq_step].
  assert (Hsr : 0 < sr) by (apply inv_pos; exact Hstep).
  assert (Hns : 0 < inject_Z (nperseg - noverlap)). { change 0 with (inject_Z 0). rewrite <- Zlt_Qlt. exact E2. }
  assert (Hnp : 0 < inject_Z nperseg). { change 0 with (inject_Z 0). rewrite <- Zlt_Qlt. exact E1. }
  assert (Hinvsr : 0 < / sr) by (apply Qinv_lt_0_compat; exact Hsr).
  assert (Hinvnp : 0 < / inject_Z nperseg) by (apply Qinv_lt_0_compat; exact Hnp).
  repeat split.
  - unfold Qdiv. nra.
  - unfold Qdiv. nra.
  - rewrite map_length, seq_length. reflexivity.
  - rewrite map_length, seq_length. reflexivity.
  - exists (nperseg - noverlap)%Z. split; [lia|]. unfold sr. field. lra.
Qed.
