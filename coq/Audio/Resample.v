(* Audio/Resample.v — the time axis produced by soundevent.audio.resample (scipy.signal.resample with t=). *)
From SE Require Export Base.Num Base.Res.
From Coq Require Import Qround.
Open Scope Q_scope.

(* times: the input time coordinates; step: their advertised step; returns the new time axis and its
   advertised step 1/target.  scipy: new_t = arange(num) * (t[1]-t[0]) * N / num + t[0] *)
Definition resample_num (n : nat) (step target : Q) : Z := Qfloor (idx n * (target * step)).

Definition resample_axis (times : list Q) (step target : Q) : option (list Q * Q) :=
  match times with
  | t0 :: t1 :: _ =>
      let n := length times in
      let num := Z.to_nat (resample_num n step target) in
      match num with
      | O => None
      | _ => Some (map (fun i => t0 + idx i * (t1 - t0) * idx n / idx num) (seq 0 num), 1 / target)
      end
  | _ => None
  end.
