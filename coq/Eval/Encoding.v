(* Eval/Encoding.v — model of soundevent.evaluation.encoding and of the hand-written __hash__ /
   pydantic __eq__ of the data classes.  Strings are tokens (Z): equal strings <-> equal tokens.
   A Python dict lookup finds a key k' for k iff hash(k') == hash(k) and k' == k; the hash is an
   explicit function argument. *)
From SE Require Export Base.Num Base.Res.
Open Scope Q_scope.

Fixpoint zlist_eqb (a b : list Z) : bool :=
  match a, b with
  | [], [] => true
  | x :: a', y :: b' => Z.eqb x y && zlist_eqb a' b'
  | _, _ => false
  end.

(* a term: its declared fields in order (head = name); a tag: term and value *)
Definition term := list Z.
Definition tag := (term * Z)%type.
Definition term_eqb : term -> term -> bool := zlist_eqb.
Definition tag_eqb (a b : tag) : bool := term_eqb (fst a) (fst b) && Z.eqb (snd a) (snd b).

(* Term.__hash__ = hash(name); Tag.__hash__ = hash((term, value)): a function of (name, value) *)
Definition term_name (t : term) : Z := hd 0%Z t.
Definition tag_hash_key (t : tag) : Z * Z := (term_name (fst t), snd t).

Section Encoder.
Variable h : tag -> Z.

Definition key_match (k1 k2 : tag) : bool := Z.eqb (h k1) (h k2) && tag_eqb k1 k2.

Fixpoint dict_set (d : list (tag * nat)) (k : tag) (v : nat) : list (tag * nat) :=
  match d with
  | [] => [(k, v)]
  | (k', v') :: r => if key_match k' k then (k', v) :: r else (k', v') :: dict_set r k v
  end.

Fixpoint dict_get (d : list (tag * nat)) (k : tag) : option nat :=
  match d with
  | [] => None
  | (k', v) :: r => if key_match k' k then Some v else dict_get r k
  end.

(* {(tag.term, tag.value): i for i, tag in enumerate(tags)} *)
Definition mk_mapping (vocab : list tag) : list (tag * nat) :=
  fold_left (fun d iv => dict_set d (snd iv) (fst iv)) (combine (seq 0 (length vocab)) vocab) [].

Definition encode (vocab : list tag) (t : tag) : option nat := dict_get (mk_mapping vocab) t.
Definition decode (vocab : list tag) (i : nat) : option tag := nth_error vocab i.

Fixpoint classification_encoding (vocab : list tag) (tags : list tag) : option nat :=
  match tags with
  | [] => None
  | t :: r => match encode vocab t with Some i => Some i | None => classification_encoding vocab r end
  end.

Fixpoint set_nth {A} (l : list A) (i : nat) (x : A) : list A :=
  match l, i with
  | [], _ => []
  | _ :: r, O => x :: r
  | y :: r, S j => y :: set_nth r j x
  end.

Definition multilabel_encoding (vocab : list tag) (tags : list tag) : list Z :=
  fold_left (fun acc t => match encode vocab t with Some i => set_nth acc i 1%Z | None => acc end)
            tags (repeat 0%Z (length vocab)).

Definition prediction_encoding (vocab : list tag) (ptags : list (tag * Q)) : list Q :=
  fold_left (fun acc p => match encode vocab (fst p) with Some i => set_nth acc i (snd p) | None => acc end)
            ptags (repeat 0 (length vocab)).
End Encoder.

(* the concrete hash used in the correspondence: any injective-enough function of (name, value) *)
Definition tag_hash (t : tag) : Z := (term_name (fst t) * 1000003 + snd t)%Z.

Definition on_eqb (a b : option nat) : bool :=
  match a, b with Some x, Some y => Nat.eqb x y | None, None => true | _, _ => false end.

(* ---- data objects for hash / equality: declared fields as tokens ---- *)
Definition obj := list Z.
Definition obj_eqb : obj -> obj -> bool := zlist_eqb.
(* the projection a class hashes: the listed field positions *)
Definition proj (idxs : list nat) (o : obj) : list Z := map (fun i => nth i o 0%Z) idxs.
