From Coq Require Import QArith Lqa Lia Permutation Morphisms.
From SE Require Import Base.Num Base.Res Base.NumProofs Eval.Metrics.
Open Scope Q_scope.

(* ---------- terms are pairwise distinct within each list, and each value is the metric its term names ---------- *)
Theorem run_single_terms nc ys rows det : NoDup (map fst (run_single nc ys rows det)).
Proof.
  unfold run_single. destruct det; cbn [app map fst]; repeat constructor; cbn; intuition discriminate.
Qed.

Theorem run_multilabel_terms nc inds rows : NoDup (map fst (run_multilabel nc inds rows)).
Proof. cbn. repeat constructor. cbn. tauto. Qed.

Theorem item_terms y row : NoDup (map fst (item_metrics y row)).
Proof. cbn. repeat constructor. cbn. tauto. Qed.

Theorem clip_multilabel_terms ind row : NoDup (map fst (clip_multilabel_metrics ind row)).
Proof. cbn. repeat constructor; cbn; intuition discriminate. Qed.

Definition metric_named_single (nc : nat) (items : list item) (n : mname) : option Q :=
  match n with
  | MAccuracy => Some (accuracy nc items)
  | MBalancedAccuracy => Some (balanced_accuracy nc items)
  | MTop3 => Some (top3_accuracy nc items)
  | MMeanAP => Some (mean_ap_single nc items)
  | _ => None
  end.

Theorem run_single_values nc ys rows det n v :
  In (n, v) (run_single nc ys rows det) -> metric_named_single nc (combine ys rows) n = Some v.
Proof.
  unfold run_single. destruct det; cbn [app In]; intros H;
    repeat (destruct H as [H|H]; [injection H as <- <-; reflexivity|]); destruct H.
Qed.

Theorem run_single_reports nc ys rows det :
  map fst (run_single nc ys rows det) =
  (if det then [MMeanAP] else []) ++ [MBalancedAccuracy; MAccuracy; MTop3].
Proof. unfold run_single. destruct det; reflexivity. Qed.

Theorem run_multilabel_values nc inds rows n v :
  In (n, v) (run_multilabel nc inds rows) -> n = MMeanAP /\ v = mean_ap_multi nc (combine inds rows).
Proof. cbn. intros [H|[]]. injection H as <- <-. auto. Qed.

Theorem item_values y row n v :
  In (n, v) (item_metrics y row) -> n = MTrueClassProb /\ v = true_class_probability y row.
Proof. cbn. intros [H|[]]. injection H as <- <-. auto. Qed.

Theorem clip_multilabel_values ind row n v :
  In (n, v) (clip_multilabel_metrics ind row) ->
  (n = MJaccard /\ v = jaccard (ind, row)) \/ (n = MAP /\ v = ap_clip (ind, row)).
Proof. cbn. intros [H|[H|[]]]; injection H as <- <-; auto. Qed.

(* ---------- scores aggregate as means ---------- *)
Theorem qmean_spec l : l <> [] -> qmean l * inject_Z (Z.of_nat (length l)) == qsum l.
Proof.
  intro H. unfold qmean. destruct l as [|x l]; [congruence|].
  assert (Hn : ~ inject_Z (Z.of_nat (length (x :: l))) == 0).
  { cbn [length]. rewrite Nat2Z.inj_succ. unfold Z.succ. rewrite inject_Z_plus.
    assert (0 <= inject_Z (Z.of_nat (length l))) by (change 0 with (inject_Z 0); rewrite <- Zle_Qle; lia).
    change (inject_Z 1) with 1. lra. }
  field. exact Hn.
Qed.

(* ---------- nothing depends on the order of the evaluated items ---------- *)
Lemma count_perm {A} (p : A -> bool) l l' : Permutation l l' -> count p l = count p l'.
Proof.
  unfold count. intro H. induction H as [|x l l' _ IH|x y l|l l' l'' _ IH1 _ IH2]; cbn.
  - reflexivity.
  - destruct (p x); cbn; rewrite IH; reflexivity.
  - destruct (p x), (p y); reflexivity.
  - congruence.
Qed.

Lemma filter_perm {A} (p : A -> bool) l l' : Permutation l l' -> Permutation (filter p l) (filter p l').
Proof.
  intro H. induction H as [|x l l' _ IH|x y l|l l' l'' _ IH1 _ IH2]; cbn.
  - constructor.
  - destruct (p x); [constructor|]; exact IH.
  - destruct (p x), (p y); try apply Permutation_refl. apply perm_swap.
  - eapply Permutation_trans; eassumption.
Qed.

Lemma qsum_perm l l' : Permutation l l' -> qsum l == qsum l'.
Proof.
  unfold qsum. intro H. induction H as [|x l l' _ IH|x y l|l l' l'' _ IH1 _ IH2]; cbn.
  - reflexivity.
  - rewrite IH. reflexivity.
  - lra.
  - rewrite IH1. exact IH2.
Qed.

Theorem accuracy_perm nc items items' : Permutation items items' -> accuracy nc items = accuracy nc items'.
Proof.
  intro H. unfold accuracy. rewrite (count_perm _ _ _ H), (Permutation_length H). reflexivity.
Qed.

Theorem top3_perm nc items items' : Permutation items items' -> top3_accuracy nc items = top3_accuracy nc items'.
Proof.
  intro H. unfold top3_accuracy. destruct (Nat.leb (S nc) 3); [reflexivity|].
  rewrite (count_perm _ _ _ H), (Permutation_length H). reflexivity.
Qed.

Lemma recall_cell {A} (p : A -> bool) (m m' : list A) :
  length m = length m' -> count p m = count p m' ->
  match m with [] => [] | _ => [ratio (count p m) (length m)] end
  = match m' with [] => [] | _ => [ratio (count p m') (length m')] end.
Proof. intros Hl Hc. destruct m, m'; try discriminate; [reflexivity|]. rewrite Hc, Hl. reflexivity. Qed.

Theorem balanced_accuracy_perm nc items items' :
  Permutation items items' -> balanced_accuracy nc items = balanced_accuracy nc items'.
Proof.
  intro H. unfold balanced_accuracy. f_equal. unfold recalls.
  induction (seq 0 (S nc)) as [|c cs IH]; [reflexivity|]. cbn [flat_map]. rewrite IH. f_equal.
  pose proof (filter_perm (fun it : item => Nat.eqb (cls nc (fst it)) c) _ _ H) as Hf.
  apply recall_cell; [apply (Permutation_length Hf)|apply (count_perm (correct nc) _ _ Hf)].
Qed.

Lemma qsum_map_ext {A} (f g : A -> Q) l : (forall x, In x l -> f x = g x) -> qsum (map f l) = qsum (map g l).
Proof.
  intro H. f_equal. apply map_ext_in. exact H.
Qed.

Lemma match_list_q0 {A} (m m' : list A) (v v' : Q) :
  length m = length m' -> v == v' ->
  match m with [] => 0 | _ => v end == match m' with [] => 0 | _ => v' end.
Proof. intros Hl Hv. destruct m, m'; try discriminate; [reflexivity|exact Hv]. Qed.

Lemma ap_unfold s :
  ap s = match filter fst s with
         | [] => 0
         | _ => qsum (map (fun p => ratio (count (fun q => qleb (snd p) (snd q)) (filter fst s))
                                          (count (fun q => qleb (snd p) (snd q)) s)) (filter fst s))
                / inject_Z (Z.of_nat (length (filter fst s)))
         end.
Proof. reflexivity. Qed.

Theorem ap_perm s s' : Permutation s s' -> ap s == ap s'.
Proof.
  intro H. rewrite !ap_unfold. pose proof (filter_perm fst _ _ H) as Hp.
  pose proof (Permutation_length Hp) as Hl.
  assert (Hs : qsum (map (fun p => ratio (count (fun q => qleb (snd p) (snd q)) (filter fst s)) (count (fun q => qleb (snd p) (snd q)) s)) (filter fst s))
            == qsum (map (fun p => ratio (count (fun q => qleb (snd p) (snd q)) (filter fst s')) (count (fun q => qleb (snd p) (snd q)) s')) (filter fst s'))).
  { rewrite (qsum_map_ext _ (fun p => ratio (count (fun q => qleb (snd p) (snd q)) (filter fst s')) (count (fun q => qleb (snd p) (snd q)) s')) (filter fst s)).
    - apply qsum_perm. apply Permutation_map. exact Hp.
    - intros p _. rewrite (count_perm _ _ _ Hp), (count_perm _ _ _ H). reflexivity. }
  apply match_list_q0; [exact Hl|]. rewrite Hl, Hs. reflexivity.
Qed.

Lemma forall2_length {A B} (R : A -> B -> Prop) l l' : Forall2 R l l' -> length l = length l'.
Proof. intro H. induction H; cbn; congruence. Qed.

Lemma qmean_pointwise l l' : Forall2 Qeq l l' -> qmean l == qmean l'.
Proof.
  intro H. unfold qmean. pose proof (forall2_length _ _ _ H) as Hl.
  destruct l as [|x l]; destruct l' as [|x' l']; try discriminate; [reflexivity|].
  rewrite Hl. assert (Hs : qsum (x :: l) == qsum (x' :: l')).
  { clear Hl. unfold qsum. induction H as [|a b l1 l2 Hab _ IH]; cbn; [reflexivity|]. rewrite Hab, IH. reflexivity. }
  rewrite Hs. reflexivity.
Qed.

Lemma match_list_q {A} (m m' : list A) (v v' : Q) :
  length m = length m' -> v == v' ->
  match m with [] => 0 | _ => v end == match m' with [] => 0 | _ => v' end.
Proof. intros Hl Hv. destruct m, m'; try discriminate; [reflexivity|exact Hv]. Qed.

Theorem mean_ap_single_perm nc items items' :
  Permutation items items' -> mean_ap_single nc items == mean_ap_single nc items'.
Proof.
  intro H. unfold mean_ap_single.
  pose proof (filter_perm (fun it : item => match fst it with Some _ => true | None => false end) _ _ H) as Hf.
  pose proof (Permutation_length Hf) as Hl.
  assert (Hq : forall lab lab' : list item, Permutation lab lab' ->
     qmean (map (fun c => ap (map (fun it : item => (match fst it with Some k => Nat.eqb k c | None => false end, nth c (snd it) 0)) lab)) (seq 0 nc))
     == qmean (map (fun c => ap (map (fun it : item => (match fst it with Some k => Nat.eqb k c | None => false end, nth c (snd it) 0)) lab')) (seq 0 nc))).
  { intros lab lab' Hp. apply qmean_pointwise. induction (seq 0 nc) as [|c cs IH]; cbn [map]; constructor; [|exact IH].
    apply ap_perm. apply Permutation_map. exact Hp. }
  specialize (Hq _ _ Hf). apply match_list_q; [exact Hl|exact Hq].
Qed.

Theorem mean_ap_multi_perm nc items items' :
  Permutation items items' -> mean_ap_multi nc items == mean_ap_multi nc items'.
Proof.
  intro H. unfold mean_ap_multi. apply qmean_pointwise.
  induction (seq 0 nc) as [|c cs IH]; cbn [map]; constructor; [|exact IH].
  apply ap_perm. apply Permutation_map. exact H.
Qed.

Theorem mean_scores_perm l l' : Permutation l l' -> mean_scores l == mean_scores l'.
Proof.
  intro H. unfold mean_scores, qmean. pose proof (Permutation_length H) as Hl.
  destruct l as [|x l]; destruct l' as [|x' l']; try discriminate; [reflexivity|].
  rewrite Hl, (qsum_perm _ _ H). reflexivity.
Qed.

(* ---------- ranges ---------- *)
Lemma ratio_unit a b : (a <= b)%nat -> (0 < b)%nat -> 0 <= ratio a b /\ ratio a b <= 1.
Proof.
  intros H1 H2. unfold ratio.
  assert (Hb : 0 < inject_Z (Z.of_nat b)) by (change 0 with (inject_Z 0); rewrite <- Zlt_Qlt; lia).
  assert (Ha : 0 <= inject_Z (Z.of_nat a)) by (change 0 with (inject_Z 0); rewrite <- Zle_Qle; lia).
  assert (Hab : inject_Z (Z.of_nat a) <= inject_Z (Z.of_nat b)) by (rewrite <- Zle_Qle; lia).
  split; [apply Qle_shift_div_l; lra|apply Qle_shift_div_r; lra].
Qed.

Lemma count_le_length {A} (p : A -> bool) l : (count p l <= length l)%nat.
Proof. unfold count. induction l as [|x l IH]; cbn; [lia|]. destruct (p x); cbn; lia. Qed.

Theorem accuracy_range nc items : items <> [] -> 0 <= accuracy nc items /\ accuracy nc items <= 1.
Proof.
  intro H. unfold accuracy. apply ratio_unit; [apply count_le_length|]. destruct items; [congruence|cbn; lia].
Qed.
