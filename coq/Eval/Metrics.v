(* Eval/Metrics.v — independent definitions of the evaluation metrics over Q and the metric tables
   of the four tasks (soundevent/evaluation/metrics.py, tasks/*.py).  Items are given by their
   encoded truth (class index, None = unlabelled; or an indicator vector) and predicted score vector
   over the vocabulary (C19's encoders). *)
From SE Require Export Base.Num Base.Res.
Open Scope Q_scope.

Inductive mname := MAccuracy | MBalancedAccuracy | MTop3 | MMeanAP | MAP | MJaccard | MTrueClassProb.
Definition mname_eqb (a b : mname) : bool :=
  match a, b with
  | MAccuracy, MAccuracy | MBalancedAccuracy, MBalancedAccuracy | MTop3, MTop3 | MMeanAP, MMeanAP
  | MAP, MAP | MJaccard, MJaccard | MTrueClassProb, MTrueClassProb => true
  | _, _ => false
  end.

Definition ratio (a b : nat) : Q := inject_Z (Z.of_nat a) / inject_Z (Z.of_nat b).
Definition count {A} (p : A -> bool) (l : list A) : nat := length (filter p l).
Definition qmean (l : list Q) : Q := match l with [] => 0 | _ => qsum l / inject_Z (Z.of_nat (length l)) end.

(* the accuracy family works on nc+1 classes: the extra 'none' class collects the unlabelled items and
   receives the probability mass the prediction leaves over *)
Definition extend (row : list Q) : list Q := row ++ [1 - qsum row].
Definition cls (nc : nat) (y : option nat) : nat := match y with Some k => k | None => nc end.

(* numpy argmax: first maximal entry *)
Fixpoint argmax_from (best : Q) (bi i : nat) (l : list Q) : nat :=
  match l with
  | [] => bi
  | x :: r => if qltb best x then argmax_from x i (S i) r else argmax_from best bi (S i) r
  end.
Definition argmax (l : list Q) : nat := match l with [] => O | x :: r => argmax_from x 0 1 r end.

Definition item := (option nat * list Q)%type.     (* truth, scores over the vocabulary *)
Definition predicted (it : item) : nat := argmax (extend (snd it)).
Definition correct (nc : nat) (it : item) : bool := Nat.eqb (predicted it) (cls nc (fst it)).

Definition accuracy (nc : nat) (items : list item) : Q := ratio (count (correct nc) items) (length items).

(* mean recall over the classes that occur in the truth *)
Definition recalls (nc : nat) (items : list item) : list Q :=
  flat_map (fun c =>
              let mine := filter (fun it => Nat.eqb (cls nc (fst it)) c) items in
              match mine with [] => [] | _ => [ratio (count (correct nc) mine) (length mine)] end)
           (seq 0 (S nc)).
Definition balanced_accuracy (nc : nat) (items : list item) : Q := qmean (recalls nc items).

(* the true class is among the three best; among equal scores the higher class index ranks first *)
Definition beats (e : list Q) (t : nat) (j : nat) : bool :=
  let st := nth t e 0 in let sj := nth j e 0 in
  qltb st sj || (qeqb sj st && Nat.ltb t j).
Definition top3_hit (nc : nat) (it : item) : bool :=
  let e := extend (snd it) in
  Nat.ltb (count (beats e (cls nc (fst it))) (seq 0 (length e))) 3.
Definition top3_accuracy (nc : nat) (items : list item) : Q :=
  if Nat.leb (S nc) 3 then 1 else ratio (count (top3_hit nc) items) (length items).

(* average precision of one binary problem: mean over the positives of the precision at their score *)
Definition ap (sample : list (bool * Q)) : Q :=
  let pos := filter fst sample in
  match pos with
  | [] => 0
  | _ =>
      qsum (map (fun p => ratio (count (fun q => qleb (snd p) (snd q)) pos)
                                (count (fun q => qleb (snd p) (snd q)) sample)) pos)
      / inject_Z (Z.of_nat (length pos))
  end.

(* macro mean over the vocabulary classes; unlabelled items are left out *)
Definition mean_ap_single (nc : nat) (items : list item) : Q :=
  let lab := filter (fun it => match fst it with Some _ => true | None => false end) items in
  match lab with
  | [] => 0
  | _ => qmean (map (fun c => ap (map (fun it => (match fst it with Some k => Nat.eqb k c | None => false end, nth c (snd it) 0)) lab))
                    (seq 0 nc))
  end.

Definition mitem := (list bool * list Q)%type.      (* indicator vector, scores *)
Definition mean_ap_multi (nc : nat) (items : list mitem) : Q :=
  qmean (map (fun c => ap (map (fun it => (nth c (fst it) false, nth c (snd it) 0)) items)) (seq 0 nc)).

Definition jaccard (it : mitem) : Q :=
  let pairs := combine (fst it) (map (fun s => qltb (1 # 2) s) (snd it)) in
  let inter := count (fun p => fst p && snd p) pairs in
  let union := count (fun p => fst p || snd p) pairs in
  match union with O => 0 | _ => ratio inter union end.

Definition ap_clip (it : mitem) : Q := ap (combine (fst it) (snd it)).

Definition true_class_probability (y : option nat) (row : list Q) : Q :=
  match y with Some k => nth k row 0 | None => 1 - qsum row end.

(* ---- metric tables ---- *)
Definition feats := list (mname * Q).

(* run level of the three single-label tasks; detection additionally reports the mean average precision *)
Definition run_single (nc : nat) (ys : list (option nat)) (rows : list (list Q)) (detection : bool) : feats :=
  let items := combine ys rows in
  (if detection then [(MMeanAP, mean_ap_single nc items)] else [])
  ++ [(MBalancedAccuracy, balanced_accuracy nc items); (MAccuracy, accuracy nc items); (MTop3, top3_accuracy nc items)].

Definition run_multilabel (nc : nat) (inds : list (list bool)) (rows : list (list Q)) : feats :=
  [(MMeanAP, mean_ap_multi nc (combine inds rows))].

Definition item_metrics (y : option nat) (row : list Q) : feats := [(MTrueClassProb, true_class_probability y row)].
Definition clip_multilabel_metrics (ind : list bool) (row : list Q) : feats :=
  [(MJaccard, jaccard (ind, row)); (MAP, ap_clip (ind, row))].

Definition mean_scores (l : list Q) : Q := qmean l.

Fixpoint feats_close (tol : Q) (a b : feats) : bool :=
  match a, b with
  | [], [] => true
  | (n, x) :: a', (m, y) :: b' => mname_eqb n m && qclose tol x y && feats_close tol a' b'
  | _, _ => false
  end.
