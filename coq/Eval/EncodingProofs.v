From Coq Require Import QArith Lia.
From SE Require Import Base.Num Base.Res Eval.Encoding.
Open Scope Q_scope.

Lemma zlist_eqb_eq a : forall b, zlist_eqb a b = true <-> a = b.
Proof.
  induction a as [|x a IH]; intros [|y b]; cbn; try (split; congruence).
  rewrite andb_true_iff, Z.eqb_eq, IH. split; [intros [-> ->]; reflexivity|intro H; injection H; auto].
Qed.

Lemma tag_eqb_eq (a b : tag) : tag_eqb a b = true <-> a = b.
Proof.
  unfold tag_eqb, term_eqb. rewrite andb_true_iff, zlist_eqb_eq, Z.eqb_eq.
  destruct a, b; cbn. split; [intros [-> ->]; reflexivity|intro H; injection H; auto].
Qed.

(* equal objects have equal hashes: the hashed projection is a function of the compared fields *)
Lemma hash_respects_eq {K} (H : list Z -> K) idxs (a b : obj) :
  obj_eqb a b = true -> H (proj idxs a) = H (proj idxs b).
Proof. intro E. apply zlist_eqb_eq in E. subst. reflexivity. Qed.

Lemma tag_hash_respects (a b : tag) : tag_eqb a b = true -> tag_hash a = tag_hash b.
Proof. intro E. apply tag_eqb_eq in E. subst. reflexivity. Qed.

Section Enc.
Variable h : tag -> Z.

Lemma key_match_eq a b : key_match h a b = true <-> a = b.
Proof.
  unfold key_match. rewrite andb_true_iff, tag_eqb_eq. split; [tauto|].
  intros ->. split; [apply Z.eqb_refl|reflexivity].
Qed.

Lemma key_match_neq a b : key_match h a b = false <-> a <> b.
Proof. rewrite <- key_match_eq. destruct (key_match h a b); split; congruence. Qed.

Lemma dict_set_fresh d k v :
  (forall kv, In kv d -> fst kv <> k) -> dict_set h d k v = d ++ [(k, v)].
Proof.
  induction d as [|[k' v'] d IH]; intro H; [reflexivity|]. cbn [dict_set].
  assert (E : key_match h k' k = false).
  { apply key_match_neq. apply (H (k', v')). left. reflexivity. }
  rewrite E. cbn [app]. f_equal. apply IH. intros kv Hkv. apply H. right. exact Hkv.
Qed.

Lemma mapping_fold : forall (l : list tag) d off,
  NoDup l -> (forall kv x, In kv d -> In x l -> fst kv <> x) ->
  fold_left (fun d iv => dict_set h d (snd iv) (fst iv)) (combine (seq off (length l)) l) d
  = d ++ combine l (seq off (length l)).
Proof.
  induction l as [|x l IH]; intros d off Hnd Hfresh; [cbn; rewrite app_nil_r; reflexivity|].
  cbn [length seq combine fold_left fst snd].
  inversion Hnd as [|? ? Hx Hnd']; subst.
  rewrite dict_set_fresh by (intros kv Hkv; apply (Hfresh kv x Hkv); left; reflexivity).
  rewrite IH; [rewrite <- app_assoc; reflexivity|exact Hnd'|].
  intros kv y Hkv Hy. apply in_app_or in Hkv. destruct Hkv as [Hkv|[<-|[]]].
  - apply (Hfresh kv y Hkv). right. exact Hy.
  - cbn. intros ->. contradiction.
Qed.

Lemma mk_mapping_distinct vocab :
  NoDup vocab -> mk_mapping h vocab = combine vocab (seq 0 (length vocab)).
Proof.
  intro H. unfold mk_mapping. rewrite (mapping_fold vocab [] 0 H); [reflexivity|]. intros kv x [].
Qed.

Lemma dict_get_combine : forall (l : list tag) off t i,
  NoDup l ->
  (dict_get h (combine l (seq off (length l))) t = Some i <-> (off <= i)%nat /\ nth_error l (i - off) = Some t).
Proof.
  induction l as [|x l IH]; intros off t i Hnd; cbn [length seq combine dict_get].
  - split; [discriminate|]. intros [_ H]. destruct (i - off)%nat; discriminate.
  - inversion Hnd as [|? ? Hx Hnd']; subst.
    destruct (key_match h x t) eqn:E.
    + apply key_match_eq in E. subst x. split.
      * intro H. injection H as <-. split; [lia|]. rewrite Nat.sub_diag. reflexivity.
      * intros [Hle H]. destruct (i - off)%nat as [|k] eqn:Ek; [f_equal; lia|].
        cbn in H. apply nth_error_In in H. contradiction.
    + apply key_match_neq in E. rewrite (IH (S off) t i Hnd'). split.
      * intros [Hle H]. split; [lia|]. replace (i - off)%nat with (S (i - S off)) by lia. exact H.
      * intros [Hle H]. destruct (i - off)%nat as [|k] eqn:Ek.
        -- cbn in H. injection H as ->. contradiction.
        -- cbn in H. split; [lia|]. replace (i - S off)%nat with k by lia. exact H.
Qed.

(* encode maps a tag to i iff it equals the i-th vocabulary tag *)
Theorem encode_iff vocab t i :
  NoDup vocab -> (encode h vocab t = Some i <-> nth_error vocab i = Some t).
Proof.
  intro Hnd. unfold encode. rewrite (mk_mapping_distinct vocab Hnd).
  rewrite (dict_get_combine vocab 0 t i Hnd). rewrite Nat.sub_0_r. split; [tauto|]. intro H. split; [lia|exact H].
Qed.

Theorem encode_none vocab t : NoDup vocab -> (encode h vocab t = None <-> ~ In t vocab).
Proof.
  intro Hnd. split.
  - intros Hn Hin. apply In_nth_error in Hin. destruct Hin as [i Hi].
    apply (encode_iff vocab t i Hnd) in Hi. congruence.
  - intro Hni. destruct (encode h vocab t) as [i|] eqn:E; [|reflexivity].
    apply (encode_iff vocab t i Hnd) in E. apply nth_error_In in E. contradiction.
Qed.

Theorem decode_encode vocab i t :
  NoDup vocab -> decode vocab i = Some t -> encode h vocab t = Some i.
Proof. intros Hnd H. apply (encode_iff vocab t i Hnd). exact H. Qed.

Theorem encode_decode vocab i t :
  NoDup vocab -> encode h vocab t = Some i -> decode vocab i = Some t.
Proof. intros Hnd H. apply (encode_iff vocab t i Hnd). exact H. Qed.

(* classification: index of the first tag that is in the vocabulary *)
Theorem classification_first vocab tags r :
  classification_encoding h vocab tags = r <->
  ((r = None /\ forall t, In t tags -> encode h vocab t = None) \/
   (exists pre t post i, tags = pre ++ t :: post /\ (forall x, In x pre -> encode h vocab x = None)
                         /\ encode h vocab t = Some i /\ r = Some i)).
Proof.
  revert r. induction tags as [|t tags IH]; intro r; cbn [classification_encoding].
  - split.
    + intros <-. left. split; [reflexivity|intros t []].
    + intros [[-> _]|(pre & t & post & i & H & _)]; [reflexivity|]. destruct pre; discriminate.
  - destruct (encode h vocab t) as [i|] eqn:E.
    + split.
      * intros <-. right. exists [], t, tags, i. repeat split; [intros x []|exact E].
      * intros [[-> H]|(pre & t' & post & j & Hl & Hpre & Ht & ->)].
        -- specialize (H t (or_introl eq_refl)). congruence.
        -- destruct pre as [|p pre]; cbn in Hl; injection Hl as <- _.
           ++ congruence.
           ++ specialize (Hpre t (or_introl eq_refl)). congruence.
    + rewrite IH. split.
      * intros [[-> H]|(pre & t' & post & j & -> & Hpre & Ht & ->)].
        -- left. split; [reflexivity|]. intros x [<-|Hx]; [exact E|apply H; exact Hx].
        -- right. exists (t :: pre), t', post, j. repeat split; try assumption.
           intros x [<-|Hx]; [exact E|apply Hpre; exact Hx].
      * intros [[-> H]|(pre & t' & post & j & Hl & Hpre & Ht & ->)].
        -- left. split; [reflexivity|]. intros x Hx. apply H. right. exact Hx.
        -- destruct pre as [|p pre]; cbn in Hl; injection Hl as <- ->; [congruence|].
           right. exists pre, t', post, j. repeat split; try assumption.
           intros x Hx. apply Hpre. right. exact Hx.
Qed.

(* tags outside the vocabulary never influence the result *)
Theorem classification_oov vocab tags :
  classification_encoding h vocab (filter (fun t => match encode h vocab t with Some _ => true | None => false end) tags)
  = classification_encoding h vocab tags.
Proof.
  induction tags as [|t tags IH]; [reflexivity|]. cbn [filter classification_encoding].
  destruct (encode h vocab t) eqn:E; [cbn [classification_encoding]; rewrite E; reflexivity|exact IH].
Qed.

Lemma set_nth_length {A} (l : list A) : forall i x, length (set_nth l i x) = length l.
Proof. induction l as [|y l IH]; intros [|i] x; cbn; auto. Qed.

Lemma set_nth_nth {A} (l : list A) : forall i j x d,
  nth j (set_nth l i x) d = if (Nat.eqb i j && Nat.ltb i (length l))%bool then x else nth j l d.
Proof.
  induction l as [|y l IH]; intros i j x d.
  - cbn. replace (Nat.ltb i 0) with false by (symmetry; apply Nat.ltb_ge; lia).
    rewrite andb_false_r. destruct i; reflexivity.
  - destruct i as [|i], j as [|j]; cbn; try reflexivity.
    rewrite IH. destruct (Nat.eqb i j); cbn; [|reflexivity].
    destruct (Nat.ltb i (length l)) eqn:E1; destruct (Nat.ltb (S i) (S (length l))) eqn:E2; try reflexivity;
      apply Nat.ltb_lt in E1 || apply Nat.ltb_ge in E1; apply Nat.ltb_lt in E2 || apply Nat.ltb_ge in E2; lia.
Qed.

(* multilabel: indicator vector of the vocabulary tags present *)
Theorem multilabel_length vocab tags : length (multilabel_encoding h vocab tags) = length vocab.
Proof.
  unfold multilabel_encoding.
  assert (H : forall acc, length (fold_left (fun acc t => match encode h vocab t with Some i => set_nth acc i 1%Z | None => acc end) tags acc) = length acc).
  { induction tags as [|t tags IH]; intro acc; [reflexivity|]. cbn [fold_left]. rewrite IH.
    destruct (encode h vocab t); [apply set_nth_length|reflexivity]. }
  rewrite H. apply repeat_length.
Qed.

Theorem multilabel_indicator vocab tags j :
  NoDup vocab -> (j < length vocab)%nat ->
  (nth j (multilabel_encoding h vocab tags) 0%Z = 1%Z <-> exists t, In t tags /\ encode h vocab t = Some j) /\
  (nth j (multilabel_encoding h vocab tags) 0%Z = 1%Z \/ nth j (multilabel_encoding h vocab tags) 0%Z = 0%Z).
Proof.
  intros Hnd Hj. unfold multilabel_encoding.
  set (step := fun acc t => match encode h vocab t with Some i => set_nth acc i 1%Z | None => acc end).
  assert (G : forall tags acc, length acc = length vocab ->
    (nth j acc 0%Z = 1%Z \/ nth j acc 0%Z = 0%Z) ->
    (nth j (fold_left step tags acc) 0%Z = 1%Z <-> nth j acc 0%Z = 1%Z \/ exists t, In t tags /\ encode h vocab t = Some j) /\
    (nth j (fold_left step tags acc) 0%Z = 1%Z \/ nth j (fold_left step tags acc) 0%Z = 0%Z)).
  { clear tags. induction tags as [|t tags IH]; intros acc Hlen Hb; cbn [fold_left].
    - split; [|exact Hb]. split; [tauto|]. intros [H|[t [[] _]]]. exact H.
    - assert (Hlen' : length (step acc t) = length vocab).
      { unfold step. destruct (encode h vocab t); [rewrite set_nth_length|]; exact Hlen. }
      assert (Hnth : nth j (step acc t) 0%Z = if match encode h vocab t with Some i => Nat.eqb i j | None => false end then 1%Z else nth j acc 0%Z).
      { unfold step. destruct (encode h vocab t) as [i|] eqn:E; [|reflexivity].
        rewrite set_nth_nth. destruct (Nat.eqb_spec i j) as [->|Hne]; cbn [andb]; [|reflexivity].
        assert (Hlt : Nat.ltb j (length acc) = true) by (apply Nat.ltb_lt; lia). rewrite Hlt. reflexivity. }
      assert (Hb' : nth j (step acc t) 0%Z = 1%Z \/ nth j (step acc t) 0%Z = 0%Z).
      { rewrite Hnth. destruct (match encode h vocab t with Some i => Nat.eqb i j | None => false end); [left; reflexivity|exact Hb]. }
      destruct (IH (step acc t) Hlen' Hb') as [IH1 IH2]. split; [|exact IH2].
      rewrite IH1, Hnth. destruct (encode h vocab t) as [i|] eqn:E.
      + destruct (Nat.eqb_spec i j) as [->|Hne].
        * split; [|intros _; left; reflexivity]. intros _. right. exists t. split; [left; reflexivity|exact E].
        * split.
          -- intros [H|[t' [Ht' He]]]; [left; exact H|right; exists t'; split; [right; exact Ht'|exact He]].
          -- intros [H|[t' [[<-|Ht'] He]]]; [left; exact H|congruence|right; exists t'; auto].
      + split.
        * intros [H|[t' [Ht' He]]]; [left; exact H|right; exists t'; split; [right; exact Ht'|exact He]].
        * intros [H|[t' [[<-|Ht'] He]]]; [left; exact H|congruence|right; exists t'; auto]. }
  destruct (G tags (repeat 0%Z (length vocab)) (repeat_length _ _)) as [G1 G2].
  { right. apply nth_repeat. }
  split; [|exact G2]. rewrite G1. rewrite nth_repeat. split; [intros [H|H]; [discriminate|exact H]|intro H; right; exact H].
Qed.

Theorem multilabel_oov vocab tags :
  multilabel_encoding h vocab (filter (fun t => match encode h vocab t with Some _ => true | None => false end) tags)
  = multilabel_encoding h vocab tags.
Proof.
  unfold multilabel_encoding. generalize (repeat 0%Z (length vocab)) as acc.
  induction tags as [|t tags IH]; intro acc; [reflexivity|]. cbn [filter].
  destruct (encode h vocab t) eqn:E; cbn [fold_left]; rewrite E; apply IH.
Qed.

(* prediction: each vocabulary slot holds the score of the last predicted tag encoding to it *)
Theorem prediction_length vocab ptags : length (prediction_encoding h vocab ptags) = length vocab.
Proof.
  unfold prediction_encoding.
  assert (H : forall acc, length (fold_left (fun acc p => match encode h vocab (fst p) with Some i => set_nth acc i (snd p) | None => acc end) ptags acc) = length acc).
  { induction ptags as [|t tags IH]; intro acc; [reflexivity|]. cbn [fold_left]. rewrite IH.
    destruct (encode h vocab (fst t)); [apply set_nth_length|reflexivity]. }
  rewrite H. apply repeat_length.
Qed.

Theorem prediction_snoc vocab ptags p j :
  (j < length vocab)%nat ->
  nth j (prediction_encoding h vocab (ptags ++ [p])) 0 =
  match encode h vocab (fst p) with
  | Some i => if Nat.eqb i j then snd p else nth j (prediction_encoding h vocab ptags) 0
  | None => nth j (prediction_encoding h vocab ptags) 0
  end.
Proof.
  intro Hj. unfold prediction_encoding. rewrite fold_left_app. cbn [fold_left].
  fold (prediction_encoding h vocab ptags).
  destruct (encode h vocab (fst p)) as [i|]; [|reflexivity].
  rewrite set_nth_nth. rewrite prediction_length.
  destruct (Nat.eqb_spec i j) as [->|Hne]; cbn [andb]; [|reflexivity].
  assert (Hlt : Nat.ltb j (length vocab) = true) by (apply Nat.ltb_lt; exact Hj). rewrite Hlt. reflexivity.
Qed.

Theorem prediction_nil vocab j : nth j (prediction_encoding h vocab []) 0 = 0.
Proof. unfold prediction_encoding. cbn [fold_left]. apply nth_repeat. Qed.

Theorem prediction_oov vocab ptags :
  prediction_encoding h vocab (filter (fun p => match encode h vocab (fst p) with Some _ => true | None => false end) ptags)
  = prediction_encoding h vocab ptags.
Proof.
  unfold prediction_encoding. generalize (repeat 0 (length vocab)) as acc.
  induction ptags as [|t tags IH]; intro acc; [reflexivity|]. cbn [filter].
  destruct (encode h vocab (fst t)) eqn:E; cbn [fold_left]; rewrite E; apply IH.
Qed.
End Enc.

