(* Eval/Match.v — model of soundevent.evaluation.match: the post-processing of the
   assignment returned by scipy.optimize.linear_sum_assignment, and a checker that decides
   whether an output satisfies property C07 for a given affinity matrix. *)
From SE Require Export Base.Num Base.Res.
Open Scope Q_scope.

Definition matrix := list (list Q).
Definition mget (M : matrix) (i j : nat) : Q := nth j (nth i M []) 0.

Definition entry := (option nat * option nat * Q)%type.
Definition e_src (e : entry) := fst (fst e).
Definition e_tgt (e : entry) := snd (fst e).
Definition e_aff (e : entry) := snd e.

Definition mem (x : nat) (l : list nat) : bool := existsb (Nat.eqb x) l.

(* a solver pair with zero affinity is not a match: both sides are reported unmatched *)
Definition emit (M : matrix) (p : nat * nat) : list entry :=
  let a := mget M (fst p) (snd p) in
  if qltb 0 a then [(Some (fst p), Some (snd p), a)]
  else [(Some (fst p), None, 0); (None, Some (snd p), 0)].

Definition select_matches (M : matrix) (n m : nat) (lsa : list (nat * nat)) : list entry :=
  flat_map (emit M) lsa
  ++ map (fun r => (Some r, None, 0)) (filter (fun r => negb (mem r (map fst lsa))) (seq 0 n))
  ++ map (fun c => (None, Some c, 0)) (filter (fun c => negb (mem c (map snd lsa))) (seq 0 m)).

(* ---- checker ---- *)
Fixpoint opt_list (l : list (option nat)) : list nat :=
  match l with [] => [] | Some x :: r => x :: opt_list r | None :: r => opt_list r end.

Fixpoint nodupb (l : list nat) : bool :=
  match l with [] => true | x :: r => negb (mem x r) && nodupb r end.

(* l is a duplicate-free enumeration of 0..n-1 *)
Definition covers (n : nat) (l : list nat) : bool :=
  Nat.eqb (length l) n && nodupb l && forallb (fun x => Nat.ltb x n) l.

Definition entry_ok (M : matrix) (e : entry) : bool :=
  match e with
  | (Some i, Some j, a) => qeqb a (mget M i j) && qltb 0 a
  | (Some _, None, a) | (None, Some _, a) => qeqb a 0
  | (None, None, _) => false
  end.

Definition total (out : list entry) : Q := qsum (map e_aff out).

(* best total weight over all partial one-to-one pairings of the given rows with unused columns *)
Fixpoint best (M : matrix) (m : nat) (rows : list nat) (used : list nat) : Q :=
  match rows with
  | [] => 0
  | r :: rs =>
      fold_left
        (fun acc c => if mem c used then acc else pymax acc (mget M r c + best M m rs (c :: used)))
        (seq 0 m) (best M m rs used)
  end.

Definition brute_best (M : matrix) (n m : nat) : Q := best M m (seq 0 n) [].

Definition checker (M : matrix) (n m : nat) (tol : Q) (out : list entry) : bool :=
  covers n (opt_list (map e_src out)) && covers m (opt_list (map e_tgt out))
  && forallb (entry_ok M) out
  && qleb (brute_best M n m - tol) (total out).

(* comparison of outputs as sets of entries (entries are distinct when coverage holds) *)
Definition on_eqb (a b : option nat) : bool :=
  match a, b with Some x, Some y => Nat.eqb x y | None, None => true | _, _ => false end.
Definition entry_eqb (a b : entry) : bool :=
  on_eqb (e_src a) (e_src b) && on_eqb (e_tgt a) (e_tgt b) && qeqb (e_aff a) (e_aff b).
Definition entries_same (a b : list entry) : bool :=
  Nat.eqb (length a) (length b) && forallb (fun e => existsb (entry_eqb e) b) a
  && forallb (fun e => existsb (entry_eqb e) a) b.
