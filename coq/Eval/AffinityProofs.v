From Coq Require Import QArith Lqa Lia Qminmax.
From SE Require Import Base.Num Base.Res Base.NumProofs Geom.Geometry Geom.Buffer Eval.Affinity.
Open Scope Q_scope.

Lemma qeqb_false a b : qeqb a b = false <-> ~ a == b.
Proof. rewrite <- qeqb_spec. destruct (qeqb a b); split; congruence. Qed.

Lemma div_bounds i u : 0 <= i -> i <= u -> 0 < u -> 0 <= i / u /\ i / u <= 1.
Proof.
  intros H0 H1 Hu. split.
  - apply Qle_shift_div_l; lra.
  - apply Qle_shift_div_r; lra.
Qed.

(* ---------- the time branch ---------- *)
Definition inter_len (s1 e1 s2 e2 : Q) : Q := Qmax 0 (Qmin e1 e2 - Qmax s1 s2).

Lemma inter_len_py s1 e1 s2 e2 : pymax 0 (pymin e1 e2 - pymax s1 s2) == inter_len s1 e1 s2 e2.
Proof. unfold inter_len. rewrite pymax_Qmax, pymin_Qmin, pymax_Qmax. reflexivity. Qed.

Lemma inter_len_bounds s1 e1 s2 e2 : s1 <= e1 -> s2 <= e2 ->
  0 <= inter_len s1 e1 s2 e2 /\ inter_len s1 e1 s2 e2 <= e1 - s1 /\ inter_len s1 e1 s2 e2 <= e2 - s2.
Proof.
  intros H1 H2. unfold inter_len.
  destruct (Q.max_spec 0 (Qmin e1 e2 - Qmax s1 s2)) as [[A A']|[A A']];
  destruct (Q.min_spec e1 e2) as [[B B']|[B B']]; destruct (Q.max_spec s1 s2) as [[C C']|[C C']];
  lra.
Qed.

(* it is the intersection over union of the two time extents *)
Theorem time_is_iou s1 e1 s2 e2 :
  let i := inter_len s1 e1 s2 e2 in
  let u := (e1 - s1) + (e2 - s2) - i in
  (u == 0 -> affinity_time s1 e1 s2 e2 == 0) /\ (~ u == 0 -> affinity_time s1 e1 s2 e2 == i / u).
Proof.
  cbn zeta. unfold affinity_time. pose proof (inter_len_py s1 e1 s2 e2) as Hi.
  set (ip := pymax 0 (pymin e1 e2 - pymax s1 s2)) in *.
  destruct (qeqb (e1 - s1 + (e2 - s2) - ip) 0) eqn:E.
  - apply qeqb_spec in E. split; [reflexivity|]. intro Hn. exfalso. apply Hn. rewrite <- Hi. exact E.
  - apply qeqb_false in E. split; [intro H0; exfalso; apply E; rewrite Hi; exact H0|].
    intros _. rewrite Hi. reflexivity.
Qed.

Theorem time_range s1 e1 s2 e2 : s1 <= e1 -> s2 <= e2 ->
  0 <= affinity_time s1 e1 s2 e2 /\ affinity_time s1 e1 s2 e2 <= 1.
Proof.
  intros H1 H2. pose proof (inter_len_bounds s1 e1 s2 e2 H1 H2) as (B0 & B1 & B2).
  destruct (time_is_iou s1 e1 s2 e2) as [Hz Hnz]. cbn zeta in *.
  set (i := inter_len s1 e1 s2 e2) in *. set (u := e1 - s1 + (e2 - s2) - i) in *.
  destruct (Qeq_dec u 0) as [E|E].
  - rewrite (Hz E). lra.
  - rewrite (Hnz E). apply div_bounds; [exact B0| |]; unfold u in *; lra.
Qed.

Theorem time_symmetric s1 e1 s2 e2 : affinity_time s1 e1 s2 e2 == affinity_time s2 e2 s1 e1.
Proof.
  destruct (time_is_iou s1 e1 s2 e2) as [Hz Hnz]. destruct (time_is_iou s2 e2 s1 e1) as [Hz' Hnz']. cbn zeta in *.
  assert (Hi : inter_len s1 e1 s2 e2 == inter_len s2 e2 s1 e1).
  { unfold inter_len. rewrite (Q.min_comm e1 e2), (Q.max_comm s1 s2). reflexivity. }
  set (i := inter_len s1 e1 s2 e2) in *. set (i' := inter_len s2 e2 s1 e1) in *.
  destruct (Qeq_dec (e1 - s1 + (e2 - s2) - i) 0) as [E|E].
  - rewrite (Hz E). symmetry. apply Hz'. rewrite <- Hi. lra.
  - rewrite (Hnz E). rewrite Hnz'; [|intro H; apply E; rewrite Hi; lra].
    rewrite Hi. apply Qeq_eq_bool in Hi. 
    assert (Hu : e1 - s1 + (e2 - s2) - i' == e2 - s2 + (e1 - s1) - i') by lra. rewrite Hu. reflexivity.
Qed.

Theorem time_disjoint_zero s1 e1 s2 e2 : (e1 <= s2 \/ e2 <= s1) -> affinity_time s1 e1 s2 e2 == 0.
Proof.
  intro H. destruct (time_is_iou s1 e1 s2 e2) as [Hz Hnz]. cbn zeta in *.
  assert (Hi : inter_len s1 e1 s2 e2 == 0).
  { unfold inter_len. apply Q.max_l.
    destruct (Q.min_spec e1 e2) as [[B B']|[B B']]; destruct (Q.max_spec s1 s2) as [[C C']|[C C']]; lra. }
  destruct (Qeq_dec (e1 - s1 + (e2 - s2) - inter_len s1 e1 s2 e2) 0) as [E|E].
  - apply Hz. exact E.
  - rewrite (Hnz E), Hi. unfold Qdiv. lra.
Qed.

Theorem time_self_one s e : s < e -> affinity_time s e s e == 1.
Proof.
  intro H. destruct (time_is_iou s e s e) as [_ Hnz]. cbn zeta in *.
  assert (Hi : inter_len s e s e == e - s).
  { unfold inter_len. rewrite Q.min_id, Q.max_id. apply Q.max_r. lra. }
  rewrite Hnz; [|rewrite Hi; lra]. rewrite Hi. field. lra.
Qed.

Theorem time_shift_invariant s1 e1 s2 e2 d :
  affinity_time (s1 + d) (e1 + d) (s2 + d) (e2 + d) == affinity_time s1 e1 s2 e2.
Proof.
  destruct (time_is_iou s1 e1 s2 e2) as [Hz Hnz].
  destruct (time_is_iou (s1 + d) (e1 + d) (s2 + d) (e2 + d)) as [Hz' Hnz']. cbn zeta in *.
  assert (Hi : inter_len (s1 + d) (e1 + d) (s2 + d) (e2 + d) == inter_len s1 e1 s2 e2).
  { unfold inter_len.
    assert (A : Qmin (e1 + d) (e2 + d) == Qmin e1 e2 + d).
    { destruct (Q.min_spec e1 e2) as [[B B']|[B B']]; rewrite B'; [apply Q.min_l|apply Q.min_r]; lra. }
    assert (C : Qmax (s1 + d) (s2 + d) == Qmax s1 s2 + d).
    { destruct (Q.max_spec s1 s2) as [[B B']|[B B']]; rewrite B'; [apply Q.max_r|apply Q.max_l]; lra. }
    rewrite A, C. apply Q.max_compat; [reflexivity|lra]. }
  set (i := inter_len s1 e1 s2 e2) in *. set (i' := inter_len (s1 + d) (e1 + d) (s2 + d) (e2 + d)) in *.
  destruct (Qeq_dec (e1 - s1 + (e2 - s2) - i) 0) as [E|E].
  - rewrite (Hz E). apply Hz'. rewrite Hi. lra.
  - rewrite (Hnz E). rewrite Hnz'; [|intro H; apply E; rewrite <- Hi; lra].
    rewrite Hi. assert (Hu : e1 + d - (s1 + d) + (e2 + d - (s2 + d)) - i == e1 - s1 + (e2 - s2) - i) by lra.
    rewrite Hu. reflexivity.
Qed.

(* time stamps enter the time branch through their closed-form buffer; shifting commutes with it
   as long as the buffered stamp does not reach time 0 *)
Theorem stamp_extent_shift t tb d : 0 <= t - tb -> 0 <= d ->
  match prepared_extent (TimeStamp (t + d)) tb, prepared_extent (TimeStamp t) tb with
  | Some (s', e'), Some (s, e) => s' == s + d /\ e' == e + d
  | _, _ => False
  end.
Proof.
  intros H Hd. cbn [prepared_extent].
  destruct (pymax_cases (t + d - tb) 0) as [[-> A]|[-> A]]; destruct (pymax_cases (t - tb) 0) as [[-> B]|[-> B]]; lra.
Qed.

(* ---------- the area branch, for every answer GEOS may give ---------- *)
Theorem area_range a1 a2 i : 0 <= i -> i <= a1 + a2 ->
  0 <= affinity_area a1 a2 i /\ affinity_area a1 a2 i <= 1.
Proof.
  intros H0 H1. unfold affinity_area. destruct (qeqb (a1 + a2 - i) 0) eqn:E; [lra|].
  apply qeqb_false in E. assert (Hu : 0 < a1 + a2 - i).
  { destruct (Qlt_le_dec 0 (a1 + a2 - i)) as [H|H]; [exact H|]. exfalso. apply E. lra. }
  assert (Hq : 0 <= i / (a1 + a2 - i)) by (apply Qle_shift_div_l; lra).
  destruct (pymin_cases (i / (a1 + a2 - i)) 1) as [[-> C]|[-> C]]; lra.
Qed.

Theorem area_is_iou a1 a2 i : 0 <= i -> i <= a1 -> i <= a2 -> 0 < a1 + a2 - i ->
  affinity_area a1 a2 i == i / (a1 + a2 - i).
Proof.
  intros H0 H1 H2 Hu. unfold affinity_area.
  assert (E : qeqb (a1 + a2 - i) 0 = false) by (apply qeqb_false; lra). rewrite E.
  destruct (div_bounds i (a1 + a2 - i)) as [_ Hle]; try lra.
  destruct (pymin_cases (i / (a1 + a2 - i)) 1) as [[-> C]|[-> C]]; [reflexivity|lra].
Qed.

Theorem area_symmetric a1 a2 i : affinity_area a1 a2 i == affinity_area a2 a1 i.
Proof.
  unfold affinity_area. assert (Hu : a1 + a2 - i == a2 + a1 - i) by lra.
  destruct (qeqb (a1 + a2 - i) 0) eqn:E1; destruct (qeqb (a2 + a1 - i) 0) eqn:E2.
  - reflexivity.
  - apply qeqb_spec in E1. apply qeqb_false in E2. exfalso. apply E2. lra.
  - apply qeqb_spec in E2. apply qeqb_false in E1. exfalso. apply E1. lra.
  - rewrite !pymin_Qmin. rewrite Hu. reflexivity.
Qed.

(* self comparison: exactly 1, never more, whatever rounding GEOS puts on the intersection area *)
Theorem area_self_one a i : 0 < a -> a <= i -> i < 2 * a -> affinity_area a a i == 1.
Proof.
  intros Ha H1 H2. unfold affinity_area.
  assert (E : qeqb (a + a - i) 0 = false) by (apply qeqb_false; lra). rewrite E.
  assert (Hq : 1 <= i / (a + a - i)) by (apply Qle_shift_div_l; lra).
  destruct (pymin_cases (i / (a + a - i)) 1) as [[-> C]|[-> C]]; lra.
Qed.

Theorem area_disjoint_zero a1 a2 : affinity_area a1 a2 0 == 0.
Proof.
  unfold affinity_area. destruct (qeqb (a1 + a2 - 0) 0); [reflexivity|].
  assert (H : 0 / (a1 + a2 - 0) == 0) by (unfold Qdiv; lra).
  destruct (pymin_cases (0 / (a1 + a2 - 0)) 1) as [[-> C]|[-> C]]; lra.
Qed.

(* ---------- rectangles: the three areas computed, so everything is unconditional ---------- *)
Definition rect_ok (r : rect) : Prop := b_start r <= b_end r /\ b_low r <= b_high r.

Lemma rect_area_nonneg r : rect_ok r -> 0 <= rect_area r.
Proof. intros [H1 H2]. unfold rect_area. nra. Qed.

Lemma rect_inter_bounds r1 r2 : rect_ok r1 -> rect_ok r2 ->
  0 <= rect_inter_area r1 r2 /\ rect_inter_area r1 r2 <= rect_area r1 /\ rect_inter_area r1 r2 <= rect_area r2.
Proof.
  intros [A1 A2] [B1 B2]. unfold rect_inter_area, rect_area.
  rewrite !inter_len_py.
  pose proof (inter_len_bounds (b_start r1) (b_end r1) (b_start r2) (b_end r2) A1 B1) as (T0 & T1 & T2).
  pose proof (inter_len_bounds (b_low r1) (b_high r1) (b_low r2) (b_high r2) A2 B2) as (F0 & F1 & F2).
  set (t := inter_len (b_start r1) (b_end r1) (b_start r2) (b_end r2)) in *.
  set (f := inter_len (b_low r1) (b_high r1) (b_low r2) (b_high r2)) in *.
  repeat split; nra.
Qed.

Theorem box_range r1 r2 : rect_ok r1 -> rect_ok r2 -> 0 <= affinity_box r1 r2 /\ affinity_box r1 r2 <= 1.
Proof.
  intros H1 H2. unfold affinity_box. pose proof (rect_inter_bounds r1 r2 H1 H2) as (I0 & I1 & I2).
  pose proof (rect_area_nonneg r1 H1). apply area_range; lra.
Qed.

Theorem box_is_area_iou r1 r2 : rect_ok r1 -> rect_ok r2 ->
  0 < rect_area r1 + rect_area r2 - rect_inter_area r1 r2 ->
  affinity_box r1 r2 == rect_inter_area r1 r2 / (rect_area r1 + rect_area r2 - rect_inter_area r1 r2).
Proof.
  intros H1 H2 Hu. pose proof (rect_inter_bounds r1 r2 H1 H2) as (I0 & I1 & I2).
  apply area_is_iou; assumption.
Qed.

Lemma rect_inter_sym r1 r2 : rect_inter_area r1 r2 == rect_inter_area r2 r1.
Proof.
  unfold rect_inter_area. rewrite !inter_len_py. unfold inter_len.
  rewrite (Q.min_comm (b_end r1)), (Q.max_comm (b_start r1)), (Q.min_comm (b_high r1)), (Q.max_comm (b_low r1)).
  reflexivity.
Qed.

Lemma affinity_area_compat a1 a2 i a1' a2' i' :
  a1 == a1' -> a2 == a2' -> i == i' -> affinity_area a1 a2 i == affinity_area a1' a2' i'.
Proof.
  intros H1 H2 H3. unfold affinity_area.
  assert (Hu : a1 + a2 - i == a1' + a2' - i') by lra.
  destruct (qeqb (a1 + a2 - i) 0) eqn:E1; destruct (qeqb (a1' + a2' - i') 0) eqn:E2.
  - reflexivity.
  - apply qeqb_spec in E1. apply qeqb_false in E2. exfalso. apply E2. lra.
  - apply qeqb_spec in E2. apply qeqb_false in E1. exfalso. apply E1. lra.
  - rewrite !pymin_Qmin. rewrite Hu, H3. reflexivity.
Qed.

Theorem box_symmetric r1 r2 : affinity_box r1 r2 == affinity_box r2 r1.
Proof.
  unfold affinity_box. rewrite area_symmetric.
  apply affinity_area_compat; try reflexivity. apply rect_inter_sym.
Qed.

Theorem box_self_one r : b_start r < b_end r -> b_low r < b_high r -> affinity_box r r == 1.
Proof.
  intros H1 H2. unfold affinity_box.
  assert (Hi : rect_inter_area r r == rect_area r).
  { unfold rect_inter_area, rect_area. rewrite !inter_len_py. unfold inter_len.
    rewrite !Q.min_id, !Q.max_id. rewrite !Q.max_r by lra. reflexivity. }
  assert (Ha : 0 < rect_area r) by (unfold rect_area; nra).
  apply area_self_one; lra.
Qed.

Theorem box_disjoint_in_time_zero r1 r2 :
  (b_end r1 <= b_start r2 \/ b_end r2 <= b_start r1) -> affinity_box r1 r2 == 0.
Proof.
  intro H. unfold affinity_box.
  assert (Hi : rect_inter_area r1 r2 == 0).
  { unfold rect_inter_area. rewrite !inter_len_py.
    assert (Z : inter_len (b_start r1) (b_end r1) (b_start r2) (b_end r2) == 0).
    { unfold inter_len. apply Q.max_l.
      destruct (Q.min_spec (b_end r1) (b_end r2)) as [[B B']|[B B']];
      destruct (Q.max_spec (b_start r1) (b_start r2)) as [[C C']|[C C']]; lra. }
    rewrite Z. lra. }
  rewrite (affinity_area_compat _ _ _ (rect_area r1) (rect_area r2) 0); try reflexivity; [|exact Hi].
  apply area_disjoint_zero.
Qed.

(* dispatch: whenever either geometry is time-only the time branch decides *)
Theorem dispatch_time g1 g2 ext1 ext2 a1 a2 i :
  is_time_only g1 = true \/ is_time_only g2 = true ->
  compute_affinity g1 g2 ext1 ext2 a1 a2 i = affinity_time (fst ext1) (snd ext1) (fst ext2) (snd ext2).
Proof. intro H. unfold compute_affinity. destruct H as [H|H]; rewrite H; [reflexivity|rewrite orb_true_r; reflexivity]. Qed.

Theorem dispatch_area g1 g2 ext1 ext2 a1 a2 i :
  is_time_only g1 = false -> is_time_only g2 = false ->
  compute_affinity g1 g2 ext1 ext2 a1 a2 i = affinity_area a1 a2 i.
Proof. intros H1 H2. unfold compute_affinity. rewrite H1, H2. reflexivity. Qed.
