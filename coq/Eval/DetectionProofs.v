From Coq Require Import QArith Lqa Lia Permutation.
From SE Require Import Base.Num Base.Res Base.NumProofs Eval.Match Eval.MatchProofs Eval.Detection.
Open Scope Q_scope.

(* ---------- which clips are evaluated ---------- *)
Lemma last_index_of_spec x l : forall i acc k,
  last_index_of x l i acc = Some k ->
  acc = Some k \/ ((i <= k)%nat /\ nth_error l (k - i) = Some x).
Proof.
  induction l as [|y l IH]; intros i acc k H; cbn in H; [left; exact H|].
  apply IH in H. destruct H as [H|[Hle Hn]].
  - destruct (Nat.eqb_spec x y) as [->|Hne]; [|left; exact H].
    injection H as <-. right. split; [lia|]. rewrite Nat.sub_diag. reflexivity.
  - right. split; [lia|]. replace (k - i)%nat with (S (k - S i)) by lia. exact Hn.
Qed.

Lemma last_index_of_none x l : forall i, last_index_of x l i None = None <-> ~ In x l.
Proof.
  induction l as [|y l IH]; intro i; cbn; [tauto|].
  destruct (Nat.eqb_spec x y) as [->|Hne].
  - split; [|tauto]. intro H. exfalso.
    assert (G : forall l i k, last_index_of y l i (Some k) <> None).
    { clear. induction l as [|z l IH]; intros i k; cbn; [discriminate|]. destruct (Nat.eqb y z); apply IH. }
    apply (G l (S i) i H).
  - rewrite IH. split; [intros H [E|E]; [congruence|contradiction]|tauto].
Qed.

Lemma pair_clips_gen ann_ids : forall preds off,
  map snd (flat_map (fun ip => match last_index_of (snd ip) ann_ids 0 None with
                               | Some ia => [(ia, fst ip)] | None => [] end)
                    (combine (seq off (length preds)) preds))
  = map fst (filter (fun ip => mem (snd ip) ann_ids) (combine (seq off (length preds)) preds)).
Proof.
  induction preds as [|p preds IH]; intro off; [reflexivity|].
  cbn [length seq combine flat_map filter snd fst]. rewrite map_app, IH.
  destruct (last_index_of p ann_ids 0 None) as [ia|] eqn:E.
  - assert (Hm : mem p ann_ids = true).
    { apply mem_In. destruct (in_dec Nat.eq_dec p ann_ids) as [H|H]; [exact H|].
      apply last_index_of_none with (i := 0%nat) in H. congruence. }
    rewrite Hm. reflexivity.
  - apply last_index_of_none in E. apply mem_false in E. rewrite E. reflexivity.
Qed.

(* the evaluated clips are exactly the predicted clips whose id is annotated, in prediction order *)
Theorem clips_exactly_common pred_ids ann_ids :
  map snd (pair_clips pred_ids ann_ids)
  = map fst (filter (fun ip => mem (snd ip) ann_ids) (combine (seq 0 (length pred_ids)) pred_ids)).
Proof. apply pair_clips_gen. Qed.

(* and each is evaluated against annotations of the same clip *)
Theorem paired_same_clip pred_ids ann_ids ia ip :
  In (ia, ip) (pair_clips pred_ids ann_ids) ->
  exists cid, nth_error pred_ids ip = Some cid /\ nth_error ann_ids ia = Some cid.
Proof.
  unfold pair_clips. intro H. apply in_flat_map in H. destruct H as [[i p] [Hin H]]. cbn [fst snd] in H.
  destruct (last_index_of p ann_ids 0 None) as [k|] eqn:E; [|destruct H].
  destruct H as [H|[]]. injection H as <- <-.
  exists p. split.
  - assert (G : forall (l : list nat) off i q, In (i, q) (combine (seq off (length l)) l) -> nth_error l (i - off) = Some q /\ (off <= i)%nat).
    { clear. induction l as [|y l IH]; intros off i q H; [destruct H|]. cbn in H. destruct H as [H|H].
      - injection H as <- <-. rewrite Nat.sub_diag. split; [reflexivity|lia].
      - apply IH in H. destruct H as [H Hle]. split; [|lia]. replace (i - off)%nat with (S (i - S off)) by lia. exact H. }
    apply G in Hin. destruct Hin as [Hn _]. rewrite Nat.sub_0_r in Hn. exact Hn.
  - apply last_index_of_spec in E. destruct E as [E|[_ E]]; [discriminate|]. rewrite Nat.sub_0_r in E. exact E.
Qed.

(* ---------- one clip ---------- *)
Lemma filter_partition {A} (f : A -> bool) l : Permutation (filter f l ++ filter (fun x => negb (f x)) l) l.
Proof.
  induction l as [|x l IH]; [constructor|]. cbn [filter]. destruct (f x); cbn [negb app].
  - constructor. exact IH.
  - eapply Permutation_trans; [apply Permutation_sym, Permutation_middle|]. constructor. exact IH.
Qed.

Lemma geo_partition has : Permutation (with_geo has ++ without_geo has) (seq 0 (length has)).
Proof. apply filter_partition. Qed.

Lemma map_nth_seq (l : list nat) : map (fun i => nth i l 0%nat) (seq 0 (length l)) = l.
Proof.
  induction l as [|x l IH]; [reflexivity|]. cbn [length seq map nth]. f_equal.
  rewrite <- seq_shift, map_map. exact IH.
Qed.

Section Clip.
Variables (pgeo ageo : list bool) (M : matrix) (lsa : list (nat * nat)) (ytrue : list (option nat)) (yscore : list (list Q)).
Let fp := with_geo pgeo.
Let fa := with_geo ageo.
Let out := evaluate_clip pgeo ageo M lsa ytrue yscore.
Let sel := select_matches M (length fp) (length fa) lsa.

Lemma out_sources :
  opt_list (map d_src out) = map (fun i => nth i fp 0%nat) (opt_list (map e_src sel)) ++ without_geo pgeo.
Proof.
  unfold out, evaluate_clip. fold fp fa sel. rewrite !map_app, !opt_list_app.
  rewrite !map_map. cbn [d_src fst].
  assert (H1 : forall l, opt_list (map (fun x : nat => Some x) l) = l).
  { induction l as [|x l IH]; cbn; [reflexivity|rewrite IH; reflexivity]. }
  assert (H2 : forall (l : list nat), opt_list (map (fun _ : nat => @None nat) l) = []).
  { induction l as [|x l IH]; cbn; [reflexivity|exact IH]. }
  rewrite H1, H2, app_nil_r. f_equal.
  induction sel as [|[[[i|] [j|]] a] r IH]; cbn; try rewrite IH; reflexivity.
Qed.

Lemma out_targets :
  opt_list (map d_tgt out) = map (fun j => nth j fa 0%nat) (opt_list (map e_tgt sel)) ++ without_geo ageo.
Proof.
  unfold out, evaluate_clip. fold fp fa sel. rewrite !map_app, !opt_list_app.
  rewrite !map_map. cbn [d_tgt fst snd].
  assert (H1 : forall l, opt_list (map (fun x : nat => Some x) l) = l).
  { induction l as [|x l IH]; cbn; [reflexivity|rewrite IH; reflexivity]. }
  assert (H2 : forall (l : list nat), opt_list (map (fun _ : nat => @None nat) l) = []).
  { induction l as [|x l IH]; cbn; [reflexivity|exact IH]. }
  rewrite H1, H2. cbn [app]. f_equal.
  induction sel as [|[[[i|] [j|]] a] r IH]; cbn; try rewrite IH; reflexivity.
Qed.

(* every predicted and every annotated sound event, with or without geometry, is in exactly one match *)
Theorem every_event_once :
  pairing (length fp) (length fa) lsa ->
  Permutation (opt_list (map d_src out)) (seq 0 (length pgeo)) /\
  Permutation (opt_list (map d_tgt out)) (seq 0 (length ageo)).
Proof.
  intro Hp. destruct (select_matches_coverage M _ _ lsa Hp) as [Hs Ht]. fold sel in Hs, Ht. split.
  - rewrite out_sources. eapply Permutation_trans; [|apply geo_partition]. apply Permutation_app_tail.
    eapply Permutation_trans; [apply Permutation_map; exact Hs|]. rewrite map_nth_seq. apply Permutation_refl.
  - rewrite out_targets. eapply Permutation_trans; [|apply geo_partition]. apply Permutation_app_tail.
    eapply Permutation_trans; [apply Permutation_map; exact Ht|]. rewrite map_nth_seq. apply Permutation_refl.
Qed.

(* what each match reports *)
Theorem match_reports d : In d out ->
  match d with
  | (Some p, Some t, a, s) =>
      exists i j, p = nth i fp 0%nat /\ t = nth j fa 0%nat /\ a == mget M i j /\ 0 < a /\
                  s = classification_score (nth t ytrue None) (nth p yscore [])
  | (Some _, None, a, s) | (None, Some _, a, s) => a == 0 /\ s = 0
  | (None, None, _, _) => False
  end.
Proof.
  unfold out, evaluate_clip. fold fp fa sel. rewrite !in_app_iff. intros [H|[H|H]].
  - apply in_map_iff in H. destruct H as [e [<- He]]. apply select_entries in He.
    destruct e as [[[i|] [j|]] a]; cbn in He |- *.
    + destruct He as [He Hpos]. exists i, j. repeat split; auto.
    + split; [exact He|reflexivity].
    + split; [exact He|reflexivity].
    + exact He.
  - apply in_map_iff in H. destruct H as [p [<- _]]. split; reflexivity.
  - apply in_map_iff in H. destruct H as [t [<- _]]. split; reflexivity.
Qed.
End Clip.

(* scores aggregate as means *)
Theorem mean_spec l : l <> [] -> mean l * inject_Z (Z.of_nat (length l)) == qsum l.
Proof.
  intro H. unfold mean. destruct l as [|x l]; [congruence|].
  assert (Hn : ~ inject_Z (Z.of_nat (length (x :: l))) == 0).
  { cbn [length]. rewrite Nat2Z.inj_succ. unfold Z.succ. rewrite inject_Z_plus.
    assert (0 <= inject_Z (Z.of_nat (length l))) by (change 0 with (inject_Z 0); rewrite <- Zle_Qle; lia).
    change (inject_Z 1) with 1. lra. }
  field. exact Hn.
Qed.

Theorem mean_empty : mean [] = 0.
Proof. reflexivity. Qed.

(* the score of a pair is the probability given to the annotation's class; no class = the remainder *)
Theorem classification_score_spec y s :
  classification_score y s = match y with Some k => nth k s 0 | None => 1 - qsum s end.
Proof. reflexivity. Qed.
