(* Eval/Affinity.v — model of soundevent.evaluation.affinity.compute_affinity.
   _prepare_geometry buffers the five zero/one-dimensional types; time stamps become intervals in
   closed form (Geom/Buffer.v), the other four go through GEOS.  The GEOS quantities (bounds of a
   buffered geometry, the two areas and the intersection area) are arguments of the model; for
   rectangles (boxes, intervals, buffered time stamps) they are also computed here. *)
From SE Require Export Geom.Geometry Geom.Buffer.
Open Scope Q_scope.

Definition is_buffered_type (g : geom) : bool :=
  match g with
  | TimeStamp _ | Point _ _ | MultiPoint _ | LineString _ | MultiLineString _ => true
  | _ => false
  end.

(* after _prepare_geometry: time-only iff the original was a time stamp or a time interval *)
Definition is_time_only (g : geom) : bool :=
  match g with TimeStamp _ | TimeInterval _ _ => true | _ => false end.

(* compute_affinity_in_time on the time extents of the two prepared geometries *)
Definition affinity_time (s1 e1 s2 e2 : Q) : Q :=
  let inter := pymax 0 (pymin e1 e2 - pymax s1 s2) in
  let union := (e1 - s1) + (e2 - s2) - inter in
  if qeqb union 0 then 0 else inter / union.

(* the area branch: intersection over union, never more than 1 *)
Definition affinity_area (a1 a2 i : Q) : Q :=
  let union := a1 + a2 - i in
  if qeqb union 0 then 0 else pymin (i / union) 1.

(* rectangles *)
Definition rect := bounds.
Definition rect_area (r : rect) : Q := (b_end r - b_start r) * (b_high r - b_low r).
Definition rect_inter_area (r1 r2 : rect) : Q :=
  pymax 0 (pymin (b_end r1) (b_end r2) - pymax (b_start r1) (b_start r2))
  * pymax 0 (pymin (b_high r1) (b_high r2) - pymax (b_low r1) (b_low r2)).
Definition affinity_box (r1 r2 : rect) : Q :=
  affinity_area (rect_area r1) (rect_area r2) (rect_inter_area r1 r2).

(* prepared time extent of a time-only geometry *)
Definition prepared_extent (g : geom) (tb : Q) : option (Q * Q) :=
  match g with
  | TimeStamp t => Some (pymax (t - tb) 0, t + tb)
  | TimeInterval s e => Some (s, e)
  | _ => None
  end.

(* the dispatch, with the GEOS-side quantities as inputs:
   ext1/ext2 = time extents of the prepared geometries; a1 a2 i = areas and intersection area *)
Definition compute_affinity (g1 g2 : geom) (ext1 ext2 : Q * Q) (a1 a2 i : Q) : Q :=
  if is_time_only g1 || is_time_only g2
  then affinity_time (fst ext1) (snd ext1) (fst ext2) (snd ext2)
  else affinity_area a1 a2 i.
