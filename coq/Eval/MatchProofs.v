From Coq Require Import QArith Lqa Lia Permutation.
From SE Require Import Base.Num Base.Res Base.NumProofs Eval.Match.
Open Scope Q_scope.

(* ---------- basic list facts ---------- *)
Lemma mem_In x l : mem x l = true <-> In x l.
Proof.
  unfold mem. rewrite existsb_exists. split.
  - intros [y [Hy He]]. apply Nat.eqb_eq in He. subst. exact Hy.
  - intro H. exists x. split; [exact H|apply Nat.eqb_refl].
Qed.

Lemma mem_false x l : mem x l = false <-> ~ In x l.
Proof. rewrite <- mem_In. destruct (mem x l); split; congruence. Qed.

Lemma nodupb_NoDup l : nodupb l = true <-> NoDup l.
Proof.
  induction l as [|x l IH]; cbn [nodupb].
  - split; [constructor|reflexivity].
  - rewrite andb_true_iff, negb_true_iff, mem_false, IH. split.
    + intros [H1 H2]. constructor; assumption.
    + intro H. inversion H; subst. tauto.
Qed.

Lemma qsum_app a b : qsum (a ++ b) == qsum a + qsum b.
Proof. unfold qsum. induction a as [|x a IH]; cbn [app fold_right]; [lra|]. rewrite IH. lra. Qed.

Lemma covers_perm n l : covers n l = true -> Permutation l (seq 0 n).
Proof.
  unfold covers. rewrite !andb_true_iff. intros [[Hlen Hnd] Hlt].
  apply Nat.eqb_eq in Hlen. apply nodupb_NoDup in Hnd. rewrite forallb_forall in Hlt.
  apply NoDup_Permutation_bis; [exact Hnd|rewrite seq_length; lia|].
  intros x Hx. apply in_seq. specialize (Hlt x Hx). apply Nat.ltb_lt in Hlt. lia.
Qed.

(* ---------- pairings and the brute-force optimum ---------- *)
Definition pairing (n m : nat) (p : list (nat * nat)) : Prop :=
  NoDup (map fst p) /\ NoDup (map snd p) /\ (forall rc, In rc p -> (fst rc < n)%nat /\ (snd rc < m)%nat).

Definition weight (M : matrix) (p : list (nat * nat)) : Q :=
  qsum (map (fun rc => mget M (fst rc) (snd rc)) p).

Section Fold.
Variables (used : list nat) (g : nat -> Q).
Let F := fun (acc : Q) (c : nat) => if mem c used then acc else pymax acc (g c).

Lemma fold_ge_init l : forall acc, acc <= fold_left F l acc.
Proof.
  induction l as [|c l IH]; intro acc; cbn [fold_left]; [lra|].
  eapply Qle_trans; [|apply IH]. unfold F. destruct (mem c used); [lra|]. apply pymax_ub.
Qed.

Lemma fold_ge_elem l : forall acc c, In c l -> mem c used = false -> g c <= fold_left F l acc.
Proof.
  induction l as [|x l IH]; intros acc c Hin Hm; [destruct Hin|]. cbn [fold_left].
  destruct Hin as [->|Hin].
  - eapply Qle_trans; [|apply fold_ge_init]. unfold F. rewrite Hm. apply pymax_ub.
  - apply IH; assumption.
Qed.
End Fold.

Lemma weight_split M p1 rc p2 :
  weight M (p1 ++ rc :: p2) == mget M (fst rc) (snd rc) + weight M (p1 ++ p2).
Proof.
  unfold weight. rewrite !map_app. cbn [map]. rewrite !qsum_app. unfold qsum. cbn [fold_right]. lra.
Qed.

Lemma best_bound M m : forall rows used p,
  NoDup (map fst p) -> NoDup (map snd p) ->
  (forall rc, In rc p -> In (fst rc) rows /\ (snd rc < m)%nat /\ ~ In (snd rc) used) ->
  weight M p <= best M m rows used.
Proof.
  induction rows as [|r rs IH]; intros used p Hf Hs Hp.
  - destruct p as [|rc p]; [cbn; lra|]. destruct (Hp rc (or_introl eq_refl)) as [[] _].
  - cbn [best].
    destruct (in_dec Nat.eq_dec r (map fst p)) as [Hin|Hnin].
    + apply in_map_iff in Hin. destruct Hin as [[r' c] [Hr Hin]]. cbn in Hr. subst r'.
      apply in_split in Hin. destruct Hin as [p1 [p2 ->]].
      rewrite weight_split. cbn [fst snd].
      rewrite map_app in Hf, Hs. cbn [map fst snd] in Hf, Hs.
      pose proof (NoDup_remove_1 _ _ _ Hf) as Hf1. pose proof (NoDup_remove_2 _ _ _ Hf) as Hf2.
      pose proof (NoDup_remove_1 _ _ _ Hs) as Hs1. pose proof (NoDup_remove_2 _ _ _ Hs) as Hs2.
      rewrite <- map_app in Hf1, Hf2, Hs1, Hs2.
      destruct (Hp (r, c) ltac:(apply in_or_app; right; left; reflexivity)) as (_ & Hcm & Hcu).
      cbn [fst snd] in Hcm, Hcu.
      assert (Hrest : weight M (p1 ++ p2) <= best M m rs (c :: used)).
      { apply IH; [exact Hf1|exact Hs1|]. intros rc Hrc.
        assert (Hrc' : In rc (p1 ++ (r, c) :: p2)).
        { apply in_app_or in Hrc. apply in_or_app. destruct Hrc; [left|right; right]; assumption. }
        destruct (Hp rc Hrc') as (Hrow & Hlt & Hnu). repeat split; [|exact Hlt|].
        - destruct Hrow as [Heq|Hrow]; [|exact Hrow]. exfalso. apply Hf2.
          apply in_map_iff. exists rc. split; [symmetry; exact Heq|exact Hrc].
        - intros [Heq|Hu]; [|contradiction]. apply Hs2.
          apply in_map_iff. exists rc. split; [symmetry; exact Heq|exact Hrc]. }
      eapply Qle_trans; [|apply (fold_ge_elem used (fun c => mget M r c + best M m rs (c :: used)) (seq 0 m) _ c)].
      * lra.
      * apply in_seq. lia.
      * apply mem_false. exact Hcu.
    + eapply Qle_trans; [|apply fold_ge_init]. apply IH; [exact Hf|exact Hs|].
      intros rc Hrc. destruct (Hp rc Hrc) as (Hrow & Hlt & Hnu). repeat split; [|exact Hlt|exact Hnu].
      destruct Hrow as [Heq|Hrow]; [|exact Hrow]. exfalso. apply Hnin.
      apply in_map_iff. exists rc. split; [symmetry; exact Heq|exact Hrc].
Qed.

Theorem brute_best_max M n m p : pairing n m p -> weight M p <= brute_best M n m.
Proof.
  intros (Hf & Hs & Hb). unfold brute_best. apply best_bound; [exact Hf|exact Hs|].
  intros rc Hrc. destruct (Hb rc Hrc). repeat split; [apply in_seq; lia|assumption|intros []].
Qed.

(* ---------- what an accepted output satisfies ---------- *)
Fixpoint pairs_of (out : list entry) : list (nat * nat) :=
  match out with
  | [] => []
  | (Some i, Some j, _) :: r => (i, j) :: pairs_of r
  | _ :: r => pairs_of r
  end.

Definition entry_spec (M : matrix) (e : entry) : Prop :=
  match e with
  | (Some i, Some j, a) => a == mget M i j /\ 0 < a
  | (Some _, None, a) | (None, Some _, a) => a == 0
  | (None, None, _) => False
  end.

Lemma entry_ok_spec M e : entry_ok M e = true -> entry_spec M e.
Proof.
  destruct e as [[[i|] [j|]] a]; cbn; try discriminate.
  - rewrite andb_true_iff. intros [H1 H2]. apply qeqb_spec in H1. apply qltb_spec in H2. tauto.
  - apply qeqb_spec.
  - apply qeqb_spec.
Qed.

Lemma pairs_fst_incl out : incl (map fst (pairs_of out)) (opt_list (map e_src out)).
Proof.
  induction out as [|[[[i|] [j|]] a] r IH]; cbn; intros y Hy.
  - destruct Hy.
  - destruct Hy as [<-|Hy]; [left; reflexivity|right; apply IH; exact Hy].
  - right. apply IH. exact Hy.
  - apply IH. exact Hy.
  - apply IH. exact Hy.
Qed.

Lemma pairs_snd_incl out : incl (map snd (pairs_of out)) (opt_list (map e_tgt out)).
Proof.
  induction out as [|[[[i|] [j|]] a] r IH]; cbn; intros y Hy.
  - destruct Hy.
  - destruct Hy as [<-|Hy]; [left; reflexivity|right; apply IH; exact Hy].
  - apply IH. exact Hy.
  - right. apply IH. exact Hy.
  - apply IH. exact Hy.
Qed.

Lemma pairs_fst_NoDup out : NoDup (opt_list (map e_src out)) -> NoDup (map fst (pairs_of out)).
Proof.
  induction out as [|[[[i|] [j|]] a] r IH]; cbn; intro H; try constructor.
  - inversion H; subst. intro Hin. apply pairs_fst_incl in Hin. contradiction.
  - inversion H; subst. apply IH. assumption.
  - inversion H; subst. apply IH. assumption.
  - apply IH. exact H.
  - apply IH. exact H.
Qed.

Lemma pairs_snd_NoDup out : NoDup (opt_list (map e_tgt out)) -> NoDup (map snd (pairs_of out)).
Proof.
  induction out as [|[[[i|] [j|]] a] r IH]; cbn; intro H; try constructor.
  - inversion H; subst. intro Hin. apply pairs_snd_incl in Hin. contradiction.
  - inversion H; subst. apply IH. assumption.
  - apply IH. exact H.
  - inversion H; subst. apply IH. assumption.
  - apply IH. exact H.
Qed.

Lemma total_is_weight M out :
  (forall e, In e out -> entry_spec M e) -> total out == weight M (pairs_of out).
Proof.
  unfold total, weight. induction out as [|e r IH]; intro H; [reflexivity|].
  assert (Hr : forall e0, In e0 r -> entry_spec M e0) by (intros; apply H; right; assumption).
  specialize (IH Hr). pose proof (H e (or_introl eq_refl)) as He.
  destruct e as [[[i|] [j|]] a]; cbn in He |- *; unfold e_aff in *; cbn [snd].
  - destruct He as [He _]. rewrite He. unfold qsum in IH. rewrite IH. reflexivity.
  - unfold qsum in IH. rewrite IH, He. lra.
  - unfold qsum in IH. rewrite IH, He. lra.
  - destruct He.
Qed.

Definition spec (M : matrix) (n m : nat) (tol : Q) (out : list entry) : Prop :=
  Permutation (opt_list (map e_src out)) (seq 0 n) /\
  Permutation (opt_list (map e_tgt out)) (seq 0 m) /\
  (forall e, In e out -> entry_spec M e) /\
  pairing n m (pairs_of out) /\ total out == weight M (pairs_of out) /\
  (forall p, pairing n m p -> weight M p <= total out + tol).

Theorem checker_sound M n m tol out : checker M n m tol out = true -> spec M n m tol out.
Proof.
  unfold checker. rewrite !andb_true_iff. intros [[[Hs Ht] He] Hopt].
  pose proof (covers_perm _ _ Hs) as Ps. pose proof (covers_perm _ _ Ht) as Pt.
  rewrite forallb_forall in He.
  assert (Hes : forall e, In e out -> entry_spec M e) by (intros e H; apply entry_ok_spec, He, H).
  apply qleb_spec in Hopt.
  repeat split; try assumption.
  - apply pairs_fst_NoDup. eapply Permutation_NoDup; [symmetry; exact Ps|apply seq_NoDup].
  - apply pairs_snd_NoDup. eapply Permutation_NoDup; [symmetry; exact Pt|apply seq_NoDup].
  - assert (Hin : In (fst rc) (opt_list (map e_src out))) by (apply pairs_fst_incl, in_map; exact H).
    apply (Permutation_in _ Ps), in_seq in Hin. lia.
  - assert (Hin : In (snd rc) (opt_list (map e_tgt out))) by (apply pairs_snd_incl, in_map; exact H).
    apply (Permutation_in _ Pt), in_seq in Hin. lia.
  - apply total_is_weight. exact Hes.
  - intros p Hp. pose proof (brute_best_max M n m p Hp). lra.
Qed.

(* ---------- the post-processing model, for every size and every valid solver answer ---------- *)
Lemma opt_list_app a b : opt_list (a ++ b) = opt_list a ++ opt_list b.
Proof. induction a as [|[x|] a IH]; cbn; [reflexivity|rewrite IH; reflexivity|exact IH]. Qed.

Lemma emit_sources M lsa : opt_list (map e_src (flat_map (emit M) lsa)) = map fst lsa.
Proof.
  induction lsa as [|p lsa IH]; [reflexivity|]. cbn [flat_map]. rewrite map_app, opt_list_app, IH.
  unfold emit. destruct (qltb 0 (mget M (fst p) (snd p))); reflexivity.
Qed.

Lemma emit_targets M lsa : opt_list (map e_tgt (flat_map (emit M) lsa)) = map snd lsa.
Proof.
  induction lsa as [|p lsa IH]; [reflexivity|]. cbn [flat_map]. rewrite map_app, opt_list_app, IH.
  unfold emit. destruct (qltb 0 (mget M (fst p) (snd p))); reflexivity.
Qed.

Lemma opt_list_some {A} (f : A -> nat) (g : A -> entry) l :
  (forall x, e_src (g x) = Some (f x)) -> opt_list (map e_src (map g l)) = map f l.
Proof. intro H. induction l as [|x l IH]; cbn; [reflexivity|]. rewrite H, IH. reflexivity. Qed.

Lemma opt_list_none_src {A} (g : A -> entry) l :
  (forall x, e_src (g x) = None) -> opt_list (map e_src (map g l)) = [].
Proof. intro H. induction l as [|x l IH]; cbn; [reflexivity|]. rewrite H. exact IH. Qed.

Lemma opt_list_some_tgt {A} (f : A -> nat) (g : A -> entry) l :
  (forall x, e_tgt (g x) = Some (f x)) -> opt_list (map e_tgt (map g l)) = map f l.
Proof. intro H. induction l as [|x l IH]; cbn; [reflexivity|]. rewrite H, IH. reflexivity. Qed.

Lemma opt_list_none_tgt {A} (g : A -> entry) l :
  (forall x, e_tgt (g x) = None) -> opt_list (map e_tgt (map g l)) = [].
Proof. intro H. induction l as [|x l IH]; cbn; [reflexivity|]. rewrite H. exact IH. Qed.

Lemma select_sources M n m lsa :
  opt_list (map e_src (select_matches M n m lsa)) =
  map fst lsa ++ filter (fun r => negb (mem r (map fst lsa))) (seq 0 n).
Proof.
  unfold select_matches. rewrite !map_app, !opt_list_app, emit_sources.
  rewrite (opt_list_some (fun r => r)) by reflexivity. rewrite map_id.
  rewrite opt_list_none_src by reflexivity. rewrite app_nil_r. reflexivity.
Qed.

Lemma select_targets M n m lsa :
  opt_list (map e_tgt (select_matches M n m lsa)) =
  map snd lsa ++ filter (fun c => negb (mem c (map snd lsa))) (seq 0 m).
Proof.
  unfold select_matches. rewrite !map_app, !opt_list_app, emit_targets.
  rewrite opt_list_none_tgt by reflexivity.
  rewrite (opt_list_some_tgt (fun r => r)) by reflexivity. rewrite map_id. reflexivity.
Qed.

Lemma NoDup_app_disjoint {A} (l1 l2 : list A) :
  NoDup l1 -> NoDup l2 -> (forall x, In x l1 -> ~ In x l2) -> NoDup (l1 ++ l2).
Proof.
  induction l1 as [|a l1 IH]; intros H1 H2 Hd; [exact H2|].
  cbn. inversion H1; subst. constructor.
  - intro Hin. apply in_app_or in Hin. destruct Hin as [Hin|Hin]; [contradiction|].
    apply (Hd a); [left; reflexivity|exact Hin].
  - apply IH; [assumption|exact H2|]. intros x Hx. apply Hd. right. exact Hx.
Qed.

Lemma assigned_plus_rest l n :
  NoDup l -> (forall x, In x l -> (x < n)%nat) ->
  Permutation (l ++ filter (fun r => negb (mem r l)) (seq 0 n)) (seq 0 n).
Proof.
  intros Hnd Hlt. apply NoDup_Permutation.
  - apply NoDup_app_disjoint; [exact Hnd|apply NoDup_filter, seq_NoDup|].
    intros x Hx Hf. apply filter_In in Hf. destruct Hf as [_ Hf].
    apply negb_true_iff, mem_false in Hf. contradiction.
  - apply seq_NoDup.
  - intro x. rewrite in_app_iff, filter_In, in_seq, negb_true_iff, mem_false. split.
    + intros [H|[H _]]; [specialize (Hlt x H)|]; lia.
    + intro H. destruct (in_dec Nat.eq_dec x l) as [Hi|Hi]; [left; exact Hi|right]. split; [lia|exact Hi].
Qed.

Definition nonneg (M : matrix) : Prop := forall i j, 0 <= mget M i j.

Lemma select_entries M n m lsa e : In e (select_matches M n m lsa) -> entry_spec M e.
Proof.
  unfold select_matches. rewrite !in_app_iff. intros [H|[H|H]].
  - apply in_flat_map in H. destruct H as [p [_ H]]. unfold emit in H.
    destruct (qltb 0 (mget M (fst p) (snd p))) eqn:E.
    + destruct H as [<-|[]]. cbn. apply qltb_spec in E. split; [reflexivity|exact E].
    + destruct H as [<-|[<-|[]]]; cbn; reflexivity.
  - apply in_map_iff in H. destruct H as [r [<- _]]. cbn. reflexivity.
  - apply in_map_iff in H. destruct H as [c [<- _]]. cbn. reflexivity.
Qed.

Lemma total_app a b : total (a ++ b) == total a + total b.
Proof. unfold total. rewrite map_app. apply qsum_app. Qed.

Lemma total_zero {A} (g : A -> entry) l : (forall x, e_aff (g x) = 0) -> total (map g l) == 0.
Proof.
  intro H. unfold total, qsum. induction l as [|x l IH]; cbn; [reflexivity|]. rewrite H, IH. lra.
Qed.

Lemma select_total M n m lsa : nonneg M -> total (select_matches M n m lsa) == weight M lsa.
Proof.
  intro Hnn. unfold select_matches. rewrite !total_app.
  rewrite (total_zero (fun r => (Some r, None, 0))) by reflexivity.
  rewrite (total_zero (fun c => (None, Some c, 0))) by reflexivity.
  assert (H : total (flat_map (emit M) lsa) == weight M lsa).
  { unfold weight. induction lsa as [|p lsa IH]; [reflexivity|].
    cbn [flat_map map]. rewrite total_app, IH. unfold qsum at 2. cbn [fold_right]. fold (qsum (map (fun rc => mget M (fst rc) (snd rc)) lsa)).
    unfold emit. destruct (qltb 0 (mget M (fst p) (snd p))) eqn:E.
    - unfold total, qsum. cbn. lra.
    - apply qltb_false in E. specialize (Hnn (fst p) (snd p)). unfold total, qsum. cbn. lra. }
  rewrite H. lra.
Qed.

(* scipy's contract, in the form the code relies on (weights are >= 0, so maximising over complete
   assignments and over partial pairings coincide) *)
Definition lsa_spec (M : matrix) (n m : nat) (lsa : list (nat * nat)) : Prop :=
  pairing n m lsa /\ forall p, pairing n m p -> weight M p <= weight M lsa.

Theorem select_matches_spec M n m lsa :
  nonneg M -> lsa_spec M n m lsa ->
  let out := select_matches M n m lsa in
  Permutation (opt_list (map e_src out)) (seq 0 n) /\
  Permutation (opt_list (map e_tgt out)) (seq 0 m) /\
  (forall e, In e out -> entry_spec M e) /\
  (forall p, pairing n m p -> weight M p <= total out).
Proof.
  intros Hnn [(Hf & Hs & Hb) Hopt]. cbn zeta. repeat split.
  - rewrite select_sources. apply assigned_plus_rest; [exact Hf|].
    intros x Hx. apply in_map_iff in Hx. destruct Hx as [rc [<- Hrc]]. apply Hb. exact Hrc.
  - rewrite select_targets. apply assigned_plus_rest; [exact Hs|].
    intros x Hx. apply in_map_iff in Hx. destruct Hx as [rc [<- Hrc]]. apply Hb. exact Hrc.
  - apply select_entries.
  - intros p Hp. rewrite select_total by exact Hnn. apply Hopt. exact Hp.
Qed.

(* coverage needs only a valid assignment, not an optimal one, and holds for n = 0, m = 0, n <> m *)
Theorem select_matches_coverage M n m lsa :
  pairing n m lsa ->
  Permutation (opt_list (map e_src (select_matches M n m lsa))) (seq 0 n) /\
  Permutation (opt_list (map e_tgt (select_matches M n m lsa))) (seq 0 m).
Proof.
  intros (Hf & Hs & Hb). split.
  - rewrite select_sources. apply assigned_plus_rest; [exact Hf|].
    intros x Hx. apply in_map_iff in Hx. destruct Hx as [rc [<- Hrc]]. apply Hb. exact Hrc.
  - rewrite select_targets. apply assigned_plus_rest; [exact Hs|].
    intros x Hx. apply in_map_iff in Hx. destruct Hx as [rc [<- Hrc]]. apply Hb. exact Hrc.
Qed.
