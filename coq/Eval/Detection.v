(* Eval/Detection.v — model of soundevent.evaluation.tasks.sound_event_detection:
   clip pairing (tasks/common.py), evaluate_clip, classification_score, score aggregation.
   The geometry matcher is Eval/Match.v (its inputs: the affinity matrix of the events that have a
   geometry, and the solver's assignment); the encoders are C19's (their outputs are inputs here). *)
From SE Require Export Base.Num Base.Res Eval.Match.
Open Scope Q_scope.

(* ---- clips evaluated: predictions whose clip id is annotated, in prediction order;
        for a duplicated annotated id the dict keeps the last one ---- *)
Fixpoint last_index_of (x : nat) (l : list nat) (i : nat) (acc : option nat) : option nat :=
  match l with
  | [] => acc
  | y :: r => last_index_of x r (S i) (if Nat.eqb x y then Some i else acc)
  end.

(* pairs (annotation clip position, prediction clip position) *)
Definition pair_clips (pred_ids ann_ids : list nat) : list (nat * nat) :=
  flat_map (fun ip => match last_index_of (snd ip) ann_ids 0 None with
                      | Some ia => [(ia, fst ip)]
                      | None => []
                      end) (combine (seq 0 (length pred_ids)) pred_ids).

(* ---- one clip ---- *)
Definition classification_score (y : option nat) (s : list Q) : Q :=
  match y with None => 1 - qsum s | Some k => nth k s 0 end.

Definition mean (l : list Q) : Q :=
  match l with [] => 0 | _ => qsum l / inject_Z (Z.of_nat (length l)) end.

(* a reported match: source = prediction index, target = annotation index, affinity, score *)
Definition dmatch := (option nat * option nat * Q * Q)%type.
Definition d_src (d : dmatch) := fst (fst (fst d)).
Definition d_tgt (d : dmatch) := snd (fst (fst d)).
Definition d_aff (d : dmatch) := snd (fst d).
Definition d_score (d : dmatch) := snd d.

Definition with_geo (has : list bool) : list nat := filter (fun i => nth i has false) (seq 0 (length has)).
Definition without_geo (has : list bool) : list nat := filter (fun i => negb (nth i has false)) (seq 0 (length has)).

(* pgeo / ageo: which predictions / annotations have a geometry; M and lsa refer to the filtered lists;
   ytrue: class index of each annotation (None = no vocabulary tag); yscore: score vector of each prediction *)
Definition evaluate_clip (pgeo ageo : list bool) (M : matrix) (lsa : list (nat * nat))
           (ytrue : list (option nat)) (yscore : list (list Q)) : list dmatch :=
  let fp := with_geo pgeo in
  let fa := with_geo ageo in
  let lift (e : entry) : dmatch :=
      match e with
      | (Some i, Some j, a) =>
          let p := nth i fp 0%nat in let t := nth j fa 0%nat in
          (Some p, Some t, a, classification_score (nth t ytrue None) (nth p yscore []))
      | (Some i, None, a) => (Some (nth i fp 0%nat), None, a, 0)
      | (None, Some j, a) => (None, Some (nth j fa 0%nat), a, 0)
      | (None, None, a) => (None, None, a, 0)
      end in
  map lift (select_matches M (length fp) (length fa) lsa)
  ++ map (fun p => (Some p, None, 0, 0)) (without_geo pgeo)
  ++ map (fun t => (None, Some t, 0, 0)) (without_geo ageo).

Definition clip_score (ms : list dmatch) : Q := mean (map d_score ms).
Definition overall_score (clip_scores : list Q) : Q := mean clip_scores.

(* comparison helpers *)
Definition dmatch_eqb (tol : Q) (a b : dmatch) : bool :=
  on_eqb (d_src a) (d_src b) && on_eqb (d_tgt a) (d_tgt b) && qclose tol (d_aff a) (d_aff b) && qclose tol (d_score a) (d_score b).
Definition dmatches_same (tol : Q) (a b : list dmatch) : bool :=
  Nat.eqb (length a) (length b) && forallb (fun e => existsb (dmatch_eqb tol e) b) a
  && forallb (fun e => existsb (dmatch_eqb tol e) a) b.
Fixpoint natpairs_eqb (a b : list (nat * nat)) : bool :=
  match a, b with
  | [], [] => true
  | x :: a', y :: b' => Nat.eqb (fst x) (fst y) && Nat.eqb (snd x) (snd y) && natpairs_eqb a' b'
  | _, _ => false
  end.
