#!/bin/bash
# usage: harness/gentest.sh <patch>...   — for each patch: apply to /repo, regenerate Gen/Source.v, rebuild, say which
# translated units changed / became unreadable and which Gen proofs no longer check; then restore.
cd /verif
git -C /repo status --short | grep -q . && { echo "/repo dirty"; exit 2; }
for p in "$@"; do
  git -C /repo apply $( [ -f /verif/$p ] && echo /verif/$p || echo $p ) 2>/dev/null || { echo "$p: does not apply"; continue; }
  cp coq/Gen/Source.v build/Source.pinned.v
  rep=$(/venv/bin/python harness/pygen.py /repo/src coq/Gen/Source.v 2>/dev/null | grep unreadable | tr -d '\n' | cut -c1-300)
  changed=$(diff build/Source.pinned.v coq/Gen/Source.v | grep -c '^[<>]')
  out=$(cd coq && timeout 900 make -k -j16 2>&1 | grep -B1 "^Error" | grep "^File" | sed 's/File ".\/\([^"]*\)".*/\1/' | sort -u | tr '\n' ' ')
  echo "$(basename $(dirname $p))/$(basename $p): changed_lines=$changed unreadable=[$rep] broken=[$out]"
  git -C /repo checkout -- .; git -C /repo clean -fdq -- src
done
/venv/bin/python harness/pygen.py /repo/src coq/Gen/Source.v >/dev/null 2>&1; (cd coq && make -j16 >/dev/null 2>&1)
