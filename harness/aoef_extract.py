"""Translator for the AOEF adapters: reads /repo/src/soundevent/io/aoef/*.py with `ast` on every run and extracts, per
adapter, what the generic Coq model is parameterised by:

  * object adapters  — the keyword arguments of the `XObject(...)` built by assemble_aoef (= document fields written),
    the keyword arguments of the `data.X(...)` built by assemble_soundevent (= data fields read back) together with the
    document fields each one is computed from, and the order in which nested adapters are first asked to convert
    (registration order);
  * collection adapters — the sequence of conversions (`adapter.to_aoef`) and snapshots (`adapter.values()`, or a
    converted list used directly as the top-level list) of to_aoef in evaluation order, `super().to_aoef` inlined, and the
    re-registration order of to_soundevent.

It is fail-closed: a construct it does not understand raises ExtractError, which the checks treat as a broken proof
obligation (the model is no longer known to describe the code).  The result is compared with the schema table of
harness/aoef.py (`differences`), and `Aoef/Schema.v` is generated from the table *with the extracted written/read masks
and the extracted steps and load orders*, so that `schema_okb current T` is re-checked against what the code says now."""
from __future__ import annotations

import ast
from pathlib import Path

from . import aoef as A


class ExtractError(Exception):
    pass


# adapter attribute name -> data class
ATTR = {
    "user_adapter": "User", "_user_adapter": "User", "tag_adapter": "Tag", "_tag_adapter": "Tag",
    "note_adapter": "Note", "_note_adapter": "Note", "recording_adapter": "Recording",
    "clip_adapter": "Clip", "sound_event_adapter": "SoundEvent", "soundevent_adapter": "SoundEvent",
    "sequence_adapter": "Sequence", "sound_event_annotation_adapter": "SoundEventAnnotation",
    "sound_event_annotations_adapter": "SoundEventAnnotation", "sequence_annotation_adapter": "SequenceAnnotation",
    "sequence_annotations_adapter": "SequenceAnnotation", "clip_annotation_adapter": "ClipAnnotation",
    "clip_annotations_adapter": "ClipAnnotation", "sound_event_prediction_adapter": "SoundEventPrediction",
    "sequence_prediction_adapter": "SequencePrediction", "clip_predictions_adapter": "ClipPrediction",
    "annotation_task_adapter": "AnnotationTask", "match_adapter": "Match", "clip_evaluation_adapter": "ClipEvaluation",
}
OBJ_MODULES = {
    "User": ("user", "UserAdapter"), "Tag": ("tag", "TagAdapter"), "Note": ("note", "NoteAdapter"),
    "Recording": ("recording", "RecordingAdapter"), "Clip": ("clip", "ClipAdapter"),
    "SoundEvent": ("sound_event", "SoundEventAdapter"), "Sequence": ("sequence", "SequenceAdapter"),
    "SoundEventAnnotation": ("sound_event_annotation", "SoundEventAnnotationAdapter"),
    "SequenceAnnotation": ("sequence_annotation", "SequenceAnnotationAdapter"),
    "ClipAnnotation": ("clip_annotations", "ClipAnnotationsAdapter"),
    "SoundEventPrediction": ("sound_event_prediction", "SoundEventPredictionAdapter"),
    "SequencePrediction": ("sequence_prediction", "SequencePredictionAdapter"),
    "ClipPrediction": ("clip_predictions", "ClipPredictionsAdapter"),
    "AnnotationTask": ("annotation_task", "AnnotationTaskAdapter"), "Match": ("match", "MatchAdapter"),
    "ClipEvaluation": ("clip_evaluation", "ClipEvaluationAdapter"),
}
ROOT_MODULES = {
    "RecordingSet": ("recording_set", "RecordingSetAdapter"), "Dataset": ("dataset", "DatasetAdapter"),
    "AnnotationSet": ("annotation_set", "AnnotationSetAdapter"), "AnnotationProject": ("annotation_project", "AnnotationProjectAdapter"),
    "EvaluationSet": ("evaluation_set", "EvaluationSetAdapter"), "PredictionSet": ("prediction_set", "PredictionSetAdapter"),
    "ModelRun": ("model_run", "ModelRunAdapter"), "Evaluation": ("evaluation", "EvaluationAdapter"),
}
SUPER = {"Dataset": "RecordingSet", "AnnotationProject": "AnnotationSet", "EvaluationSet": "AnnotationSet", "ModelRun": "PredictionSet"}
TABLE_CLS = {c["table"]: c["name"] for c in A.CLASSES if c["table"]}


def _src(repo_src: Path, mod: str) -> ast.Module:
    return ast.parse((repo_src / "soundevent" / "io" / "aoef" / f"{mod}.py").read_text())


def _method(tree: ast.Module, cls: str, name: str) -> ast.FunctionDef | None:
    for n in tree.body:
        if isinstance(n, ast.ClassDef) and n.name == cls:
            for m in n.body:
                if isinstance(m, ast.FunctionDef) and m.name == name:
                    return m
    return None


def _adapter_call(node: ast.AST):
    """self.<attr>.<meth>(...) or self.<meth>(...) or super().<meth>(...) -> (attr|'self'|'super', meth)"""
    if not (isinstance(node, ast.Call) and isinstance(node.func, ast.Attribute)):
        return None
    f = node.func
    v = f.value
    if isinstance(v, ast.Attribute) and isinstance(v.value, ast.Name) and v.value.id == "self":
        return (v.attr, f.attr)
    if isinstance(v, ast.Name) and v.id == "self":
        return ("self", f.attr)
    if isinstance(v, ast.Call) and isinstance(v.func, ast.Name) and v.func.id == "super":
        return ("super", f.attr)
    return None


def _eval_order(node: ast.AST):
    """sub-expressions in (approximate) evaluation order, depth first"""
    if isinstance(node, (ast.ListComp, ast.GeneratorExp, ast.SetComp)):
        for g in node.generators:
            yield from _eval_order(g.iter)
            for c in g.ifs:
                yield from _eval_order(c)
        yield from _eval_order(node.elt)
        return
    if isinstance(node, ast.DictComp):
        for g in node.generators:
            yield from _eval_order(g.iter)
            for c in g.ifs:
                yield from _eval_order(c)
        yield from _eval_order(node.key)
        yield from _eval_order(node.value)
        return
    if isinstance(node, ast.IfExp):
        yield from _eval_order(node.test)
        yield from _eval_order(node.body)
        yield from _eval_order(node.orelse)
        return
    if isinstance(node, ast.Call):
        yield from _eval_order(node.func)
        for a in node.args:
            yield from _eval_order(a)
        for k in node.keywords:
            yield from _eval_order(k.value)
        yield node
        return
    for ch in ast.iter_child_nodes(node):
        yield from _eval_order(ch)
    yield node


def _names(node: ast.AST, base: str) -> set[str]:
    """attributes read off the name `base` inside node (obj.<field>)"""
    return {n.attr for n in ast.walk(node) if isinstance(n, ast.Attribute) and isinstance(n.value, ast.Name) and n.value.id == base}


def _stmts(fn: ast.FunctionDef):
    for s in fn.body:
        if isinstance(s, ast.Expr) and isinstance(s.value, ast.Constant) and isinstance(s.value.value, str):
            continue  # docstring
        yield s


def _flatten(stmts):
    """statements in execution order; branches of if / bodies of for are inlined (both branches)"""
    for s in stmts:
        if isinstance(s, ast.If):
            yield ast.Expr(value=s.test)
            yield from _flatten(s.body)
            yield from _flatten(s.orelse)
        elif isinstance(s, ast.For):
            yield ast.Expr(value=s.iter)
            yield from _flatten(s.body)
            if s.orelse:
                raise ExtractError("for/else")
        elif isinstance(s, (ast.Assign, ast.AnnAssign, ast.Return, ast.Expr, ast.Raise, ast.Pass)):
            yield s
        else:
            raise ExtractError(f"statement {type(s).__name__} not understood (line {getattr(s, 'lineno', '?')})")


def _final_call(fn: ast.FunctionDef, what: str) -> ast.Call:
    rets = [s for s in _flatten(_stmts(fn)) if isinstance(s, ast.Return)]
    if len(rets) != 1 or not isinstance(rets[0].value, ast.Call):
        raise ExtractError(f"{what}: expected exactly one `return <Call>`")
    call = rets[0].value
    if call.args and not (len(call.args) == 0):
        raise ExtractError(f"{what}: positional arguments in the final constructor")
    return call


# ------------------------------------------------------------------------------------------------ object adapters
def extract_object(repo_src: Path, name: str) -> dict:
    mod, cls = OBJ_MODULES[name]
    tree = _src(repo_src, mod)
    wname, rname, objarg = ("to_aoef", "to_soundevent", None) if name == "Note" else ("assemble_aoef", "assemble_soundevent", None)
    w, r = _method(tree, cls, wname), _method(tree, cls, rname)
    if w is None or r is None:
        raise ExtractError(f"{cls}: {wname}/{rname} not found")
    wobj, robj = w.args.args[1].arg, r.args.args[1].arg
    out = {"name": name}
    # --- write side
    call = _final_call(w, f"{cls}.{wname}")
    if any(k.arg is None for k in call.keywords):
        raise ExtractError(f"{cls}.{wname}: **kwargs in the final constructor")
    out["written"] = [k.arg for k in call.keywords]
    # variables assigned before the return: which object fields feed them
    env: dict[str, set[str]] = {}
    order: list[str] = []
    for s in _flatten(_stmts(w)):
        val = s.value if isinstance(s, (ast.Assign, ast.AnnAssign, ast.Return, ast.Expr)) else None
        if val is None:
            continue
        for n in _eval_order(val):
            ac = _adapter_call(n)
            if ac and ac[1] == "to_aoef":
                tgt = name if ac[0] == "self" else ATTR.get(ac[0])
                if tgt is None:
                    raise ExtractError(f"{cls}: unknown adapter attribute {ac[0]}")
                if tgt not in order:
                    order.append(tgt)
            elif ac and ac[1] in ("get_id", "get_new_id", "from_id", "to_soundevent") and ac[0] != "self":
                raise ExtractError(f"{cls}.{wname}: nested object obtained through {ac[0]}.{ac[1]} instead of to_aoef")
            elif ac and ac[0] == "self" and ac[1] in ("get_id",):
                raise ExtractError(f"{cls}.{wname}: self.{ac[1]} used for a nested object")
        if isinstance(s, ast.Assign) and len(s.targets) == 1 and isinstance(s.targets[0], ast.Name):
            deps = _names(s.value, wobj)
            for nm in [n.id for n in ast.walk(s.value) if isinstance(n, ast.Name)]:
                deps |= env.get(nm, set())
            env[s.targets[0].id] = env.get(s.targets[0].id, set()) | deps
    out["conv_order"] = order
    wsrc = {}
    for k in call.keywords:
        deps = _names(k.value, wobj)
        for nm in [n.id for n in ast.walk(k.value) if isinstance(n, ast.Name)]:
            deps |= env.get(nm, set())
        wsrc[k.arg] = sorted(deps)
    out["written_from"] = wsrc
    # --- read side
    rcall = _final_call(r, f"{cls}.{rname}")
    if any(k.arg is None for k in rcall.keywords):
        raise ExtractError(f"{cls}.{rname}: **kwargs in the final constructor")
    renv: dict[str, set[str]] = {}
    for s in _flatten(_stmts(r)):
        if isinstance(s, ast.Assign) and len(s.targets) == 1 and isinstance(s.targets[0], ast.Name):
            deps = _names(s.value, robj)
            for nm in [n.id for n in ast.walk(s.value) if isinstance(n, ast.Name)]:
                deps |= renv.get(nm, set())
            renv[s.targets[0].id] = renv.get(s.targets[0].id, set()) | deps
    rsrc = {}
    for k in rcall.keywords:
        deps = _names(k.value, robj)
        for nm in [n.id for n in ast.walk(k.value) if isinstance(n, ast.Name)]:
            deps |= renv.get(nm, set())
        rsrc[k.arg] = sorted(deps)
    out["read_from"] = rsrc
    return out


# ------------------------------------------------------------------------------------------------ collection adapters
def _root_events(repo_src: Path, rname: str):
    """to_aoef of a collection adapter -> (events, fields) where events = [('conv', cls) | ...] with a running conversion
    count, and fields = {document field: time of its snapshot (number of conversions done)}; plus conv list in order"""
    mod, cls = ROOT_MODULES[rname]
    fn = _method(_src(repo_src, mod), cls, "to_aoef")
    if fn is None:
        if rname in SUPER:
            return _root_events(repo_src, SUPER[rname])
        raise ExtractError(f"{cls}.to_aoef not found")
    convs: list[str] = []  # classes converted, in order (one entry per conversion loop)
    var_time: dict[str, int] = {}  # variable holding a converted list -> snapshot time
    super_fields: dict[str, dict[str, int]] = {}  # variable bound to super().to_aoef(obj) -> its fields

    def scan(expr, record_snaps):
        """walk expr in evaluation order; conversions advance time; returns time after"""
        for n in _eval_order(expr):
            ac = _adapter_call(n)
            if not ac:
                continue
            if ac[1] == "to_aoef":
                if ac[0] == "super":
                    ev, fields = _root_events(repo_src, SUPER[rname])
                    convs.extend(ev)
                    record_snaps["__super__"] = {f: t + (len(convs) - len(ev)) for f, t in fields.items()}
                else:
                    tgt = ATTR.get(ac[0])
                    if tgt is None:
                        raise ExtractError(f"{cls}: unknown adapter attribute {ac[0]}")
                    if not convs or convs[-1] != tgt or record_snaps.get("__new_loop__", True):
                        convs.append(tgt)
                        record_snaps["__new_loop__"] = False
            elif ac[1] in ("get_id", "from_id"):
                raise ExtractError(f"{cls}.to_aoef: {ac[0]}.{ac[1]} used instead of to_aoef")

    ret_call = _final_call(fn, f"{cls}.to_aoef")
    for s in _flatten(_stmts(fn)):
        if isinstance(s, ast.Return):
            break
        val = s.value if isinstance(s, (ast.Assign, ast.Expr, ast.AnnAssign)) else None
        if val is None:
            continue
        rec = {"__new_loop__": True}
        scan(val, rec)
        if isinstance(s, ast.Assign) and len(s.targets) == 1 and isinstance(s.targets[0], ast.Name):
            if "__super__" in rec:
                super_fields[s.targets[0].id] = rec["__super__"]
            var_time[s.targets[0].id] = len(convs)
    fields: dict[str, int] = {}
    kws = ret_call.keywords
    # `**{key: value for key, value in recording_set if ...}` : all fields of the super() result
    for k in kws:
        rec = {"__new_loop__": True}
        if k.arg is None:
            names = [n.id for n in ast.walk(k.value) if isinstance(n, ast.Name) and n.id in super_fields]
            if len(names) != 1:
                raise ExtractError(f"{cls}.to_aoef: ** argument not understood")
            for f, t in super_fields[names[0]].items():
                fields.setdefault(f, t)
            continue
        scan(k.value, rec)
        v = k.value
        if k.arg not in TABLE_CLS:
            continue
        ac = _adapter_call(v)
        if ac and ac[1] == "values":
            fields[k.arg] = len(convs)
        elif isinstance(v, ast.Name) and v.id in var_time:
            fields[k.arg] = var_time[v.id]
        elif isinstance(v, ast.Attribute) and isinstance(v.value, ast.Name) and v.value.id in super_fields:
            if v.attr not in super_fields[v.value.id]:
                raise ExtractError(f"{cls}.to_aoef: {v.value.id}.{v.attr} is not a list of the base document")
            fields[k.arg] = super_fields[v.value.id][v.attr]
        elif isinstance(v, ast.IfExp) and isinstance(v.body, ast.Name) and v.body.id in var_time:
            fields[k.arg] = var_time[v.body.id]
        else:
            raise ExtractError(f"{cls}.to_aoef: top-level list {k.arg} = {ast.unparse(v)[:60]} not understood")
    return convs, fields


def extract_root(repo_src: Path, rname: str, with_load: bool = True) -> dict:
    convs, fields = _root_events(repo_src, rname)
    root = A.ROOTS[A.RIDX[rname]]
    # map each conversion to the root's reference field of that class (in order of appearance)
    by_cls: dict[str, list[str]] = {}
    for f, _df, tgt, _c, _h in root["kids"]:
        by_cls.setdefault(tgt, []).append(f)
    conv_fields = []
    for c in convs:
        if not by_cls.get(c):
            raise ExtractError(f"{rname}.to_aoef converts {c} objects that are not a reference field of the collection")
        conv_fields.append(by_cls[c].pop(0))
    # steps: conversions in order, each snapshot placed after the conversions that precede it
    steps = []
    snaps = sorted(((t, f) for f, t in fields.items()), key=lambda x: (x[0], x[1]))
    si = 0
    for i, f in enumerate(conv_fields):
        while si < len(snaps) and snaps[si][0] <= i:
            steps.append(("Snap", TABLE_CLS[snaps[si][1]]))
            si += 1
        steps.append(("Conv", f))
    while si < len(snaps):
        steps.append(("Snap", TABLE_CLS[snaps[si][1]]))
        si += 1
    # load order (not needed by checks that only concern the written document)
    load = _load_order(repo_src, rname) if with_load else list(root["load"])
    return {"name": rname, "steps": steps, "load": load}


def _load_order(repo_src: Path, rname: str) -> list[str]:
    mod, cls = ROOT_MODULES[rname]
    fn = _method(_src(repo_src, mod), cls, "to_soundevent")
    if fn is None:
        if rname in SUPER:
            return _load_order(repo_src, SUPER[rname])
        raise ExtractError(f"{cls}.to_soundevent not found")
    order: list[str] = []
    import re as _re

    objarg = fn.args.args[1].arg
    for n in ast.walk(fn):
        its = [n.iter] if isinstance(n, ast.For) else ([g.iter for g in n.generators] if isinstance(n, (ast.ListComp, ast.GeneratorExp)) else [])
        inner = n.body if isinstance(n, ast.For) else ([n.elt] if its else [])
        if not any((_adapter_call(m) or ("", ""))[1] == "to_soundevent" for b in inner for m in ast.walk(b)):
            continue  # only loops that re-register objects matter here
        for it in its:
            txt = ast.unparse(it)
            if _adapter_call(it) is None and not _re.fullmatch(rf"{objarg}\.\w+( or \[\])?|\w+", txt):
                raise ExtractError(f"{cls}.to_soundevent iterates over `{txt}`: top-level lists must be re-registered in document order")
    for s in _flatten(_stmts(fn)):
        val = s.value if isinstance(s, (ast.Assign, ast.Expr, ast.Return, ast.AnnAssign)) else None
        if val is None:
            continue
        for n in _eval_order(val):
            ac = _adapter_call(n)
            if not ac or ac[1] != "to_soundevent":
                continue
            if ac[0] == "super":
                for c in _load_order(repo_src, SUPER[rname]):
                    if c not in order:
                        order.append(c)
            else:
                tgt = ATTR.get(ac[0])
                if tgt is None:
                    raise ExtractError(f"{cls}: unknown adapter attribute {ac[0]}")
                if tgt not in order:
                    order.append(tgt)
    return order


# ------------------------------------------------------------------------------------------------ whole extraction
def extract_all(repo_src: Path, with_load: bool = True) -> dict:
    """Per-unit extraction.  A unit (one object adapter, one collection adapter, the dispatch table) whose code is not of
    a shape the translator understands is listed under "unreadable" and left out: for it the schema table is used and the
    tie to the code is the correspondence run alone.  (Unreadable is not evidence against a property; a unit that IS read
    and differs from the table is: see `differences`.)"""
    out = {"objects": {}, "roots": {}, "dispatch": None, "unreadable": []}
    for n in OBJ_MODULES:
        try:
            out["objects"][n] = extract_object(repo_src, n)
        except Exception as e:
            out["unreadable"].append(f"{n}: {type(e).__name__}: {e}")
    for n in ROOT_MODULES:
        try:
            out["roots"][n] = extract_root(repo_src, n, with_load)
        except Exception as e:
            out["unreadable"].append(f"{n}: {type(e).__name__}: {e}")
    try:
        out["dispatch"] = extract_dispatch(repo_src)
    except Exception as e:
        out["unreadable"].append(f"ADAPTERS/dispatch: {type(e).__name__}: {e}")
    return out


def masks(ex: dict) -> tuple[dict, dict]:
    """written / read mask per class from the extraction, in the order of the schema table's scalar rows"""
    wr, rd = {}, {}
    for c in A.CLASSES:
        n = c["name"]
        if n in ("PredictedTag", "StatusBadge"):
            wr[n] = [True] * len(c["scalars"])  # built inline by their parents (tuples / nested constructor): see differences()
            rd[n] = [True] * len(c["scalars"])
            continue
        o = ex["objects"].get(n)
        if o is None:  # unreadable: the table's rows stand
            wr[n] = [True] * len(c["scalars"])
            rd[n] = [True] * len(c["scalars"])
            continue
        # a field is written / read when the constructor call has that keyword (syntactic, robust under refactoring)
        wr[n] = [df in o["written"] for f, df, _ in c["scalars"]]
        rd[n] = [f in o["read_from"] for f, df, _ in c["scalars"]]
    return wr, rd


def differences(ex: dict, advisory: bool = False) -> list[str]:
    """where the code, as extracted, departs from the schema table.
    Binding (default): purely syntactic facts — which keywords the final constructors have, in which order nested adapters
    are first called, which top-level lists are snapshots taken before which conversions.
    Advisory (advisory=True): facts that rest on the translator's simple data-flow reading (which obj.<field> a keyword is
    computed from; the re-registration order, which helper methods can hide) — recorded, never decisive."""
    out = []
    adv = []
    for c in A.CLASSES:
        n = c["name"]
        if n in ("PredictedTag", "StatusBadge") or n not in ex["objects"]:
            continue
        o = ex["objects"][n]
        want_w = {s[1] for s in c["scalars"]} | {k[1] for k in c["kids"]} | ({"uuid"} if c["key"] == "uuid" else {"id"})
        if set(o["written"]) != want_w:
            out.append(f"{n}: document fields written {sorted(set(o['written']) ^ want_w)} differ from the schema")
        want_r = {s[0] for s in c["scalars"]} | {k[0] for k in c["kids"]} | ({"uuid"} if c["key"] == "uuid" else set())
        if set(o["read_from"]) != want_r:
            out.append(f"{n}: data fields rebuilt {sorted(set(o['read_from']) ^ want_r)} differ from the schema")
        for f, df, _codec in c["scalars"]:
            if df in o["written"] and f not in o["written_from"].get(df, []):
                adv.append(f"{n}: document field {df} is not computed from obj.{f}")
            if f in o["read_from"] and df not in o["read_from"].get(f, []):
                adv.append(f"{n}: data field {f} is not rebuilt from obj.{df}")
        for f, df, _t, _c, _h in c["kids"]:
            if df in o["written"] and f not in o["written_from"].get(df, []):
                adv.append(f"{n}: reference field {df} is not computed from obj.{f}")
            if f in o["read_from"] and df not in o["read_from"].get(f, []):
                adv.append(f"{n}: reference field {f} is not rebuilt from obj.{df}")
        # registration order of nested conversions (inline kids contribute their own references)
        want_order = []
        for _f, _df, tgt, _c2, how in c["kids"]:
            # a note is converted by its own adapter; predicted tags / badges are built in place, their references directly
            chain = [tgt] if (how == "ref" or tgt == "Note") else [k[2] for k in A.desc_of(tgt)["kids"]]
            for t in chain:
                if t not in want_order:
                    want_order.append(t)
        got = [t for t in o["conv_order"]]
        if got != want_order:
            out.append(f"{n}: nested conversions are first made in the order {got}, the schema has {want_order}")
    for r in A.ROOTS:
        e = ex["roots"].get(r["name"])
        if e is None:
            continue
        if e["load"] != r["load"]:
            adv.append(f"{r['name']}: re-registration order {e['load']} differs from the schema's {r['load']}")
        if _normal(e["steps"]) != _normal(r["steps"]):
            out.append(f"{r['name']}: to_aoef steps {e['steps']} differ from the schema's {r['steps']}")
    return adv if advisory else out


def _normal(steps):
    """steps up to reordering of adjacent snapshots"""
    out, cur = [], []
    for k, a in steps:
        if k == "Snap":
            cur.append(a)
        else:
            out.append(tuple(sorted(cur)))
            out.append(("Conv", a))
            cur = []
    out.append(tuple(sorted(cur)))
    return out


# ------------------------------------------------------------------------------------------------ dispatch and audio_dir
def extract_dispatch(repo_src: Path) -> dict:
    """ADAPTERS table of aoef/__init__.py in source order, and the shape of the two dispatch loops"""
    tree = _src(repo_src, "__init__")
    order = None
    for n in tree.body:
        tgt = None
        if isinstance(n, ast.Assign) and len(n.targets) == 1 and isinstance(n.targets[0], ast.Name):
            tgt, val = n.targets[0].id, n.value
        elif isinstance(n, ast.AnnAssign) and isinstance(n.target, ast.Name):
            tgt, val = n.target.id, n.value
        if tgt == "ADAPTERS":
            if not isinstance(val, (ast.List, ast.Tuple)):
                raise ExtractError("ADAPTERS is not a literal list")
            order = []
            for e in val.elts:
                if not (isinstance(e, ast.Tuple) and len(e.elts) == 3 and isinstance(e.elts[0], ast.Constant)
                        and isinstance(e.elts[1], ast.Attribute) and isinstance(e.elts[2], ast.Name)):
                    raise ExtractError("ADAPTERS entry not of the form (name, data.X, XAdapter)")
                order.append((e.elts[0].value, e.elts[1].attr, e.elts[2].id))
    if order is None:
        raise ExtractError("ADAPTERS not found")

    def loop(fname, want):
        fn = next((n for n in tree.body if isinstance(n, ast.FunctionDef) and n.name == fname), None)
        if fn is None:
            raise ExtractError(f"{fname} not found")
        fors = [s for s in _stmts(fn) if isinstance(s, ast.For)]
        if len(fors) != 1 or not (isinstance(fors[0].iter, ast.Name) and fors[0].iter.id == "ADAPTERS"):
            raise ExtractError(f"{fname}: expected one loop over ADAPTERS")
        body = fors[0].body
        if not (len(body) == 1 and isinstance(body[0], ast.If)):
            raise ExtractError(f"{fname}: loop body is not a single if")
        test = ast.unparse(body[0].test)
        if test != want:
            raise ExtractError(f"{fname}: dispatch test is `{test}`, expected `{want}`")
        # inside: adapter = adapter_cls(audio_dir=audio_dir)
        calls = [n for n in ast.walk(body[0]) if isinstance(n, ast.Call) and isinstance(n.func, ast.Name) and n.func.id == "adapter_cls"]
        if len(calls) != 1 or [(k.arg, ast.unparse(k.value)) for k in calls[0].keywords] != [("audio_dir", "audio_dir")] or calls[0].args:
            raise ExtractError(f"{fname}: the adapter is not built as adapter_cls(audio_dir=audio_dir)")
        return True

    loop("to_aeof", "isinstance(obj, data_cls)")
    loop("to_soundevent", "aoef_object.data.collection_type == adapter_type")
    return {"order": order}


def audio_dir_problems(repo_src: Path) -> list[str]:
    """C18: the directory given to save/load must reach every RecordingAdapter unchanged, and the adapter must use it by
    relative_to on write / `/` on read.  Static, fail-closed reading of the constructors."""
    out = []
    try:
        extract_dispatch(repo_src)
    except ExtractError as e:
        out.append(str(e))
    for mod, cls in [("recording_set", "RecordingSetAdapter"), ("annotation_set", "AnnotationSetAdapter"),
                     ("prediction_set", "PredictionSetAdapter"), ("evaluation", "EvaluationAdapter")]:
        init = _method(_src(repo_src, mod), cls, "__init__")
        if init is None:
            out.append(f"{cls}.__init__ not found")
            continue
        calls = [n for n in ast.walk(init) if isinstance(n, ast.Call) and isinstance(n.func, ast.Name) and n.func.id == "RecordingAdapter"]
        if len(calls) != 1:
            out.append(f"{cls}.__init__: expected one RecordingAdapter(...) construction")
            continue
        c = calls[0]
        passed = [ast.unparse(a) for a in c.args[3:4]] + [ast.unparse(k.value) for k in c.keywords if k.arg == "audio_dir"]
        if passed not in (["audio_dir"], ["self.audio_dir"]):
            out.append(f"{cls}.__init__: RecordingAdapter receives audio_dir={passed}")
        if passed == ["self.audio_dir"]:
            asg = [s for s in ast.walk(init) if isinstance(s, ast.Assign) and ast.unparse(s.targets[0]) == "self.audio_dir"]
            if len(asg) != 1 or ast.unparse(asg[0].value) != "audio_dir":
                out.append(f"{cls}.__init__: self.audio_dir is not the argument as given")
        # nobody reassigns the parameter
        for s in ast.walk(init):
            if isinstance(s, (ast.Assign, ast.AugAssign)):
                tg = s.targets if isinstance(s, ast.Assign) else [s.target]
                if any(isinstance(t, ast.Name) and t.id == "audio_dir" for t in tg):
                    out.append(f"{cls}.__init__: audio_dir is reassigned")
    for mod, cls in [("dataset", "DatasetAdapter"), ("annotation_project", "AnnotationProjectAdapter"),
                     ("evaluation_set", "EvaluationSetAdapter"), ("model_run", "ModelRunAdapter")]:
        init = _method(_src(repo_src, mod), cls, "__init__")
        if init is not None:
            sup = [n for n in ast.walk(init) if isinstance(n, ast.Call) and ast.unparse(n.func) == "super().__init__"]
            if len(sup) != 1 or not any(k.arg is None for k in sup[0].keywords):
                out.append(f"{cls}.__init__ does not forward **kwargs (audio_dir) to its base")
    # the recording adapter itself
    rec = _src(repo_src, "recording")
    w = ast.unparse(_method(rec, "RecordingAdapter", "assemble_aoef"))
    r = ast.unparse(_method(rec, "RecordingAdapter", "assemble_soundevent"))
    init = ast.unparse(_method(rec, "RecordingAdapter", "__init__"))
    if "self.audio_dir = audio_dir" not in init:
        out.append("RecordingAdapter.__init__ does not keep audio_dir as given")
    if "if self.audio_dir is not None:\n        path = Path(obj.path).relative_to(self.audio_dir)" not in w:
        out.append("RecordingAdapter.assemble_aoef: path is not Path(obj.path).relative_to(self.audio_dir) under `is not None`")
    if "if self.audio_dir is not None:\n        path = self.audio_dir / obj.path" not in r:
        out.append("RecordingAdapter.assemble_soundevent: path is not self.audio_dir / obj.path under `is not None`")
    # save / load wrappers pass the directory on
    for mod, fn_name, want in [("__init__", "save", "to_aeof(obj, audio_dir=audio_dir)"), ("__init__", "load", "to_soundevent(aoef_object, audio_dir=audio_dir)")]:
        fn = next((n for n in _src(repo_src, mod).body if isinstance(n, ast.FunctionDef) and n.name == fn_name), None)
        if fn is None or want not in ast.unparse(fn):
            out.append(f"aoef.{fn_name}: `{want}` not found")
    return out
