#!/bin/bash
cd /verif
for p in C01 C02 C03 C04 C05 C06 C07 C08 C09 C10 C11 C12 C13 C14 C15 C16 C17 C18 C19 C20; do
  s=$(date +%s)
  ./check $p --tier thorough > build/thorough_logs/$p.log 2>&1; rc=$?
  e=$(date +%s)
  echo "$p rc=$rc $((e-s))s $(grep -c '^VIOLATION' build/thorough_logs/$p.log) violations; $(tail -1 build/thorough_logs/$p.log | cut -c1-200)"
done
