"""C05 — bounds, geometric features and anchor points agree with the coordinates."""
from __future__ import annotations

from fractions import Fraction

from ..core import Prop, guarded, listlit, optlit, pairlit, qlit
from .. import geomgen as G

POS = {
    "bottom-left": ("VBottom", "HLeft"), "bottom-right": ("VBottom", "HRight"), "top-left": ("VTop", "HLeft"),
    "top-right": ("VTop", "HRight"), "center-left": ("VCenter", "HLeft"), "center-right": ("VCenter", "HRight"),
    "top-center": ("VTop", "HCenter"), "bottom-center": ("VBottom", "HCenter"), "center": ("VCenter", "HCenter"),
}
FN = {"duration": "Duration", "low_freq": "LowFreq", "high_freq": "HighFreq", "bandwidth": "Bandwidth", "num_segments": "NumSegments"}
KIND = {"Point": "KPoint", "LineString": "KLineString", "Polygon": "KPolygon", "MultiPoint": "KMultiPoint",
        "MultiLineString": "KMultiLineString", "MultiPolygon": "KMultiPolygon"}


class C05(Prop):
    ID = "C05"
    IMPORTS = ["Geom.Features"]
    RULE = (
        "valid geometries of all nine types on a dyadic grid incl. polygons/multipolygons with holes, multi-geometries, "
        "zero-extent cases (equal points, zero-width boxes) and coordinates exactly 0 / MAX_FREQUENCY; compared exactly: "
        "compute_bounds, shapely coordinates + geometry kind of geometry_to_shapely, the feature list (term + value), the nine "
        "bounds-based positions; centroid / point_on_surface checked to lie inside the bounds. Non-trivial = geometry with "
        ">= 2 distinct coordinates; distinct by hash"
    )
    TRUSTED = [
        "GEOS envelope (bounds) is re-implemented in Gallina (shell only for polygons) and compared on every case",
        "GEOS centroid / point_on_surface are assumed to be convex combinations of the shape's points (then C05_convex_in_env "
        "applies); checked on every case, not proved",
    ]

    def _case(self, rng, typ):
        g = G.rgeom(rng, typ, holes=True)
        r = rng.random()
        if r < 0.08 and typ == "BoundingBox":
            c = g["coordinates"]
            c[2] = c[0]
        elif r < 0.3 and typ == "BoundingBox":
            # corners given in any order (the constructor normalises them), also when one axis is degenerate
            c = g["coordinates"]
            if rng.random() < 0.5:
                c[0], c[2] = c[2], c[0]
            if rng.random() < 0.5:
                c[1], c[3] = c[3], c[1]
            k = rng.random()
            if k < 0.25:
                c[2] = c[0]
            elif k < 0.5:
                c[3] = c[1]
        elif r < 0.2 and typ in ("Polygon", "MultiPolygon"):
            # bounds are about coordinates, not topology: self-crossing outlines (bowtie / hourglass) count too
            a, f = Fraction(rng.randint(0, 8)), Fraction(rng.randint(0, 40))
            w, h = Fraction(rng.randint(1, 6)), Fraction(rng.randint(1, 20))
            ring = [[a, f], [a + w, f + h], [a + w, f], [a, f + h], [a, f]]
            g["coordinates"] = [ring] if typ == "Polygon" else [[ring]]
        elif r < 0.08 and typ == "TimeInterval":
            g["coordinates"][1] = g["coordinates"][0]
        elif r < 0.08 and typ in ("LineString", "MultiPoint"):
            g["coordinates"] = [list(g["coordinates"][0]) for _ in g["coordinates"]]
        return {"kind": typ, "g": g}

    def cases(self, rng, tier):
        n = {"quick": 200, "thorough": 3300}[tier]
        out = []
        for typ in G.TYPES:
            out += [self._case(rng, typ) for _ in range(n)]
        return out

    def run(self, c):
        import shapely
        from soundevent import geometry as sg
        from soundevent.geometry import compute_bounds, compute_geometric_features, geometry_to_shapely, get_geometry_point

        r = guarded(G.build, c["g"])
        if r[0] != "ok":
            return {"res": ["err", r[1]], "msg": r[2]}
        g = r[1]
        out = {"res": ["ok"], "norm": G.from_impl(g)}
        b = guarded(compute_bounds, g)
        out["bounds"] = ["ok", [Fraction(float(x)) for x in b[1]]] if b[0] == "ok" else ["err", b[1]]
        s = guarded(geometry_to_shapely, g)
        if s[0] == "ok":
            coords = shapely.get_coordinates(s[1])
            out["shp"] = ["ok", s[1].geom_type, [[Fraction(float(x)), Fraction(float(y))] for x, y in coords]]
        else:
            out["shp"] = ["err", s[1]]
        f = guarded(compute_geometric_features, g)
        if f[0] == "ok":
            from soundevent import terms as T

            names = {T.duration.name: "duration", T.low_freq.name: "low_freq", T.high_freq.name: "high_freq",
                     T.bandwidth.name: "bandwidth", T.num_segments.name: "num_segments"}
            out["features"] = ["ok", [[names.get(x.term.name, x.term.name), x.term.name, Fraction(float(x.value))] for x in f[1]]]
        else:
            out["features"] = ["err", f[1]]
        pts = {}
        for name in list(POS) + ["centroid", "point_on_surface"]:
            p = guarded(get_geometry_point, g, name)
            if p[0] == "ok" and all(x == x for x in p[1]):
                pts[name] = ["ok", [Fraction(float(p[1][0])), Fraction(float(p[1][1]))]]
            else:
                pts[name] = ["err", p[1] if p[0] != "ok" else "nan"]
        out["points"] = pts
        out["bad_position"] = guarded(get_geometry_point, g, "middle")[:2]
        return out

    def agree(self, c, o):
        if o["res"][0] != "ok":
            return "false"
        g = G.coq_geom(o["norm"])
        parts = []
        if o["bounds"][0] == "ok":
            b = o["bounds"][1]
            parts.append(f"obounds_eqb (compute_bounds {g}) (Some ({qlit(b[0])}, {qlit(b[1])}, {qlit(b[2])}, {qlit(b[3])}))")
        else:
            parts.append("false")
        if o["shp"][0] == "ok" and o["shp"][1] in KIND:
            coords = listlit(o["shp"][2], lambda p: pairlit(qlit(p[0]), qlit(p[1])))
            parts.append(f"skind_eqb (shp_kind (to_shapely {g})) {KIND[o['shp'][1]]}")
            n = o["norm"]
            degenerate = (n["type"] == "TimeInterval" and n["coordinates"][0] == n["coordinates"][1]) or (
                n["type"] == "BoundingBox" and n["coordinates"][0] == n["coordinates"][2]
            )
            cmpf = "pts_same_set" if degenerate else "pts_eqb"
            parts.append(f"{cmpf} (shp_coords (to_shapely {g})) {coords}")
        else:
            parts.append("false")
        if o["features"][0] == "ok" and all(x[0] in FN for x in o["features"][1]):
            fs = listlit(o["features"][1], lambda x: f"({FN[x[0]]}, {qlit(x[2])})")
            parts.append(f"ofeats_eqb (features {g}) (Some {fs})")
        else:
            parts.append("false")
        for name, (v, h) in POS.items():
            p = o["points"][name]
            if p[0] != "ok":
                parts.append("false")
            else:
                parts.append(f"opt_pt_eqb (geometry_point {g} {v} {h}) (Some ({qlit(p[1][0])}, {qlit(p[1][1])}))")
        return " && ".join(parts)

    def show(self, c):
        return f"(compute_bounds {G.coq_geom(G.from_impl(G.build(c['g'])))})"

    def oracle(self, c, o):
        fails = []

        def fail(kind, what, **a):
            fails.append({"kind": kind, "what": what, "attrs": dict(a, type=c["kind"])})

        if o["res"][0] != "ok":
            return fails  # generator produced something the validators reject: not this property's business
        want = G.bounds_exact(o["norm"])
        if o["bounds"][0] != "ok":
            fail("bounds-raised", f"compute_bounds raised {o['bounds']}")
            return fails
        b = o["bounds"][1]
        if tuple(b) != tuple(want):
            fail("bounds", f"compute_bounds = {[float(x) for x in b]} but min/max over coordinates = {[float(x) for x in want]}")
        s, lo, e, hi = want
        # features
        if o["features"][0] != "ok":
            fail("features-raised", f"compute_geometric_features raised {o['features']}")
        else:
            fs = o["features"][1]
            names = [x[0] for x in fs]
            if len(set(names)) != len(names):
                fail("features-duplicate", f"duplicate feature terms {names}")
            exp = {"duration": e - s, "low_freq": lo, "high_freq": hi, "bandwidth": hi - lo}
            for short, full, v in fs:
                if short in exp and v != exp[short]:
                    fail("feature-value", f"feature {short} = {float(v)} but bounds give {float(exp[short])}", feature=short)
                if short == "num_segments":
                    parts = len(o["norm"]["coordinates"])
                    if c["kind"] not in ("MultiPoint", "MultiLineString", "MultiPolygon") or v != parts:
                        fail("feature-value", f"num_segments = {float(v)} for {c['kind']} with {parts} parts", feature=short)
            if "duration" not in names:
                fail("feature-missing", "duration not reported")
            if c["kind"] not in ("TimeStamp", "TimeInterval") and not {"low_freq", "high_freq", "bandwidth"} <= set(names):
                fail("feature-missing", f"frequency features missing for {c['kind']}: {names}")
            if c["kind"] in ("MultiPoint", "MultiLineString", "MultiPolygon") and "num_segments" not in names:
                fail("feature-missing", "num_segments not reported for a multi-geometry")
        # positions
        mid_t, mid_f = (s + e) / 2, (lo + hi) / 2
        exp = {
            "bottom-left": (s, lo), "bottom-right": (e, lo), "top-left": (s, hi), "top-right": (e, hi),
            "center-left": (s, mid_f), "center-right": (e, mid_f), "top-center": (mid_t, hi), "bottom-center": (mid_t, lo),
            "center": (mid_t, mid_f),
        }
        for name, wantp in exp.items():
            p = o["points"][name]
            if p[0] != "ok" or tuple(p[1]) != wantp:
                fail("position", f"get_geometry_point({name}) = {p} expected {tuple(map(float, wantp))}", position=name)
        tol = Fraction(1, 10**9)
        for name in ("centroid", "point_on_surface"):
            p = o["points"][name]
            if p[0] != "ok":
                fail("position", f"get_geometry_point({name}) failed: {p}", position=name)
                continue
            x, y = p[1]
            if not (s - tol * max(1, abs(s)) <= x <= e + tol * max(1, abs(e)) and lo - tol * max(1, abs(lo)) <= y <= hi + tol * max(1, abs(hi))):
                fail("position-outside-bounds", f"{name} ({float(x)}, {float(y)}) lies outside the bounds", position=name)
        if o["bad_position"] != ["err", "EValue"] and tuple(o["bad_position"]) != ("err", "EValue"):
            fail("bad-position-accepted", f"invalid position name gave {o['bad_position']}")
        # shapely conversion keeps every coordinate
        if o["shp"][0] == "ok":
            got = {tuple(p) for p in o["shp"][2]}
            t, cc = o["norm"]["type"], o["norm"]["coordinates"]
            MAXF = Fraction(G.MAXF)
            if t == "TimeStamp":
                wantc = {(cc, Fraction(0)), (cc, MAXF)}
            elif t == "TimeInterval":
                wantc = {(cc[0], Fraction(0)), (cc[0], MAXF), (cc[1], Fraction(0)), (cc[1], MAXF)}
            elif t == "BoundingBox":
                wantc = {(cc[0], cc[1]), (cc[0], cc[3]), (cc[2], cc[1]), (cc[2], cc[3])}
            else:
                def flat(x):
                    if isinstance(x[0], list):
                        for y in x:
                            yield from flat(y)
                    else:
                        yield tuple(x)
                wantc = set(flat(cc)) if t != "Point" else {tuple(cc)}
            if got != wantc:
                fail("shapely-coords", f"geometry_to_shapely coordinates differ from the geometry's ({len(got)} vs {len(wantc)} distinct)")
            wk = {"TimeStamp": "LineString", "TimeInterval": "Polygon", "BoundingBox": "Polygon"}.get(t, t)
            if o["shp"][1] != wk:
                fail("shapely-kind", f"geometry_to_shapely gave {o['shp'][1]} for {t}")
        else:
            fail("shapely-raised", f"geometry_to_shapely raised {o['shp']}")
        return fails

    def nontrivial(self, c, o):
        if o["res"][0] != "ok" or o["shp"][0] != "ok":
            return False
        return len({tuple(p) for p in o["shp"][2]}) >= 2

    def tags(self, c, o):
        t = [c["kind"]]
        if o["res"][0] == "ok" and o["bounds"][0] == "ok":
            b = o["bounds"][1]
            if b[0] == b[2]:
                t.append("zero-duration")
            if b[1] == b[3]:
                t.append("zero-bandwidth")
            if c["kind"] in ("Polygon",) and len(o["norm"]["coordinates"]) > 1:
                t.append("polygon-with-holes")
            if c["kind"] == "MultiPolygon" and any(len(p) > 1 for p in o["norm"]["coordinates"]):
                t.append("multipolygon-with-holes")
        return t


PROP = C05
