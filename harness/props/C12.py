"""C12 — overlap predicates agree with exact interval arithmetic."""
from __future__ import annotations

import random
from fractions import Fraction

from ..core import F, Prop, blit, guarded, optlit, qlit
from .. import geomgen as G


def _res_bool(obs) -> str:
    if obs[0] == "ok":
        return f"(Ok {blit(obs[1])})"
    return f"(Err {obs[1]})"


class C12(Prop):
    ID = "C12"
    IMPORTS = ["Geom.Ops"]
    PRELUDE = "Definition rb := res_eqb Bool.eqb."
    RULE = (
        "interval pairs on a dyadic grid (nested/touching/disjoint/equal/degenerate, thresholds hitting the "
        "intersection length exactly), geometry pairs of all 81 type combinations, clip/geometry placements at, "
        "inside and outside both clip edges; non-trivial = the case is not an error case and intervals are not "
        "identical copies; distinct by canonical hash of the input"
    )
    TRUSTED = ["shapely envelope (bounds) of the converted geometry is re-implemented in Gallina (Geometry.v) and compared"]

    # ------------------------------------------------------------------ generation
    def _interval_case(self, rng):
        g = lambda: Fraction(rng.randint(-16, 48), 4)
        s1, e1, s2, e2 = g(), g(), g(), g()
        shape = rng.random()
        if shape < 0.7:
            s1, e1 = sorted([s1, e1])
            s2, e2 = sorted([s2, e2])
        if shape < 0.15:
            s2 = e1  # touching
            e2 = max(e2, s2)
        elif shape < 0.25:
            s2, e2 = s1, e1
        elif shape < 0.32:
            e1 = s1  # degenerate
        inter = min(e1, e2) - max(s1, s2)
        mode = rng.choice(["none", "abs", "rel", "both", "abs", "rel"])
        a = r = None
        if mode in ("abs", "both"):
            a = rng.choice([inter, inter + Fraction(1, 4), inter - Fraction(1, 4), Fraction(0), Fraction(rng.randint(-4, 12), 4)])
        if mode in ("rel", "both"):
            mw = min(e1 - s1, e2 - s2)
            opts = [Fraction(0), Fraction(1), Fraction(1, 2), Fraction(1, 4), Fraction(3, 4), Fraction(-1, 4), Fraction(5, 4), Fraction(1, 8)]
            if mw > 0 and 0 <= inter / mw <= 1:
                q = inter / mw
                if q.denominator & (q.denominator - 1) == 0:
                    opts += [q, q]
            r = rng.choice(opts)
        return {"kind": "interval", "i1": [s1, e1], "i2": [s2, e2], "a": a, "r": r}

    def _geom_case(self, rng, t1=None, t2=None):
        g1, g2 = G.rgeom(rng, t1), G.rgeom(rng, t2)
        for g in (g1, g2):
            if g["type"] in ("Polygon", "MultiPolygon") and rng.random() < 0.4:
                # extents are about coordinates, not topology: a self-crossing outline (bowtie) has the extent of its vertices
                a, f = Fraction(rng.randint(0, 12)), Fraction(rng.randint(0, 40))
                w, h = Fraction(rng.randint(1, 6)), Fraction(rng.randint(1, 20))
                ring = [[a, f], [a + w, f + h], [a + w, f], [a, f + h], [a, f]]
                g["coordinates"] = [ring] if g["type"] == "Polygon" else [[ring]]
        bow = [g for g in (g1, g2) if g["type"] in ("Polygon", "MultiPolygon") and len((g["coordinates"][0] if g["type"] == "Polygon" else g["coordinates"][0][0])) == 5
               and (g["coordinates"][0] if g["type"] == "Polygon" else g["coordinates"][0][0])[1][0] == (g["coordinates"][0] if g["type"] == "Polygon" else g["coordinates"][0][0])[2][0]]
        if bow and rng.random() < 0.6:
            # the partner sits in one half of the bowtie's extent only: an extent read off a "repaired" outline would miss it
            b = bow[0]
            ring = b["coordinates"][0] if b["type"] == "Polygon" else b["coordinates"][0][0]
            a0, w0 = ring[0][0], ring[1][0] - ring[0][0]
            f0, h0 = ring[0][1], ring[1][1] - ring[0][1]
            half = rng.choice([0, 1])
            other = {"type": "BoundingBox", "coordinates": [a0 + half * w0 * Fraction(3, 4), f0 + half * h0 * Fraction(3, 4),
                                                           a0 + w0 * Fraction(1, 4) + half * w0 * Fraction(3, 4), f0 + h0 * Fraction(1, 4) + half * h0 * Fraction(3, 4)]}
            if b is g1:
                g2 = other
            else:
                g1 = other
        which = rng.choice(["temporal", "frequency"])
        mode = rng.choice(["none", "abs", "rel", "none", "both"])
        a = r = None
        if mode in ("abs", "both"):
            a = Fraction(rng.randint(0, 16), 4)
        if mode in ("rel", "both"):
            r = rng.choice([Fraction(0), Fraction(1, 2), Fraction(1), Fraction(1, 4), Fraction(9, 8), Fraction(-1, 8)])
        return {"kind": which, "g1": g1, "g2": g2, "a": a, "r": r}

    def _clip_case(self, rng):
        g = G.rgeom(rng)
        if g["type"] in ("Polygon", "MultiPolygon") and rng.random() < 0.4:
            a, f = Fraction(rng.randint(0, 12)), Fraction(rng.randint(0, 40))
            w, h = Fraction(rng.randint(1, 6)), Fraction(rng.randint(1, 20))
            ring = [[a, f], [a + w, f + h], [a + w, f], [a, f + h], [a, f]]
            g["coordinates"] = [ring] if g["type"] == "Polygon" else [[ring]]
        s, _, e, _ = G.bounds_exact(g)
        cs = rng.choice([s, e, Fraction(rng.randint(0, 64), 4), s - Fraction(1, 4), e - Fraction(1, 4)])
        cs = max(cs, Fraction(0))
        ce = rng.choice([s, e, cs + Fraction(rng.randint(0, 32), 4), e + Fraction(1, 4), s + Fraction(1, 4)])
        ce = max(ce, cs)
        m = rng.choice([Fraction(0)] * 4 + [Fraction(1, 4), Fraction(1, 2), Fraction(2), Fraction(-1, 4), e - cs, ce - s])
        return {"kind": "clip", "g": g, "cs": cs, "ce": ce, "m": m}

    def cases(self, rng, tier):
        n = {"quick": 1, "thorough": 20}[tier]
        out = []
        out += [self._interval_case(rng) for _ in range(1200 * n)]
        for t1 in G.TYPES:
            for t2 in G.TYPES:
                out += [self._geom_case(rng, t1, t2) for _ in range(10 * n)]
        out += [self._clip_case(rng) for _ in range(900 * n)]
        return out

    # ------------------------------------------------------------------ implementation
    def run(self, c):
        from soundevent import data
        from soundevent.geometry import operations as ops

        fl = lambda x: None if x is None else float(x)
        k = c["kind"]
        if k == "interval":
            r = guarded(
                ops.intervals_overlap,
                tuple(map(float, c["i1"])),
                tuple(map(float, c["i2"])),
                min_absolute_overlap=fl(c["a"]),
                min_relative_overlap=fl(c["r"]),
            )
        elif k in ("temporal", "frequency"):
            fn = ops.have_temporal_overlap if k == "temporal" else ops.have_frequency_overlap
            g1, g2 = G.build(c["g1"]), G.build(c["g2"])
            r = guarded(fn, g1, g2, min_absolute_overlap=fl(c["a"]), min_relative_overlap=fl(c["r"]))
        else:
            g = G.build(c["g"])
            rec = data.Recording(path="a.wav", duration=100, channels=1, samplerate=8000)
            clip = data.Clip(recording=rec, start_time=float(c["cs"]), end_time=float(c["ce"]))
            r = guarded(ops.is_in_clip, g, clip, float(c["m"]))
        if r[0] == "ok":
            return {"res": ["ok", bool(r[1])], "pytype": type(r[1]).__name__}
        return {"res": ["err", r[1]], "msg": r[2]}

    # ------------------------------------------------------------------ model side
    def _model(self, c):
        k = c["kind"]
        oq = lambda x: optlit(x, qlit)
        if k == "interval":
            (s1, e1), (s2, e2) = c["i1"], c["i2"]
            return f"(intervals_overlap {qlit(s1)} {qlit(e1)} {qlit(s2)} {qlit(e2)} {oq(c['a'])} {oq(c['r'])})"
        if k in ("temporal", "frequency"):
            fn = "have_temporal_overlap" if k == "temporal" else "have_frequency_overlap"
            return f"({fn} {G.coq_geom(self._norm(c['g1']))} {G.coq_geom(self._norm(c['g2']))} {oq(c['a'])} {oq(c['r'])})"
        return f"(is_in_clip {G.coq_geom(self._norm(c['g']))} {qlit(c['cs'])} {qlit(c['ce'])} {qlit(c['m'])})"

    @staticmethod
    def _norm(g):
        # the model takes the geometry as stored by the data class (validators may reorder)
        return G.from_impl(G.build(g))

    def agree(self, c, o):
        return f"rb {self._model(c)} {_res_bool(o['res'])}"

    def show(self, c):
        return self._model(c)

    # ------------------------------------------------------------------ oracle (property read on the implementation)
    def oracle(self, c, o):
        k = c["kind"]
        res = o["res"]
        fails = []

        def expect(want, what):
            if list(want) != list(res):
                fails.append({"kind": what, "what": f"{what}: expected {want}, implementation gave {res}", "attrs": {"case_kind": k}})

        def interval_spec(s1, e1, s2, e2, a, r):
            if a is not None and r is not None:
                return ("err", "EValue")
            if r is not None and (r < 0 or r > 1):
                return ("err", "EValue")
            inter = min(e1, e2) - max(s1, s2)
            th = Fraction(0)
            if a is not None:
                th = a
            if r is not None:
                th = r * min(e1 - s1, e2 - s2)
            return ("ok", inter >= th)

        if k == "interval":
            (s1, e1), (s2, e2) = c["i1"], c["i2"]
            expect(interval_spec(s1, e1, s2, e2, c["a"], c["r"]), "interval-predicate")
        elif k in ("temporal", "frequency"):
            b1, b2 = G.bounds_exact(self._norm(c["g1"])), G.bounds_exact(self._norm(c["g2"]))
            if k == "temporal":
                expect(interval_spec(b1[0], b1[2], b2[0], b2[2], c["a"], c["r"]), "temporal-overlap")
            else:
                expect(interval_spec(b1[1], b1[3], b2[1], b2[3], c["a"], c["r"]), "frequency-overlap")
        else:
            if c["m"] < 0:
                expect(("err", "EValue"), "in-clip-negative")
            else:
                s, _, e, _ = G.bounds_exact(self._norm(c["g"]))
                expect(("ok", e > c["cs"] + c["m"] and s < c["ce"] - c["m"]), "in-clip")
        return fails

    def nontrivial(self, c, o):
        if o["res"][0] != "ok":
            return False
        if c["kind"] == "interval":
            return c["i1"] != c["i2"]
        return True

    def tags(self, c, o):
        t = [c["kind"], f"{c['kind']}:{o['res'][0]}:{o['res'][1]}"]
        if c["kind"] == "interval":
            (s1, e1), (s2, e2) = c["i1"], c["i2"]
            inter = min(e1, e2) - max(s1, s2)
            t.append("interval:touching" if inter == 0 else ("interval:disjoint" if inter < 0 else "interval:overlapping"))
            th = c["a"] if c["a"] is not None else (c["r"] * min(e1 - s1, e2 - s2) if c["r"] is not None else 0)
            if c["a"] is None or c["r"] is None:
                if inter == th:
                    t.append("interval:threshold-exactly-met")
        return t


PROP = C12
