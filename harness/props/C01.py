"""C01 — AOEF save/load round trip is lossless for every collection type."""
from __future__ import annotations

from .. import aoef as A
from .aoef_common import AoefProp


class C01(AoefProp):
    ID = "C01"
    RULE = (
        "random object graphs for each of the 8 collection types (30 per type quick, 300 thorough; sizes 0.4-4x): every optional "
        "field present/absent (incl. Recording.license, rights, hash, date, time, lat/lon, time_expansion 1 / != 1), empty and "
        "non-empty lists, shared sub-objects, sequence parents to depth 3, all nine geometry types (polygons with holes), status "
        "badges, matches one-sided and two-sided, simple-label terms (80 %) and rich terms (20 %, compared modulo the permitted "
        "reduction), with and without audio dir, n = 1 (quick) / 1..3 (thorough) consecutive cycles. Compared inside Coq: the real "
        "document with save_root (all tables, scalars included, order inside each table) and the really loaded object with "
        "load_root applied to the real document. Oracle: field-by-field equality over the introspected declared fields, same "
        "type, document fixpoint from the second cycle on. Non-trivial = >= 8 nodes; distinct by hash"
    )
    TRUSTED = [
        "harness/aoef.py schema table (our reading of the adapters; Aoef/Schema.v is generated from it) — validated by the "
        "document and loaded-object comparisons, and by a fail-closed inventory of the declared fields of every data class and "
        "every AOEF object class",
        "scalars are interned tokens: JSON text <-> value codecs (float repr, ISO timestamps, geometry JSON, 1.0 <-> absent "
        "time expansion, feature list <-> dict) are pydantic / json behaviour, observed by the oracle, not modelled",
        "inline objects (notes, badges, predicted tags) are modelled as pseudo-tables loaded after users and tags",
        "collections that list the same object twice in their own top-level list are outside the quantifier (C02 demands unique ids there)",
    ]

    def agree(self, case, o):
        if self.inv:
            return "false"
        c0 = o["cycles"][0] if o["cycles"] else {}
        if c0.get("save") != "ok" or c0.get("load") != "ok" or o.x.get("loaded") is None:
            return "false"
        return (f"({self.save_agrees(case, o)}) && onode_eqb (load_root current {self.root_name(case)} {self.doc_expr(o)}) "
                f"(Some {A.node_lit(o.x['loaded'])})")

    def oracle(self, case, o):
        fails = []  # an inventory difference breaks the correspondence (agree = false); it is not by itself a failing input
        root = case["root"]
        for n, c in enumerate(o["cycles"], 1):
            if c.get("save") != "ok":
                fails.append({"kind": "save-failed", "what": f"save raised {c.get('save')} in cycle {n}", "attrs": {"root": root}})
                break
            if c.get("load") != "ok":
                fails.append({"kind": "load-failed", "what": f"load raised {c.get('load')} in cycle {n}", "attrs": {"root": root}})
                break
            if c["type"] != root:
                fails.append({"kind": "wrong-type", "what": f"{root} came back as {c['type']}", "attrs": {"root": root}})
            if c["equal"]:
                import re

                field = re.sub(r"\[\d+\]", "[]", c["equal"][0].split(":")[0]).split(".")[-1]
                fails.append({"kind": "field-lost", "what": f"cycle {n}: {'; '.join(c['equal'][:3])}", "attrs": {"root": root, "field": field, "cycle": n}})
            if c.get("doc_fixpoint") is False:
                fails.append({"kind": "not-a-fixpoint", "what": f"document of cycle {n} differs from the first", "attrs": {"root": root}})
        return fails


PROP = C01
