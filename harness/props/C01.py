"""C01 — AOEF save/load round trip is lossless for every collection type."""
from __future__ import annotations

import json

from .. import aoef as A
from .aoef_common import AoefProp, Obs, guarded

CODEC_LABELS = ["snr", "f0", "dur ms", "énergie", "q"]
CODEC_VALUES = [0.0, 1.0, 0.5, 0.1, -3.25, 1e-3, 12345.678]
CODEC_TE = [1.0, 1.0, 10.0, 0.5, 2.0, 1.0000001]


class C01(AoefProp):
    ID = "C01"
    RULE = (
        "random object graphs for each of the 8 collection types (30 per type quick, 300 thorough; sizes 0.4-4x): every optional "
        "field present/absent (incl. Recording.license, rights, hash, date, time, lat/lon, time_expansion 1 / != 1), empty and "
        "non-empty lists, shared sub-objects, sequence parents to depth 3, all nine geometry types (polygons with holes), status "
        "badges, matches one-sided and two-sided, simple-label terms (80 %) and rich terms (20 %, compared modulo the permitted "
        "reduction), with and without audio dir, n = 1 (quick) / 1..3 (thorough) consecutive cycles. Compared inside Coq: the real "
        "document with save_root (all tables, scalars included, order inside each table) and the really loaded object with "
        "load_root applied to the real document. Oracle: field-by-field equality over the introspected declared fields, same "
        "type, document fixpoint from the second cycle on. Non-trivial = >= 8 nodes; distinct by hash"
    )
    TRUSTED = [
        "harness/aoef.py schema table (our reading of the adapters; Aoef/Schema.v is generated from it) — validated by the "
        "document and loaded-object comparisons, and by a fail-closed inventory of the declared fields of every data class and "
        "every AOEF object class",
        "scalars are interned tokens: JSON text <-> value codecs (float repr, ISO timestamps, geometry JSON, 1.0 <-> absent "
        "time expansion, feature list <-> dict) are pydantic / json behaviour, observed by the oracle, not modelled",
        "inline objects (notes, badges, predicted tags) are modelled as pseudo-tables loaded after users and tags",
        "collections that list the same object twice in their own top-level list are outside the quantifier (C02 demands unique ids there)",
    ]

    IMPORTS = AoefProp.IMPORTS + ["Aoef.Codecs"]

    # ------------------------------------------------------------------ codec stream (features dict, time expansion)
    def cases(self, rng, tier):
        out = super().cases(rng, tier)
        for _ in range(60 if tier == "quick" else 1200):
            k = rng.randint(0, 5)
            dup = rng.random() < 0.4
            labs = [rng.choice(CODEC_LABELS) for _ in range(k)] if dup else rng.sample(CODEC_LABELS, k)
            out.append({"kind": "codec", "root": "RecordingSet", "features": [[CODEC_LABELS.index(l), rng.randrange(len(CODEC_VALUES))] for l in labs],
                        "te": rng.randrange(len(CODEC_TE)), "where": rng.choice(["recording", "clip", "sound_event"])})
        return out

    def run(self, case):
        if case.get("kind") != "codec":
            return super().run(case)
        from soundevent import data, io

        feats = [data.Feature(term=data.term_from_key(CODEC_LABELS[l]), value=CODEC_VALUES[v]) for l, v in case["features"]]
        te = CODEC_TE[case["te"]]
        rec = data.Recording(path="/a/b.wav", duration=10, channels=1, samplerate=8000, time_expansion=te,
                             features=feats if case["where"] == "recording" else [])
        if case["where"] == "recording":
            obj = data.RecordingSet(recordings=[rec])
            pick = lambda o: o.recordings[0]
        else:
            clip = data.Clip(recording=rec, start_time=0, end_time=1, features=feats if case["where"] == "clip" else [])
            se = data.SoundEvent(recording=rec, geometry=data.TimeStamp(coordinates=1), features=feats if case["where"] == "sound_event" else [])
            ca = data.ClipAnnotation(clip=clip, sound_events=[data.SoundEventAnnotation(sound_event=se)])
            obj = data.AnnotationSet(clip_annotations=[ca])
            pick = (lambda o: o.clip_annotations[0].clip) if case["where"] == "clip" else (lambda o: o.clip_annotations[0].sound_events[0].sound_event)
        self._n += 1
        p = self.dir / f"k{self._n}.json"
        o = Obs()
        st, _ = guarded(io.save, obj, p)
        o["save"] = st
        if st == "ok":
            st2, back = guarded(io.load, p)
            o["load"] = st2
            if st2 == "ok":
                tgt = pick(back)
                o["features"] = [[CODEC_LABELS.index(f.term.label) if f.term.label in CODEC_LABELS else -1,
                                  CODEC_VALUES.index(f.value) if f.value in CODEC_VALUES else -1] for f in tgt.features]
                rte = (back.recordings[0] if case["where"] == "recording" else back.clip_annotations[0].clip.recording).time_expansion
                o["te"] = CODEC_TE.index(rte) if rte in CODEC_TE else -1
                o["terms_ok"] = all(f.term == data.term_from_key(f.term.label) for f in tgt.features)
        p.unlink(missing_ok=True)
        o["nodes"] = 0
        o["cycles"] = []
        return o

    def _agree_codec(self, c, o):
        if o.get("save") != "ok" or o.get("load") != "ok":
            return "false"
        fl = lambda l: "[" + "; ".join(f"({a}, {b})" for a, b in l) + "]"
        one = CODEC_TE.index(1.0)
        return (f"list_eqb (fun a b => Z.eqb (fst a) (fst b) && Z.eqb (snd a) (snd b)) (feat_cycle {fl(c['features'])}) {fl(o['features'])} "
                f"&& Z.eqb (te_dec {one} (te_enc {one} {CODEC_TE.index(CODEC_TE[c['te']])})) {o['te']}")

    def _oracle_codec(self, c, o):
        fails = []
        if o.get("save") != "ok" or o.get("load") != "ok":
            return [{"kind": "save-failed", "what": f"codec case: save {o.get('save')} load {o.get('load')}", "attrs": {"root": c["where"]}}]
        labs = [l for l, _ in c["features"]]
        if len(set(labs)) == len(labs) and o["features"] != c["features"]:  # the quantifier's side condition
            fails.append({"kind": "field-lost", "what": f"features of a {c['where']} {c['features']} came back as {o['features']}", "attrs": {"root": c["where"], "field": "features"}})
        if CODEC_TE[c["te"]] != (CODEC_TE[o["te"]] if o["te"] >= 0 else None):
            fails.append({"kind": "field-lost", "what": f"time_expansion {CODEC_TE[c['te']]} came back as index {o['te']}", "attrs": {"root": c["where"], "field": "time_expansion"}})
        if not o.get("terms_ok", True):
            fails.append({"kind": "field-lost", "what": "a simple-label term came back as another term", "attrs": {"root": c["where"], "field": "term"}})
        return fails

    def nontrivial(self, c, o):
        return len(c["features"]) >= 2 if c.get("kind") == "codec" else super().nontrivial(c, o)

    def tags(self, c, o):
        if c.get("kind") == "codec":
            labs = [l for l, _ in c["features"]]
            return ["codec:" + c["where"], "codec-labels:" + ("distinct" if len(set(labs)) == len(labs) else "repeated"), f"codec-n:{len(labs)}"]
        return super().tags(c, o)

    def agree(self, case, o):
        if case.get("kind") == "codec":
            return self._agree_codec(case, o)
        if self.inv:
            return "false"
        c0 = o["cycles"][0] if o["cycles"] else {}
        if c0.get("save") != "ok" or c0.get("load") != "ok" or o.x.get("loaded") is None:
            return "false"
        return (f"({self.save_agrees(case, o)}) && onode_eqb (load_root current {self.root_name(case)} {self.doc_expr(o)}) "
                f"(Some {A.node_lit(o.x['loaded'])})")

    def oracle(self, case, o):
        if case.get("kind") == "codec":
            return self._oracle_codec(case, o)
        fails = []  # an inventory difference breaks the correspondence (agree = false); it is not by itself a failing input
        root = case["root"]
        for n, c in enumerate(o["cycles"], 1):
            if c.get("save") != "ok":
                fails.append({"kind": "save-failed", "what": f"save raised {c.get('save')} in cycle {n}", "attrs": {"root": root}})
                break
            if c.get("load") != "ok":
                fails.append({"kind": "load-failed", "what": f"load raised {c.get('load')} in cycle {n}", "attrs": {"root": root}})
                break
            if c["type"] != root:
                fails.append({"kind": "wrong-type", "what": f"{root} came back as {c['type']}", "attrs": {"root": root}})
            if c["equal"]:
                import re

                field = re.sub(r"\[\d+\]", "[]", c["equal"][0].split(":")[0]).split(".")[-1]
                fails.append({"kind": "field-lost", "what": f"cycle {n}: {'; '.join(c['equal'][:3])}", "attrs": {"root": root, "field": field, "cycle": n}})
            if c.get("doc_fixpoint") is False:
                fails.append({"kind": "not-a-fixpoint", "what": f"document of cycle {n} differs from the first", "attrs": {"root": root}})
        return fails


PROP = C01
