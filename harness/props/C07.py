"""C07 — matching is an optimal one-to-one assignment that covers every geometry once."""
from __future__ import annotations

from fractions import Fraction

from ..core import Prop, guarded, listlit, natlit, optlit, pairlit, qlit
from .. import geomgen as G

TOL = Fraction(1, 10**9)


def _entry(e):
    return f"({optlit(e[0], natlit)}, {optlit(e[1], natlit)}, {qlit(e[2])})"


class C07(Prop):
    ID = "C07"
    IMPORTS = ["Eval.Match"]
    RULE = (
        "source/target geometry lists of every length pair 0..6 x 0..6, all nine types, clustered placements so that "
        "overlaps, ties (identical geometries) and fully disjoint sets occur; M = real compute_affinity of every pair; "
        "obligation: checker M output = true (proved sound); secondary: recorded solver answer post-processed by the "
        "model equals the output. Non-trivial = n,m >= 1 and at least one positive affinity; distinct by input hash"
    )
    TRUSTED = [
        "scipy.optimize.linear_sum_assignment optimality is NOT trusted: every recorded output is checked against the "
        "brute-force optimum by the proved-sound checker (sizes <= 6x6); for larger sizes the contract lsa_spec is assumed",
        "M is obtained by calling the real compute_affinity on every pair (C06 covers what that value means)",
    ]

    def _case(self, rng, n, m):
        mode = rng.choice(["cluster", "cluster", "spread", "ties", "disjoint"])
        tb = rng.choice([Fraction(1, 100), Fraction(1, 64), Fraction(1, 4), Fraction(1)])
        fb = rng.choice([Fraction(100), Fraction(16), Fraction(1), Fraction(4)])
        if mode == "cluster":
            src = [G.rgeom(rng, tmax=6, fmax=24) for _ in range(n)]
            tgt = [G.rgeom(rng, tmax=6, fmax=24) for _ in range(m)]
        elif mode == "spread":
            src = [G.rgeom(rng, tmax=16, fmax=64) for _ in range(n)]
            tgt = [G.rgeom(rng, tmax=16, fmax=64) for _ in range(m)]
        elif mode == "ties":
            pool = [G.rgeom(rng, tmax=6, fmax=24) for _ in range(max(1, min(n, m, 2)))]
            src = [rng.choice(pool) for _ in range(n)]
            tgt = [rng.choice(pool) for _ in range(m)]
        else:
            src = [G.rgeom(rng, rng.choice(["BoundingBox", "TimeInterval", "Polygon"]), tmax=4, fmax=24) for _ in range(n)]
            tgt = []
            for _ in range(m):
                a = Fraction(rng.randint(40, 60), 4)
                tgt.append({"type": "BoundingBox", "coordinates": [a, Fraction(1), a + Fraction(1, 2), Fraction(9)]})
        return {"kind": mode, "src": src, "tgt": tgt, "tb": tb, "fb": fb, "defaults": rng.random() < 0.3}

    def cases(self, rng, tier):
        reps = {"quick": 12, "thorough": 240}[tier]
        out = []
        for n in range(7):
            for m in range(7):
                for _ in range(reps):
                    out.append(self._case(rng, n, m))
        return out

    def search_cases(self, rng, n):
        return [self._case(rng, rng.randint(0, 4), rng.randint(0, 4)) for _ in range(n)]

    def run(self, c):
        import soundevent.evaluation.match as match_mod
        from soundevent.evaluation import compute_affinity, match_geometries

        src = [G.build(g) for g in c["src"]]
        tgt = [G.build(g) for g in c["tgt"]]
        kw = {} if c["defaults"] else {"time_buffer": float(c["tb"]), "freq_buffer": float(c["fb"])}
        M = []
        for a in src:
            row = []
            for b in tgt:
                r = guarded(compute_affinity, a, b, **kw)
                if r[0] != "ok":
                    return {"res": ["err", r[1]], "msg": "compute_affinity: " + r[2]}
                row.append(Fraction(float(r[1])))
            M.append(row)
        recorded = []
        orig = getattr(match_mod, "linear_sum_assignment", None)
        if orig is not None:
            def wrapper(*a, **k):
                res = orig(*a, **k)
                recorded.append([[int(x), int(y)] for x, y in zip(res[0], res[1])])
                return res
            match_mod.linear_sum_assignment = wrapper
        try:
            r = guarded(lambda: list(match_geometries(src, tgt, **kw)))
        finally:
            if orig is not None:
                match_mod.linear_sum_assignment = orig
        if r[0] != "ok":
            return {"res": ["err", r[1]], "msg": r[2], "M": M}
        out = []
        for s, t, a in r[1]:
            out.append([None if s is None else int(s), None if t is None else int(t), Fraction(float(a))])
        return {"res": ["ok"], "M": M, "out": out, "lsa": recorded[0] if len(recorded) == 1 else None}

    def agree(self, c, o):
        if o["res"][0] != "ok":
            return "false"
        n, m = len(c["src"]), len(c["tgt"])
        if any((e[0] is not None and e[0] < 0) or (e[1] is not None and e[1] < 0) for e in o["out"]):
            return "false"
        M = listlit(o["M"], lambda r: listlit(r, qlit))
        out = listlit(o["out"], _entry)
        e = f"checker {M} {natlit(n)} {natlit(m)} {qlit(TOL)} {out}"
        if o["lsa"] is not None:
            lsa = listlit(o["lsa"], lambda p: pairlit(natlit(p[0]), natlit(p[1])))
            e += f" && entries_same (select_matches {M} {natlit(n)} {natlit(m)} {lsa}) {out}"
        return e

    def show(self, c):
        o = self.run(c)
        if o["res"][0] != "ok":
            return None
        M = listlit(o["M"], lambda r: listlit(r, qlit))
        return f"(brute_best {M} {natlit(len(c['src']))} {natlit(len(c['tgt']))})"

    def oracle(self, c, o):
        fails = []

        def fail(kind, what):
            fails.append({"kind": kind, "what": what, "attrs": {"n": len(c["src"]), "m": len(c["tgt"])}})

        n, m = len(c["src"]), len(c["tgt"])
        if o["res"][0] != "ok":
            fail("raised", f"match_geometries raised {o['res']} {o.get('msg')}")
            return fails
        M, out = o["M"], o["out"]
        srcs = sorted(e[0] for e in out if e[0] is not None)
        tgts = sorted(e[1] for e in out if e[1] is not None)
        if srcs != list(range(n)):
            fail("source-coverage", f"source indices mentioned {srcs}, expected each of 0..{n-1} once")
        if tgts != list(range(m)):
            fail("target-coverage", f"target indices mentioned {tgts}, expected each of 0..{m-1} once")
        for s, t, a in out:
            if s is None and t is None:
                fail("empty-entry", "entry with neither source nor target")
            elif s is not None and t is not None:
                if not (0 <= s < n and 0 <= t < m):
                    continue
                if a != M[s][t]:
                    fail("reported-affinity", f"pair ({s},{t}) reports {float(a)} but its affinity is {float(M[s][t])}")
                if not M[s][t] > 0:
                    fail("zero-affinity-pair", f"pair ({s},{t}) is matched although its affinity is {float(M[s][t])}")
            elif a != 0:
                fail("unpaired-nonzero", f"unpaired entry ({s},{t}) reports affinity {float(a)}")
        # optimality by brute force
        best = Fraction(0)

        def rec(i, used, acc):
            nonlocal best
            if i == n:
                best = max(best, acc)
                return
            rec(i + 1, used, acc)
            for j in range(m):
                if j not in used and M[i][j] > 0:
                    rec(i + 1, used | {j}, acc + M[i][j])

        if n <= 6 and m <= 6:
            rec(0, frozenset(), Fraction(0))
            tot = sum((e[2] for e in out), Fraction(0))
            if tot < best - TOL:
                fail("not-optimal", f"sum of reported affinities {float(tot)} < best one-to-one pairing {float(best)}")
        return fails

    def nontrivial(self, c, o):
        return o["res"][0] == "ok" and len(c["src"]) >= 1 and len(c["tgt"]) >= 1 and any(x > 0 for r in o["M"] for x in r)

    def tags(self, c, o):
        t = [c["kind"], f"size:{len(c['src'])}x{len(c['tgt'])}"]
        if o["res"][0] == "ok":
            pos = sum(1 for r in o["M"] for x in r if x > 0)
            t.append("M:all-zero" if pos == 0 else "M:some-positive")
            t.append("lsa-recorded" if o["lsa"] is not None else "lsa-not-recorded")
            if any(e[0] is not None and e[1] is not None for e in o["out"]):
                t.append("has-pair")
        return t


PROP = C07
