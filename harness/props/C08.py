"""C08 — detection evaluation accounts for every sound event and only credits overlaps."""
from __future__ import annotations

import uuid as uuidlib
from fractions import Fraction

from ..core import Prop, blit, guarded, listlit, natlit, optlit, pairlit, qlit
from .. import geomgen as G

U = lambda k: uuidlib.UUID(int=9000 + k)
TOL = Fraction(1, 10**9)
TOL32 = Fraction(1, 10**6)  # decimal scores: prediction_encoding is float32, the sum of the scores is rounded in float32


def _indep_iou(g1, g2):
    """area IoU of two area geometries (box / polygon with holes / multipolygon), built with shapely directly from the case's
    coordinates; None when one of them is not an area geometry (those are buffered by the library: not recomputed here)"""
    import shapely
    from shapely.geometry import MultiPolygon, Polygon, box

    def shape(g):
        if g is None:
            return None
        c = g["coordinates"]
        f = lambda ring: [(float(p[0]), float(p[1])) for p in ring]
        if g["type"] == "BoundingBox":
            return box(float(c[0]), float(c[1]), float(c[2]), float(c[3]))
        if g["type"] == "Polygon":
            return Polygon(f(c[0]), [f(r) for r in c[1:]])
        if g["type"] == "MultiPolygon":
            return MultiPolygon([Polygon(f(p[0]), [f(r) for r in p[1:]]) for p in c])
        return None

    a, b = shape(g1), shape(g2)
    if a is None or b is None or not a.is_valid or not b.is_valid:
        return None
    u = a.union(b).area
    return 0.0 if u == 0 else a.intersection(b).area / u


def _tol(c):
    dec = any(s.denominator not in (1, 2, 4, 8, 16) for cl in c["clips"].values() for p in cl["preds"] for s in p["scores"])
    return TOL32 if dec else TOL


def _dm(d):
    return f"({optlit(d[0], natlit)}, {optlit(d[1], natlit)}, {qlit(d[2])}, {qlit(d[3])})"


class C08(Prop):
    ID = "C08"
    IMPORTS = ["Eval.Detection"]
    RULE = (
        "0..3 clips per side with partial id overlap and shuffled order, 0..4 annotated and predicted events per clip with "
        "geometry present/absent, overlapping / disjoint / identical placements of boxes, intervals, polygons, points and "
        "lines, vocabularies of 2..4 tags, true tags in / out of vocabulary / absent, predicted score vectors in 1/16 steps "
        "summing to <= 1 (float32-exact); compared per evaluated clip: the multiset of (source, target, affinity, score), clip "
        "score, and the evaluated clip ids in order and overall score. Non-trivial = at least one evaluated clip with a "
        "paired match; distinct by hash"
    )
    TRUSTED = [
        "scipy linear_sum_assignment: its recorded answer is an input of the model (C07 checks its optimality)",
        "compute_affinity values are recorded by calling the real function on each pair (C06 covers their meaning)",
        "tag encoders: outputs recorded through the real functions (C19 covers them)",
    ]

    # ------------------------------------------------------------------ generation
    def _event_geom(self, rng, anchor):
        mode = rng.choice(["near", "near", "near", "same", "same", "far", "other"])
        if mode == "same":
            return dict(anchor)
        if mode == "far":
            a = Fraction(rng.randint(40, 60), 2)
            return {"type": "BoundingBox", "coordinates": [a, Fraction(1000), a + Fraction(1, 2), Fraction(2000)]}
        if mode == "other":
            return G.rgeom(rng, rng.choice(["TimeInterval", "Polygon", "Point", "LineString", "TimeStamp"]), tmax=6, fmax=24)
        s = Fraction(rng.randint(0, 16), 4)
        lo = Fraction(rng.randint(0, 8)) * 500
        return {"type": "BoundingBox", "coordinates": [s, lo, s + Fraction(rng.randint(1, 8), 4), lo + Fraction(rng.randint(1, 4)) * 500]}

    def _scores(self, rng, nv):
        if rng.random() < 0.3:
            # decimal scores (hundredths) summing to at most 1 — often to exactly 1, as a softmax output does; their float32
            # encodings sum to 1 +- a few ulp
            left = 100 if rng.random() < 0.6 else rng.randint(50, 100)
            cuts = sorted(rng.randint(0, left) for _ in range(nv - 1))
            parts = [b - a for a, b in zip([0] + cuts, cuts + [left])]
            rng.shuffle(parts)
            return [Fraction(k, 100) for k in parts]
        left = 16
        out = []
        for _ in range(nv):
            k = rng.randint(0, left) if rng.random() < 0.7 else 0
            out.append(Fraction(k, 16))
            left -= k
        rng.shuffle(out)
        return out

    def _clip(self, rng, nv):
        anchor = {"type": "BoundingBox", "coordinates": [Fraction(1), Fraction(1000), Fraction(2), Fraction(2000)]}
        na, npred = rng.choice([0, 1, 2, 2, 3, 4]), rng.choice([0, 1, 2, 2, 3, 4])
        anns = [{"geom": None if rng.random() < 0.15 else self._event_geom(rng, anchor),
                 "tag": rng.choice([None, "oov"] + list(range(nv)) * 2)} for _ in range(na)]
        preds = [{"geom": None if rng.random() < 0.15 else self._event_geom(rng, anchor),
                  "scores": self._scores(rng, nv), "oov_score": rng.choice([None, Fraction(1, 2)])} for _ in range(npred)]
        if rng.random() < 0.15 and na >= 1 and npred >= 1:
            # an annotated frame (polygon with a hole) and a prediction inside the hole: they share no area, hence no pair;
            # a second prediction lies on the frame itself
            frame = {"type": "Polygon", "coordinates": [
                [[Fraction(0), Fraction(1000)], [Fraction(10), Fraction(1000)], [Fraction(10), Fraction(9000)], [Fraction(0), Fraction(9000)], [Fraction(0), Fraction(1000)]],
                [[Fraction(2), Fraction(3000)], [Fraction(8), Fraction(3000)], [Fraction(8), Fraction(7000)], [Fraction(2), Fraction(7000)], [Fraction(2), Fraction(3000)]]]}
            anns[0]["geom"] = frame
            preds[0]["geom"] = {"type": "BoundingBox", "coordinates": [Fraction(4), Fraction(4500), Fraction(6), Fraction(5500)]}
            if npred >= 2:
                preds[1]["geom"] = {"type": "BoundingBox", "coordinates": [Fraction(0), Fraction(1000), Fraction(1), Fraction(2000)]}
        elif rng.random() < 0.2 and na + npred >= 3:
            # a chain of overlaps P ~ A ~ P ~ A ...: neighbours overlap, events two apart do not; the optimal assignment then
            # has leftovers that each overlap something but not each other
            order = ["p"] * npred + ["a"] * na
            rng.shuffle(order)
            ip = ia = 0
            for k, who in enumerate(order):
                box = {"type": "BoundingBox", "coordinates": [Fraction(k), Fraction(1000), Fraction(k) + Fraction(rng.choice([5, 6, 7]), 4), Fraction(2000)]}
                if who == "p":
                    preds[ip]["geom"] = box
                    ip += 1
                else:
                    anns[ia]["geom"] = box
                    ia += 1
        return {"anns": anns, "preds": preds}

    def _case(self, rng):
        nv = rng.randint(2, 4)
        ids = [0, 1, 2, 3]
        pred_ids = rng.sample(ids, rng.choice([0, 1, 2, 2, 3, 3]))
        ann_ids = rng.sample(ids, rng.choice([0, 1, 2, 2, 3, 3]))
        if rng.random() < 0.9 and pred_ids and ann_ids and not set(pred_ids) & set(ann_ids):
            ann_ids[rng.randrange(len(ann_ids))] = rng.choice(pred_ids)
        clips = {cid: self._clip(rng, nv) for cid in set(pred_ids) | set(ann_ids)}
        return {"kind": "detection", "nv": nv, "pred_ids": pred_ids, "ann_ids": ann_ids, "clips": {str(k): v for k, v in clips.items()}}

    def cases(self, rng, tier):
        n = {"quick": 500, "thorough": 10000}[tier]
        return [self._case(rng) for _ in range(n)]

    # ------------------------------------------------------------------ implementation
    def _build(self, c):
        from soundevent import data

        rec = data.Recording(uuid=U(1), path="a.wav", duration=100, channels=1, samplerate=8000)
        terms = [data.Term(name=f"v:t{i}", label=f"t{i}", definition="d") for i in range(c["nv"])]
        vocab = [data.Tag(term=terms[i], value=f"x{i}") for i in range(c["nv"])]
        oov = data.Tag(term=data.Term(name="v:oov", label="oov", definition="d"), value="zz")
        clips = {cid: data.Clip(uuid=U(10 + cid), recording=rec, start_time=0, end_time=50) for cid in range(4)}
        cas, cps = {}, {}
        for cid_s, cl in c["clips"].items():
            cid = int(cid_s)
            anns, preds = [], []
            for i, a in enumerate(cl["anns"]):
                se = data.SoundEvent(uuid=U(1000 + cid * 100 + i), recording=rec, geometry=None if a["geom"] is None else G.build(a["geom"]))
                tags = [] if a["tag"] is None else ([oov] if a["tag"] == "oov" else [vocab[a["tag"]]])
                anns.append(data.SoundEventAnnotation(uuid=U(2000 + cid * 100 + i), sound_event=se, tags=tags))
            for i, p in enumerate(cl["preds"]):
                se = data.SoundEvent(uuid=U(3000 + cid * 100 + i), recording=rec, geometry=None if p["geom"] is None else G.build(p["geom"]))
                tags = [data.PredictedTag(tag=vocab[k], score=float(s)) for k, s in enumerate(p["scores"]) if s > 0]
                if p["oov_score"] is not None:
                    tags.append(data.PredictedTag(tag=oov, score=float(p["oov_score"])))
                preds.append(data.SoundEventPrediction(uuid=U(4000 + cid * 100 + i), sound_event=se, score=0.5, tags=tags))
            cas[cid] = data.ClipAnnotation(uuid=U(5000 + cid), clip=clips[cid], sound_events=anns)
            cps[cid] = data.ClipPrediction(uuid=U(6000 + cid), clip=clips[cid], sound_events=preds)
        return vocab, [cps[i] for i in c["pred_ids"]], [cas[i] for i in c["ann_ids"]], clips

    def run(self, c):
        import soundevent.evaluation.match as match_mod
        from soundevent.evaluation import classification_encoding, compute_affinity, create_tag_encoder, prediction_encoding, sound_event_detection

        vocab, cpreds, canns, clips = self._build(c)
        recorded = []
        orig = getattr(match_mod, "linear_sum_assignment", None)
        if orig is not None:
            def wrapper(*a, **k):
                res = orig(*a, **k)
                recorded.append([[int(x), int(y)] for x, y in zip(res[0], res[1])])
                return res
            match_mod.linear_sum_assignment = wrapper
        try:
            r = guarded(sound_event_detection, cpreds, canns, vocab, timeout=60)
        finally:
            if orig is not None:
                match_mod.linear_sum_assignment = orig
        # model inputs, per common clip in prediction order
        enc = create_tag_encoder(vocab)
        ann_by_id = {ca.clip.uuid: ca for ca in canns}
        per_clip = []
        for cp in cpreds:
            if cp.clip.uuid not in ann_by_id:
                continue
            ca = ann_by_id[cp.clip.uuid]
            pg = [p.sound_event.geometry is not None for p in cp.sound_events]
            ag = [a.sound_event.geometry is not None for a in ca.sound_events]
            fp = [p for p in cp.sound_events if p.sound_event.geometry is not None]
            fa = [a for a in ca.sound_events if a.sound_event.geometry is not None]
            M = [[Fraction(float(compute_affinity(p.sound_event.geometry, a.sound_event.geometry))) for a in fa] for p in fp]
            ytrue = [classification_encoding(a.tags, enc) for a in ca.sound_events]
            ytrue = [None if y is None else int(y) for y in ytrue]
            yscore = [[Fraction(float(x)) for x in prediction_encoding(p.tags, enc)] for p in cp.sound_events]
            per_clip.append({"clip": int(cp.clip.uuid.int - 9010), "pgeo": pg, "ageo": ag, "M": M, "ytrue": ytrue, "yscore": yscore,
                             "p_uuids": [str(p.uuid) for p in cp.sound_events], "a_uuids": [str(a.uuid) for a in ca.sound_events]})
        out = {"inputs": per_clip, "lsa": recorded}
        if r[0] != "ok":
            out["res"] = ["err", r[1]]
            out["msg"] = r[2]
            return out
        ev = r[1]
        out["res"] = ["ok"]
        out["task"] = ev.evaluation_task
        out["score"] = None if ev.score is None else Fraction(float(ev.score))
        ces = []
        for ce in ev.clip_evaluations:
            cid = int(ce.annotations.clip.uuid.int - 9010)
            pu = [str(p.uuid) for p in ce.predictions.sound_events]
            au = [str(a.uuid) for a in ce.annotations.sound_events]
            ms = []
            for m in ce.matches:
                s = None if m.source is None else (pu.index(str(m.source.uuid)) if str(m.source.uuid) in pu else -1)
                t = None if m.target is None else (au.index(str(m.target.uuid)) if str(m.target.uuid) in au else -1)
                ms.append([s, t, Fraction(float(m.affinity)), None if m.score is None else Fraction(float(m.score))])
            ces.append({"clip": cid, "same_clip": ce.annotations.clip.uuid == ce.predictions.clip.uuid, "matches": ms,
                        "score": None if ce.score is None else Fraction(float(ce.score))})
        out["clips"] = ces
        return out

    # ------------------------------------------------------------------ model
    def agree(self, c, o):
        if o["res"][0] != "ok":
            return "false"
        parts = []
        # evaluated clips
        pairs = listlit([(c["ann_ids"].index(ce["clip"]) if ce["clip"] in c["ann_ids"] else 99, k) for k, ce in enumerate(o["clips"])], lambda p: pairlit(natlit(p[0]), natlit(p[1])))
        want_pairs = f"(pair_clips {listlit(c['pred_ids'], natlit)} {listlit(c['ann_ids'], natlit)})"
        # the model's pairs are (annotation position, prediction position); compare the evaluated clip ids in order instead
        ids_model = f"(map (fun p => nth (snd p) {listlit(c['pred_ids'], natlit)} 99%nat) {want_pairs})"
        parts.append(f"nats_eqb' {ids_model} {listlit([ce['clip'] for ce in o['clips']], natlit)}")
        if len(o["inputs"]) != len(o["clips"]) or len(o["lsa"]) != len(o["clips"]):
            return "false"
        tol = qlit(_tol(c))
        scores = []
        for inp, ce, lsa in zip(o["inputs"], o["clips"], o["lsa"]):
            if any(m[3] is None or (m[0] is not None and m[0] < 0) or (m[1] is not None and m[1] < 0) for m in ce["matches"]) or ce["score"] is None:
                return "false"
            M = listlit(inp["M"], lambda r: listlit(r, qlit))
            model = (f"(evaluate_clip {listlit(inp['pgeo'], blit)} {listlit(inp['ageo'], blit)} {M} "
                     f"{listlit(lsa, lambda p: pairlit(natlit(p[0]), natlit(p[1])))} {listlit(inp['ytrue'], lambda y: optlit(y, natlit))} "
                     f"{listlit(inp['yscore'], lambda r: listlit(r, qlit))})")
            obs = listlit(ce["matches"], _dm)
            parts.append(f"dmatches_same {tol} {model} {obs}")
            parts.append(f"qclose {tol} (clip_score {model}) {qlit(ce['score'])}")
            scores.append(ce["score"])
        if o["score"] is None:
            return "false"
        parts.append(f"qclose {tol} (overall_score {listlit(scores, qlit)}) {qlit(o['score'])}")
        return " && ".join(parts)

    PRELUDE = (
        "Fixpoint nats_eqb' (a b : list nat) : bool := match a, b with [], [] => true | x :: a', y :: b' => Nat.eqb x y && nats_eqb' a' b' | _, _ => false end.\n"
    )

    def show(self, c):
        return None

    # ------------------------------------------------------------------ oracle: the statement read on the implementation
    def oracle(self, c, o):
        fails = []

        def fail(kind, what, **a):
            fails.append({"kind": kind, "what": what, "attrs": a})

        has_geoless = any(e["geom"] is None for cl in c["clips"].values() for e in cl["anns"] + cl["preds"])
        n_items = sum(len(c["clips"][str(i)]["anns"]) + len(c["clips"][str(i)]["preds"]) for i in c["pred_ids"] if i in c["ann_ids"])
        if o["res"][0] != "ok":
            fail("raised", f"sound_event_detection raised {o['res'][1]}: {o.get('msg', '')[:200]}", error=o["res"][1], geometry_less=has_geoless,
                 no_items=n_items == 0, msg=o.get("msg", "")[:60])
            return fails
        want_ids = [i for i in c["pred_ids"] if i in c["ann_ids"]]
        got_ids = [ce["clip"] for ce in o["clips"]]
        if got_ids != want_ids:
            fail("clips", f"evaluated clips {got_ids}, expected exactly the common clips {want_ids}")
            return fails
        clip_scores = []
        for inp, ce in zip(o["inputs"], o["clips"]):
            cl = c["clips"][str(ce["clip"])]
            na, npred = len(cl["anns"]), len(cl["preds"])
            srcs = sorted(m[0] for m in ce["matches"] if m[0] is not None)
            tgts = sorted(m[1] for m in ce["matches"] if m[1] is not None)
            if srcs != list(range(npred)) or tgts != list(range(na)):
                fail("event-accounting", f"clip {ce['clip']}: predicted events in matches {srcs} (expected 0..{npred - 1}), annotated {tgts} (expected 0..{na - 1})")
                continue
            fp = [i for i, g in enumerate(inp["pgeo"]) if g]
            fa = [j for j, g in enumerate(inp["ageo"]) if g]
            for s, t, aff, sc in ce["matches"]:
                if s is not None and t is not None:
                    if s not in fp or t not in fa:
                        fail("paired-without-geometry", f"clip {ce['clip']}: pair ({s},{t}) involves an event without geometry")
                        continue
                    true_aff = inp["M"][fp.index(s)][fa.index(t)]
                    # independent of the library's own conversion / affinity code: area geometries built here from the case
                    ind = _indep_iou(cl["preds"][s]["geom"], cl["anns"][t]["geom"])
                    if ind is not None:
                        if ind == 0:
                            fail("paired-without-overlap", f"clip {ce['clip']}: prediction {s} paired with annotation {t} although they share no area (independent computation)")
                        elif abs(float(aff) - ind) > 1e-9:
                            fail("pair-affinity", f"clip {ce['clip']}: pair ({s},{t}) reports affinity {float(aff)} but the area IoU computed independently is {ind}")
                    if not true_aff > 0:
                        fail("paired-without-overlap", f"clip {ce['clip']}: prediction {s} paired with annotation {t} although their affinity is {float(true_aff)}")
                    if aff != true_aff:
                        fail("pair-affinity", f"clip {ce['clip']}: pair ({s},{t}) reports affinity {float(aff)} but their geometric affinity is {float(true_aff)}")
                    y = inp["ytrue"][t]
                    vec = inp["yscore"][s]
                    want = (1 - sum(vec)) if y is None else vec[y]
                    if sc is None or abs(sc - want) > _tol(c):
                        fail("pair-score", f"clip {ce['clip']}: pair ({s},{t}) score {None if sc is None else float(sc)} != probability of the annotation's class {float(want)}")
                elif s is None and t is None:
                    fail("empty-match", "match with neither source nor target")
                else:
                    if aff != 0 or sc is None or sc != 0:
                        fail("unpaired-nonzero", f"clip {ce['clip']}: unpaired event ({s},{t}) has affinity {float(aff)} score {None if sc is None else float(sc)}")
            vals = [m[3] for m in ce["matches"] if m[3] is not None]
            want = sum(vals) / len(vals) if vals else Fraction(0)
            if ce["score"] is None or abs(ce["score"] - want) > _tol(c):
                fail("clip-score", f"clip {ce['clip']}: score {ce['score']} is not the mean of its match scores {float(want)}")
            if ce["score"] is not None:
                clip_scores.append(ce["score"])
        want = sum(clip_scores) / len(clip_scores) if clip_scores else Fraction(0)
        if o["score"] is None or abs(o["score"] - want) > _tol(c):
            fail("overall-score", f"overall score {o['score']} is not the mean of the clip scores {float(want)}")
        return fails

    def nontrivial(self, c, o):
        return o["res"][0] == "ok" and any(m[0] is not None and m[1] is not None for ce in o["clips"] for m in ce["matches"])

    def tags(self, c, o):
        t = [f"res:{o['res'][0]}", f"common-clips:{len([i for i in c['pred_ids'] if i in c['ann_ids']])}"]
        if any(e["geom"] is None for cl in c["clips"].values() for e in cl["anns"] + cl["preds"]):
            t.append("has-geometry-less-event")
        if o["res"][0] == "ok":
            t.append("has-pair" if any(m[0] is not None and m[1] is not None for ce in o["clips"] for m in ce["matches"]) else "no-pair")
        return t


PROP = C08
