"""C14 — clip segmentation tiles the clip on the hop lattice."""
from __future__ import annotations

import uuid as uuidlib
from fractions import Fraction

from ..core import F, Prop, blit, guarded, listlit, pairlit, qlit


class C14(Prop):
    ID = "C14"
    IMPORTS = ["Misc.SegmentClip"]
    PRELUDE = "Definition rs := res_eqb segs_eqb."
    RULE = (
        "clip start/end/duration/hop on a dyadic grid with hop <,=,> duration, clip length an exact and a non-exact "
        "multiple of the hop, both include_incomplete settings, hop=None, non-positive duration/hop; non-trivial = "
        "accepted input yielding at least 2 segments; distinct by canonical hash"
    )
    TRUSTED = ["uuid5 / repr(float) injectivity (identifiers are compared with uuid5 recomputed from the model's bounds)"]

    def _case(self, rng):
        if rng.random() < 0.15:
            # fine lattices (ultrasonic-style hops far below a millisecond, bounds with many decimals): identifiers must stay
            # distinct and be derived from the exact bounds
            u = Fraction(1, 2 ** rng.choice([4, 6, 10, 12, 14]))
            s0 = rng.randint(0, 3) + u * rng.randint(0, 64)
            hop = u * rng.randint(1, 3)
            dur = u * rng.randint(1, 10)
            return {"kind": "fine", "s": s0, "e": s0 + u * rng.randint(0, 60), "dur": dur, "hop": None if rng.random() < 0.1 else hop,
                    "incl": rng.random() < 0.5}
        q = lambda lo, hi, b=2: Fraction(rng.randint(lo * (1 << b), hi * (1 << b)), 1 << b)
        s = q(0, 8)
        shape = rng.random()
        hop = q(0, 6, rng.choice([0, 1, 2, 3]))
        if hop == 0:
            hop = Fraction(1, 2)
        if shape < 0.35:
            length = hop * rng.randint(0, 12)  # exact multiple
        else:
            length = q(0, 24, 3)
        e = s + length
        r = rng.random()
        if r < 0.3:
            dur = hop
        elif r < 0.6:
            dur = hop + q(0, 3, 2)
        else:
            dur = max(Fraction(1, 8), hop - q(0, 3, 3))
        incl = rng.random() < 0.5
        hop_none = rng.random() < 0.1
        m = rng.random()
        if m < 0.04:
            dur = rng.choice([Fraction(0), Fraction(-1, 2)])
        elif m < 0.08:
            hop = rng.choice([Fraction(0), Fraction(-1, 2)])
            hop_none = False
        return {"kind": "segment", "s": s, "e": e, "dur": dur, "hop": None if hop_none else hop, "incl": incl}

    def cases(self, rng, tier):
        n = {"quick": 2000, "thorough": 40000}[tier]
        fixed = [
            {"kind": "segment", "s": Fraction(0), "e": Fraction(10), "dur": Fraction(1), "hop": Fraction(9, 2), "incl": False},
            {"kind": "segment", "s": Fraction(0), "e": Fraction(10), "dur": Fraction(3), "hop": Fraction(3), "incl": True},
            {"kind": "segment", "s": Fraction(0), "e": Fraction(10), "dur": Fraction(2), "hop": Fraction(1), "incl": False},
        ]
        out = fixed + [self._case(rng) for _ in range(n)]
        # history: the same clip (same uuid) was segmented before with other bounds — the clip was trimmed / extended /
        # shifted by model_copy(update=...) or by assignment — and with the same duration, hop and flag
        seq = []
        for _ in range(n // 8):
            c = self._case(rng)
            if c["dur"] <= 0 or (c["hop"] is not None and c["hop"] <= 0):
                continue
            d = rng.choice([Fraction(1, 2), Fraction(3), Fraction(7, 4)])
            how = rng.choice(["trim", "extend", "shift"])
            ps, pe = {"trim": (c["s"], c["e"] + d), "extend": (c["s"], max(c["s"], c["e"] - d)), "shift": (c["s"] + d, c["e"] + d)}[how]
            seq.append(dict(c, before=[ps, pe], via=rng.choice(["copy", "assign"])))
        return out + seq

    def run(self, c):
        from soundevent import data
        from soundevent.constants import uuid_namespace
        from soundevent.operations import segment_clip

        rec = data.Recording(path="a.wav", duration=1000, channels=1, samplerate=8000)
        hop = None if c["hop"] is None else float(c["hop"])
        if c.get("before"):
            clip0 = data.Clip(recording=rec, start_time=float(c["before"][0]), end_time=float(c["before"][1]))
            guarded(lambda: list(segment_clip(clip0, float(c["dur"]), hop, include_incomplete=c["incl"])))
            if c["via"] == "copy":
                clip = clip0.model_copy(update={"start_time": float(c["s"]), "end_time": float(c["e"])})
            else:
                clip0.start_time, clip0.end_time = float(c["s"]), float(c["e"])
                clip = clip0
        else:
            clip = data.Clip(recording=rec, start_time=float(c["s"]), end_time=float(c["e"]))
        r = guarded(lambda: list(segment_clip(clip, float(c["dur"]), hop, include_incomplete=c["incl"])))
        if r[0] != "ok":
            return {"res": ["err", r[1]], "msg": r[2]}
        segs = r[1]
        out = {
            "res": ["ok"],
            "segs": [[Fraction(x.start_time), Fraction(x.end_time)] for x in segs],
            "same_recording": all(x.recording == rec for x in segs),
            "ids": [str(x.uuid) for x in segs],
            "ids_expected": [
                str(uuidlib.uuid5(uuid_namespace, f"segment_clip:{clip.uuid}:{x.start_time}:{x.end_time}")) for x in segs
            ],
            "parent": str(clip.uuid),
        }
        # determinism: a second call gives the same ids
        again = list(segment_clip(clip, float(c["dur"]), hop, include_incomplete=c["incl"]))
        out["ids_again"] = [str(x.uuid) for x in again]
        return out

    def _model(self, c):
        hop = c["dur"] if c["hop"] is None else c["hop"]
        return f"(segment_clip {qlit(c['s'])} {qlit(c['e'])} {qlit(c['dur'])} {qlit(hop)} {blit(c['incl'])})"

    def agree(self, c, o):
        if o["res"][0] == "ok":
            rhs = "(Ok " + listlit(o["segs"], lambda p: pairlit(qlit(p[0]), qlit(p[1]))) + ")"
        else:
            rhs = f"(Err {o['res'][1]})"
        return f"rs {self._model(c)} {rhs}"

    def show(self, c):
        return self._model(c)

    def oracle(self, c, o):
        fails = []
        s, e, dur = c["s"], c["e"], c["dur"]
        hop = dur if c["hop"] is None else c["hop"]

        def fail(kind, what):
            fails.append({"kind": kind, "what": what, "attrs": {"incl": c["incl"]}})

        if dur <= 0 or hop <= 0:
            if o["res"] != ["err", "EValue"]:
                fail("nonpositive-not-rejected", f"duration={dur} hop={hop} must raise ValueError, got {o['res']}")
            return fails
        if o["res"][0] != "ok":
            fail("valid-input-rejected", f"valid input raised {o['res']}: {o.get('msg')}")
            return fails
        want = []
        i = 0
        while s + i * hop < e:
            st = s + i * hop
            if st + dur <= e:
                want.append([st, st + dur])
            elif c["incl"]:
                want.append([st, e])
            else:
                break
            i += 1
        if o["segs"] != want:
            missing = [w for w in want if w not in o["segs"]]
            extra = [w for w in o["segs"] if w not in want]
            fail(
                "windows-differ",
                f"expected {len(want)} windows, got {len(o['segs'])}; missing {[(str(a), str(b)) for a, b in missing[:3]]} "
                f"unexpected {[(str(a), str(b)) for a, b in extra[:3]]}",
            )
        if not o["same_recording"]:
            fail("recording-changed", "a segment belongs to another recording")
        if len(set(o["ids"])) != len(o["ids"]):
            fail("ids-not-distinct", "two segments of one call share an identifier")
        if o["ids"] != o["ids_again"]:
            fail("ids-not-deterministic", "a second call gives different identifiers")
        if o["ids"] != o["ids_expected"]:
            fail("ids-not-function-of-bounds", "identifier is not uuid5(parent, start, end)")
        if c["incl"] and hop <= dur and s < e:
            # coverage of [s, e)
            t = s
            for a, b in o["segs"]:
                if a > t:
                    fail("gap", f"instant {t} not covered")
                    break
                t = max(t, b)
            else:
                if t < e:
                    fail("gap", f"instant {t} not covered (tail)")
        return fails

    def nontrivial(self, c, o):
        return o["res"][0] == "ok" and len(o["segs"]) >= 2

    def tags(self, c, o):
        if o["res"][0] != "ok":
            return ["rejected"]
        hop = c["dur"] if c["hop"] is None else c["hop"]
        length = c["e"] - c["s"]
        t = ["accepted", "incl" if c["incl"] else "complete-only"]
        t.append("hop<dur" if hop < c["dur"] else ("hop=dur" if hop == c["dur"] else "hop>dur"))
        t.append("length-multiple-of-hop" if (length / hop).denominator == 1 else "length-not-multiple")
        t.append(f"nseg:{min(len(o['segs']), 10)}{'+' if len(o['segs']) >= 10 else ''}")
        if o["segs"] and o["segs"][-1][1] - o["segs"][-1][0] < c["dur"]:
            t.append("last-truncated")
        return t


PROP = C14
