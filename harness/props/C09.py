"""C09 — evaluation metrics are what their terms say, in all four tasks."""
from __future__ import annotations

import json
import uuid as uuidlib
from fractions import Fraction

from ..core import BUILD, Prop, guarded, listlit, natlit, optlit, qlit

U = lambda k: uuidlib.UUID(int=11000 + k)
TOL = Fraction(1, 10**9)
TASKS = ["clip_classification", "clip_multilabel_classification", "sound_event_classification", "sound_event_detection"]
MNAME = {"accuracy": "MAccuracy", "balanced_accuracy": "MBalancedAccuracy", "top_3_accuracy": "MTop3", "mean_average_precision": "MMeanAP",
         "average_precision": "MAP", "jaccard_index": "MJaccard", "true_class_probability": "MTrueClassProb"}


# ---------------------------------------------------------------------------------------------------------------
# independent metric definitions on exact fractions (the oracle side; the same definitions are in coq/Eval/Metrics.v)
# ---------------------------------------------------------------------------------------------------------------
def ext(row):
    return list(row) + [1 - sum(row, Fraction(0))]


def cls(nc, y):
    return nc if y is None else y


def argmax(row):
    b = 0
    for i, x in enumerate(row):
        if x > row[b]:
            b = i
    return b


def accuracy(nc, ys, rows):
    return Fraction(sum(1 for y, r in zip(ys, rows) if argmax(ext(r)) == cls(nc, y)), len(ys))


def balanced_accuracy(nc, ys, rows):
    recs = []
    for c in range(nc + 1):
        idx = [i for i, y in enumerate(ys) if cls(nc, y) == c]
        if idx:
            recs.append(Fraction(sum(1 for i in idx if argmax(ext(rows[i])) == c), len(idx)))
    return sum(recs, Fraction(0)) / len(recs)


def top3(nc, ys, rows):
    hit = 0
    for y, r in zip(ys, rows):
        e = ext(r)
        t = cls(nc, y)
        beat = sum(1 for j, x in enumerate(e) if x > e[t] or (x == e[t] and j > t))
        hit += beat < 3
    return Fraction(hit, len(ys))


def ap(pos, s):
    P = sum(pos)
    if P == 0:
        return Fraction(0)
    tot = Fraction(0)
    for i, p in enumerate(pos):
        if p:
            tot += Fraction(sum(1 for j, q in enumerate(pos) if q and s[j] >= s[i]), sum(1 for j in range(len(pos)) if s[j] >= s[i]))
    return tot / P


def mean_ap_single(nc, ys, rows):
    lab = [(y, r) for y, r in zip(ys, rows) if y is not None]
    if not lab:
        return Fraction(0)
    return sum((ap([y == c for y, _ in lab], [r[c] for _, r in lab]) for c in range(nc)), Fraction(0)) / nc


def mean_ap_multi(nc, inds, rows):
    return sum((ap([bool(ind[c]) for ind in inds], [r[c] for r in rows]) for c in range(nc)), Fraction(0)) / nc


def jaccard(ind, row):
    pred = [x > Fraction(1, 2) for x in row]
    inter = sum(1 for a, b in zip(ind, pred) if a and b)
    union = sum(1 for a, b in zip(ind, pred) if a or b)
    return Fraction(inter, union) if union else Fraction(0)


def tcp(y, row):
    return 1 - sum(row, Fraction(0)) if y is None else row[y]


def mean(xs):
    return sum(xs, Fraction(0)) / len(xs) if xs else None


class C09(Prop):
    ID = "C09"
    IMPORTS = ["Eval.Metrics"]
    RULE = (
        "for each of the four tasks: vocabularies of 1..5 tags, 1..6 clips (order shuffled), 0..4 sound events per clip, true "
        "tags in / out of vocabulary / absent (multi-label: subsets), predicted score vectors in 1/16 steps summing to <= 1 "
        "with ties and zeros; compared at run, clip and match level: the list of (term, value) and every score, before and "
        "after a real io.save/io.load, and again with the clips permuted. Non-trivial = >=2 evaluated items with at least one "
        "labelled; distinct by hash"
    )
    TRUSTED = [
        "scikit-learn is not trusted: every value is recomputed from the encoded truths / scores with the independent Gallina definitions",
        "multilabel_example_score = exp(-log-loss) is transcendental: its per-clip value is an opaque input, only its aggregation (mean) is modelled",
        "tie rule of top-3 accuracy (among equal scores the higher class index ranks first) and AP = 0 for a class without positives follow scikit-learn's conventions and are stated as such",
    ]

    def setup(self, tier):
        self.dir = BUILD / "c09"
        self.dir.mkdir(parents=True, exist_ok=True)

    # ------------------------------------------------------------------ generation
    def _scores(self, rng, nv):
        left, out = 16, []
        for _ in range(nv):
            k = rng.choice([0, 0, rng.randint(0, left), rng.randint(0, max(0, left // 2))])
            k = min(k, left)
            out.append(Fraction(k, 16))
            left -= k
        rng.shuffle(out)
        return out

    def _truth(self, rng, nv, multi):
        if multi:
            return sorted(rng.sample(range(nv), rng.randint(0, nv))) + (["oov"] if rng.random() < 0.2 else [])
        return rng.choice([None, "oov"] + list(range(nv)) * 3)

    def _case(self, rng, task):
        nv = rng.choice([1, 2, 2, 3, 3, 4, 5])
        nclips = rng.randint(1, 6)
        multi = task == "clip_multilabel_classification"
        clips = []
        for k in range(nclips):
            cl = {"truth": self._truth(rng, nv, multi), "scores": self._scores(rng, nv), "events": []}
            if task.startswith("sound_event"):
                ne = rng.choice([0, 1, 2, 2, 3, 4])
                for _ in range(ne):
                    cl["events"].append({"truth": self._truth(rng, nv, False), "scores": self._scores(rng, nv),
                                         "extra": rng.random() < 0.15 if task == "sound_event_detection" else False})
            clips.append(cl)
        perm = list(range(nclips))
        rng.shuffle(perm)
        return {"kind": task, "nv": nv, "clips": clips, "perm": perm}

    def cases(self, rng, tier):
        n = {"quick": 200, "thorough": 4000}[tier]
        out = []
        for t in TASKS:
            out += [self._case(rng, t) for _ in range(n)]
        return out

    # ------------------------------------------------------------------ implementation
    def _build(self, c, order):
        from soundevent import data

        nv = c["nv"]
        rec = data.Recording(uuid=U(1), path="/a/a.wav", duration=1000, channels=1, samplerate=8000)
        vocab = [data.Tag(term=data.Term(name=f"v:t{i}", label=f"t{i}", definition="d"), value=f"x{i}") for i in range(nv)]
        oov = data.Tag(term=data.Term(name="v:oov", label="oov", definition="d"), value="zz")

        def tags_of(truth):
            if truth is None:
                return []
            if truth == "oov":
                return [oov]
            if isinstance(truth, list):
                return [oov if t == "oov" else vocab[t] for t in truth]
            return [vocab[truth]]

        def ptags(scores):
            return [data.PredictedTag(tag=vocab[k], score=float(s)) for k, s in enumerate(scores) if s > 0]

        cas, cps = [], []
        for k in order:
            cl = c["clips"][k]
            clip = data.Clip(uuid=U(100 + k), recording=rec, start_time=k * 10, end_time=k * 10 + 10)
            anns, preds = [], []
            for i, e in enumerate(cl["events"]):
                geom = data.BoundingBox(coordinates=[k * 10 + i * 2, 1000, k * 10 + i * 2 + 1, 2000])
                se = data.SoundEvent(uuid=U(1000 + k * 50 + i), recording=rec, geometry=geom)
                if e["extra"]:
                    # an unmatched prediction far away (detection only)
                    se2 = data.SoundEvent(uuid=U(5000 + k * 50 + i), recording=rec, geometry=data.BoundingBox(coordinates=[k * 10 + 9, 3000, k * 10 + 9.5, 4000]))
                    preds.append(data.SoundEventPrediction(uuid=U(6000 + k * 50 + i), sound_event=se2, score=0.5, tags=ptags(e["scores"])))
                    continue
                anns.append(data.SoundEventAnnotation(uuid=U(2000 + k * 50 + i), sound_event=se, tags=tags_of(e["truth"])))
                preds.append(data.SoundEventPrediction(uuid=U(3000 + k * 50 + i), sound_event=se, score=0.5, tags=ptags(e["scores"])))
            cas.append(data.ClipAnnotation(uuid=U(200 + k), clip=clip, tags=tags_of(cl["truth"]), sound_events=anns))
            cps.append(data.ClipPrediction(uuid=U(300 + k), clip=clip, tags=ptags(cl["scores"]), sound_events=preds))
        return vocab, cps, cas

    @staticmethod
    def _feats(fs):
        from soundevent import terms as T

        # a term is stored in AOEF as its label: identify metrics by label so that objects before and after a reload compare
        names = {getattr(T, k).label: k for k in MNAME}
        return [[names.get(f.term.label, f.term.label), None if f.value is None else Fraction(float(f.value))] for f in fs]

    def _observe(self, ev):
        out = {"task": ev.evaluation_task, "metrics": self._feats(ev.metrics), "score": None if ev.score is None else Fraction(float(ev.score)), "clips": []}
        for ce in ev.clip_evaluations:
            out["clips"].append({
                "clip": int(ce.annotations.clip.uuid.int - 11100),
                "metrics": self._feats(ce.metrics),
                "score": None if ce.score is None else Fraction(float(ce.score)),
                "matches": [{"metrics": self._feats(m.metrics), "score": None if m.score is None else Fraction(float(m.score)),
                             "paired": m.source is not None and m.target is not None,
                             "key": str(m.source.uuid if m.source is not None else m.target.uuid)} for m in ce.matches],
            })
        return out

    def run(self, c):
        from soundevent import evaluation, io
        from soundevent.evaluation import classification_encoding, create_tag_encoder, multilabel_encoding, prediction_encoding

        fn = getattr(evaluation, c["kind"])
        n = len(c["clips"])
        vocab, cps, cas = self._build(c, list(range(n)))
        r = guarded(fn, cps, cas, vocab, timeout=60)
        if r[0] != "ok":
            return {"res": ["err", r[1]], "msg": r[2]}
        ev = r[1]
        out = {"res": ["ok"], "obs": self._observe(ev)}
        # encoded inputs (through the real encoders) for the model
        enc = create_tag_encoder(vocab)
        items = []
        for cp, ca in zip(cps, cas):
            it = {"ytrue": classification_encoding(ca.tags, enc), "ind": [int(x) for x in multilabel_encoding(ca.tags, enc)],
                  "row": [Fraction(float(x)) for x in prediction_encoding(cp.tags, enc)], "events": []}
            it["ytrue"] = None if it["ytrue"] is None else int(it["ytrue"])
            amap = {a.sound_event.uuid: a for a in ca.sound_events}
            for p in cp.sound_events:
                a = amap.get(p.sound_event.uuid)
                y = None if a is None else classification_encoding(a.tags, enc)
                it["events"].append({"paired": a is not None, "ytrue": None if y is None else int(y), "row": [Fraction(float(x)) for x in prediction_encoding(p.tags, enc)],
                                     "key": str(p.uuid)})
            items.append(it)
        out["items"] = items
        # save / load
        p = self.dir / "ev.json"
        s = guarded(io.save, ev, p)
        if s[0] != "ok":
            out["reload"] = ["err", s[1], s[2]]
        else:
            l = guarded(io.load, p)
            out["reload"] = ["ok", self._observe(l[1])] if l[0] == "ok" else ["err", l[1], l[2]]
        # permuted clips
        vocab2, cps2, cas2 = self._build(c, c["perm"])
        r2 = guarded(fn, cps2, cas2, vocab2, timeout=60)
        out["permuted"] = ["ok", self._observe(r2[1])] if r2[0] == "ok" else ["err", r2[1], r2[2]]
        return out

    # ------------------------------------------------------------------ expected values (shared by oracle and emitter)
    def _expected(self, c, o):
        """what the property demands: run / clip / match metric lists and scores, from the encoded inputs"""
        nc, task, items = c["nv"], c["kind"], o["items"]
        exp = {"clips": []}
        if task == "clip_classification":
            ys, rows = [it["ytrue"] for it in items], [it["row"] for it in items]
            exp["run"] = [["balanced_accuracy", balanced_accuracy(nc, ys, rows)], ["accuracy", accuracy(nc, ys, rows)], ["top_3_accuracy", top3(nc, ys, rows)]]
            for it in items:
                v = tcp(it["ytrue"], it["row"])
                exp["clips"].append({"metrics": [["true_class_probability", v]], "score": v, "matches": []})
        elif task == "clip_multilabel_classification":
            inds, rows = [it["ind"] for it in items], [it["row"] for it in items]
            exp["run"] = [["mean_average_precision", mean_ap_multi(nc, inds, rows)]]
            for it in items:
                exp["clips"].append({"metrics": [["jaccard_index", jaccard(it["ind"], it["row"])], ["average_precision", ap([bool(x) for x in it["ind"]], it["row"])]],
                                     "score": "opaque", "matches": []})
        else:
            ys, rows = [], []
            for it in items:
                ms = []
                for e in it["events"]:
                    if e["paired"]:
                        v = tcp(e["ytrue"], e["row"])
                        ms.append({"key": e["key"], "metrics": [["true_class_probability", v]], "score": v})
                        ys.append(e["ytrue"])
                        rows.append(e["row"])
                    elif task == "sound_event_detection":
                        ms.append({"key": e["key"], "metrics": [], "score": Fraction(0)})
                        ys.append(None)
                        rows.append(e["row"])
                sc = mean([m["score"] for m in ms])
                if task == "sound_event_detection" and sc is None:
                    sc = Fraction(0)
                exp["clips"].append({"metrics": [], "score": sc, "matches": ms})
            run = [["balanced_accuracy", balanced_accuracy(nc, ys, rows)], ["accuracy", accuracy(nc, ys, rows)], ["top_3_accuracy", top3(nc, ys, rows)]] if ys else []
            if task == "sound_event_detection" and ys:
                run = [["mean_average_precision", mean_ap_single(nc, ys, rows)]] + run
            exp["run"] = run
        return exp

    # ------------------------------------------------------------------ model
    def agree(self, c, o):
        if o["res"][0] != "ok":
            n_items = len(c["clips"]) if c["kind"].startswith("clip_") else sum(len(cl["events"]) for cl in c["clips"])
            return None if n_items == 0 else "false"  # nothing evaluated at all: outside the quantifier
        nc, task, items, obs = c["nv"], c["kind"], o["items"], o["obs"]
        ql = lambda r: listlit(r, qlit)
        oy = lambda y: optlit(y, natlit)
        tol = qlit(TOL)

        def feats(fs):
            if any(f[0] not in MNAME or f[1] is None for f in fs):
                return None
            return listlit(fs, lambda f: f"({MNAME[f[0]]}, {qlit(f[1])})")

        parts = []
        runf = feats(obs["metrics"])
        if runf is None or len(obs["clips"]) != len(items):
            return "false"
        if task == "clip_classification":
            ys = listlit([it["ytrue"] for it in items], oy)
            rows = listlit([it["row"] for it in items], ql)
            parts.append(f"feats_close {tol} (run_single {natlit(nc)} {ys} {rows} false) {runf}")
            for it, ce in zip(items, obs["clips"]):
                cf = feats(ce["metrics"])
                if cf is None or ce["score"] is None:
                    return "false"
                parts.append(f"feats_close {tol} (item_metrics {oy(it['ytrue'])} {ql(it['row'])}) {cf}")
                parts.append(f"qclose {tol} (true_class_probability {oy(it['ytrue'])} {ql(it['row'])}) {qlit(ce['score'])}")
            scores = [ce["score"] for ce in obs["clips"]]
        elif task == "clip_multilabel_classification":
            inds = listlit([it["ind"] for it in items], lambda r: listlit(r, lambda x: "true" if x else "false"))
            rows = listlit([it["row"] for it in items], ql)
            parts.append(f"feats_close {tol} (run_multilabel {natlit(nc)} {inds} {rows}) {runf}")
            for it, ce in zip(items, obs["clips"]):
                cf = feats(ce["metrics"])
                if cf is None or ce["score"] is None:
                    return "false"
                ind = listlit(it["ind"], lambda x: "true" if x else "false")
                parts.append(f"feats_close {tol} (clip_multilabel_metrics {ind} {ql(it['row'])}) {cf}")
            scores = [ce["score"] for ce in obs["clips"]]
        else:
            det = task == "sound_event_detection"
            ys, rows, scores = [], [], []
            for it, ce in zip(items, obs["clips"]):
                if feats(ce["metrics"]) != "[]":
                    return "false"
                byk = {m["key"]: m for m in ce["matches"]}
                mscores = []
                for e in it["events"]:
                    if e["paired"] or det:
                        m = byk.get(e["key"])
                        if m is None or m["score"] is None:
                            return "false"
                        mf = feats(m["metrics"])
                        if mf is None:
                            return "false"
                        if e["paired"]:
                            parts.append(f"feats_close {tol} (item_metrics {oy(e['ytrue'])} {ql(e['row'])}) {mf}")
                            parts.append(f"qclose {tol} (true_class_probability {oy(e['ytrue'])} {ql(e['row'])}) {qlit(m['score'])}")
                            ys.append(e["ytrue"])
                        else:
                            parts.append(f"feats_close {tol} [] {mf} && qclose {tol} 0 {qlit(m['score'])}")
                            ys.append(None)
                        rows.append(e["row"])
                        mscores.append(m["score"])
                n_expected = len(mscores)
                if len(ce["matches"]) != n_expected:
                    return "false"
                if mscores:
                    if ce["score"] is None:
                        return "false"
                    parts.append(f"qclose {tol} (mean_scores {listlit(mscores, qlit)}) {qlit(ce['score'])}")
                    scores.append(ce["score"])
                elif det:
                    if ce["score"] is None:
                        return "false"
                    parts.append(f"qclose {tol} 0 {qlit(ce['score'])}")
                    scores.append(ce["score"])
                else:
                    parts.append("true" if ce["score"] is None else "false")
            if ys:
                parts.append(f"feats_close {tol} (run_single {natlit(nc)} {listlit(ys, oy)} {listlit(rows, ql)} {'true' if det else 'false'}) {runf}")
            else:
                parts.append(f"feats_close {tol} [] {runf}")
        if obs["score"] is None:
            return "false"
        parts.append(f"qclose {tol} (mean_scores {listlit(scores, qlit)}) {qlit(obs['score'])}")
        return " && ".join(parts)

    def show(self, c):
        return None

    # ------------------------------------------------------------------ oracle
    def oracle(self, c, o):
        fails = []
        task = c["kind"]

        def fail(kind, what, **a):
            fails.append({"kind": kind, "what": what, "attrs": dict(a, task=task, nv=c["nv"])})

        if o["res"][0] != "ok":
            n_items = len(c["clips"]) if task.startswith("clip_") else sum(len(cl["events"]) for cl in c["clips"])
            empty_clip = task.startswith("sound_event") and any(not cl["events"] for cl in c["clips"])
            if n_items == 0:
                return fails  # the quantifier asks for at least one evaluated item overall
            fail("raised", f"{task} raised {o['res'][1]}: {o.get('msg', '')[:220]}", error=o["res"][1], no_items=n_items == 0, has_empty_clip=empty_clip, msg=o.get("msg", "")[:50])
            return fails
        obs = o["obs"]
        exp = self._expected(c, o)

        def cmp_feats(level, got, want):
            names = [g[0] for g in got]
            if len(set(names)) != len(names):
                fail("duplicate-terms", f"{level}: metric terms are not pairwise distinct: {names}", level=level)
            gd = {g[0]: g[1] for g in got}
            for n, v in want:
                if n not in gd:
                    fail("metric-missing", f"{level}: metric {n} not reported (got {names})", level=level, metric=n)
                elif gd[n] is None or abs(gd[n] - v) > TOL:
                    fail("metric-value", f"{level}: {n} = {None if gd[n] is None else float(gd[n])} but the independently computed value is {float(v)}", level=level, metric=n)
            for n in names:
                if n not in [w[0] for w in want]:
                    fail("metric-unexpected", f"{level}: unexpected metric term {n}", level=level, metric=n)

        cmp_feats("run", obs["metrics"], exp["run"])
        scores = []
        for k, (ce, xe) in enumerate(zip(obs["clips"], exp["clips"])):
            cmp_feats("clip", ce["metrics"], xe["metrics"])
            if xe["score"] == "opaque":
                if ce["score"] is None or not (0 <= ce["score"] <= 1):
                    fail("clip-score", f"clip {k}: multilabel score {ce['score']} not in [0,1]")
            elif xe["score"] is None:
                if ce["score"] is not None:
                    fail("clip-score", f"clip {k}: empty clip has score {float(ce['score'])} (no match scores to average)")
            elif ce["score"] is None or abs(ce["score"] - xe["score"]) > TOL:
                fail("clip-score", f"clip {k}: score {ce['score']} != mean of its match scores / true-class probability {float(xe['score'])}")
            if ce["score"] is not None:
                scores.append(ce["score"])
            byk = {m["key"]: m for m in ce["matches"]}
            if len(byk) != len(xe["matches"]) or len(ce["matches"]) != len(xe["matches"]):
                fail("matches", f"clip {k}: {len(ce['matches'])} matches, expected {len(xe['matches'])}")
            for xm in xe["matches"]:
                m = byk.get(xm["key"])
                if m is None:
                    fail("matches", f"clip {k}: event {xm['key'][-6:]} has no match")
                    continue
                cmp_feats("match", m["metrics"], xm["metrics"])
                if m["score"] is None or abs(m["score"] - xm["score"]) > TOL:
                    fail("match-score", f"clip {k}: match score {m['score']} != {float(xm['score'])}")
        want = mean(scores) if scores else Fraction(0)
        if obs["score"] is None or abs(obs["score"] - want) > TOL:
            fail("overall-score", f"overall score {obs['score']} is not the mean of the clip scores {float(want)}")
        # AOEF round trip keeps every metric
        if o["reload"][0] != "ok":
            fail("reload-raised", f"save/load of the evaluation failed: {o['reload'][1:]}")
        else:
            re = o["reload"][1]

            def same(a, b):
                return sorted((x[0], x[1]) for x in a) == sorted((x[0], x[1]) for x in b)

            if not same(re["metrics"], obs["metrics"]) or re["score"] != obs["score"]:
                fail("reload-run-metrics", f"run metrics after save/load {re['metrics']} != before {obs['metrics']}")
            for k, (a, b) in enumerate(zip(re["clips"], obs["clips"])):
                if not same(a["metrics"], b["metrics"]) or a["score"] != b["score"]:
                    fail("reload-clip-metrics", f"clip {k}: metrics / score changed by save/load")
                ma = {m["key"]: m for m in a["matches"]}
                for m in b["matches"]:
                    if m["key"] not in ma or not same(ma[m["key"]]["metrics"], m["metrics"]) or ma[m["key"]]["score"] != m["score"]:
                        fail("reload-match-metrics", f"clip {k}: a match's metrics / score changed by save/load")
                        break
        # order of clips does not matter
        if o["permuted"][0] != "ok":
            fail("permuted-raised", f"the same input with clips permuted raised {o['permuted'][1:]}")
        else:
            pe = o["permuted"][1]
            pd, od = {x[0]: x[1] for x in pe["metrics"]}, {x[0]: x[1] for x in obs["metrics"]}
            if set(pd) != set(od) or any(pd[k] is None or od[k] is None or abs(pd[k] - od[k]) > TOL for k in pd):
                fail("order-dependent", f"run metrics depend on the order of clips: {pe['metrics']} vs {obs['metrics']}")
            if (pe["score"] is None) != (obs["score"] is None) or (pe["score"] is not None and abs(pe["score"] - obs["score"]) > TOL):
                fail("order-dependent", "overall score depends on the order of clips")
        return fails

    def nontrivial(self, c, o):
        if o["res"][0] != "ok":
            return False
        its = o["items"]
        if c["kind"].startswith("clip_"):
            return len(its) >= 2 and any(it["ytrue"] is not None or any(it["ind"]) for it in its)
        evs = [e for it in its for e in it["events"]]
        return len(evs) >= 2 and any(e["ytrue"] is not None for e in evs)

    def tags(self, c, o):
        return [c["kind"], f"nv:{c['nv']}", f"res:{o['res'][0]}", f"clips:{len(c['clips'])}"]


PROP = C09
