"""C17 — cropping and extending keep data on its coordinates and hit the requested size."""
from __future__ import annotations

from fractions import Fraction

from ..core import Prop, blit, guarded, listlit, optlit, qlit, zlit, natlit

EPS = Fraction(10e-6)  # the default eps of crop_dim / extend_dim, as the float the code uses
TOL_B = Fraction(1, 10**9)
POS = {"start": "PStart", "center": "PCenter", "end": "PEnd"}


def _axis(obs_axis):
    return listlit(obs_axis, lambda p: f"({qlit(p[0])}, {qlit(p[1])})")


class C17(Prop):
    ID = "C17"
    IMPORTS = ["Arr.CropExtend"]
    RULE = (
        "axes with integer / dyadic (stream A, exact) and decimal (stream B: 0.1, 0.01, 0.3, 1/3, 1/44100; counts exact, "
        "coordinates 1e-9) start and step, lengths 1..60, step from the attribute or estimated; crop ranges inside the axis and "
        "extend ranges containing it with boundaries on lattice points, between them (1/4, 1/2 step) and within eps of them, all "
        "four closedness combinations, None bounds, invalid ranges; widths smaller / equal / larger with the three positions, "
        "invalid widths and positions. Non-trivial = accepted call changing the axis; distinct by hash"
    )
    TRUSTED = [
        "xarray label slicing (.sel with slice), reindex and np.arange are re-implemented in Gallina and compared on every case",
    ]

    # ------------------------------------------------------------------ generation
    def _mk_axis(self, rng):
        stream = "A" if rng.random() < 0.6 else "B"
        n = rng.randint(1, 60) if rng.random() < 0.9 else rng.randint(1, 3)
        if stream == "A":
            step = Fraction(rng.randint(1, 16), 1 << rng.choice([0, 1, 2, 4]))
            start = Fraction(rng.randint(-32, 64), 1 << rng.choice([0, 1, 3]))
        else:
            step = Fraction(rng.choice([0.1, 0.01, 0.3, 1 / 3, 1 / 44100, 0.7, 2.5]))
            start = Fraction(rng.choice([0.0, 0.1, 1.3, -0.3, 10.7]))
        return {"stream": stream, "n": n, "step": step, "start": start, "attr": rng.random() < 0.7 or n < 3}

    def _case(self, rng):
        ax = self._mk_axis(rng)
        n, step, s0 = ax["n"], ax["step"], ax["start"]
        last = s0 + (n - 1) * step
        op = rng.choice(["crop", "crop", "extend", "extend", "adjust", "adjust", "crop_w", "extend_w"])
        if step < Fraction(1, 1000) and op in ("crop", "extend"):
            op = rng.choice(["adjust", "extend_w"])  # the quantifier asks for steps large compared with eps = 1e-5
        c = {"kind": op, "axis": ax, "fill": rng.choice([Fraction(0), Fraction(-1), Fraction(7)])}
        # decimal stream: boundaries stay >= step/4 away from lattice points (on-lattice is decided by rounding there)
        offs = [Fraction(0), Fraction(0), Fraction(1, 4), Fraction(1, 2), Fraction(3, 4)] if ax["stream"] == "A" else [Fraction(1, 4), Fraction(1, 2), Fraction(3, 4)]
        off = lambda: rng.choice(offs) * step
        near = lambda: rng.choice([EPS / 2, -EPS / 2, EPS * 2, -EPS * 2])
        if op == "crop":
            i = rng.randint(0, n - 1)
            j = rng.randint(i, n - 1)
            a = s0 + i * step + (off() if i < n - 1 else 0)
            b = s0 + j * step - (off() if j > 0 else 0)
            if ax["stream"] == "B":
                # the array's own coordinates (start + step*i in floats) are the only safe on-lattice bounds
                a = s0 + i * step - step / 4 if i > 0 else None
                b = s0 + j * step + step / 4 if j < n - 1 else None
                if a is not None and b is not None and a > b:
                    a = None
            r = rng.random()
            if r < 0.12 and ax["stream"] == "A":
                b = s0 + j * step + near()
            elif r < 0.2 and ax["stream"] == "A":
                a = s0 + i * step + near()
            if r > 0.9 and a is not None and b is not None:
                a, b = rng.choice([(s0 - step, b), (a, last + step), (b + step, a - step) if b + step > a - step else (a, b)])
            c["start"] = None if (a is None or rng.random() < 0.12) else a
            c["stop"] = None if (b is None or rng.random() < 0.12) else b
            c["right_closed"], c["left_closed"] = rng.random() < 0.5, rng.random() < 0.5
        elif op == "extend":
            k1, k2 = rng.randint(0, 12), rng.randint(0, 12)
            a = s0 - k1 * step - off()
            b = last + k2 * step + off()
            r = rng.random()
            if r < 0.12 and ax["stream"] == "A":
                a = s0 - k1 * step + near()
            elif r < 0.24 and ax["stream"] == "A":
                b = last + k2 * step + near()
            if a > s0:
                a = s0
            if b < last:
                b = last
            if r > 0.95:
                a, b = b + 1, a - 1
            c["start"] = None if rng.random() < 0.15 else a
            c["stop"] = None if rng.random() < 0.15 else b
            c["right_closed"], c["left_closed"] = rng.random() < 0.5, rng.random() < 0.5
        else:
            r = rng.random()
            if op == "crop_w":
                w = rng.choice([n, n, rng.randint(0, n + 1), rng.randint(0, n + 1), rng.randint(0, n + 1)])  # w = n must be rejected
            elif op == "extend_w":
                w = rng.choice([n, n, rng.randint(max(0, n - 1), n + 40), rng.randint(max(0, n - 1), n + 40), rng.randint(n, n + 40)])
            else:
                w = rng.choice([rng.randint(-1, 1), rng.randint(1, n), n, rng.randint(n, n + 40), rng.randint(1, n + 40)])
            c["width"] = w
            c["pos"] = rng.choice(["start", "center", "end"]) if r < 0.96 else "middle"
        if rng.random() < 0.2 and ax["stream"] == "A":
            c["pre"] = {"k1": rng.randint(0, 5), "k2": rng.randint(0, 5), "lc": rng.random() < 0.7, "rc": rng.random() < 0.3, "crop_back": rng.random() < 0.5}
        return c

    def cases(self, rng, tier):
        n = {"quick": 1500, "thorough": 30000}[tier]
        fixed = [
            {"kind": "extend_w", "axis": {"stream": "B", "n": 17, "step": Fraction(0.1), "start": Fraction(0.0), "attr": True}, "fill": Fraction(0), "width": 28, "pos": "start"},
            {"kind": "crop", "axis": {"stream": "A", "n": 10, "step": Fraction(1), "start": Fraction(0), "attr": True}, "fill": Fraction(0),
             "start": Fraction(0), "stop": Fraction(5) + Fraction(1, 10**6), "right_closed": False, "left_closed": True},
        ]
        # every (length, width, position) for short axes: the off-by-one corners (width = n-1, n+1, even/odd centre)
        sweep = []
        for nn in range(1, 13 if tier == "quick" else 25):
            ax = {"stream": "A", "n": nn, "step": Fraction(rng.choice([1, 2, 3]), rng.choice([1, 2, 4])), "start": Fraction(rng.randint(-8, 8), 2), "attr": nn < 3 or rng.random() < 0.5}
            for w in range(1, nn + 4):
                for pos in ("start", "center", "end"):
                    sweep.append({"kind": "adjust", "axis": ax, "fill": Fraction(0), "width": w, "pos": pos})
        return fixed + sweep + [self._case(rng) for _ in range(n)]

    # ------------------------------------------------------------------ implementation
    def _build(self, ax):
        import numpy as np
        import xarray as xr
        from soundevent.arrays import dimensions as D

        n, step, s0 = ax["n"], float(ax["step"]), float(ax["start"])
        coords = s0 + step * np.arange(n)
        # dyadic stream: exact lattice; decimal stream: what start + i*step gives in floats
        vals = np.arange(1, n + 1, dtype=np.float64)
        if ax["attr"]:
            var = xr.Variable(dims="time", data=coords, attrs={"step": step})
            arr = xr.DataArray(vals, dims=["time"], coords={"time": var})
        else:
            arr = xr.DataArray(vals, dims=["time"], coords={"time": coords})
        return arr

    @staticmethod
    def _obs_axis(arr):
        return [[Fraction(float(c)), Fraction(float(v))] for c, v in zip(arr.coords["time"].data, arr.data)]

    def run(self, c):
        from soundevent.arrays import operations as O

        arr = self._build(c["axis"])
        fl = lambda x: None if x is None else float(x)
        pre = c.get("pre")
        if pre:
            # the array under test is itself the result of earlier operations (it carries whatever attributes they left behind);
            # the operation is then judged on that array as observed
            ax = c["axis"]
            s0, st, n0 = ax["start"], ax["step"], ax["n"]
            e1 = guarded(O.extend_dim, arr, "time", start=fl(s0 - pre["k1"] * st), stop=fl(s0 + (n0 - 1 + pre["k2"]) * st + st / 2),
                         fill_value=float(c["fill"]), left_closed=pre["lc"], right_closed=pre["rc"])
            if e1[0] == "ok":
                # ... and cropped back to the original extent: same coordinates and data as the fresh array, different history
                e2 = guarded(O.crop_dim, e1[1], "time", start=fl(s0), stop=fl(s0 + (n0 - 1) * st + st / 2))
                if e2[0] == "ok" and e2[1].sizes["time"] == n0:
                    arr = e2[1]
        before = self._obs_axis(arr)
        k = c["kind"]
        if k == "crop":
            r = guarded(O.crop_dim, arr, "time", start=fl(c["start"]), stop=fl(c["stop"]), right_closed=c["right_closed"], left_closed=c["left_closed"])
        elif k == "extend":
            r = guarded(O.extend_dim, arr, "time", start=fl(c["start"]), stop=fl(c["stop"]), fill_value=float(c["fill"]),
                        right_closed=c["right_closed"], left_closed=c["left_closed"])
        elif k == "adjust":
            r = guarded(O.adjust_dim_width, arr, "time", c["width"], fill_value=float(c["fill"]), position=c["pos"])
        elif k == "crop_w":
            r = guarded(O.crop_dim_width, arr, "time", c["width"], position=c["pos"])
        else:
            r = guarded(O.extend_dim_width, arr, "time", c["width"], fill_value=float(c["fill"]), position=c["pos"])
        out = {"before": before}
        # the step the code will use (attribute or estimate), observed through the public helper
        from soundevent.arrays import get_dim_step

        st = guarded(get_dim_step, arr, "time")
        out["step"] = Fraction(float(st[1])) if st[0] == "ok" else None
        if r[0] != "ok":
            out["res"] = ["err", r[1]]
            out["msg"] = r[2]
            return out
        out["res"] = ["ok"]
        out["after"] = self._obs_axis(r[1])
        return out

    # ------------------------------------------------------------------ model
    def _model(self, c, o):
        a = _axis(o["before"])
        k = c["kind"]
        oq = lambda x: optlit(None if x is None else Fraction(float(x)), qlit)
        step = qlit(o["step"] if o["step"] is not None else 0)
        if k == "crop":
            return f"(crop_dim {a} {oq(c['start'])} {oq(c['stop'])} {blit(c['right_closed'])} {blit(c['left_closed'])} {qlit(EPS)})"
        if k == "extend":
            return (f"(extend_dim {a} {step} {oq(c['start'])} {oq(c['stop'])} {qlit(c['fill'])} {qlit(EPS)} "
                    f"{blit(c['left_closed'])} {blit(c['right_closed'])})")
        pos = POS.get(c["pos"])
        if pos is None:
            return None
        if k == "adjust":
            return f"(adjust_dim_width {a} {step} {zlit(c['width'])} {qlit(c['fill'])} {pos})"
        if k == "crop_w":
            return f"(crop_dim_width {a} {natlit(c['width'])} {pos})"
        return f"(extend_dim_width {a} {step} {natlit(c['width'])} {qlit(c['fill'])} {pos})"

    def agree(self, c, o):
        m = self._model(c, o)
        if m is None:  # invalid position name: only the oracle judges (must be rejected)
            return None
        if c["kind"] in ("extend", "extend_w", "adjust") and o["step"] is None and len(o["before"]) < 2:
            return None  # no step attribute and nothing to estimate from: outside the quantifier
        tol = qlit(0) if c["axis"]["stream"] == "A" else qlit(TOL_B)
        rhs = f"(Ok {_axis(o['after'])})" if o["res"][0] == "ok" else f"(Err {o['res'][1]})"
        return f"raxis_eqb {tol} {m} {rhs}"

    def show(self, c):
        o = self.run(c)
        return self._model(c, o)

    # ------------------------------------------------------------------ oracle
    def oracle(self, c, o):
        fails = []
        k = c["kind"]
        ax = c["axis"]
        before = o["before"]
        cs = [p[0] for p in before]
        tol = Fraction(0) if ax["stream"] == "A" else TOL_B

        def fail(kind, what, **a):
            fails.append({"kind": kind, "what": what, "attrs": dict(a, op=k)})

        def near_eps(x, bound):
            return bound is not None and abs(x - bound) <= EPS * 2

        if k == "crop":
            s = cs[0] if c["start"] is None else Fraction(float(c["start"]))
            e = cs[-1] if c["stop"] is None else Fraction(float(c["stop"]))
            lc = True if c["start"] is None else c["left_closed"]
            rc = True if c["stop"] is None else c["right_closed"]
            if s > e or s < cs[0] or e > cs[-1]:
                if o["res"][0] == "ok":
                    fail("crop-invalid-accepted", f"invalid crop range [{float(s)}, {float(e)}] accepted")
                return fails
            if o["res"][0] != "ok":
                fail("crop-rejected", f"valid crop raised {o['res'][1]}: {o.get('msg')}")
                return fails
            want = [p for p in before if (s <= p[0] if lc else s < p[0]) and (p[0] <= e if rc else p[0] < e)]
            if o["after"] != want:
                missing = [p for p in want if p not in o["after"]]
                extra = [p for p in o["after"] if p not in want]
                eps_related = all((not rc and near_eps(p[0], e) and p[0] < e) or (not lc and near_eps(p[0], s) and p[0] > s) for p in missing + extra)
                fail("crop-samples", f"crop [{'[' if lc else '('}{float(s)}, {float(e)}{']' if rc else ')'}: missing {[float(p[0]) for p in missing][:3]} unexpected {[float(p[0]) for p in extra][:3]}",
                     eps_open_end=bool(eps_related and (missing or extra)))
            return fails
        if k == "extend":
            s = cs[0] if c["start"] is None else Fraction(float(c["start"]))
            e = cs[-1] if c["stop"] is None else Fraction(float(c["stop"]))
            if s > e:
                if o["res"][0] == "ok":
                    fail("extend-invalid-accepted", "start > stop accepted")
                return fails
            if s > cs[0] or e < cs[-1]:
                return fails  # range must contain the axis (quantifier)
            if o["step"] is None:
                return fails
            if o["res"][0] != "ok":
                fail("extend-rejected", f"valid extend raised {o['res'][1]}: {o.get('msg')}")
                return fails
            step = o["step"]
            lc, rc = c["left_closed"], c["right_closed"]
            after = o["after"]
            # originals kept at their coordinates with their values, in order
            kept = [p for p in after if p[0] in set(cs)]
            if kept != before:
                fail("extend-originals", "original samples are not all kept at their coordinates with their values")
            new = [p for p in after if p[0] not in set(cs)]
            if any(p[1] != c["fill"] for p in new):
                fail("extend-fill", "a new sample does not hold the fill value")
            # lattice points inside the request
            want_lo, kk = [], 1
            while True:
                p = cs[0] - kk * step
                if (p >= s if lc else p > s) if ax["stream"] == "A" else (p > s - step / 8):
                    want_lo.append(p)
                    kk += 1
                else:
                    break
                if kk > 100000:
                    break
            want_hi, kk = [], 1
            while True:
                p = cs[-1] + kk * step
                if (p <= e if rc else p < e) if ax["stream"] == "A" else (p < e + step / 8):
                    want_hi.append(p)
                    kk += 1
                else:
                    break
                if kk > 100000:
                    break
            got_lo = [p[0] for p in after if p[0] < cs[0]]
            got_hi = [p[0] for p in after if p[0] > cs[-1]]
            close = lambda x, y: abs(x - y) <= tol * max(1, abs(x))
            def same(a, b):
                return len(a) == len(b) and all(close(x, y) for x, y in zip(a, b))
            if ax["stream"] == "B":
                # decimal stream: boundaries are generated >= step/4 away from lattice points or on them; on-lattice is ambiguous in floats
                amb_lo = any(abs((cs[0] - s) / step - round((cs[0] - s) / step)) < Fraction(1, 8) for _ in [0])
                amb_hi = any(abs((e - cs[-1]) / step - round((e - cs[-1]) / step)) < Fraction(1, 8) for _ in [0])
            else:
                amb_lo = amb_hi = False
            if not amb_lo and not same(sorted(got_lo), sorted(want_lo)):
                d = set(got_lo) ^ set(want_lo)
                eps_rel = ax["stream"] == "A" and all(near_eps(p, s) for p in d)
                fail("extend-lattice", f"left extension has {len(got_lo)} points, lattice points inside the request: {len(want_lo)}", eps_closed_end=bool(eps_rel))
            if not amb_hi and not same(sorted(got_hi), sorted(want_hi)):
                d = set(got_hi) ^ set(want_hi)
                eps_rel = ax["stream"] == "A" and all(near_eps(p, e) for p in d)
                fail("extend-lattice", f"right extension has {len(got_hi)} points, lattice points inside the request: {len(want_hi)}", eps_closed_end=bool(eps_rel))
            return fails
        # width operations
        n, w = len(before), c["width"]
        if c["pos"] not in POS:
            if o["res"][0] == "ok" and not (k == "adjust" and w == n):
                fail("bad-position-accepted", f"position {c['pos']!r} accepted")
            return fails
        if k == "adjust" and w < 1:
            if o["res"] != ["err", "EValue"]:
                fail("width-invalid-accepted", f"width {w} gave {o['res']}")
            return fails
        if (k == "crop_w" and w >= n) or (k == "extend_w" and w <= n):
            if o["res"] != ["err", "EValue"]:
                fail("width-direction-accepted", f"{k} with width {w} on {n} samples gave {o['res']}")
            return fails
        if k == "crop_w" and w == 0:
            return fails  # width >= 1 is the quantifier
        if o["step"] is None and w > n:
            return fails
        if o["res"][0] != "ok":
            fail("width-rejected", f"{k} width {w} on {n} samples raised {o['res'][1]}: {o.get('msg')}")
            return fails
        after = o["after"]
        if len(after) != w:
            fail("width-not-exact", f"{k} to width {w} ({c['pos']}) returned {len(after)} samples (axis of {n}, step {float(ax['step'])})", off_by=len(after) - w)
            return fails
        if w <= n:
            start = {"start": 0, "end": n - w, "center": max(0, n // 2 - w // 2)}[c["pos"]]
            if after != before[start:start + w]:
                fail("width-placement", f"crop to {w} at {c['pos']} is not samples {start}..{start + w}")
        else:
            extra = w - n
            lo = {"start": 0, "end": extra, "center": extra // 2}[c["pos"]]
            if after[lo:lo + n] != before:
                fail("width-placement", f"extend to {w} at {c['pos']}: original block not at offset {lo}")
            if any(p[1] != c["fill"] for p in after[:lo] + after[lo + n:]):
                fail("extend-fill", "a new sample does not hold the fill value")
            step = o["step"]
            for i, p in enumerate(after):
                wantc = before[0][0] + (i - lo) * step
                if abs(p[0] - wantc) > max(tol, Fraction(1, 10**9)) * max(1, abs(wantc)):
                    fail("width-lattice", f"sample {i} at {float(p[0])} is off the axis lattice ({float(wantc)})")
                    break
        return fails

    def nontrivial(self, c, o):
        return o["res"][0] == "ok" and o.get("after") != o["before"]

    def tags(self, c, o):
        t = [c["kind"], f"stream{c['axis']['stream']}", f"{c['kind']}:{o['res'][0]}", "step:attr" if c["axis"]["attr"] else "step:estimated"]
        if "pos" in c:
            t.append(f"pos:{c['pos']}")
        return t


PROP = C17
