"""C16 — range dimensions and coordinate lookup are exact."""
from __future__ import annotations

import itertools
from fractions import Fraction

from ..core import F, Prop, blit, guarded, listlit, optlit, pairlit, qlit, zlit, natlit

TOL_B = Fraction(1, 10**9)


def _coords(xs):
    return listlit(xs, qlit)


class C16(Prop):
    ID = "C16"
    IMPORTS = ["Arr.Index"]
    PRELUDE = (
        "Definition rz := res_eqb Z.eqb.\n"
        "Definition rl (tol : Q) := res_eqb (qlist_close tol).\n"
    )
    RULE = (
        "range cases: stream A dyadic start/step (exact comparison) and stream B decimal steps 0.1, 0.01, 0.3, 1/3, "
        "1/44100, 1/22050 with quotient within 1/4 of a whole number (counts exact, coordinates rel 1e-9), by step / "
        "size / samplerate through the three constructors; index cases: queries on, between, at and beyond the edges of "
        "axes taken from the real constructor, raise and clamp; set_value_at_pos on 1-3-d arrays with scalar and tuple "
        "values. Non-trivial = accepted input with >=2 coordinates / in-range query / at least one untouched cell."
    )
    TRUSTED = [
        "np.arange length/fill rule and pandas get_slice_bound are re-implemented in Gallina and compared on every case",
        "xarray attaches the coordinates it is given (observed through .coords / .indexes)",
    ]

    # ------------------------------------------------------------------ generation
    def _range_case(self, rng):
        stream = "A" if rng.random() < 0.6 else "B"
        fn = rng.choice(["range", "range", "time", "freq"])
        if stream == "A":
            bits = rng.choice([0, 1, 2, 3, 5])
            step = Fraction(rng.randint(1, 24), 1 << bits)
            start = Fraction(rng.randint(-32, 64), 1 << rng.choice([0, 1, 3]))
            if fn != "range":
                start = abs(start)
            if rng.random() < 0.08:
                # axes far from the origin relative to their step (epoch seconds, GHz): still exact in binary64
                start = Fraction(rng.choice([1_700_000_000, 10**9, 2**40, 1_600_000_000]))
                step = Fraction(rng.choice([1, 1, 2, 4]), rng.choice([1, 2, 4]))
            r = rng.random()
            n = rng.randint(0, 40)  # 0: quotients below 1 (one point, or none when the quotient is below 1/2)
            if r < 0.5:
                stop = start + n * step
            elif r < 0.8:
                stop = start + n * step + step * Fraction(rng.choice([1, 2, 3, 5, 6, 7]), 8)
            elif r < 0.9:
                stop = start + n * step + step / 2
            else:
                stop = start  # empty range
            mode = rng.choice(["step", "step", "size", "samplerate"]) if fn != "freq" else "step"
            c = {"kind": "range", "stream": "A", "fn": fn, "start": start, "stop": stop, "step": None, "size": None, "samplerate": None}
            if mode == "step" or (mode == "samplerate" and fn != "time"):
                c["step"] = step
            elif mode == "size":
                if fn == "range":
                    c["size"] = rng.choice([max(n, 1), max(n, 1), 1, 2, 4, 8, 16])
                    if c["stop"] > c["start"]:
                        d = ((c["stop"] - c["start"]) / c["size"]).denominator
                        if d & (d - 1):
                            c["stream"] = "B"  # step not dyadic: float division rounds
                else:
                    c["step"] = step
            else:
                sr = Fraction(1 << rng.randint(0, 6))
                c["samplerate"] = sr
                k = rng.randint(1, 60)
                c["stop"] = start + Fraction(k, sr) + (Fraction(rng.choice([0, 0, 1, 3]), 4 * sr))
            if fn == "time" and c["step"] is not None and c["samplerate"] is None and rng.random() < 0.3:
                # both given: the documented rule is that the step takes precedence
                c["samplerate"] = Fraction(1 << rng.randint(0, 6))
            return c
        # stream B: decimal floats
        step_f = rng.choice([0.1, 0.01, 0.3, 1 / 3, 1 / 44100, 1 / 22050, 0.2, 0.7, 1e-3, 2.5])
        start_f = rng.choice([0.0, 0.1, 0.5, 1.3, 2.0, 10.7]) if fn != "range" else rng.choice([0.0, -0.3, 0.1, 1.3, 17.9])
        n = rng.randint(1, 60)
        frac = rng.choice([0.0, 0.0, 0.0, 0.1, -0.1, 0.2, 0.25, -0.2])
        stop_f = start_f + (n + frac) * step_f
        c = {"kind": "range", "stream": "B", "fn": fn, "start": Fraction(start_f), "stop": Fraction(stop_f), "step": Fraction(step_f), "size": None, "samplerate": None}
        if fn == "time" and rng.random() < 0.3:
            sr = rng.choice([44100.0, 22050.0, 8000.0, 10.0, 3.0])
            c["step"] = None
            c["samplerate"] = Fraction(sr)
            c["stop"] = Fraction(start_f + (n + frac) / sr)
        return c

    @staticmethod
    def _margin_ok(c):
        """stream B: exact quotient must be within 1/4 of a whole number (and > 1/2)"""
        step = c["step"] if c["step"] is not None else (1 / c["samplerate"] if c["samplerate"] else None)
        if step is None or step <= 0:
            return True
        q = (c["stop"] - c["start"]) / step
        near = round(q)
        return abs(q - near) <= Fraction(1, 4) + Fraction(1, 100) and q > Fraction(3, 4)

    def _index_case(self, rng):
        # axis from the real constructor (dyadic) or an irregular increasing axis
        if rng.random() < 0.7:
            step = Fraction(rng.randint(1, 12), 1 << rng.choice([0, 1, 2, 4]))
            start = Fraction(rng.randint(-16, 32), 4)
            n = rng.randint(1, 30)
            axis = {"ctor": [start, start + n * step, step]}
            coords = [start + i * step for i in range(n)]
            if n >= 3 and rng.random() < 0.35:
                # history: the array was used, then cut down (isel / sel / crop_dim keep the coordinate's attributes): the
                # lookup must be about the axis the array has now
                i0 = rng.randint(0, n - 2)
                i1 = rng.randint(i0 + 1, n)
                full = coords
                axis["crop"] = [i0, i1, rng.choice(["isel", "sel", "crop_dim"])]
                coords = coords[i0:i1]
                if rng.random() < 0.7:
                    outside = [x for x in full if x < coords[0] or x > coords[-1]]
                    if outside:
                        v = rng.choice(outside) + rng.choice([Fraction(0), step / 2, -step / 4])
                        return {"kind": "index", "axis": axis, "v": v, "raise": rng.random() < 0.5}
        else:
            n = rng.randint(1, 12)
            x = Fraction(rng.randint(-16, 16), 4)
            coords = []
            for _ in range(n):
                coords.append(x)
                x += Fraction(rng.randint(1, 9), 8)
            axis = {"raw": coords}
        r = rng.random()
        if r < 0.3:
            v = rng.choice(coords)
        elif r < 0.6 and len(coords) > 1:
            i = rng.randrange(len(coords) - 1)
            v = coords[i] + (coords[i + 1] - coords[i]) * Fraction(rng.choice([1, 2, 3]), 4)
        elif r < 0.7:
            v = coords[0]
        elif r < 0.8:
            v = coords[-1]
        elif r < 0.85:
            v = coords[-1] + Fraction(rng.choice([1, 8, 64]), 8)
        elif r < 0.9:
            v = coords[0] - Fraction(rng.choice([1, 8, 64]), 8)
        else:
            # a hair outside / inside an edge or a coordinate: "close to" is not "equal to" (all values dyadic, so exact)
            eps = Fraction(1, 2 ** rng.choice([20, 30, 40]))
            v = rng.choice([coords[0] - eps, coords[-1] + eps, coords[0] + eps, coords[-1] - eps, rng.choice(coords) - eps])
            if Fraction(float(v)) != v:  # must be a double, or the implementation sees another number than the model
                v = Fraction(float(v))
        return {"kind": "index", "axis": axis, "v": v, "raise": rng.random() < 0.5}

    def _setpos_case(self, rng):
        nd = rng.randint(1, 3)
        shape = [rng.randint(1, 4) for _ in range(nd)]
        coords = []
        for n in shape:
            st = Fraction(rng.randint(1, 4), 2)
            s0 = Fraction(rng.randint(0, 8), 2)
            coords.append([s0 + i * st for i in range(n)])
        size = 1
        for n in shape:
            size *= n
        data = [Fraction(rng.randint(-9, 9)) for _ in range(size)]
        query = []
        for ax in range(nd):
            if rng.random() < 0.6:
                cs = coords[ax]
                r = rng.random()
                if r < 0.6:
                    v = rng.choice(cs)
                elif r < 0.85:
                    v = rng.choice(cs) + Fraction(1, 4)
                    v = min(v, cs[-1])
                elif r < 0.93:
                    v = cs[-1] + 1 if rng.random() < 0.5 else cs[0] - 1
                else:
                    eps = Fraction(1, 2 ** rng.choice([20, 30, 40]))
                    v = rng.choice([cs[0] - eps, cs[-1] + eps, rng.choice(cs) - eps])
                    v = Fraction(float(v))
                query.append(v)
            else:
                query.append(None)
        rem = [shape[a] for a in range(nd) if query[a] is None]
        rem_size = 1
        for n in rem:
            rem_size *= n
        if rng.random() < 0.4 and len(rem) == 1:
            k = rem_size if rng.random() < 0.85 else rem_size + 1
            value = [Fraction(rng.randint(10, 99)) for _ in range(k)]
        else:
            value = Fraction(rng.randint(10, 99))
        return {"kind": "setpos", "coords": coords, "data": data, "query": query, "value": value,
                "layout": rng.choice(["plain", "plain", "coords-reversed", "transposed"])}

    def cases(self, rng, tier):
        n = {"quick": 1, "thorough": 20}[tier]
        out = []
        k = 0
        while k < 1200 * n:
            c = self._range_case(rng)
            if c["stream"] == "B" and not self._margin_ok(c):
                continue
            out.append(c)
            k += 1
        out += [self._index_case(rng) for _ in range(900 * n)]
        out += [self._setpos_case(rng) for _ in range(400 * n)]
        return out

    # ------------------------------------------------------------------ implementation
    def run(self, c):
        import numpy as np
        import xarray as xr
        from soundevent import arrays
        from soundevent.arrays import dimensions as D
        from soundevent.arrays import operations as O

        fl = lambda x: None if x is None else float(x)
        k = c["kind"]
        if k == "range":
            if c["fn"] == "range":
                r = guarded(
                    D.create_range_dim, "x", fl(c["start"]), fl(c["stop"]), step=fl(c["step"]),
                    size=None if c["size"] is None else int(c["size"]),
                )
            elif c["fn"] == "time":
                r = guarded(D.create_time_range, fl(c["start"]), fl(c["stop"]), step=fl(c["step"]), samplerate=fl(c["samplerate"]))
            else:
                r = guarded(D.create_frequency_range, fl(c["start"]), fl(c["stop"]), fl(c["step"]))
            if r[0] != "ok":
                return {"res": ["err", r[1]], "msg": r[2]}
            var = r[1]
            return {
                "res": ["ok"],
                "coords": [Fraction(float(x)) for x in var.data],
                "step_attr": Fraction(float(var.attrs["step"])) if "step" in var.attrs else None,
                "dims": list(var.dims),
            }
        if k == "index":
            ax = c["axis"]
            if "ctor" in ax:
                s, e, st = ax["ctor"]
                var = D.create_range_dim("time", float(s), float(e), step=float(st))
                arr = xr.DataArray(np.zeros(var.shape[0]), dims=["time"], coords={"time": var})
                if ax.get("crop"):
                    i0, i1, via = ax["crop"]
                    full = [float(x) for x in arr.coords["time"].data]
                    for warm in (lambda: D.get_coord_index(arr, "time", full[0]), lambda: D.get_dim_range(arr, "time"),
                                 lambda: O.set_value_at_pos(arr.copy(), 1.0, time=full[-1])):
                        try:
                            warm()
                        except Exception:
                            pass
                    if via == "isel":
                        arr = arr.isel(time=slice(i0, i1))
                    elif via == "sel":
                        arr = arr.sel(time=slice(full[i0], full[i1 - 1]))
                    else:
                        arr = arrays.crop_dim(arr, "time", start=full[i0], stop=full[i1 - 1], right_closed=True)
            else:
                cs = [float(x) for x in ax["raw"]]
                arr = xr.DataArray(np.zeros(len(cs)), dims=["time"], coords={"time": cs})
            coords = [Fraction(float(x)) for x in arr.coords["time"].data]
            r = guarded(D.get_coord_index, arr, "time", float(c["v"]), raise_error=c["raise"])
            if r[0] != "ok":
                return {"res": ["err", r[1]], "msg": r[2], "coords": coords}
            return {"res": ["ok", int(r[1])], "coords": coords}
        # setpos
        shape = [len(x) for x in c["coords"]]
        dims = ["time", "frequency", "channel"][: len(shape)]
        data = np.array([float(x) for x in c["data"]], dtype=np.float64).reshape(shape)
        cdict = {d: [float(x) for x in cs] for d, cs in zip(dims, c["coords"])}
        layout = c.get("layout", "plain")
        if layout == "coords-reversed":  # the order in which coordinates are listed is not the order of the axes
            arr = xr.DataArray(data.copy(), dims=dims, coords=dict(reversed(list(cdict.items()))))
        elif layout == "transposed":  # built the other way round, then transposed: axis numbers and coordinate order differ
            rd = list(reversed(dims))
            arr = xr.DataArray(np.ascontiguousarray(data.transpose(*reversed(range(len(dims))))), dims=rd, coords={d: cdict[d] for d in rd}).transpose(*dims)
        else:
            arr = xr.DataArray(data.copy(), dims=dims, coords=cdict)
        q = {d: float(v) for d, v in zip(dims, c["query"]) if v is not None}
        val = c["value"]
        val = tuple(float(x) for x in val) if isinstance(val, list) else float(val)
        r = guarded(O.set_value_at_pos, arr, val, **q)
        if r[0] != "ok":
            return {"res": ["err", r[1]], "msg": r[2], "after_error": [Fraction(float(x)) for x in arr.transpose(*dims).data.reshape(-1)]}
        out = r[1]
        return {
            "res": ["ok"],
            "data": [Fraction(float(x)) for x in out.transpose(*dims).data.reshape(-1)],
            "shape": list(out.transpose(*dims).shape),
            "coords_same": all(list(out.coords[d].data) == [float(x) for x in cs] for d, cs in zip(dims, c["coords"])),
        }

    # ------------------------------------------------------------------ model
    def _model(self, c, o=None):
        k = c["kind"]
        if k == "range":
            oq = lambda x: optlit(x, qlit)
            if c["fn"] == "range":
                return f"(create_range_dim {qlit(c['start'])} {qlit(c['stop'])} {oq(c['step'])} {optlit(c['size'], zlit)})"
            if c["fn"] == "time":
                return f"(create_time_range {qlit(c['start'])} {qlit(c['stop'])} {oq(c['step'])} {oq(c['samplerate'])})"
            return f"(create_frequency_range {qlit(c['start'])} {qlit(c['stop'])} {qlit(c['step'])})"
        if k == "index":
            return f"(get_coord_index {_coords(o['coords'])} {qlit(c['v'])} {blit(c['raise'])})"
        val = c["value"]
        v = f"(Block {_coords(val)})" if isinstance(val, list) else f"(Scalar {qlit(val)})"
        return (
            f"(set_value_at_pos {listlit(c['coords'], _coords)} {_coords(c['data'])} {v} "
            f"{listlit(c['query'], lambda x: optlit(x, qlit))})"
        )

    def agree(self, c, o):
        k = c["kind"]
        m = self._model(c, o)
        if k == "range":
            tol = qlit(0) if c["stream"] == "A" else qlit(TOL_B)
            if o["res"][0] == "ok":
                if o["step_attr"] is None:
                    return "false"
                rhs = f"(Ok ({_coords(o['coords'])}, {qlit(o['step_attr'])}))"
            else:
                rhs = f"(Err {o['res'][1]})"
            return f"range_res_eqb {tol} {m} {rhs}"
        if k == "index":
            rhs = f"(Ok {zlit(o['res'][1])})" if o["res"][0] == "ok" else f"(Err {o['res'][1]})"
            return f"rz {m} {rhs}"
        rhs = f"(Ok {_coords(o['data'])})" if o["res"][0] == "ok" else f"(Err {o['res'][1]})"
        return f"rl 0 {m} {rhs}"

    def show(self, c):
        if c["kind"] == "index":
            o = self.run(c)
            return self._model(c, o)
        return self._model(c)

    # ------------------------------------------------------------------ oracle
    def oracle(self, c, o):
        fails = []

        def fail(kind, what, **attrs):
            fails.append({"kind": kind, "what": what, "attrs": attrs})

        k = c["kind"]
        if k == "range":
            step = c["step"]
            if step is None and c["samplerate"] is not None:
                step = 1 / c["samplerate"]
            if step is None and c["size"] is not None:
                step = (c["stop"] - c["start"]) / c["size"]
            if step is None:
                if o["res"] != ["err", "EValue"]:
                    fail("missing-step-accepted", f"neither step nor size: expected ValueError, got {o['res']}")
                return fails
            if c["stop"] <= c["start"]:
                return fails  # outside the quantifier (empty range)
            if o["res"][0] != "ok":
                fail("valid-range-rejected", f"valid range raised {o['res']} {o.get('msg')}")
                return fails
            tol = Fraction(0) if c["stream"] == "A" else TOL_B
            cs = o["coords"]
            for i, x in enumerate(cs):
                want = c["start"] + i * step
                if abs(x - want) > tol * max(1, abs(want)):
                    fail("off-lattice", f"coordinate {i} is {float(x)!r}, expected start+i*step={float(want)!r}")
                    break
                if not (c["start"] - tol * max(1, abs(c["start"])) <= x < c["stop"]):
                    fail("outside-range", f"coordinate {i}={float(x)!r} not in [start, stop)=[{float(c['start'])}, {float(c['stop'])})")
                    break
            q = (c["stop"] - c["start"]) / step
            near = round(q)
            if abs(q - near) <= Fraction(1, 10**6) and near >= 1 and len(cs) != near:
                fail("count", f"(stop-start)/step = {float(q)} is whole but {len(cs)} coordinates were produced")
            if o["step_attr"] is None or abs(o["step_attr"] - step) > tol * max(1, abs(step)):
                fail("step-attr", f"step attribute {o['step_attr']} != step {step}")
            return fails
        if k == "index":
            cs, v = o["coords"], c["v"]
            if not cs:
                return fails
            if v < cs[0] or v > cs[-1]:
                if c["raise"]:
                    want = ["err", "EKey"]
                else:
                    want = ["ok", 0 if v < cs[0] else len(cs)]
            else:
                i = max(j for j, x in enumerate(cs) if x <= v)
                want = ["ok", i]
            if o["res"] != want:
                fail("coord-index", f"get_coord_index({float(v)}) on {len(cs)} coords: expected {want}, got {o['res']}")
            return fails
        # setpos
        shape = [len(x) for x in c["coords"]]
        indexer = []
        bad = False
        for cs, qv in zip(c["coords"], c["query"]):
            if qv is None:
                indexer.append(None)
            elif qv < cs[0] or qv > cs[-1]:
                bad = True
                indexer.append(None)
            else:
                indexer.append(max(j for j, x in enumerate(cs) if x <= qv))
        if bad:
            if o["res"] != ["err", "EKey"]:
                fail("setpos-outside", f"query outside the axis: expected KeyError, got {o['res']}")
            elif o.get("after_error") != c["data"]:
                fail("setpos-modified-on-error", "array modified although the call raised")
            return fails
        positions = list(itertools.product(*[range(n) for n in shape]))
        addressed = [all(ix is None or ix == p[a] for a, ix in enumerate(indexer)) for p in positions]
        val = c["value"]
        if isinstance(val, list) and len(val) != sum(addressed):
            if o["res"][0] == "ok":
                fail("setpos-bad-block-accepted", "block of wrong length accepted")
            return fails
        if o["res"][0] != "ok":
            fail("setpos-rejected", f"valid call raised {o['res']} {o.get('msg')}")
            return fails
        want, kcount = [], 0
        for old, a in zip(c["data"], addressed):
            if a:
                want.append(val[kcount] if isinstance(val, list) else val)
                kcount += 1
            else:
                want.append(old)
        if o["data"] != want or o["shape"] != shape or not o["coords_same"]:
            fail("setpos-cells", f"cells differ: expected {[str(x) for x in want]}, got {[str(x) for x in o['data']]}")
        return fails

    def nontrivial(self, c, o):
        if o["res"][0] != "ok":
            return False
        if c["kind"] == "range":
            return len(o["coords"]) >= 2
        if c["kind"] == "index":
            return o["coords"][0] <= c["v"] <= o["coords"][-1] and len(o["coords"]) >= 2
        return any(q is not None for q in c["query"]) and len(c["data"]) >= 2

    def tags(self, c, o):
        k = c["kind"]
        t = [k, f"{k}:{o['res'][0]}" + (f":{o['res'][1]}" if o["res"][0] == "err" else "")]
        if k == "range":
            t.append(f"range:stream{c['stream']}:{c['fn']}")
            step = c["step"] or (1 / c["samplerate"] if c["samplerate"] else None)
            if step and c["stop"] > c["start"]:
                q = (c["stop"] - c["start"]) / step
                t.append("range:whole-quotient" if abs(q - round(q)) < Fraction(1, 10**6) else "range:fractional-quotient")
        elif k == "index" and o["coords"]:
            cs, v = o["coords"], c["v"]
            t.append("index:on-coord" if v in cs else ("index:outside" if v < cs[0] or v > cs[-1] else "index:between"))
        elif k == "setpos":
            t.append("setpos:block" if isinstance(c["value"], list) else "setpos:scalar")
            t.append(f"setpos:{len(c['coords'])}d")
            t.append("setpos-layout:" + c.get("layout", "plain"))
        return t


PROP = C16
