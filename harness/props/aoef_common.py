"""Common part of the AOEF checks (C01, C02): run the real save / load on a generated object graph, convert objects and
the JSON document to the generic nodes / flat records of Aoef/Model.v."""
from __future__ import annotations

import json
import shutil

from ..core import BUILD, Prop
from ..core import guarded as _guarded


def guarded(fn, *a, **k):
    """(status, value): status 'ok' or the error class (EValue, ...)"""
    r = _guarded(fn, *a, **k)
    return ("ok", r[1]) if r[0] == "ok" else (r[1], r[2])
from .. import aoef as A
from .. import aoefgen as GG



def earlier_version(x, memo):
    """a copy of an object graph in which every object keeps its identifier but has other content: the last tag, note and
    feature of every list is missing and free-text fields differ (built with model_copy, like an edit in an application)"""
    from pydantic import BaseModel

    if isinstance(x, BaseModel):
        if id(x) in memo:
            return memo[id(x)]
        upd = {}
        for name in type(x).model_fields:
            v = getattr(x, name)
            nv = earlier_version(v, memo)
            if name in ("tags", "features", "notes") and isinstance(nv, list) and nv:
                nv = nv[:-1]
            elif name in ("license", "description", "rights", "message") and isinstance(v, str):
                nv = v + " (draft)"
            upd[name] = nv
        y = x.model_copy(update=upd)
        memo[id(x)] = y
        return y
    if isinstance(x, list):
        return [earlier_version(e, memo) for e in x]
    if isinstance(x, tuple):
        return tuple(earlier_version(e, memo) for e in x)
    return x


class Obs(dict):
    """observation: the dict part goes to replay files, `.x` holds the heavy in-memory extras"""

    def __init__(self, *a, **k):
        super().__init__(*a, **k)
        self.x = {}


class AoefProp(Prop):
    IMPORTS = ["Aoef.Model", "Aoef.Schema", "Aoef.Typing"]
    PRELUDE = "Open Scope Z_scope.\n"
    CHUNK = 12
    CYCLES = 1
    REFERENCES_ONLY = False

    def setup(self, tier):
        self.dir = BUILD / f"aoef_{self.ID}"
        shutil.rmtree(self.dir, ignore_errors=True)
        self.dir.mkdir(parents=True, exist_ok=True)
        self.inv = A.inventory_problems(references_only=self.REFERENCES_ONLY)
        # the translator's reading of the adapters must equal the schema table (else the model is not known to describe the code)
        from .. import aoef_extract as E
        from ..core import REPO_SRC

        self.ASSUMPTIONS = list(type(self).ASSUMPTIONS)
        try:
            self.extraction = E.extract_all(REPO_SRC, with_load=not self.REFERENCES_ONLY)
            diffs = E.differences(self.extraction)
            if self.REFERENCES_ONLY:
                diffs = [d for d in diffs if "document fields written" not in d and "data fields rebuilt" not in d
                         and "document field" not in d and "data field" not in d]
            # a unit that is read and differs from the schema table breaks the correspondence; a unit the translator cannot
            # read does not: it is recorded, and for it this run is tied to the code by the differential comparison alone
            self.inv += ["translator: " + d for d in diffs]
            for d in E.differences(self.extraction, advisory=True):
                self.ASSUMPTIONS.append("translator (advisory, data-flow reading): " + d)
            for u in self.extraction["unreadable"]:
                self.ASSUMPTIONS.append("translator could not read " + u + " — schema table used for it; tie = correspondence only")
        except Exception as e:
            self.extraction = None
            self.ASSUMPTIONS.append(f"translator failed ({type(e).__name__}: {e}) — schema table used; tie = correspondence only")
        self._n = 0

    def teardown(self):
        shutil.rmtree(self.dir, ignore_errors=True)

    # ------------------------------------------------------------------ generation
    def _case(self, rng, root, tier):
        r = rng.random()
        return {
            "kind": root, "root": root, "seed": rng.getrandbits(48),
            "size": rng.choice([0.4, 1.0, 1.0, 1.6] if tier == "quick" else [0.4, 1.0, 1.6, 2.5, 4.0]),
            "simple_terms": rng.random() < 0.8,
            "audio_dir": None if r < 0.4 else "/data/audio",
            "cycles": 1 if tier == "quick" else rng.choice([1, 2, 3]),
        }

    def cases(self, rng, tier):
        n = 30 if tier == "quick" else 300
        out = [self._case(rng, root, tier) for root in A.ROOT_NAMES for _ in range(n)]
        # history: an earlier version of the same collection (same identifiers everywhere, other content: fewer tags, notes and
        # features, other free-text fields) was saved before in this process — an autosave, a correction of labels
        for root in A.ROOT_NAMES:
            for _ in range(max(3, n // 4)):
                c = self._case(rng, root, tier)
                c["before"] = True
                out.append(c)
        return out

    # ------------------------------------------------------------------ run
    def run(self, case):
        from soundevent import io

        obj, _g = GG.build_case(case)
        I = A.Interner()
        root = case["root"]
        ad = case.get("audio_dir")
        self._n += 1
        p = self.dir / f"c{self._n}.json"
        o = Obs()
        o.x["node"] = A.node_of(I, root, obj)
        o.x["obj"] = obj
        o["nodes"] = A.node_size(o.x["node"])
        cur = obj
        o["cycles"] = []
        if case.get("before"):
            p0 = self.dir / f"c{self._n}_before.json"
            guarded(io.save, earlier_version(obj, {}), p0, audio_dir=ad)
            p0.unlink(missing_ok=True)
        for cyc in range(case.get("cycles", 1)):
            st, _ = guarded(io.save, cur, p, audio_dir=ad)
            if st != "ok":
                o["cycles"].append({"save": st})
                break
            text = p.read_text()
            doc = json.loads(text)
            st, back = guarded(io.load, p, audio_dir=ad)  # a fresh call: fresh adapters
            ent = {"save": "ok", "load": st}
            if cyc == 0:
                o["doc_json"] = doc
                tabs, rf = A.DocReader(I, doc["data"], ad).read(root)
                o.x["tables"], o.x["rootflat"] = tabs, rf
            if st != "ok":
                o["cycles"].append(ent)
                break
            ent["type"] = type(back).__name__
            ent["equal"] = self.same(cur if cyc else obj, back, case)
            if cyc == 0:
                tn = type(back).__name__
                o.x["loaded"] = A.node_of(I, tn, back) if tn in A.RIDX else None
            else:
                ent["doc_fixpoint"] = self._strip(doc) == self._strip(o["doc_json"])
            o["cycles"].append(ent)
            cur = back
        p.unlink(missing_ok=True)
        return o

    @staticmethod
    def _strip(doc):
        d = dict(doc)
        d.pop("created_on", None)  # envelope timestamp
        return d

    def same(self, a, b, case):
        """field-by-field structural equality over the declared fields (introspected); terms modulo the permitted
        reduction (term -> term_from_key(label)); returns list of differing paths"""
        from soundevent import data

        out = []

        def walk(x, y, path):
            if len(out) > 8:
                return
            if isinstance(x, data.Term) and isinstance(y, data.Term):
                if data.term_from_key(x.label) != y:
                    out.append(path + ":term")
                return
            if type(x) is not type(y) and not (isinstance(x, (list, tuple)) and isinstance(y, (list, tuple))):
                out.append(f"{path}:type {type(x).__name__}->{type(y).__name__}")
                return
            if hasattr(type(x), "model_fields"):
                for f in type(x).model_fields:
                    walk(getattr(x, f), getattr(y, f), f"{path}.{f}")
            elif isinstance(x, (list, tuple)):
                if len(x) != len(y):
                    out.append(f"{path}:len {len(x)}->{len(y)}")
                    return
                for i, (p, q) in enumerate(zip(x, y)):
                    walk(p, q, f"{path}[{i}]")
            elif x != y:
                out.append(f"{path}: {x!r}->{y!r}"[:160])

        walk(a, b, type(a).__name__)
        return out

    # ------------------------------------------------------------------ Coq expressions
    def root_name(self, case):
        return f"root_{case['root']}"

    def doc_expr(self, o):
        return A.doc_lit(o.x["tables"], o.x["rootflat"])

    def save_agrees(self, case, o, eq="doc_eqb"):
        # the theorem's hypotheses hold on this very object (non-vacuity, evaluated on every case) and the documents agree
        nl = A.node_lit(o.x['node'])
        return (f"wfb current {self.root_name(case)} {nl} && {eq} ncls_tables inline_classes (save_root current {self.root_name(case)} {A.node_lit(o.x['node'])}) "
                f"{self.doc_expr(o)}")

    def show(self, case):
        return None

    def nontrivial(self, c, o):
        return o["nodes"] >= 8

    def tags(self, c, o):
        n = o["nodes"]
        t = [c["root"], "audio_dir:" + ("yes" if c.get("audio_dir") else "no"), "terms:" + ("simple" if c.get("simple_terms", True) else "rich"),
             "nodes:" + ("<10" if n < 10 else "<50" if n < 50 else "<200" if n < 200 else "200+"), f"cycles:{c.get('cycles', 1)}"]
        return t
