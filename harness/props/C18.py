"""C18 — audio paths are stored relative to the audio directory and relocate on load."""
from __future__ import annotations

import json
import pathlib
import shutil

from ..core import BUILD, Prop, listlit
from .aoef_common import guarded
from .. import aoef as A
from .. import aoefgen as GG
from .C02 import reachable  # independent walker (pydantic introspection)

DIRS = ["data", "audio", "site A", "2023", "dé", "x.y", "ñandú", "recordings", "a b c", "深い", "estacio\u0301n norte", " lead", "trail "]  # incl. decomposed unicode
FILES = ["a.wav", "b c.wav", "ñandú.wav", "r.flac", "noext", "x.y.z.wav", "录音.wav", "grabacio\u0301n 1.wav", "a\u030a.wav"]


def recordings_of(obj):
    out = {}

    def walk(x):
        if type(x).__name__ == "Recording":
            out[str(x.uuid)] = str(x.path)
        if hasattr(type(x), "model_fields"):
            if type(x).__name__ in A.G_TYPES or type(x).__name__ == "Term":
                return
            for f in type(x).model_fields:
                walk(getattr(x, f))
        elif isinstance(x, (list, tuple)):
            for y in x:
                walk(y)

    walk(obj)
    return out


class C18(Prop):
    ID = "C18"
    IMPORTS = ["Aoef.Paths"]
    PRELUDE = "Open Scope Z_scope.\n"
    CHUNK = 60
    RULE = (
        "all 8 collection types x random object graphs x audio directory A of depth 0..4 (unicode, spaces, dots), given as str / "
        "Path / str with trailing slash, or None x recordings inside A (nested 0..3 below), outside (other root, sibling whose name "
        "extends A's last component, parent of A, relative path) x load directory B (other depth) or None; compared inside Coq: "
        "every stored `path` of data.recordings, every Recording.path reachable from the loaded object, error class; oracle: "
        "string-level recomputation, file absent after a failed save. Non-trivial = >= 1 recording and a directory given"
    )
    TRUSTED = [
        "pathlib parsing/normalisation (PurePosixPath.parts, trailing slash, str vs Path) is a library contract: the model works on the parts",
        "that each of the 8 collection adapters passes audio_dir to its recording adapter is a correspondence fact (all 8 are run), not a theorem",
        "lexical prefix only ('..' components are not generated)",
        "harness/aoef_extract.audio_dir_problems: static check that save/load, to_aeof/to_soundevent, the four base collection "
        "adapters and RecordingAdapter pass the directory on unchanged and use relative_to / '/' under `is not None`",
    ]

    def setup(self, tier):
        self.dir = BUILD / "aoef_C18"
        shutil.rmtree(self.dir, ignore_errors=True)
        self.dir.mkdir(parents=True, exist_ok=True)
        self._n = 0
        # static, fail-closed reading of how the directory travels from save/load to the recording adapter
        from .. import aoef_extract as E
        from ..core import REPO_SRC

        try:
            self.static = E.audio_dir_problems(REPO_SRC)
        except Exception as e:
            self.static = [f"translator cannot read the adapters: {type(e).__name__}: {e}"]
        # advisory: a code shape the static reading does not recognise is recorded, the correspondence (all 8 types) decides
        self.ASSUMPTIONS = list(type(self).ASSUMPTIONS) + ["static reading of the audio_dir threading: " + m for m in self.static]

    def teardown(self):
        shutil.rmtree(self.dir, ignore_errors=True)

    # ------------------------------------------------------------------ generation
    def _dir(self, rng, depth=None):
        depth = rng.randint(0, 4) if depth is None else depth
        if depth >= 1 and rng.random() < 0.25:  # a directory given relative to the working directory is taken as written
            return "/".join(rng.choice(DIRS) for _ in range(depth))
        return "/" + "/".join(rng.choice(DIRS) for _ in range(depth))

    def _case(self, rng, root):
        a = self._dir(rng)
        mode = rng.choice(["inside", "inside", "inside", "one-outside", "mixed", "nodir", "nodir-load-only"])
        names = []
        for i in range(6):
            sub = [rng.choice(DIRS) for _ in range(rng.randint(0, 3))] + [f"{i}_{rng.choice(FILES)}"]
            inside = (a.rstrip("/") + "/" + "/".join(sub))
            if mode in ("inside", "nodir", "nodir-load-only") or (mode == "one-outside" and i != 1) or (mode == "mixed" and rng.random() < 0.6):
                names.append(inside)
            else:
                kind = rng.choice(["other-root", "sibling-prefix", "parent", "relative"])
                if kind == "other-root":
                    names.append("/elsewhere/" + "/".join(sub))
                elif kind == "sibling-prefix":
                    names.append((a.rstrip("/") + "2/" if a != "/" else "/x2/") + "/".join(sub) if a != "/" else "rel/" + sub[-1])
                elif kind == "parent":
                    par = a.rsplit("/", 1)[0] if "/" in a else ""
                    names.append((par or "") + "/" + sub[-1] if a != "/" else "rel2/" + sub[-1])
                else:
                    names.append("/".join(sub))
        b = self._dir(rng)
        if a is not None and rng.random() < 0.15:
            # a relative load directory that coincides with the leading components of a stored (relative) path
            rels = [n[len(a.rstrip("/")) + 1:] for n in names if n.startswith(a.rstrip("/") + "/")]
            rels = [r for r in rels if "/" in r]
            if rels:
                parts = rng.choice(rels).split("/")
                b = "/".join(parts[: rng.randint(1, len(parts) - 1)])
        return {
            "kind": mode, "root": root, "seed": rng.getrandbits(48), "size": rng.choice([0.4, 1.0]), "names": names,
            "A": None if mode.startswith("nodir") else a, "A_form": rng.choice(["str", "path", "slash"]),
            "B": (None if rng.random() < 0.5 else b) if mode == "nodir" else (b if rng.random() < 0.85 else None),
            "B_form": rng.choice(["str", "path", "slash"]),
        }

    def cases(self, rng, tier):
        n = 40 if tier == "quick" else 500
        out = [self._case(rng, root) for root in A.ROOT_NAMES for _ in range(n)]
        # history: the same (unchanged) file was loaded before in this process under another audio directory (or none)
        for root in A.ROOT_NAMES:
            for _ in range(max(4, n // 5)):
                c = self._case(rng, root)
                other = self._case(rng, root)
                c["B_before"] = [other["B"], other["B_form"]]
                out.append(c)
        return out

    @staticmethod
    def _form(d, form):
        if d is None:
            return None
        if form == "path":
            return pathlib.Path(d)
        if form == "slash" and d != "/":
            return d + "/"
        return d

    # ------------------------------------------------------------------ run
    def run(self, case):
        from soundevent import io

        obj, _g = GG.build_case({k: case[k] for k in ("root", "seed", "size", "names")})
        self._n += 1
        p = self.dir / f"c{self._n}.json"
        p.unlink(missing_ok=True)
        orig = recordings_of(obj)
        o = {"orig": orig}
        st, _ = guarded(io.save, obj, p, audio_dir=self._form(case["A"], case["A_form"]))
        o["save"] = st
        o["file_written"] = p.exists()
        if st == "ok":
            doc = json.loads(p.read_text())
            o["stored"] = {r["uuid"]: r["path"] for r in doc["data"].get("recordings") or []}
            if case.get("B_before"):
                guarded(io.load, p, audio_dir=self._form(*case["B_before"]))
            st2, back = guarded(io.load, p, audio_dir=self._form(case["B"], case["B_form"]))
            o["load"] = st2
            if st2 == "ok":
                o["loaded"] = recordings_of(back)
                o["type"] = type(back).__name__
        p.unlink(missing_ok=True)
        return o

    # ------------------------------------------------------------------ model side
    @staticmethod
    def _parts(I, s):
        return [I(c) for c in pathlib.PurePosixPath(s).parts]

    def agree(self, case, o):
        I = {"/": 0}
        intern = lambda c: I.setdefault(c, len(I))
        pl = lambda s: "[" + "; ".join(str(x) for x in self._parts(intern, s)) + "]"
        dl = lambda d: "None" if d is None else f"(Some {pl(d)})"
        ids = sorted(o["orig"])
        ps = "[" + "; ".join(pl(o["orig"][u]) for u in ids) + "]"
        a, b = dl(case["A"]), dl(case["B"])
        if o["save"] != "ok":
            return f"res_eqb paths_eqb (relocated {a} {b} ({ps} : list path)) (Err {o['save']})"
        if o.get("load") != "ok" or sorted(o["stored"]) != ids or sorted(o["loaded"]) != ids:
            return "false"
        stored = "[" + "; ".join(pl(o["stored"][u]) for u in ids) + "]"
        loaded = "[" + "; ".join(pl(o["loaded"][u]) for u in ids) + "]"
        return (f"res_eqb paths_eqb (save_paths {a} ({ps} : list path)) (Ok ({stored} : list path)) && "
                f"res_eqb paths_eqb (relocated {a} {b} ({ps} : list path)) (Ok ({loaded} : list path))")

    # ------------------------------------------------------------------ oracle (string level)
    def oracle(self, case, o):
        fails = []

        def fail(kind, what, **attrs):
            fails.append({"kind": kind, "what": what, "attrs": {"root": case["root"], **attrs}})

        A_, B_ = case["A"], case["B"]
        norm = lambda d: d.rstrip("/")  # "/" -> ""
        rel = {}
        outside = []
        for u, p in o["orig"].items():
            if A_ is None:
                rel[u] = p
            elif p.startswith(norm(A_) + "/") and p != norm(A_) + "/":
                rel[u] = p[len(norm(A_)) + 1:]
            else:
                outside.append(p)
        if outside:
            if o["save"] == "ok":
                fail("outside-accepted", f"recording {outside[0]} lies outside {A_} but save succeeded")
            elif o["save"] != "EValue":
                fail("wrong-error", f"save raised {o['save']} for a recording outside the directory")
            if o["file_written"]:
                fail("file-written", "a file was written although save failed")
            return fails
        if o["save"] != "ok":
            fail("save-failed", f"save raised {o['save']} although every recording is inside {A_}")
            return fails
        for u, want in rel.items():
            got = o["stored"].get(u)
            if got != want:
                fail("stored-path", f"stored path {got!r}, expected {want!r} (audio dir {A_})")
                break
        if o.get("load") != "ok":
            fail("load-failed", f"load raised {o.get('load')}")
            return fails
        if o["type"] != case["root"]:
            fail("wrong-type", f"{case['root']} came back as {o['type']}")
        for u, r in rel.items():
            want = r if (B_ is None or r.startswith("/")) else (norm(B_) + "/" + r)
            got = o["loaded"].get(u)
            if got != want:
                fail("loaded-path", f"loaded path {got!r}, expected {want!r} (saved under {A_}, loaded under {B_})")
                break
        return fails

    def nontrivial(self, c, o):
        return bool(o["orig"]) and (c["A"] is not None or c["B"] is not None)

    def tags(self, c, o):
        return [c["root"], "mode:" + c["kind"], "A:" + ("none" if c["A"] is None else f"{'abs' if c['A'].startswith('/') else 'rel'}:depth{len([x for x in c['A'].split('/') if x])}:{c['A_form']}"),
                "B:" + ("none" if c["B"] is None else "given"), "save:" + o["save"], f"recordings:{min(len(o['orig']), 4)}"]


PROP = C18
