"""C11 — buffering grows a geometry and never leaves the valid domain."""
from __future__ import annotations

from fractions import Fraction

from ..core import Prop, guarded, qlit
from .. import geomgen as G

MAXF = Fraction(G.MAXF)
CLOSED = ("TimeStamp", "TimeInterval", "BoundingBox")


class C11(Prop):
    ID = "C11"
    IMPORTS = ["Geom.Buffer"]
    PRELUDE = "Definition rbuf := res_eqb buffered_eqb."
    RULE = (
        "every geometry type, buffers in {0, small, large > domain, negative}, geometries touching time 0 / frequency 0 / "
        "MAX_FREQUENCY; closed forms (time stamp, interval, box) compared exactly with the model; shapely branch: result "
        "valid, covers the original (tolerance 1e-9 of the extent), bounds extended by the buffers (clipped), monotone on "
        "buffer pairs. Non-trivial = non-negative buffers not both zero; distinct by hash"
    )
    TRUSTED = [
        "GEOS buffer / clip_by_rect / to_geojson: the shapely branch is NOT modelled; it is judged by the oracle (validity, "
        "containment, bounds extension, monotonicity) on generated inputs only — partial",
    ]
    ASSUMPTIONS = ["shapely branch: differential / oracle evidence only, no theorem about GEOS"]

    def _case(self, rng, typ):
        g = G.rgeom(rng, typ)
        # time has no upper limit: buffers beyond MAX_FREQUENCY (a number of the frequency axis) must still be honoured
        bt = lambda: rng.choice([Fraction(0), Fraction(1, 64), Fraction(1, 4), Fraction(1), Fraction(3), Fraction(40), Fraction(40),
                                 Fraction(10000), MAXF + 1000000, MAXF * 4])
        bf = lambda: rng.choice([Fraction(0), Fraction(1, 4), Fraction(2), Fraction(16), Fraction(100), MAXF * 2])
        tb, fb = bt(), bf()
        if rng.random() < 0.06:
            if rng.random() < 0.5:
                tb = Fraction(-1, 4)
            else:
                fb = Fraction(-1)
        tb2 = tb + rng.choice([Fraction(0), Fraction(1, 4), Fraction(2)]) if tb < 1000 else tb * rng.choice([1, 2, 8])
        fb2 = fb + rng.choice([Fraction(0), Fraction(1), Fraction(50)])
        return {"kind": typ, "g": g, "tb": tb, "fb": fb, "tb2": tb2, "fb2": fb2}

    def cases(self, rng, tier):
        n = {"quick": 150, "thorough": 3000}[tier]
        out = []
        for typ in G.TYPES:
            out += [self._case(rng, typ) for _ in range(n)]
        # the same coordinate list read as different geometry types, one after the other with the same buffers (the result
        # of buffering must depend on the type, not only on the numbers): MultiPoint then LineString, MultiLineString then
        # Polygon, and the reverse orders; the earlier call is part of the case (`before`), so a replay reproduces it
        twins = []
        small = lambda: (rng.choice([Fraction(1, 64), Fraction(1, 16), Fraction(1, 4)]), rng.choice([Fraction(1, 4), Fraction(1), Fraction(2)]))
        for _ in range(max(8, n // 10)):
            c = self._case(rng, "LineString")
            tb, fb = small()
            c.update(tb=tb, fb=fb, tb2=tb + Fraction(1, 4), fb2=fb + 1)
            mp = dict(c, kind="MultiPoint", g={"type": "MultiPoint", "coordinates": c["g"]["coordinates"]})
            twins += [dict(c, before=mp["g"])] if rng.random() < 0.7 else [dict(mp, before=c["g"])]
            # an open outline (soundevent polygons need not repeat the first point) that also is a valid multi-line
            t0, f0 = Fraction(rng.randint(0, 8)), Fraction(rng.randint(0, 30))
            w, h = Fraction(rng.randint(2, 8)), Fraction(rng.randint(8, 30))
            ring = [[t0, f0], [t0 + w / 2, f0 + h], [t0 + w, f0 + h], [t0 + w, f0]]
            tb, fb = small()
            base = {"tb": tb, "fb": fb, "tb2": tb + Fraction(1, 4), "fb2": fb + 1}
            ml = dict(base, kind="MultiLineString", g={"type": "MultiLineString", "coordinates": [ring]})
            pg = dict(base, kind="Polygon", g={"type": "Polygon", "coordinates": [ring]})
            twins += [dict(pg, before=ml["g"])] if rng.random() < 0.7 else [dict(ml, before=pg["g"])]
        return out + twins

    def run(self, c):
        import shapely
        from soundevent.geometry import buffer_geometry, compute_bounds, geometry_to_shapely

        if c.get("before"):  # history: another geometry with the same numbers was buffered just before
            guarded(buffer_geometry, G.build(c["before"]), time_buffer=float(c["tb"]), freq_buffer=float(c["fb"]))
        g = G.build(c["g"])
        out = {"norm": G.from_impl(g)}
        r = guarded(buffer_geometry, g, time_buffer=float(c["tb"]), freq_buffer=float(c["fb"]))
        if r[0] != "ok":
            out["res"] = ["err", r[1]]
            out["msg"] = r[2]
            return out
        bg = r[1]
        out["res"] = ["ok"]
        out["result"] = G.from_impl(bg)
        out["bounds_in"] = [Fraction(float(x)) for x in compute_bounds(g)]
        out["bounds_out"] = [Fraction(float(x)) for x in compute_bounds(bg)]
        # re-validation of the result through the data class (valid domain)
        from soundevent import data

        rv = guarded(lambda: type(bg)(coordinates=bg.coordinates))
        out["revalidates"] = rv[0] == "ok"
        s_in, s_out = geometry_to_shapely(g), geometry_to_shapely(bg)
        out["out_valid_shape"] = bool(s_out.is_valid) if c["kind"] not in CLOSED else True
        ext = max(float(out["bounds_in"][2] - out["bounds_in"][0]), 1.0)
        # containment: distance from the original's points to the result, scaled
        # units: the requested buffer per axis; for a zero buffer, the geometry's own extent (>= 1)
        ext_f = max(float(out["bounds_in"][3] - out["bounds_in"][1]), 1.0)
        tb = float(c["tb"]) if c["tb"] > 0 else ext
        fb = float(c["fb"]) if c["fb"] > 0 else ext_f
        if c["kind"] in CLOSED:
            out["covers"] = True
        else:
            scaled_in = shapely.transform(s_in, lambda x: x / [tb, fb])
            scaled_out = shapely.transform(s_out, lambda x: x / [tb, fb])
            out["uncovered_scaled"] = float(shapely.hausdorff_distance(scaled_in, scaled_in.intersection(scaled_out))) if not scaled_in.is_empty else 0.0
            out["covers"] = bool(s_out.buffer(1e-9 * ext).covers(s_in)) or out["uncovered_scaled"] < 1e-6
        # monotone: larger buffers give supersets
        r2 = guarded(buffer_geometry, g, time_buffer=float(c["tb2"]), freq_buffer=float(c["fb2"]))
        if r2[0] == "ok":
            s2 = geometry_to_shapely(r2[1])
            out["mono_bounds"] = [Fraction(float(x)) for x in compute_bounds(r2[1])]
            if c["kind"] in CLOSED:
                out["mono_covers"] = True
            else:
                # how far (in units of the smaller buffers) the smaller result sticks out of the larger one
                sc_small = shapely.transform(s_out, lambda x: x / [tb, fb])
                sc_large = shapely.transform(s2, lambda x: x / [tb, fb])
                # the larger result is thickened by 1e-6 units first: with a zero buffer on one axis both results are slivers
                # one ulp thick (at 5 MHz: 1e-9 is below the spacing of doubles), whose plain intersection is numerically empty
                inter = sc_small.intersection(sc_large.buffer(1e-6))
                out["mono_excess_area"] = float(shapely.hausdorff_distance(sc_small, inter)) if not inter.is_empty else float("inf")
                out["mono_covers"] = out["mono_excess_area"] < 2e-6
        else:
            out["mono_err"] = [r2[1], r2[2]]
        return out

    def agree(self, c, o):
        g = G.coq_geom(o["norm"])
        m = f"(buffer_geometry {g} {qlit(c['tb'])} {qlit(c['fb'])})"
        if o["res"][0] != "ok":
            if c["kind"] not in CLOSED and c["tb"] >= 0 and c["fb"] >= 0:
                return None  # GEOS-side failure on the shapely branch: judged by the oracle, not by the model
            return f"rbuf {m} (Err {o['res'][1]})"
        if c["kind"] in CLOSED:
            return f"rbuf {m} (Ok (Closed {G.coq_geom(o['result'])}))"
        ok_type = o["result"]["type"] in ("Polygon", "MultiPolygon")
        return f"rbuf {m} (Ok Shapely) && {'true' if ok_type else 'false'}"

    def show(self, c):
        return f"(buffer_geometry {G.coq_geom(G.from_impl(G.build(c['g'])))} {qlit(c['tb'])} {qlit(c['fb'])})"

    def oracle(self, c, o):
        fails = []
        shapely_branch = c["kind"] not in CLOSED

        def reversal(g):
            """a line that doubles back on itself: two consecutive segments anti-parallel (exact)"""
            lines = [g["coordinates"]] if g["type"] == "LineString" else (g["coordinates"] if g["type"] == "MultiLineString" else [])
            for l in lines:
                pts = [p for i, p in enumerate(l) if i == 0 or p != l[i - 1]]
                for a, b, d in zip(pts, pts[1:], pts[2:]):
                    u = (b[0] - a[0], b[1] - a[1])
                    v = (d[0] - b[0], d[1] - b[1])
                    if u[0] * v[1] - u[1] * v[0] == 0 and u[0] * v[0] + u[1] * v[1] < 0:
                        return True
            return False

        def sharp(g):
            """a vertex (of a line, of the closing point of a closed line, of a polygon ring) whose angle, in the space scaled by the
            buffers as buffer_shapely_geometry scales it, is below 25 degrees: GEOS bevels a mitre join beyond the mitre limit 5
            (angles below 2*asin(1/5) = 23.07 degrees)"""
            import math

            sx = float(c["tb"]) if c["tb"] > 0 else 1e-9
            sy = float(c["fb"]) if c["fb"] > 0 else 1e-9
            t = g["type"]
            if t == "LineString":
                chains = [(g["coordinates"], False)]
            elif t == "MultiLineString":
                chains = [(l, False) for l in g["coordinates"]]
            elif t == "Polygon":
                chains = [(r, True) for r in g["coordinates"]]
            elif t == "MultiPolygon":
                chains = [(r, True) for poly in g["coordinates"] for r in poly]
            else:
                return False
            for l, ring in chains:
                pts = [(float(p[0]) / sx, float(p[1]) / sy) for i, p in enumerate(l) if i == 0 or p != l[i - 1]]
                closed = ring or (len(pts) > 2 and pts[0] == pts[-1])
                if closed and pts[0] == pts[-1]:
                    pts = pts[:-1]
                n = len(pts)
                idx = range(n) if closed else range(1, n - 1)
                for i in idx:
                    a, b, d = pts[(i - 1) % n], pts[i], pts[(i + 1) % n]
                    u, v = (a[0] - b[0], a[1] - b[1]), (d[0] - b[0], d[1] - b[1])
                    nu, nv = math.hypot(*u), math.hypot(*v)
                    if nu == 0 or nv == 0:
                        continue
                    if (u[0] * v[0] + u[1] * v[1]) / (nu * nv) > math.cos(math.radians(25)):
                        return True
            return False

        def fail(kind, what, **a):
            fails.append({"kind": kind, "what": what, "attrs": dict(a, type=c["kind"], shapely_branch=shapely_branch, has_reversal=reversal(o["norm"]),
                                                                   sharp_vertex=sharp(o["norm"]),
                                                                   call_site="buffer_shapely_geometry" if shapely_branch else "closed-form")})

        tb, fb = c["tb"], c["fb"]
        if tb < 0 or fb < 0:
            if o["res"] != ["err", "EValue"]:
                fail("negative-accepted", f"negative buffer ({tb}, {fb}) gave {o['res']}")
            return fails
        if o["res"][0] != "ok":
            fail("raised", f"buffer_geometry raised {o['res'][1]}: {o.get('msg', '')[:120]}", error=o["res"][1], msg=o.get("msg", "")[:60],
                 zero_buffer=(tb == 0 or fb == 0))
            return fails
        if not o["revalidates"] or not o["out_valid_shape"]:
            fail("result-invalid", "result is not a valid geometry")
        bi, bo = o["bounds_in"], o["bounds_out"]
        if not (bo[0] >= 0 and 0 <= bo[1] and bo[3] <= MAXF):
            fail("left-domain", f"result bounds {[float(x) for x in bo]} leave the valid domain")
        if not o["covers"]:
            fail("not-superset", f"result does not contain the original (uncovered, in buffer units: {o.get('uncovered_scaled')})",
                 uncovered=o.get("uncovered_scaled"))
        want = [max(bi[0] - tb, 0), max(bi[1] - fb, 0), bi[2] + tb, min(bi[3] + fb, MAXF)]
        if not shapely_branch:
            if bo != want:
                fail("closed-form-bounds", f"bounds {[float(x) for x in bo]} != widened/clamped {[float(x) for x in want]}")
            exp_type = "TimeInterval" if c["kind"] != "BoundingBox" else "BoundingBox"
            if o["result"]["type"] != exp_type:
                fail("closed-form-type", f"result type {o['result']['type']}")
        else:
            tol = Fraction(1, 10**9)
            short = []
            for k, (got, w) in enumerate(zip(bo, want)):
                b = tb if k in (0, 2) else fb
                d = (got - w) if k in (0, 1) else (w - got)  # >0 means the result falls short of the requested extension
                if d > tol * max(1, abs(w)):
                    short.append((k, float(d / b) if b > 0 else float("inf")))
            if short:
                worst = max(x[1] for x in short)
                fail("bounds-shortfall", f"bounds extend less than the requested buffer on sides {[x[0] for x in short]} (worst shortfall {worst:.4f} of the buffer)",
                     shortfall=worst, geom_type=c["kind"])
        if "mono_err" in o:
            fail("raised", f"larger buffer raised {o['mono_err'][0]}: {o['mono_err'][1][:100]}", error=o["mono_err"][0], msg=o["mono_err"][1][:60],
                 zero_buffer=(c["tb2"] == 0 or c["fb2"] == 0))
        elif not o["mono_covers"]:
            fail("not-monotone", f"larger buffers do not give a superset (smaller result sticks out by {o.get('mono_excess_area')} buffer units)",
                 excess=o.get("mono_excess_area"))
        return fails

    def nontrivial(self, c, o):
        return c["tb"] >= 0 and c["fb"] >= 0 and (c["tb"] > 0 or c["fb"] > 0)

    def tags(self, c, o):
        t = [c["kind"], "shapely-branch" if c["kind"] not in CLOSED else "closed-form", f"res:{o['res'][0]}"]
        if c["tb"] == 0 and c["fb"] == 0:
            t.append("zero-buffers")
        if o["res"][0] == "ok" and (o["bounds_out"][0] == 0 or o["bounds_out"][1] == 0 or o["bounds_out"][3] == MAXF):
            t.append("clamped")
        return t


PROP = C11
