"""C06 — affinity is a symmetric intersection-over-union in [0, 1]."""
from __future__ import annotations

import copy
from fractions import Fraction

from ..core import Prop, guarded, pairlit, qlit
from .. import geomgen as G

BUFFERED = ("TimeStamp", "Point", "MultiPoint", "LineString", "MultiLineString")
TIME_ONLY = ("TimeStamp", "TimeInterval")
RECT = ("TimeStamp", "TimeInterval", "BoundingBox")
TOL = Fraction(1, 10**9)
MAXF = Fraction(G.MAXF)


def shift(g, d):
    """shift a geometry case in time by d"""
    t, c = g["type"], g["coordinates"]

    def rec(x):
        if isinstance(x, list) and x and isinstance(x[0], list):
            return [rec(y) for y in x]
        return [x[0] + d, x[1]]

    if t == "TimeStamp":
        c2 = c + d
    elif t == "TimeInterval":
        c2 = [c[0] + d, c[1] + d]
    elif t == "BoundingBox":
        c2 = [c[0] + d, c[1], c[2] + d, c[3]]
    else:
        c2 = rec(c)
    return {"type": t, "coordinates": c2}


def simple_geom(rng, typ, **kw):
    """a valid geometry that does not intersect itself (the quantifier of C06): decided by shapely"""
    import shapely

    for _ in range(200):
        g = G.rgeom(rng, typ, **kw)
        if g["type"] == "LineString":
            ok = shapely.LineString([[float(a), float(b)] for a, b in g["coordinates"]]).is_simple
        elif g["type"] == "MultiLineString":
            ok = shapely.MultiLineString([[[float(a), float(b)] for a, b in l] for l in g["coordinates"]]).is_simple
        else:
            ok = True
        if ok:
            return g
    return g


class C06(Prop):
    ID = "C06"
    IMPORTS = ["Eval.Affinity"]
    RULE = (
        "all 81 ordered type pairs; strictly positive dyadic buffers; identical pairs, disjoint-in-time pairs, time-shifted "
        "pairs, touching rectangles, clustered placements; the GEOS quantities (prepared time extents, areas, intersection "
        "area) are recorded by calling shapely on the prepared shapes exactly as the code does and Coq recomputes the result "
        "from them (1e-12), rectangles being recomputed from coordinates. Non-trivial = affinity strictly between 0 and 1 or "
        "an identical / disjoint / shifted pair; distinct by hash"
    )
    TRUSTED = [
        "GEOS area / intersection / buffer are inputs of the model (recorded per case); the model proves what the code does "
        "with any such answer; contract used only for 'equals the IoU': 0 <= i <= min(a1, a2)",
    ]

    def _case(self, rng, t1, t2):
        mode = rng.choice(["cluster", "cluster", "same", "disjoint", "spread"])
        tb = rng.choice([Fraction(1, 64), Fraction(1, 8), Fraction(1, 2), Fraction(1), Fraction(2), Fraction(5)])
        fb = rng.choice([Fraction(1), Fraction(4), Fraction(16), Fraction(128), Fraction(2000)])
        hk = {"holes": True} if rng.random() < 0.4 else {}
        g1 = simple_geom(rng, t1, tmax=6, fmax=24, **hk) if mode != "spread" else simple_geom(rng, t1, **hk)
        if mode == "same" and t1 == t2:
            g2 = copy.deepcopy(g1)
        elif mode == "disjoint":
            g2 = shift(simple_geom(rng, t2, tmax=6, fmax=24), Fraction(rng.randint(12, 20)))
        else:
            g2 = simple_geom(rng, t2, tmax=6, fmax=24) if mode != "spread" else simple_geom(rng, t2)
        d = Fraction(rng.randint(1, 40), 4)
        return {"kind": mode, "g1": g1, "g2": g2, "tb": tb, "fb": fb, "d": d, "defaults": rng.random() < 0.15}

    def cases(self, rng, tier):
        n = {"quick": 12, "thorough": 300}[tier]
        out = []
        for t1 in G.TYPES:
            for t2 in G.TYPES:
                out += [self._case(rng, t1, t2) for _ in range(n)]
        # touching rectangles
        for _ in range(60 if tier == "quick" else 1200):
            a = Fraction(rng.randint(0, 16), 4)
            w = Fraction(rng.randint(1, 8), 4)
            g1 = {"type": "BoundingBox", "coordinates": [a, Fraction(2), a + w, Fraction(10)]}
            g2 = {"type": rng.choice(["BoundingBox", "TimeInterval"]), "coordinates": None}
            if g2["type"] == "BoundingBox":
                g2["coordinates"] = [a + w, Fraction(rng.randint(0, 12)), a + w + Fraction(rng.randint(1, 8), 4), Fraction(rng.randint(12, 20))]
            else:
                g2["coordinates"] = [a + w, a + w + Fraction(rng.randint(0, 8), 4)]
            out.append({"kind": "touching", "g1": g1, "g2": g2, "tb": Fraction(1, 8), "fb": Fraction(4), "d": Fraction(3, 4), "defaults": False})
        # tiny extents: unions far below any "reasonable" tolerance are still unions (all values dyadic, so exact)
        for _ in range(40 if tier == "quick" else 800):
            e = Fraction(1, 2 ** rng.randint(28, 40))
            a = Fraction(rng.randint(0, 8))
            k = rng.choice([1, 2, 3, 4])
            typ = rng.choice(["TimeInterval", "BoundingBox", "TimeStamp"])
            if typ == "TimeInterval":
                g1 = {"type": typ, "coordinates": [a, a + e]}
                g2 = {"type": typ, "coordinates": [a, a + k * e]}
                tb = Fraction(0) if rng.random() < 0.5 else e / 4
            elif typ == "BoundingBox":
                f = Fraction(1, 2 ** rng.randint(8, 14))
                g1 = {"type": typ, "coordinates": [a, Fraction(1000), a + e, Fraction(1000) + f]}
                g2 = {"type": typ, "coordinates": [a, Fraction(1000), a + k * e, Fraction(1000) + f]}
                tb = Fraction(0)
            else:
                g1 = {"type": typ, "coordinates": a}
                g2 = {"type": typ, "coordinates": a + (e if k > 2 else 0)}
                tb = e * k
            out.append({"kind": "tiny", "g1": g1, "g2": g2, "tb": tb, "fb": Fraction(0) if typ != "BoundingBox" else Fraction(0), "d": Fraction(3, 4), "defaults": False})
        # degenerate pairs whose union has measure zero (zero-area boxes, zero-length intervals, unbuffered): the zero-union guard
        for _ in range(30 if tier == "quick" else 600):
            a, f = Fraction(rng.randint(0, 8)), Fraction(rng.randint(1, 20)) * 100
            w = Fraction(rng.randint(0, 4), 2)
            kind = rng.choice(["flat-boxes", "thin-boxes", "point-intervals", "box-vs-flat"])
            if kind == "flat-boxes":
                g1 = {"type": "BoundingBox", "coordinates": [a, f, a + w, f]}
                g2 = {"type": "BoundingBox", "coordinates": [a, f, a + w + rng.randint(0, 1), f]}
            elif kind == "thin-boxes":
                g1 = {"type": "BoundingBox", "coordinates": [a, f, a, f + 100]}
                g2 = {"type": "BoundingBox", "coordinates": [a, f, a, f + rng.choice([100, 200])]}
            elif kind == "point-intervals":
                g1 = {"type": "TimeInterval", "coordinates": [a, a]}
                g2 = {"type": rng.choice(["TimeInterval", "BoundingBox"]), "coordinates": None}
                g2["coordinates"] = [a, a] if g2["type"] == "TimeInterval" else [a, f, a, f + 100]
            else:
                g1 = {"type": "BoundingBox", "coordinates": [a, f, a + 1, f + 100]}
                g2 = {"type": "BoundingBox", "coordinates": [a, f, a + 1, f]}
            out.append({"kind": "degenerate", "g1": g1, "g2": g2, "tb": Fraction(0), "fb": Fraction(0), "d": Fraction(3, 4), "defaults": False})
        return out

    # ------------------------------------------------------------------ implementation
    def run(self, c):
        from soundevent.evaluation import compute_affinity
        from soundevent.geometry import buffer_geometry, compute_bounds, geometry_to_shapely

        tb, fb = (Fraction(1, 100), Fraction(100)) if c["defaults"] else (c["tb"], c["fb"])
        kw = {} if c["defaults"] else {"time_buffer": float(tb), "freq_buffer": float(fb)}
        g1, g2 = G.build(c["g1"]), G.build(c["g2"])
        out = {"n1": G.from_impl(g1), "n2": G.from_impl(g2), "tb": Fraction(float(tb)), "fb": Fraction(float(fb))}
        r = guarded(compute_affinity, g1, g2, **kw)
        if r[0] != "ok":
            out["res"] = ["err", r[1]]
            out["msg"] = r[2]
            return out
        out["res"] = ["ok"]
        out["val"] = Fraction(float(r[1]))
        out["val_is_nan"] = r[1] != r[1]
        rs = guarded(compute_affinity, g2, g1, **kw)
        out["val_sym"] = Fraction(float(rs[1])) if rs[0] == "ok" else None
        r11 = guarded(compute_affinity, g1, g1, **kw)
        out["val_self"] = Fraction(float(r11[1])) if r11[0] == "ok" else None

        def prep(g):
            if g.type in BUFFERED:
                return buffer_geometry(g, time_buffer=float(tb), freq_buffer=float(fb))
            return g

        p1, p2 = prep(g1), prep(g2)
        b1, b2 = compute_bounds(p1), compute_bounds(p2)
        out["ext1"] = [Fraction(float(b1[0])), Fraction(float(b1[2]))]
        out["ext2"] = [Fraction(float(b2[0])), Fraction(float(b2[2]))]
        out["pb1"] = [Fraction(float(x)) for x in b1]
        out["pb2"] = [Fraction(float(x)) for x in b2]
        s1, s2 = geometry_to_shapely(p1), geometry_to_shapely(p2)
        out["a1"], out["a2"] = Fraction(float(s1.area)), Fraction(float(s2.area))
        out["i"] = Fraction(float(s1.intersection(s2).area))
        out["i_self"] = Fraction(float(s1.intersection(s1).area))
        out["p1_valid"] = bool(s1.is_valid)
        # shifted pair
        d = c["d"]
        sg1, sg2 = G.build(shift(c["g1"], d)), G.build(shift(c["g2"], d))
        rsh = guarded(compute_affinity, sg1, sg2, **kw)
        out["val_shift"] = Fraction(float(rsh[1])) if rsh[0] == "ok" else None
        return out

    # ------------------------------------------------------------------ model
    def agree(self, c, o):
        if o["res"][0] != "ok" or o["val_is_nan"]:
            return "false"
        g1, g2 = G.coq_geom(o["n1"]), G.coq_geom(o["n2"])
        e1 = pairlit(qlit(o["ext1"][0]), qlit(o["ext1"][1]))
        e2 = pairlit(qlit(o["ext2"][0]), qlit(o["ext2"][1]))
        tol = qlit(Fraction(1, 10**12))
        parts = [f"qclose {tol} (compute_affinity {g1} {g2} {e1} {e2} {qlit(o['a1'])} {qlit(o['a2'])} {qlit(o['i'])}) {qlit(o['val'])}"]
        t1, t2 = o["n1"]["type"], o["n2"]["type"]
        tb = qlit(o["tb"])
        # rectangles: everything recomputed from the coordinates
        if t1 == "BoundingBox" and t2 == "BoundingBox":
            c1, c2 = o["n1"]["coordinates"], o["n2"]["coordinates"]
            r1 = f"({qlit(c1[0])}, {qlit(c1[1])}, {qlit(c1[2])}, {qlit(c1[3])})"
            r2 = f"({qlit(c2[0])}, {qlit(c2[1])}, {qlit(c2[2])}, {qlit(c2[3])})"
            parts.append(f"qclose {tol} (affinity_box {r1} {r2}) {qlit(o['val'])}")
        for (t, gg, ext) in ((t1, g1, o["ext1"]), (t2, g2, o["ext2"])):
            if t in TIME_ONLY:
                parts.append(
                    f"match prepared_extent {gg} {tb} with Some (s, e) => qclose {tol} s {qlit(ext[0])} && qclose {tol} e {qlit(ext[1])} | None => false end"
                )
        return " && ".join(parts)

    def show(self, c):
        return None

    # ------------------------------------------------------------------ oracle
    def oracle(self, c, o):
        fails = []
        t1, t2 = c["g1"]["type"], c["g2"]["type"]

        def fail(kind, what, **a):
            fails.append({"kind": kind, "what": what, "attrs": dict(a, t1=t1, t2=t2)})

        if o["res"][0] != "ok":
            fail("raised", f"compute_affinity raised {o['res'][1]}: {o.get('msg', '')[:150]}", error=o["res"][1])
            return fails
        v = o["val"]
        # two area geometries (boxes, polygons with their holes, multipolygons): intersection over union of the shapes built
        # here directly from the case's coordinates, independently of the library's conversion code
        from .C08 import _indep_iou

        ind = _indep_iou(o["n1"], o["n2"])
        if ind is not None and not o["val_is_nan"] and abs(float(v) - min(ind, 1.0)) > 1e-9:
            fail("area-iou", f"affinity {float(v)!r} of two area geometries differs from their independently computed area IoU {ind!r}")
        if o["val_is_nan"] or not (0 <= v <= 1):
            fail("out-of-range", f"affinity {float(v)!r} is outside [0, 1]")
        if o["val_sym"] is None or abs(o["val_sym"] - v) > TOL:
            fail("not-symmetric", f"affinity(g1,g2)={float(v)!r} but affinity(g2,g1)={None if o['val_sym'] is None else float(o['val_sym'])!r}")
        # self comparison: 1, never more, when the prepared geometry has non-zero extent
        ext_t = o["pb1"][2] - o["pb1"][0]
        ext_f = o["pb1"][3] - o["pb1"][1]
        nonzero = ext_t > 0 and (t1 in TIME_ONLY or ext_f > 0)
        if nonzero:
            vs = o["val_self"]
            if vs is None or vs > 1 or vs < 1 - TOL:
                fail("self-affinity", f"affinity of a {t1} with itself is {None if vs is None else float(vs)!r}, expected exactly 1 (never more)",
                     over_one=bool(vs is not None and vs > 1), deficit=(None if vs is None else float(1 - vs)),
                     prepared_valid=o.get("p1_valid"))
        # the buffered time extent itself, read off the coordinates: [max(tmin - tb, 0), tmax + tb] for the five buffered
        # types (exact for stamps and points, whose round caps have axis-aligned vertices; within 2% of the buffer for
        # lines, whose polygonal caps follow the line direction), the unbuffered extent otherwise
        for which, g, ext in (("first", o["n1"], o["ext1"]), ("second", o["n2"], o["ext2"])):
            bs, _, be, _ = G.bounds_exact(g)
            if g["type"] in BUFFERED:
                tb = o["tb"]
                want_s, want_e = max(bs - tb, Fraction(0)), be + tb
                slack = TOL * max(1, abs(want_e)) if g["type"] in ("TimeStamp", "Point", "MultiPoint") else tb / 50
            else:
                want_s, want_e, slack = bs, be, Fraction(0)
            if g["type"] in ("LineString", "MultiLineString"):
                # mitre joins at interior vertices may reach further (up to about the mitre limit: 6 buffers allowed), never less
                tb = o["tb"]
                bad = ext[0] > want_s + slack or ext[1] < want_e - slack or ext[1] > be + 6 * tb + slack or ext[0] < max(bs - 6 * tb - slack, Fraction(0))
            else:
                bad = abs(ext[0] - want_s) > slack or abs(ext[1] - want_e) > slack
            if bad:
                fail("prepared-extent", f"{which} geometry ({g['type']}) buffered by {float(o['tb'])} s spans [{float(ext[0])}, {float(ext[1])}] "
                                        f"instead of [{float(want_s)}, {float(want_e)}]", geom_type=g["type"])
        # disjoint in time => 0
        (s1, e1), (s2, e2) = o["ext1"], o["ext2"]
        if e1 < s2 or e2 < s1:
            if v != 0:
                fail("disjoint-nonzero", f"buffered geometries are disjoint in time but affinity is {float(v)!r}")
        # time-only: IoU of the buffered time extents
        if t1 in TIME_ONLY or t2 in TIME_ONLY:
            inter = max(Fraction(0), min(e1, e2) - max(s1, s2))
            union = (e1 - s1) + (e2 - s2) - inter
            want = Fraction(0) if union == 0 else inter / union
            if abs(v - want) > TOL:
                fail("time-iou", f"time-only pair: affinity {float(v)!r} != IoU of buffered time extents {float(want)!r}")
        elif t1 == "BoundingBox" and t2 == "BoundingBox":
            c1, c2 = o["n1"]["coordinates"], o["n2"]["coordinates"]
            it = max(Fraction(0), min(c1[2], c2[2]) - max(c1[0], c2[0]))
            jf = max(Fraction(0), min(c1[3], c2[3]) - max(c1[1], c2[1]))
            i = it * jf
            a1 = (c1[2] - c1[0]) * (c1[3] - c1[1])
            a2 = (c2[2] - c2[0]) * (c2[3] - c2[1])
            u = a1 + a2 - i
            want = Fraction(0) if u == 0 else i / u
            if abs(v - want) > TOL:
                fail("box-iou", f"two boxes: affinity {float(v)!r} != area IoU {float(want)!r}")
        # shift invariance, when neither buffered geometry reaches time 0
        if s1 > 0 and s2 > 0 and o["val_shift"] is not None:
            if abs(o["val_shift"] - v) > Fraction(1, 10**7):
                fail("shift", f"shifting both by {float(c['d'])} s changes the affinity from {float(v)!r} to {float(o['val_shift'])!r}")
        elif o["val_shift"] is None:
            fail("raised", "compute_affinity raised on the shifted pair", error="shift")
        return fails

    def nontrivial(self, c, o):
        return o["res"][0] == "ok" and (0 < o["val"] < 1 or c["kind"] in ("same", "disjoint", "touching"))

    def tags(self, c, o):
        t = [c["kind"], f"{c['g1']['type']}x{c['g2']['type']}"]
        if o["res"][0] == "ok":
            v = o["val"]
            t.append("val:0" if v == 0 else ("val:1" if v == 1 else "val:(0,1)"))
            t.append("branch:time" if (c["g1"]["type"] in TIME_ONLY or c["g2"]["type"] in TIME_ONLY) else "branch:area")
        return t


PROP = C06
