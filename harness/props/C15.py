"""C15 — audio-derived arrays are sample-accurate and their axes tell the truth."""
from __future__ import annotations

import uuid as uuidlib
from fractions import Fraction

from ..core import BUILD, Prop, guarded, listlit, natlit, qlit

TOL = Fraction(1, 10**9)
RATES_EXACT = [8192, 16384, 4096]            # powers of two: 1/sr is exact in binary64
RATES = [8000, 11025, 16000, 22050, 44100, 48000]
U = lambda k: uuidlib.UUID(int=13000 + k)


def _frames(fr):
    return listlit(fr, lambda f: listlit(f, qlit))


def _margin(x: Fraction, eps=Fraction(1, 10**6)) -> bool:
    """x is safely away from a whole number (so that floor in floats = floor in Q)"""
    fr = x - (x.numerator // x.denominator)
    return eps < fr < 1 - eps


class C15(Prop):
    ID = "C15"
    CHUNK = 20
    IMPORTS = ["Audio.Clip", "Audio.Resample", "Audio.Spectrogram"]
    PRELUDE = (
        "Definition ores (tol : Q) (m : option (list Q * Q)) (ts : list Q) (st : Q) : bool := "
        "match m with Some (a, b) => qlist_close tol a ts && qclose tol b st | None => false end.\n"
        "Definition ospec (tol : Q) (m : option spec_axes) (ts : list Q) (tst : Q) (fs : list Q) (fst_ : Q) : bool := "
        "match m with Some a => qlist_close tol (s_times a) ts && qclose tol (s_time_step a) tst && qlist_close tol (s_freqs a) fs "
        "&& qclose tol (s_freq_step a) fst_ | None => false end.\n"
    )
    RULE = (
        "WAV files written by the harness (16-bit PCM, 1-3 channels, 40-400 frames) at power-of-two rates (exact stream: "
        "clip bounds on sample boundaries, j/sr) and at 8000..48000 Hz incl. 11025/22050/44100 (bounds off the boundaries, "
        "products kept 1e-6 away from whole numbers), time expansion 1, 10, 1/2; clips inside, across and exactly at the end "
        "of file; resampling up/down; spectrogram window/hop giving whole and fractional sample counts (window never longer than the audio). Compared: frame "
        "count and values, every time / frequency coordinate, step attributes. Non-trivial = accepted case with >= 2 "
        "coordinates; distinct by hash"
    )
    TRUSTED = [
        "libsndfile seek/read/zero-fill, scipy.signal.stft framing (boundary='zeros', padded=True) and scipy.signal.resample's "
        "time vector are modelled from their source/documentation and validated by this correspondence (not proved)",
        "IEEE rounding of floor(start*samplerate): inputs are generated either exactly representable or with a 1e-6 margin",
    ]

    def setup(self, tier):
        self.dir = BUILD / "c15"
        self.dir.mkdir(parents=True, exist_ok=True)
        self._files = {}

    # ------------------------------------------------------------------ generation
    def _file(self, rng, exact):
        sr = rng.choice(RATES_EXACT if exact else RATES)
        te = rng.choice([1, 1, 1, 10, Fraction(1, 2)]) if not exact else rng.choice([1, 1, 2])
        if (Fraction(sr) * te).denominator != 1:
            te = 1
        n = rng.randint(40, 160)
        ch = rng.randint(1, 3)
        return {"sr_file": sr, "te": Fraction(te), "n": n, "ch": ch, "seed": rng.randrange(1000), "from_file": rng.random() < 0.5}

    def _case(self, rng):
        kind = rng.choice(["clip", "clip", "clip", "recording", "resample", "spectrogram", "spectrogram"])
        exact = rng.random() < 0.5
        f = self._file(rng, exact)
        sr = Fraction(f["sr_file"]) * f["te"]
        n = f["n"]
        c = {"kind": kind, "file": f, "exact": exact}
        if kind == "clip":
            if exact:
                a = Fraction(rng.randint(0, n), 1) / sr
                b = a + Fraction(rng.randint(1, n), 1) / sr
                if rng.random() < 0.3:
                    a += Fraction(1, 4) / sr
                if rng.random() < 0.3:
                    b += Fraction(1, 2) / sr
                if rng.random() < 0.12:
                    # shorter than one sample (or empty): floor(duration x samplerate) = 0 frames, not "all the rest"
                    b = a + Fraction(rng.choice([0, 1, 2, 4, 7]), 8) / sr
            else:
                for _ in range(1000):
                    a = Fraction(rng.randint(0, n * 100), 100) / sr
                    b = a + Fraction(rng.randint(100, n * 100), 100) / sr
                    a, b = Fraction(float(a)), Fraction(float(b))
                    if _margin(a * sr) and _margin((b - a) * sr) and (b - a) * sr > 1:
                        break
            if rng.random() < 0.08:
                a = (Fraction(n + rng.randint(1, 5)) + Fraction(1, 2)) / sr  # starts beyond the end of file (half a sample off the boundary)
                b = a + Fraction(3) / sr
            c["start"], c["stop"] = a, b
        elif kind == "resample":
            target = rng.choice(RATES_EXACT if exact else RATES + [12000, 32000])
            c["target"] = target
            if not exact:
                step = Fraction(float(1 / float(sr)))
                for _ in range(200):
                    if _margin(n * (target * step)):
                        break
                    target = rng.choice(RATES + [12000, 32000, 7000, 9000])
                    c["target"] = target
        elif kind == "spectrogram":
            if exact:
                w = Fraction(rng.choice([16, 32, 64, 20, 33])) / sr
                h = Fraction(rng.choice([4, 8, 16, 5, 11])) / sr
                if rng.random() < 0.3:
                    w += Fraction(1, 2) / sr
                if rng.random() < 0.3:
                    h += Fraction(1, 4) / sr
                if h >= w:
                    h = w / 2
                if w * sr >= n:  # a window longer than the audio is outside the quantifier (scipy silently shortens it)
                    w, h = Fraction(16) / sr, Fraction(4) / sr
            else:
                step = Fraction(float(1 / float(sr)))
                srf = Fraction(float(1 / float(step)))
                for _ in range(1000):
                    # window between 8 and n/2 samples, hop between 1/8 and 3/4 of the window, both in "decimal" seconds
                    wn = Fraction(rng.randint(800, max(900, n * 50)), 100)
                    hn = wn * Fraction(rng.randint(12, 75), 100)
                    w = Fraction(float(wn / sr))
                    h = Fraction(float(hn / sr))
                    if h < w and _margin(w * srf) and _margin((w - h) * srf) and 2 < w * srf < n and (w * srf).__floor__() - ((w - h) * srf).__floor__() >= 1:
                        break
            c["window"], c["hop"] = w, h
        return c

    def cases(self, rng, tier):
        n = {"quick": 320, "thorough": 6000}[tier]
        fixed = [{"kind": "spectrogram", "file": {"sr_file": 22050, "te": Fraction(1), "n": 160, "ch": 1, "seed": 1}, "exact": False,
                  "window": Fraction(0.004), "hop": Fraction(0.00145)}]
        return fixed + [self._case(rng) for _ in range(n)]

    # ------------------------------------------------------------------ implementation
    def _mk(self, f):
        import numpy as np
        import soundfile as sf
        from soundevent import data

        key = (f["sr_file"], f["n"], f["ch"], f["seed"])
        if key not in self._files:
            rs = np.random.RandomState(f["seed"])
            pcm = rs.randint(-3000, 3000, size=(f["n"], f["ch"])).astype(np.int16)
            p = self.dir / f"f_{f['sr_file']}_{f['n']}_{f['ch']}_{f['seed']}.wav"
            sf.write(p, pcm, f["sr_file"], subtype="PCM_16")
            self._files[key] = (p, pcm)
        p, pcm = self._files[key]
        te = f["te"]
        sr = int(f["sr_file"] * te)
        if f.get("from_file"):
            # the library's own way of describing a file (its samplerate / duration / channels must be the file's)
            rec = data.Recording.from_file(p, time_expansion=float(te), compute_hash=False)
        else:
            rec = data.Recording(uuid=U(1), path=p, duration=float(Fraction(f["n"]) / (Fraction(f["sr_file"]) * te)), channels=f["ch"], samplerate=sr,
                                 time_expansion=float(te))
        frames = [[Fraction(int(v), 32768) for v in row] for row in pcm]
        return rec, frames, sr

    @staticmethod
    def _obs_audio(arr):
        import numpy as np

        da = arr.transpose("time", "channel")
        st = da.coords["time"].attrs.get("step")
        return {"frames": [[Fraction(float(x)) for x in row] for row in da.data], "times": [Fraction(float(t)) for t in da.coords["time"].data],
                "step": None if st is None else Fraction(float(st)), "dims": list(arr.dims)}

    def run(self, c):
        from soundevent import audio, data

        rec, frames, sr = self._mk(c["file"])
        out = {"file_frames": frames, "sr": Fraction(sr), "duration": Fraction(float(rec.duration)),
               "rec_meta": [int(rec.samplerate), int(rec.channels), Fraction(float(rec.duration))]}
        k = c["kind"]
        full = guarded(audio.load_recording, rec)
        if full[0] != "ok":
            out["res"] = ["err", full[1]]
            out["msg"] = "load_recording: " + full[2]
            return out
        out["recording"] = self._obs_audio(full[1])
        if k == "recording":
            out["res"] = ["ok"]
            return out
        if k == "clip":
            clip = data.Clip(uuid=U(2), recording=rec, start_time=float(c["start"]), end_time=float(c["stop"]))
            r = guarded(audio.load_clip, clip)
            if r[0] != "ok":
                out["res"] = ["err", r[1]]
                out["msg"] = r[2]
                return out
            out["res"] = ["ok"]
            out["clip"] = self._obs_audio(r[1])
            return out
        if k == "resample":
            r = guarded(audio.resample, full[1], c["target"])
            if r[0] != "ok":
                out["res"] = ["err", r[1]]
                out["msg"] = r[2]
                return out
            out["res"] = ["ok"]
            o = self._obs_audio(r[1])
            out["res_times"], out["res_step"], out["res_n"] = o["times"], o["step"], len(o["frames"])
            return out
        r = guarded(audio.compute_spectrogram, full[1], float(c["window"]), float(c["hop"]))
        if r[0] != "ok":
            out["res"] = ["err", r[1]]
            out["msg"] = r[2]
            return out
        sp = r[1]
        out["res"] = ["ok"]
        out["sp_times"] = [Fraction(float(t)) for t in sp.coords["time"].data]
        out["sp_freqs"] = [Fraction(float(t)) for t in sp.coords["frequency"].data]
        ts, fs = sp.coords["time"].attrs.get("step"), sp.coords["frequency"].attrs.get("step")
        out["sp_tstep"] = None if ts is None else Fraction(float(ts))
        out["sp_fstep"] = None if fs is None else Fraction(float(fs))
        out["sp_shape"] = [int(sp.sizes["frequency"]), int(sp.sizes["time"]), int(sp.sizes["channel"])]
        return out

    # ------------------------------------------------------------------ model
    def agree(self, c, o):
        k = c["kind"]
        tol = qlit(0) if c["exact"] else qlit(TOL)
        tol = qlit(TOL)  # 1/sr is a float division even for exact rates only when sr is not a power of two; keep one tolerance for coordinates
        ch = natlit(c["file"]["ch"])
        file = _frames(o["file_frames"])
        parts = []
        if "recording" in o:
            r = o["recording"]
            if r["step"] is None:
                return "false"
            rhs = f"(Ok {{| a_frames := {_frames(r['frames'])}; a_times := {listlit(r['times'], qlit)}; a_step := {qlit(r['step'])} |}})"
            parts.append(f"raudio_eqb {tol} (load_recording {file} {qlit(o['sr'])} {qlit(o['duration'])}) {rhs}")
        elif k == "recording":
            return f"raudio_eqb {tol} (load_recording {file} {qlit(o['sr'])} {qlit(o['duration'])}) (Err {o['res'][1]})"
        if k == "clip":
            m = f"(load_clip {file} {ch} {qlit(o['sr'])} {qlit(Fraction(float(c['start'])))} {qlit(Fraction(float(c['stop'])))})"
            if o["res"][0] != "ok":
                parts.append(f"match {m} with Err _ => true | Ok _ => false end")
            else:
                r = o["clip"]
                if r["step"] is None:
                    return "false"
                rhs = f"(Ok {{| a_frames := {_frames(r['frames'])}; a_times := {listlit(r['times'], qlit)}; a_step := {qlit(r['step'])} |}})"
                parts.append(f"raudio_eqb {tol} {m} {rhs}")
        elif k == "resample":
            r = o["recording"]
            if o["res"][0] != "ok":
                # scipy raises when the requested length floor(n * ratio) is 0: the model says "no array is produced"
                return f"match resample_axis {listlit(r['times'], qlit)} {qlit(r['step'])} {qlit(c['target'])} with None => true | Some _ => false end"
            if o["res_step"] is None:
                return "false"
            parts.append(f"ores {tol} (resample_axis {listlit(r['times'], qlit)} {qlit(r['step'])} {qlit(c['target'])}) {listlit(o['res_times'], qlit)} {qlit(o['res_step'])}")
        elif k == "spectrogram":
            if o["res"][0] != "ok" or o["sp_tstep"] is None or o["sp_fstep"] is None:
                return "false"
            r = o["recording"]
            parts.append(
                f"ospec {tol} (spectrogram_axes {qlit(r['times'][0])} {qlit(r['step'])} {qlit(Fraction(float(c['window'])))} {qlit(Fraction(float(c['hop'])))} {natlit(len(r['times']))}) "
                f"{listlit(o['sp_times'], qlit)} {qlit(o['sp_tstep'])} {listlit(o['sp_freqs'], qlit)} {qlit(o['sp_fstep'])}"
            )
        return " && ".join(parts)

    def show(self, c):
        return None

    # ------------------------------------------------------------------ oracle
    @staticmethod
    def _axis_truth(times, step, first, what, fail):
        if not times:
            return
        if step is None or step <= 0:
            fail("step-missing", f"{what}: no positive step attribute")
            return
        for i in range(1, len(times)):
            if not times[i] > times[i - 1]:
                fail("not-increasing", f"{what}: coordinates not strictly increasing at {i}")
                return
        if first is not None and abs(times[0] - first) > TOL * max(1, abs(first)):
            fail("axis-start", f"{what}: axis starts at {float(times[0])}, source starts at {float(first)}")
        worst = max(abs(t - (times[0] + i * step)) / step for i, t in enumerate(times))
        if worst >= 1:
            fail("axis-drift", f"{what}: a coordinate is {float(worst):.3f} steps away from first + i*step (advertised step {float(step)})", drift=float(worst))

    def oracle(self, c, o):
        fails = []
        k = c["kind"]

        def fail(kind, what, **a):
            fails.append({"kind": kind, "what": what, "attrs": dict(a, case=k, exact=c["exact"])})

        sr = o["sr"]
        n = len(o["file_frames"])
        if c["file"].get("from_file") and "rec_meta" in o:
            msr, mch, mdur = o["rec_meta"]
            if msr != sr or mch != c["file"]["ch"] or abs(mdur - Fraction(n) / sr) > Fraction(1, 10**9):
                fail("recording-metadata", f"Recording.from_file describes the file as {msr} Hz / {mch} ch / {float(mdur)} s; the file has {sr} Hz "
                                           f"(x time expansion) / {c['file']['ch']} ch / {float(Fraction(n) / sr)} s")
        if "recording" not in o:
            fail("raised", f"load_recording raised {o['res'][1]}: {o.get('msg', '')[:150]}")
            return fails
        rec = o["recording"]
        if rec["frames"] != o["file_frames"]:
            fail("recording-frames", "load_recording frames differ from the file")
        self._axis_truth(rec["times"], rec["step"], Fraction(0), "load_recording", fail)
        if any(abs(t - Fraction(i) / sr) > TOL for i, t in enumerate(rec["times"])):
            fail("recording-times", "load_recording: frame i does not carry time i/samplerate")
        if k == "clip":
            a, b = Fraction(float(c["start"])), Fraction(float(c["stop"]))
            off = (a * sr).numerator // (a * sr).denominator
            ns = ((b - a) * sr).numerator // ((b - a) * sr).denominator
            if off > n:
                return fails  # starts beyond the end of file: outside the quantifier
            if o["res"][0] != "ok":
                fail("raised", f"load_clip raised {o['res'][1]}: {o.get('msg', '')[:150]}")
                return fails
            cl = o["clip"]
            if len(cl["frames"]) != ns:
                fail("clip-frame-count", f"load_clip returned {len(cl['frames'])} frames, floor(duration*samplerate) = {ns}")
                return fails
            zeros = [Fraction(0)] * c["file"]["ch"]
            want = [o["file_frames"][off + i] if off + i < n else zeros for i in range(ns)]
            if cl["frames"] != want:
                bad = next(i for i in range(ns) if cl["frames"][i] != want[i])
                fail("clip-frames", f"load_clip frame {bad} is not file frame {off + bad} (zero past the end)")
            if any(abs(t - Fraction(off + i) / sr) > TOL * max(1, abs(t)) for i, t in enumerate(cl["times"])) or len(cl["times"]) != ns:
                fail("clip-times", "load_clip: frame i does not carry time (offset+i)/samplerate")
            for i in range(min(ns, max(0, n - off))):
                if cl["frames"][i] != rec["frames"][off + i] or abs(cl["times"][i] - rec["times"][off + i]) > TOL * max(1, abs(cl["times"][i])):
                    fail("clip-vs-recording", f"clip frame {i} differs from recording frame {off + i}")
                    break
            self._axis_truth(cl["times"], cl["step"], Fraction(off) / sr, "load_clip", fail)
        elif k == "resample":
            if o["res"][0] != "ok":
                # the property speaks about the arrays resample produces; when floor(n * target * step) = 0 there is no sample
                # to produce (scipy raises ZeroDivisionError) — outside the property, not a failure
                n_out = int(len(rec["times"]) * (c["target"] * rec["step"])) if rec.get("step") else 1
                if n_out >= 1:
                    fail("raised", f"resample raised {o['res'][1]}: {o.get('msg', '')[:150]}")
                return fails
            if len(o["res_times"]) != o["res_n"]:
                fail("resample-length", "time axis and data length differ")
            self._axis_truth(o["res_times"], o["res_step"], rec["times"][0], "resample", fail)
        elif k == "spectrogram":
            if o["res"][0] != "ok":
                fail("raised", f"compute_spectrogram raised {o['res'][1]}: {o.get('msg', '')[:150]}")
                return fails
            self._axis_truth(o["sp_times"], o["sp_tstep"], rec["times"][0], "compute_spectrogram time axis", fail)
            self._axis_truth(o["sp_freqs"], o["sp_fstep"], Fraction(0), "compute_spectrogram frequency axis", fail)
            if o["sp_shape"][:2] != [len(o["sp_freqs"]), len(o["sp_times"])]:
                fail("spectrogram-shape", "data shape and axes differ")
        return fails

    def nontrivial(self, c, o):
        return o["res"][0] == "ok"

    def tags(self, c, o):
        return [c["kind"], "exact-stream" if c["exact"] else "margin-stream", f"res:{o['res'][0]}", f"te:{c['file']['te']}", f"sr:{c['file']['sr_file']}"]


PROP = C15
