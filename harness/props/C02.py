"""C02 — AOEF documents are self-contained and resolvable in a single pass."""
from __future__ import annotations

from .. import aoef as A
from .aoef_common import AoefProp

# the oracle's own reading of the document format (independent of the schema table used for the model):
# (table, field) -> referenced table; "scored" = list of [tag id, score]
REF = {
    "recordings": {"tags": "tags", "owners": "users"},
    "clips": {"recording": "recordings"},
    "sound_events": {"recording": "recordings"},
    "sequences": {"sound_events": "sound_events", "parent": "sequences"},
    "sound_event_annotations": {"sound_event": "sound_events", "tags": "tags", "created_by": "users"},
    "sequence_annotations": {"sequence": "sequences", "tags": "tags", "created_by": "users"},
    "clip_annotations": {"clip": "clips", "tags": "tags", "sound_events": "sound_event_annotations", "sequences": "sequence_annotations"},
    "sound_event_predictions": {"sound_event": "sound_events", "tags": "scored"},
    "sequence_predictions": {"sequence": "sequences", "tags": "scored"},
    "clip_predictions": {"clip": "clips", "sound_events": "sound_event_predictions", "sequences": "sequence_predictions", "tags": "scored"},
    "tasks": {"clip": "clips"},
    "matches": {"source": "sound_event_predictions", "target": "sound_event_annotations"},
    "clip_evaluations": {"annotations": "clip_annotations", "predictions": "clip_predictions", "matches": "matches"},
}
ROOT_REF = {"project_tags": "tags", "evaluation_tags": "tags"}
TABLE_OF = {
    "User": "users", "Tag": "tags", "Recording": "recordings", "Clip": "clips", "SoundEvent": "sound_events", "Sequence": "sequences",
    "SoundEventAnnotation": "sound_event_annotations", "SequenceAnnotation": "sequence_annotations", "ClipAnnotation": "clip_annotations",
    "SoundEventPrediction": "sound_event_predictions", "SequencePrediction": "sequence_predictions", "ClipPrediction": "clip_predictions",
    "AnnotationTask": "tasks", "Match": "matches", "ClipEvaluation": "clip_evaluations",
}


def reachable(obj):
    """distinct objects reachable from the collection, by introspection of the pydantic fields"""
    out = {t: set() for t in TABLE_OF.values()}

    def walk(x):
        tn = type(x).__name__
        if tn in TABLE_OF:
            k = (x.term.label, x.value) if tn == "Tag" else str(x.uuid)
            out[TABLE_OF[tn]].add(k)
        if hasattr(type(x), "model_fields"):
            if tn in ("Term",) or tn in A.G_TYPES:
                return
            for f in type(x).model_fields:
                walk(getattr(x, f))
        elif isinstance(x, (list, tuple)):
            for y in x:
                walk(y)

    walk(obj)
    return out


A.G_TYPES = {"TimeStamp", "TimeInterval", "Point", "LineString", "Polygon", "BoundingBox", "MultiPoint", "MultiLineString", "MultiPolygon"}


def audit(data, obj):
    """reference audit of a real document; list of (kind, what, attrs)"""
    fails = []

    def fail(kind, what, **attrs):
        fails.append({"kind": kind, "what": what, "attrs": attrs})

    ids = {}
    for t in TABLE_OF.values():
        rows = data.get(t) or []
        ks = [(r["id"] if t == "tags" else r["uuid"]) for r in rows]
        ids[t] = ks
        if len(set(ks)) != len(ks):
            fail("duplicate-id", f"identifiers not unique in '{t}'", table=t)
    tg = data.get("tags") or []
    if [r["id"] for r in tg] != list(range(len(tg))):
        fail("tag-ids-not-dense", f"tag ids {[r['id'] for r in tg]} are not 0..n-1", table="tags")
    if len({(r["key"], r["value"]) for r in tg}) != len(tg):
        fail("duplicate-tag", "the same (label, value) has two tag ids", table="tags")

    def check(table, field, target, val, where):
        vals = val if isinstance(val, list) else [val]
        for v in vals:
            if target == "scored":
                v, tgt = v[0], "tags"
            else:
                tgt = target
            n = ids[tgt].count(v)
            if n != 1:
                fail("dangling-reference" if n == 0 else "ambiguous-reference",
                     f"{where}.{field} mentions {v!r}, defined {n} times in '{tgt}'", table=table, field=field, target=tgt, root=data.get("collection_type"))

    def notes(table, rec, where):
        for n in rec.get("notes") or []:
            if n.get("created_by") is not None:
                check(table, "notes.created_by", "users", n["created_by"], where)

    for table, fields in REF.items():
        for rec in data.get(table) or []:
            where = f"{table}[{rec.get('uuid')}]"
            for f, tgt in fields.items():
                if rec.get(f) is not None:
                    check(table, f, tgt, rec[f], where)
            notes(table, rec, where)
            for b in rec.get("status_badges") or []:
                if b.get("owner") is not None:
                    check(table, "status_badges.owner", "users", b["owner"], where)
    for f, tgt in ROOT_REF.items():
        if data.get(f) is not None:
            check("<root>", f, tgt, data[f], "<root>")
    # parent listed before the sequence
    pos = {k: i for i, k in enumerate(ids["sequences"])}
    for i, rec in enumerate(data.get("sequences") or []):
        p = rec.get("parent")
        if p is not None and p in pos and pos[p] >= i:
            fail("parent-after-child", f"sequence {rec['uuid']} is listed before its parent {p}", table="sequences")
    # exactly the reachable objects
    want = reachable(obj)
    tagkey = {r["id"]: (r["key"], r["value"]) for r in tg}
    for t in TABLE_OF.values():
        have = {tagkey[k] for k in ids[t]} if t == "tags" else set(ids[t])
        miss, extra = want[t] - have, have - want[t]
        if miss:
            fail("reachable-missing", f"{len(miss)} reachable object(s) missing from '{t}'", table=t, root=data.get("collection_type"))
        if extra:
            fail("unreachable-written", f"{len(extra)} object(s) in '{t}' are not reachable from the collection", table=t, root=data.get("collection_type"))
    return fails


class C02(AoefProp):
    ID = "C02"
    REFERENCES_ONLY = True
    IMPORTS = AoefProp.IMPORTS + ["Aoef.TagIds"]
    RULE = (
        "random object graphs for each of the 8 collection types (30 per type quick, 300 thorough; sizes 0.4-4x): shared sub-objects, "
        "users only as note author / badge owner / recording owner, tags only in predictions / project / evaluation tag lists, "
        "sequence parents referenced from nowhere else (depth <= 3), sound events of other recordings than the clip's, with and "
        "without audio dir; the real document is compared as a whole with the model's save_root (table contents and order inside "
        "each table) and audited by closedb inside Coq; oracle = independent reference audit of the JSON + reachable-set "
        "comparison by pydantic introspection. Non-trivial = >= 8 nodes; distinct by hash"
    )
    TRUSTED = [
        "harness/aoef.py schema table (our reading of the adapters; Aoef/Schema.v is generated from it) — validated by the "
        "document comparison, and fail-closed inventory of declared fields",
        "conversion of JSON records to flat records (DocReader) and of pydantic objects to nodes (node_of)",
        "inline objects (notes, badges, predicted tags) are modelled as pseudo-tables compared as sets",
    ]

    def agree(self, case, o):
        if self.inv:
            return "false"
        if not o["cycles"] or o["cycles"][0].get("save") != "ok":
            return "false"
        # the real ids of the tags list, in order, against the model's dense ids
        real_ids = [t["id"] for t in (o["doc_json"]["data"].get("tags") or [])]
        ids_ok = "list_eqb Nat.eqb (tag_ids (get_table cTag (fst " + self.doc_expr(o) + "))) [" + "; ".join(f"{int(i)}%nat" for i in real_ids) + "]" \
            if all(isinstance(i, int) and i >= 0 for i in real_ids) else "false"
        return f"({self.save_agrees(case, o, 'skel_eqb')}) && closedb {self.doc_expr(o)} && {ids_ok}"

    def oracle(self, case, o):
        fails = []  # an inventory difference breaks the correspondence (agree = false); it is not by itself a failing input
        c0 = o["cycles"][0] if o["cycles"] else {"save": "none"}
        if c0.get("save") != "ok":
            fails.append({"kind": "save-failed", "what": f"save raised {c0.get('save')}", "attrs": {"root": case["root"]}})
            return fails
        return fails + audit(o["doc_json"]["data"], o.x["obj"])


PROP = C02
