"""C10 — crowsetta conversions preserve times, frequencies, labels and order."""
from __future__ import annotations

import pathlib
import uuid as uuidlib
from fractions import Fraction

from ..core import Prop, blit, guarded, listlit, optlit, qlit, strlit, zlit
from .. import geomgen as G

U = lambda k: uuidlib.UUID(int=15000 + k)
LABELS = ["a", "b", "song", "__empty__", "x:y", "none", "", "b ", " c", " d ", "song type 1", "  "]  # labels are kept verbatim, blanks included
KEYS = ["species", "call", "crowsetta", "k"]
TERMS = [("dwc:sp", "species"), ("se:call", "call"), ("se:other", "other")]


def _tag(t):
    return f"(({strlit(t[0])}, {strlit(t[1])}), {strlit(t[2])})"


def _tags(ts):
    return listlit(ts, _tag)


class C10(Prop):
    ID = "C10"
    IMPORTS = ["Crow.Labels", "Crow.Convert"]
    PRELUDE = (
        "Open Scope Q_scope.\n"
        "Definition rseg := res_eqb segment_eqb.\nDefinition rbox := res_eqb cbox_eqb.\n"
        "Definition rpair := res_eqb (fun a b : Q * Q => qclose (1 # 1000000000000) (fst a) (fst b) && qclose (1 # 1000000000000) (snd a) (snd b)).\n"
        "Definition rquad := res_eqb (fun a b : bounds => qclose (1 # 1000000000000) (b_start a) (b_start b) && qclose (1 # 1000000000000) (b_low a) (b_low b) "
        "&& qclose (1 # 1000000000000) (b_end a) (b_end b) && qclose (1 # 1000000000000) (b_high a) (b_high b)).\n"
        "Definition fn_of {A} (tbl : list (string * res A)) (l : string) : res A := match lookup l tbl with Some r => r | None => Err EValue end.\n"
        "Fixpoint segs_eqb (a b : list segment) : bool := match a, b with [], [] => true | x :: a', y :: b' => segment_eqb x y && segs_eqb a' b' | _, _ => false end.\n"
    )
    RULE = (
        "label_to_tags over every combination of (tag function hit/ValueError/absent, term / tag / key mappings hit/miss/absent, "
        "explicit term / key, fallback, empty labels); label_from_tags over (sequence function, select_by_key, index in -3..5, "
        "separators, label function / mapping, value_only); segments and boxes imported with seconds only, samples only, both, "
        "time expansion 1, 2, 10, 1/2, adjust on/off; every geometry type (and none) exported with cast / raise_on_time_geometries / "
        "ignore_errors; export-after-import of whole sequences. Times and frequencies dyadic (exact). Non-trivial = accepted "
        "conversion with a non-empty label; distinct by hash"
    )
    TRUSTED = [
        "crowsetta 4.0.0.post2 constructors/validators (Segment.from_keyword, BBox validators, Sequence.from_segments) as read from its source",
        "label cascade: the model follows the code where the documented steps are ambiguous (a term set explicitly or by term_mapping "
        "suppresses tag_mapping); those combinations are compared model-vs-code only, not judged by the oracle",
    ]

    # ------------------------------------------------------------------ generation
    def _l2t(self, rng):
        label = rng.choice(LABELS)
        c = {"kind": "l2t", "label": label}
        r = rng.random
        pick = lambda: rng.choice([label, label, rng.choice(LABELS)])
        mk_tags = lambda: [[*rng.choice(TERMS), rng.choice(["v1", "v2"])] for _ in range(rng.randint(1, 2))]
        c["fn"] = None if r() < 0.6 else {pick(): (mk_tags() if r() < 0.7 else "ValueError")}
        c["fn_single"] = r() < 0.3
        c["tag_mapping"] = None if r() < 0.55 else {pick(): mk_tags()}
        c["term_mapping"] = None if r() < 0.6 else {pick(): list(rng.choice(TERMS))}
        c["key_mapping"] = None if r() < 0.55 else {pick(): rng.choice(KEYS)}
        c["key"] = None if r() < 0.6 else rng.choice(KEYS)
        c["term"] = None if r() < 0.7 else list(rng.choice(TERMS))
        c["fallback"] = rng.choice(["crowsetta", "fb"])
        c["empty_labels"] = rng.choice([["__empty__"], ["__empty__", "none"], [], [""]])
        return c

    def _lft(self, rng):
        n = rng.randint(0, 4)
        tags = [[*rng.choice(TERMS), rng.choice(["v1", "v2", "v3"])] for _ in range(n)]
        r = rng.random
        c = {"kind": "lft", "tags": tags}
        c["seq_fn"] = r() < 0.1
        c["select_by_key"] = None if r() < 0.65 else rng.choice(["species", "call", "missing"])
        c["index"] = None if r() < 0.5 else rng.randint(-3, 5)
        c["separator"] = rng.choice([",", ";", " | "])
        c["empty_label"] = rng.choice(["__empty__", "EMPTY"])
        c["label_fn"] = r() < 0.15
        c["label_mapping"] = None if r() < 0.7 or not tags else [[rng.choice(tags), "mapped"]]
        c["value_only"] = r() < 0.5
        c["tag_separator"] = rng.choice([":", "=", "::"])
        return c

    def _rec(self, rng):
        te = rng.choice([Fraction(1), Fraction(1), Fraction(2), Fraction(10), Fraction(1, 2)])
        sr_file = rng.choice([8192, 16384, 4096, 44100, 22050])  # 44100 * k/1024 is not whole: floor() matters
        if sr_file in (44100, 22050) and te == Fraction(1, 2) and sr_file % 2:
            te = Fraction(1)
        return {"sr": Fraction(sr_file) * te, "te": te}

    def _seg_import(self, rng):
        rec = self._rec(rng)
        on = Fraction(rng.randint(0, 64), 16)
        off = on + Fraction(rng.randint(0, 32), 16)
        ons, offs = rng.randint(0, 5000), None
        offs = ons + rng.randint(0, 5000)
        mode = rng.choice(["seconds", "samples", "both"])
        if rng.random() < 0.05:
            on, off = off + 1, on
        return {"kind": "seg_import", "rec": rec, "mode": mode, "on": on, "off": off, "ons": ons, "offs": offs,
                "adjust": rng.random() < 0.8, "label": rng.choice(LABELS[:3])}

    def _bbox_import(self, rng):
        rec = self._rec(rng)
        on = Fraction(rng.randint(0, 64), 16)
        off = on + Fraction(rng.randint(1, 32), 16)
        lo = Fraction(rng.randint(0, 4000))
        hi = lo + Fraction(rng.randint(1, 4000))
        if rng.random() < 0.05:
            hi = Fraction(G.MAXF) - 1  # times te may leave the valid band
        return {"kind": "bbox_import", "rec": rec, "on": on, "off": off, "lo": lo, "hi": hi, "adjust": rng.random() < 0.8, "label": rng.choice(LABELS[:3])}

    def _export(self, rng, kind):
        rec = self._rec(rng)
        g = None if rng.random() < 0.08 else G.rgeom(rng, tmax=8, fmax=64)
        if g is not None and rng.random() < 0.3:
            # frequencies around the Nyquist frequency
            ny = rec["sr"] / 2
            s = Fraction(rng.randint(0, 16), 4)
            g = {"type": "BoundingBox", "coordinates": [s, ny - rng.choice([1000, 1, 0]), s + Fraction(rng.randint(0, 8), 4), ny + rng.choice([0, 1, 500])]}
        if g is not None and rng.random() < 0.3:
            # times on a fine dyadic grid: time * samplerate is then fractional, and the sample index is its floor
            s = Fraction(rng.randint(0, 4096), 1024)
            e = s + Fraction(rng.randint(0, 2048), 1024)
            g = rng.choice([{"type": "TimeInterval", "coordinates": [s, e]},
                            {"type": "BoundingBox", "coordinates": [s, Fraction(100), e, Fraction(900)]}])
        return {"kind": kind, "rec": rec, "g": g, "cast": rng.random() < 0.7, "raise_on_time": rng.random() < 0.5, "omit_defaults": rng.random() < 0.5}

    def _sequence(self, rng):
        rec = {"sr": Fraction(8192), "te": Fraction(1)}
        n = rng.randint(1, 5)
        t = Fraction(0)
        items = []
        for _ in range(n):
            t += Fraction(rng.randint(1, 8), 16)
            d = Fraction(rng.randint(1, 8), 16)
            kind = rng.choice(["interval", "interval", "box", "none", "point"])
            if kind == "interval":
                g = {"type": "TimeInterval", "coordinates": [t, t + d]}
            elif kind == "box":
                g = {"type": "BoundingBox", "coordinates": [t, Fraction(100), t + d, Fraction(200)]}
            elif kind == "point":
                g = {"type": "Point", "coordinates": [t, Fraction(100)]}
            else:
                g = None
            items.append({"g": g, "label": rng.choice(["a", "b", "song"])})
            t += d
        return {"kind": "sequence", "rec": rec, "items": items, "cast": rng.random() < 0.6, "ignore_errors": rng.random() < 0.6}

    def _roundtrip(self, rng):
        n = rng.randint(1, 5)
        t = Fraction(0)
        segs = []
        for _ in range(n):
            t += Fraction(rng.randint(1, 8), 16)
            d = Fraction(rng.randint(1, 8), 16)
            segs.append({"on": t, "off": t + d, "label": rng.choice(["a", "b", "song", "__empty__"])})
            t += d
        return {"kind": "roundtrip", "rec": {"sr": Fraction(8192), "te": Fraction(1)}, "segs": segs}

    def cases(self, rng, tier):
        n = {"quick": 1, "thorough": 20}[tier]
        out = []
        out += [self._l2t(rng) for _ in range(400 * n)]
        out += [self._lft(rng) for _ in range(250 * n)]
        out += [self._seg_import(rng) for _ in range(150 * n)]
        # the same import through annotation_to_clip_annotation, which reads the recording from the annotated audio file
        # (time expansion given as recording_kwargs) — sometimes after an earlier import of the same file with another factor
        for _ in range(40 * n):
            c = self._seg_import(rng)
            if c["rec"]["sr"] / c["rec"]["te"] not in (8192, 16384, 4096):
                continue
            c["via"] = "annotation"
            c["sr_file"] = int(c["rec"]["sr"] / c["rec"]["te"])
            if rng.random() < 0.6:
                c["te_before"] = rng.choice([t for t in (Fraction(1), Fraction(2), Fraction(10), Fraction(1, 2)) if t != c["rec"]["te"]])
            out.append(c)
        out += [self._bbox_import(rng) for _ in range(120 * n)]
        out += [self._export(rng, "seg_export") for _ in range(130 * n)]
        out += [self._export(rng, "bbox_export") for _ in range(130 * n)]
        out += [self._sequence(rng) for _ in range(60 * n)]
        out += [self._roundtrip(rng) for _ in range(40 * n)]
        return out

    # ------------------------------------------------------------------ implementation
    def _via_annotation(self, c, seg):
        import wave

        import crowsetta
        from soundevent.io.crowsetta import annotation as AN

        d = pathlib.Path(__file__).resolve().parents[2] / "build" / "c10_audio"
        d.mkdir(parents=True, exist_ok=True)
        wav = d / f"f{c['sr_file']}.wav"
        if not wav.exists():
            with wave.open(str(wav), "wb") as w:
                w.setnchannels(1)
                w.setsampwidth(2)
                w.setframerate(c["sr_file"])
                w.writeframes(b"\0\0" * c["sr_file"])
        mk = lambda: crowsetta.Annotation(annot_path=str(d / "a.csv"), notated_path=str(wav), seq=crowsetta.Sequence.from_segments([seg]))
        if c.get("te_before") is not None:
            guarded(AN.annotation_to_clip_annotation, mk(), recording_kwargs={"time_expansion": float(c["te_before"])}, adjust_time_expansion=c["adjust"])
        kw = {} if c["rec"]["te"] == 1 and c.get("te_before") is None and c["ons"] % 2 else {"recording_kwargs": {"time_expansion": float(c["rec"]["te"])}}
        r = guarded(AN.annotation_to_clip_annotation, mk(), adjust_time_expansion=c["adjust"], **kw)
        if r[0] != "ok":
            return {"res": ["err", r[1]], "msg": r[2]}
        ca = r[1]
        if len(ca.sound_events) != 1:
            return {"res": ["err", "EOther"], "msg": f"{len(ca.sound_events)} sound events for one segment"}
        a = ca.sound_events[0]
        rec = a.sound_event.recording
        meta_ok = rec.time_expansion == float(c["rec"]["te"]) and rec.samplerate == int(c["rec"]["sr"])
        return {"res": ["ok", [Fraction(x) for x in a.sound_event.geometry.coordinates]], "gtype": a.sound_event.geometry.type,
                "tags": self._obs_tags(a.tags), "same_rec": meta_ok}

    def _recording(self, rec):
        from soundevent import data

        return data.Recording(uuid=U(1), path="/a/r.wav", duration=100, channels=1, samplerate=int(rec["sr"]), time_expansion=float(rec["te"]))

    @staticmethod
    def _T(t):
        from soundevent import data

        return data.Tag(term=data.Term(name=t[0], label=t[1], definition="d"), value=t[2])

    @staticmethod
    def _obs_tags(tags):
        return [[t.term.name, t.term.label, t.value] for t in tags]

    def run(self, c):
        import crowsetta
        from soundevent import data
        from soundevent.io.crowsetta import labels as L
        from soundevent.io.crowsetta import bbox as B
        from soundevent.io.crowsetta import segment as S
        from soundevent.io.crowsetta import sequence as Q

        k = c["kind"]
        if k == "l2t":
            def fn(label):
                v = c["fn"].get(label, "ValueError")
                if v == "ValueError":
                    raise ValueError("no")
                ts = [self._T(t) for t in v]
                return ts[0] if (c["fn_single"] and len(ts) == 1) else ts
            term = None if c["term"] is None else data.Term(name=c["term"][0], label=c["term"][1], definition="d")
            r = guarded(L.label_to_tags, c["label"], tag_fn=fn if c["fn"] is not None else None,
                        tag_mapping=None if c["tag_mapping"] is None else {kk: [self._T(t) for t in v] for kk, v in c["tag_mapping"].items()},
                        term_mapping=None if c["term_mapping"] is None else {kk: data.Term(name=v[0], label=v[1], definition="d") for kk, v in c["term_mapping"].items()},
                        key_mapping=c["key_mapping"], key=c["key"], term=term, fallback=c["fallback"], empty_labels=tuple(c["empty_labels"]))
            return {"res": ["ok", self._obs_tags(r[1])]} if r[0] == "ok" else {"res": ["err", r[1]], "msg": r[2]}
        if k == "lft":
            tags = [self._T(t) for t in c["tags"]]
            kw = {"select_by_key": c["select_by_key"], "index": c["index"], "separator": c["separator"], "empty_label": c["empty_label"],
                  "value_only": c["value_only"]}
            # label_from_tag's own separator is passed through **kwargs under the same name 'separator'?  No: the sequence-level
            # separator is consumed by label_from_tags; the tag-level separator keeps its default ':' unless given via label_fn.
            if c["seq_fn"]:
                kw["seq_label_fn"] = lambda ts: "SEQ" + str(len(ts))
            if c["label_fn"]:
                kw["label_fn"] = lambda t: "F(" + t.value + ")"
            if c["label_mapping"] is not None:
                kw["label_mapping"] = {self._T(t): l for t, l in c["label_mapping"]}
            r = guarded(L.label_from_tags, tags, **kw)
            return {"res": ["ok", r[1]]} if r[0] == "ok" else {"res": ["err", r[1]], "msg": r[2]}
        rec = self._recording(c["rec"])
        if k == "seg_import":
            kw = {"label": c["label"]}
            if c["mode"] in ("seconds", "both"):
                kw.update(onset_s=float(c["on"]), offset_s=float(c["off"]))
            if c["mode"] in ("samples", "both"):
                kw.update(onset_sample=c["ons"], offset_sample=c["offs"])
            seg = crowsetta.Segment.from_keyword(**kw)
            if c.get("via") == "annotation":
                return self._via_annotation(c, seg)
            r = guarded(S.segment_to_annotation, seg, rec, adjust_time_expansion=c["adjust"])
            if r[0] != "ok":
                return {"res": ["err", r[1]], "msg": r[2]}
            a = r[1]
            return {"res": ["ok", [Fraction(x) for x in a.sound_event.geometry.coordinates]], "gtype": a.sound_event.geometry.type, "tags": self._obs_tags(a.tags),
                    "same_rec": a.sound_event.recording == rec}
        if k == "bbox_import":
            bb = crowsetta.BBox(onset=float(c["on"]), offset=float(c["off"]), low_freq=float(c["lo"]), high_freq=float(c["hi"]), label=c["label"])
            r = guarded(B.bbox_to_annotation, bb, rec, adjust_time_expansion=c["adjust"])
            if r[0] != "ok":
                return {"res": ["err", r[1]], "msg": r[2]}
            a = r[1]
            return {"res": ["ok", [Fraction(x) for x in a.sound_event.geometry.coordinates]], "gtype": a.sound_event.geometry.type, "tags": self._obs_tags(a.tags)}
        if k in ("seg_export", "bbox_export"):
            geom = None if c["g"] is None else G.build(c["g"])
            se = data.SoundEvent(uuid=U(2), recording=rec, geometry=geom)
            ann = data.SoundEventAnnotation(uuid=U(3), sound_event=se, tags=[self._T(("dwc:sp", "species", "Myotis"))])
            norm = None if geom is None else G.from_impl(geom)
            if k == "seg_export":
                kw = {} if (c["cast"] is True and c.get("omit_defaults")) else {"cast_to_segment": c["cast"]}  # True is the documented default
                r = guarded(S.segment_from_annotation, ann, value_only=True, **kw)
                if r[0] != "ok":
                    return {"res": ["err", r[1]], "msg": r[2], "norm": norm}
                s = r[1]
                return {"res": ["ok", [Fraction(s.onset_s), Fraction(s.offset_s), int(s.onset_sample), int(s.offset_sample)]], "label": s.label, "norm": norm}
            kw = {}
            if not (c["cast"] is True and c.get("omit_defaults")):
                kw["cast_to_bbox"] = c["cast"]
            if not (c["raise_on_time"] is True and c.get("omit_defaults")):
                kw["raise_on_time_geometries"] = c["raise_on_time"]
            r = guarded(B.bbox_from_annotation, ann, value_only=True, **kw)
            if r[0] != "ok":
                return {"res": ["err", r[1]], "msg": r[2], "norm": norm}
            b = r[1]
            return {"res": ["ok", [Fraction(float(b.onset)), Fraction(float(b.offset)), Fraction(float(b.low_freq)), Fraction(float(b.high_freq))]], "label": b.label, "norm": norm}
        if k == "sequence":
            anns, norms = [], []
            for i, it in enumerate(c["items"]):
                geom = None if it["g"] is None else G.build(it["g"])
                norms.append(None if geom is None else G.from_impl(geom))
                se = data.SoundEvent(uuid=U(100 + i), recording=rec, geometry=geom)
                anns.append(data.SoundEventAnnotation(uuid=U(200 + i), sound_event=se, tags=[self._T(("se:l", "l", it["label"]))]))
            r = guarded(Q.sequence_from_annotations, anns, cast_to_segment=c["cast"], ignore_errors=c["ignore_errors"], value_only=True)
            if r[0] != "ok":
                return {"res": ["err", r[1]], "msg": r[2], "norms": norms}
            segs = r[1].segments
            return {"res": ["ok", [[Fraction(s.onset_s), Fraction(s.offset_s), int(s.onset_sample), int(s.offset_sample)] for s in segs]],
                    "labels": [s.label for s in segs], "norms": norms}
        # roundtrip: crowsetta sequence -> annotations -> crowsetta sequence
        segs = [crowsetta.Segment.from_keyword(label=s["label"], onset_s=float(s["on"]), offset_s=float(s["off"])) for s in c["segs"]]
        seq = crowsetta.Sequence.from_segments(segs)
        r = guarded(Q.sequence_to_annotations, seq, rec)
        if r[0] != "ok":
            return {"res": ["err", r[1]], "msg": "import: " + r[2]}
        anns = r[1]
        r2 = guarded(Q.sequence_from_annotations, anns, value_only=True)
        if r2[0] != "ok":
            return {"res": ["err", r2[1]], "msg": "export: " + r2[2]}
        out = r2[1].segments
        return {"res": ["ok", [[Fraction(s.onset_s), Fraction(s.offset_s), s.label] for s in out]], "n_ann": len(anns),
                "ann_tags": [self._obs_tags(a.tags) for a in anns]}

    # ------------------------------------------------------------------ model
    def _model(self, c, o):
        k = c["kind"]
        os_ = lambda s: optlit(s, strlit)
        if k == "l2t":
            fn = "None"
            if c["fn"] is not None:
                tbl = listlit(list(c["fn"].items()), lambda kv: f"({strlit(kv[0])}, {'Err EValue' if kv[1] == 'ValueError' else 'Ok ' + _tags(kv[1])})")
                fn = f"(Some (fn_of {tbl}))"
            tm = "None" if c["tag_mapping"] is None else "(Some " + listlit(list(c["tag_mapping"].items()), lambda kv: f"({strlit(kv[0])}, {_tags(kv[1])})") + ")"
            trm = "None" if c["term_mapping"] is None else "(Some " + listlit(list(c["term_mapping"].items()), lambda kv: f"({strlit(kv[0])}, ({strlit(kv[1][0])}, {strlit(kv[1][1])}))") + ")"
            km = "None" if c["key_mapping"] is None else "(Some " + listlit(list(c["key_mapping"].items()), lambda kv: f"({strlit(kv[0])}, {strlit(kv[1])})") + ")"
            term = "None" if c["term"] is None else f"(Some ({strlit(c['term'][0])}, {strlit(c['term'][1])}))"
            return (f"(label_to_tags {strlit(c['label'])} {fn} {tm} {trm} {km} {os_(c['key'])} {term} {strlit(c['fallback'])} "
                    f"{listlit(c['empty_labels'], strlit)})")
        if k == "lft":
            seqfn = "(Some (fun ts => (\"SEQ\" ++ match List.length ts with 0%nat => \"0\" | 1%nat => \"1\" | 2%nat => \"2\" | 3%nat => \"3\" | _ => \"4\" end)%string))" if c["seq_fn"] else "None"
            lfn = "(Some (fun t : tag => (\"F(\" ++ snd t ++ \")\")%string))" if c["label_fn"] else "None"
            lm = "None" if c["label_mapping"] is None else "(Some " + listlit(c["label_mapping"], lambda kv: f"({_tag(kv[0])}, {strlit(kv[1])})") + ")"
            return (f"(label_from_tags {_tags(c['tags'])} {seqfn} {os_(c['select_by_key'])} {optlit(c['index'], zlit)} {strlit(c['separator'])} "
                    f"{strlit(c['empty_label'])} {lfn} {lm} {blit(c['value_only'])} {strlit(':')})")
        sr, te = qlit(c["rec"]["sr"]), qlit(c["rec"]["te"])
        if k == "seg_import":
            sec = c["mode"] in ("seconds", "both")
            sam = c["mode"] in ("samples", "both")
            seg = (f"{{| onset_s := {optlit(c['on'] if sec else None, qlit)}; offset_s := {optlit(c['off'] if sec else None, qlit)}; "
                   f"onset_sample := {optlit(c['ons'] if sam else None, zlit)}; offset_sample := {optlit(c['offs'] if sam else None, zlit)} |}}")
            return f"(segment_to_interval {seg} {sr} {te} {blit(c['adjust'])})"
        if k == "bbox_import":
            b = f"{{| c_onset := {qlit(c['on'])}; c_offset := {qlit(c['off'])}; c_low := {qlit(c['lo'])}; c_high := {qlit(c['hi'])} |}}"
            return f"(bbox_to_box {b} {te} {blit(c['adjust'])})"
        if k == "seg_export":
            g = "None" if o["norm"] is None else f"(Some {G.coq_geom(o['norm'])})"
            return f"(segment_from_geometry {g} {sr} {blit(c['cast'])})"
        if k == "bbox_export":
            g = "None" if o["norm"] is None else f"(Some {G.coq_geom(o['norm'])})"
            return f"(bbox_from_geometry {g} {sr} {blit(c['cast'])} {blit(c['raise_on_time'])})"
        if k == "sequence":
            gs = listlit(o["norms"], lambda g: "None" if g is None else f"(Some {G.coq_geom(g)})")
            return f"(collect (fun g => segment_from_geometry g {sr} {blit(c['cast'])}) {blit(c['ignore_errors'])} {gs})"
        return None

    def agree(self, c, o):
        k = c["kind"]
        m = self._model(c, o)
        res = o["res"]
        if k == "l2t":
            if res[0] != "ok":
                return "false"
            return f"tags_eqb {m} {_tags(res[1])}"
        if k == "lft":
            if res[0] != "ok":
                return "false"
            if not all(32 <= ord(ch) < 127 for ch in res[1]):
                return "false"
            return f"String.eqb {m} {strlit(res[1])}"
        if k == "seg_import":
            rhs = f"(Ok ({qlit(res[1][0])}, {qlit(res[1][1])}))" if res[0] == "ok" else f"(Err {res[1]})"
            extra = "" if res[0] != "ok" else (" && true" if o["gtype"] == "TimeInterval" and o["same_rec"] else " && false")
            return f"rpair {m} {rhs}{extra}"
        if k == "bbox_import":
            rhs = f"(Ok ({qlit(res[1][0])}, {qlit(res[1][1])}, {qlit(res[1][2])}, {qlit(res[1][3])}))" if res[0] == "ok" else f"(Err {res[1]})"
            return f"rquad {m} {rhs}"
        if k == "seg_export":
            if res[0] == "ok":
                v = res[1]
                rhs = f"(Ok {{| onset_s := Some {qlit(v[0])}; offset_s := Some {qlit(v[1])}; onset_sample := Some {zlit(v[2])}; offset_sample := Some {zlit(v[3])} |}})"
            else:
                rhs = f"(Err {res[1]})"
            return f"rseg {m} {rhs}"
        if k == "bbox_export":
            if res[0] == "ok":
                v = res[1]
                rhs = f"(Ok {{| c_onset := {qlit(v[0])}; c_offset := {qlit(v[1])}; c_low := {qlit(v[2])}; c_high := {qlit(v[3])} |}})"
            else:
                rhs = f"(Err {res[1]})"
            return f"rbox {m} {rhs}"
        if k == "sequence":
            if res[0] == "ok":
                segs = listlit(res[1], lambda v: f"{{| onset_s := Some {qlit(v[0])}; offset_s := Some {qlit(v[1])}; onset_sample := Some {zlit(v[2])}; offset_sample := Some {zlit(v[3])} |}}")
                return f"match {m} with Ok l => segs_eqb l {segs} | Err _ => false end"
            return f"match {m} with Err e => errclass_eqb e {res[1]} | Ok [] => true | Ok _ => false end"
        return None  # roundtrip: judged by the oracle (it is a corollary of the import / export models)

    def show(self, c):
        return None

    # ------------------------------------------------------------------ oracle: the documented behaviour
    def oracle(self, c, o):
        fails = []
        k = c["kind"]
        res = o["res"]

        def fail(kind, what, **a):
            fails.append({"kind": kind, "what": what, "attrs": dict(a, case=k)})

        if k == "l2t":
            label = c["label"]
            if res[0] != "ok":
                fail("raised", f"label_to_tags raised {res[1]}: {o.get('msg')}")
                return fails
            got = res[1]
            if label in c["empty_labels"]:
                want = []
            elif c["fn"] is not None and c["fn"].get(label, "ValueError") != "ValueError":
                want = c["fn"][label]
            else:
                term = c["term"]
                from_tm = c["term_mapping"] is not None and label in c["term_mapping"]
                if from_tm:
                    term = c["term_mapping"][label]
                if c["tag_mapping"] is not None and label in c["tag_mapping"]:
                    if term is not None:
                        return fails  # documented steps 3/4 are ambiguous here (see TRUSTED): not judged
                    want = c["tag_mapping"][label]
                else:
                    key = c["key"]
                    if c["key_mapping"] is not None and label in c["key_mapping"]:
                        key = c["key_mapping"][label]
                    if key is None:
                        key = c["fallback"]
                    if term is None:
                        term = ["soundevent:" + key, key]
                    want = [[term[0], term[1], label]]
            if got != [list(w) for w in want]:
                fail("label-cascade", f"label_to_tags({label!r}) = {got} but the documented cascade gives {want}")
            return fails
        if k == "lft":
            if res[0] != "ok":
                fail("raised", f"label_from_tags raised {res[1]}: {o.get('msg')}")
                return fails
            tags = c["tags"]

            def lab(t, value_only):
                if c["label_fn"]:
                    return "F(" + t[2] + ")"
                if c["label_mapping"] is not None:
                    for tt, l in c["label_mapping"]:
                        if tt == t:
                            return l
                return t[2] if value_only else f"{t[1]}:{t[2]}"

            if c["seq_fn"]:
                want = "SEQ" + str(len(tags))
            elif not tags:
                want = c["empty_label"]
            elif c["select_by_key"] is not None:
                t = next((t for t in tags if t[1] == c["select_by_key"]), None)
                want = c["empty_label"] if t is None else lab(t, True)
            elif c["index"] is not None:
                want = lab(tags[c["index"] % len(tags)], c["value_only"])
            else:
                want = c["separator"].join(lab(t, c["value_only"]) for t in tags)
            if res[1] != want:
                fail("label-from-tags", f"label_from_tags = {res[1]!r}, documented cascade gives {want!r}")
            return fails
        sr, te = c["rec"]["sr"], c["rec"]["te"]
        if k == "seg_import":
            sec = c["mode"] in ("seconds", "both")
            on = c["on"] if sec else Fraction(c["ons"]) / (sr / te)
            off = c["off"] if sec else Fraction(c["offs"]) / (sr / te)
            if c["adjust"] and te != 1:
                on, off = on / te, off / te
            if on > off or on < 0:
                if res[0] == "ok":
                    fail("import-invalid-accepted", "reversed / negative segment accepted")
                return fails
            if res[0] != "ok":
                fail("raised", f"segment_to_annotation raised {res[1]}: {o.get('msg')}")
            elif any(abs(a - b) > Fraction(1, 10**12) * max(1, abs(b)) for a, b in zip(res[1], [on, off])):
                fail("import-times", f"imported interval {[float(x) for x in res[1]]} != onset/offset (divided by the time expansion exactly once) {[float(on), float(off)]}", te=float(te))
            elif o["tags"] != ([] if c["label"] == "__empty__" else [["soundevent:crowsetta", "crowsetta", c["label"]]]):
                fail("import-tags", f"tags {o['tags']} for label {c['label']!r}")
            return fails
        if k == "bbox_import":
            on, off, lo, hi = c["on"], c["off"], c["lo"], c["hi"]
            if c["adjust"] and te != 1:
                on, off, lo, hi = on / te, off / te, lo * te, hi * te
            if hi > G.MAXF or lo > G.MAXF:
                if res[0] == "ok":
                    fail("import-invalid-accepted", "box above MAX_FREQUENCY accepted")
                return fails
            if res[0] != "ok":
                fail("raised", f"bbox_to_annotation raised {res[1]}: {o.get('msg')}")
            elif any(abs(a - b) > Fraction(1, 10**12) * max(1, abs(b)) for a, b in zip(res[1], [on, lo, off, hi])):
                fail("import-box", f"imported box {[float(x) for x in res[1]]} != {[float(x) for x in (on, lo, off, hi)]}", te=float(te))
            return fails
        if k in ("seg_export", "bbox_export"):
            g = o["norm"]
            if g is None:
                if res[0] == "ok" or res[1] != "EValue":
                    fail("export-no-geometry", f"event without geometry gave {res}")
                return fails
            s, lo, e, hi = G.bounds_exact(g)
            if k == "seg_export":
                if g["type"] != "TimeInterval" and not c["cast"]:
                    if res != ["err", "EValue"]:
                        fail("export-cast", f"non-interval geometry without cast gave {res}")
                    return fails
                if res[0] != "ok":
                    fail("raised", f"segment_from_annotation raised {res[1]}: {o.get('msg')}")
                    return fails
                v = res[1]
                fl = lambda x: x.numerator // x.denominator
                if v[:2] != [s, e] or v[2:] != [fl(s * sr), fl(e * sr)]:
                    fail("export-segment", f"exported segment {v} != bounds ({s}, {e}) / floor(time*samplerate)")
                if o["label"] != "Myotis":
                    fail("export-label", f"label {o['label']!r}")
                return fails
            # bbox export
            if (g["type"] != "BoundingBox" and not c["cast"]) or (g["type"] in ("TimeInterval", "TimeStamp") and c["raise_on_time"]):
                if res != ["err", "EValue"]:
                    fail("export-cast", f"unconvertible geometry gave {res}")
                return fails
            hi2 = min(hi, sr / 2)
            if not (s < e and lo < hi2):
                if res[0] == "ok":
                    fail("export-degenerate-accepted", "degenerate box accepted by crowsetta")
                return fails
            if res[0] != "ok":
                fail("raised", f"bbox_from_annotation raised {res[1]}: {o.get('msg')}")
            elif res[1] != [s, e, lo, hi2]:
                fail("export-box", f"exported box {[float(x) for x in res[1]]} != bounds with high capped at Nyquist {[float(x) for x in (s, e, lo, hi2)]}")
            return fails
        if k == "sequence":
            ok_items = []
            err = None
            for it, g in zip(c["items"], o["norms"]):
                conv = g is not None and (g["type"] == "TimeInterval" or c["cast"])
                if conv:
                    s, _, e, _ = G.bounds_exact(g)
                    ok_items.append((s, e, it["label"]))
                elif not c["ignore_errors"]:
                    err = True
                    break
            if err:
                if res[0] == "ok":
                    fail("sequence-error-swallowed", "unconvertible event did not raise although ignore_errors=False")
                return fails
            if not ok_items:
                return fails  # crowsetta's own handling of empty sequences
            if res[0] != "ok":
                fail("raised", f"sequence_from_annotations raised {res[1]}: {o.get('msg')}")
                return fails
            got = [(v[0], v[1], l) for v, l in zip(res[1], o["labels"])]
            if got != ok_items:
                fail("sequence-order", f"exported {len(got)} segments, expected {len(ok_items)} in order")
            return fails
        # roundtrip
        if res[0] != "ok":
            fail("raised", f"round trip raised {res[1]}: {o.get('msg')}")
            return fails
        want = [[s["on"], s["off"], s["label"]] for s in c["segs"]]
        if res[1] != want:
            fail("roundtrip", f"export after import gives {res[1]} instead of {want}")
        if o["n_ann"] != len(c["segs"]):
            fail("roundtrip", "import did not yield one annotation per segment")
        return fails

    def nontrivial(self, c, o):
        return o["res"][0] == "ok"

    def tags(self, c, o):
        return [c["kind"], f"{c['kind']}:{o['res'][0]}"]


PROP = C10
