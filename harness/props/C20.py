"""C20 — rasterisation marks exactly the bins a geometry covers, on the template's axes."""
from __future__ import annotations

import bisect
from fractions import Fraction

from ..core import Prop, blit, guarded, listlit, qlit
from .. import geomgen as G

AREA_TYPES = ("TimeInterval", "BoundingBox", "Polygon", "MultiPolygon")


class C20(Prop):
    ID = "C20"
    IMPORTS = ["Geom.Raster"]
    PRELUDE = (
        "Definition rg (m : res (list (list (option Q)))) (o : list (list Q)) : bool := "
        "match m with Ok g => grid_agrees g o | Err _ => false end.\n"
        "Definition rerr (m : res (list (list (option Q)))) (e : errclass) : bool := "
        "match m with Err e' => errclass_eqb e e' | Ok _ => false end.\n"
    )
    RULE = (
        "templates 1..12 x 1..12 with dyadic axis spacing, both dimension orders, with/without an extra channel dimension, "
        "arbitrary contents; lists of 0..4 geometries (boxes on and off bin edges, intervals, polygons, multipolygons, points, "
        "lines, time stamps), scalar / list / tuple values incl. wrong length, fills, dtypes, all_touched; compared: dims, "
        "coords and every cell the model decides (centre strictly inside or outside every shape); the same call on the "
        "transposed template and with all_touched=True is observed for the order-independence and superset clauses. "
        "Non-trivial = at least one geometry and one decided non-fill cell; distinct by hash"
    )
    TRUSTED = [
        "GDAL's polygon fill (rasterio.features.rasterize): assumed to set a cell iff its centre is inside the polygon; cells "
        "whose centre lies on an edge are not compared; for zero-area shapes (points, lines, time stamps) GDAL burns a line "
        "algorithm: only the other clauses are checked there (reading recorded in DESIGN.md C20)",
        "all_touched is checked only as 'superset of the centre rule'",
    ]

    def _geom(self, rng, tmax, fmax, t0, f0, tstep, fstep):
        kind = rng.choice(["box-on", "box-off", "box-off", "interval", "poly", "mpoly", "thin", "box-out", "holed"])
        T = lambda k: t0 + k * tstep
        Fq = lambda k: f0 + k * fstep
        if kind in ("box-on", "box-off", "box-out"):
            i0, i1 = sorted([rng.randint(0, tmax), rng.randint(0, tmax)])
            j0, j1 = sorted([rng.randint(0, fmax), rng.randint(0, fmax)])
            off = (lambda: Fraction(0)) if kind == "box-on" else (lambda: Fraction(rng.choice([0, 1, 2, 3]), 4))
            c = [T(i0) + off() * tstep, Fq(j0) + off() * fstep, T(i1) + off() * tstep, Fq(j1) + off() * fstep]
            if kind == "box-out":
                c[2] = T(tmax + 3)
                c[3] = Fq(fmax + 2)
            c[0], c[2] = sorted([max(c[0], Fraction(0)), max(c[2], Fraction(0))])
            c[1], c[3] = sorted([max(c[1], Fraction(0)), max(c[3], Fraction(0))])
            return {"type": "BoundingBox", "coordinates": c}
        if kind == "interval":
            i0, i1 = sorted([rng.randint(0, tmax), rng.randint(0, tmax)])
            a, b = sorted([T(i0) + Fraction(rng.choice([0, 1, 2]), 4) * tstep, T(i1) + Fraction(rng.choice([0, 1, 3]), 4) * tstep])
            return {"type": "TimeInterval", "coordinates": [a, b]}
        if kind == "holed":
            # a frame: rectangular shell with a rectangular hole of at least one bin, as a polygon or the only part of a multipolygon
            q = lambda k: Fraction(rng.choice([0, 1, 2]), 4)
            i0, i1 = 0, max(3, tmax)
            j0, j1 = 0, max(3, fmax)
            hi0 = rng.randint(1, max(1, i1 - 2))
            hi1 = rng.randint(hi0 + 1, max(hi0 + 1, i1 - 1))
            hj0 = rng.randint(1, max(1, j1 - 2))
            hj1 = rng.randint(hj0 + 1, max(hj0 + 1, j1 - 1))
            rect = lambda a, b, cc, d: [[T(a), Fq(b)], [T(cc), Fq(b)], [T(cc), Fq(d)], [T(a), Fq(d)], [T(a), Fq(b)]]
            rings = [rect(i0, j0, i1, j1), rect(hi0, hj0, hi1, hj1)]
            return {"type": "Polygon", "coordinates": rings} if rng.random() < 0.4 else {"type": "MultiPolygon", "coordinates": [rings]}
        if kind in ("poly", "mpoly"):
            g = G.rgeom(rng, "Polygon" if kind == "poly" else "MultiPolygon", tmax=8, fmax=32, holes=rng.random() < 0.5)
            # rescale into the template's extent
            def sc(p):
                return [t0 + p[0] * tstep * tmax / 10, f0 + p[1] * fstep * fmax / 40]
            def rec(x):
                return [rec(y) for y in x] if isinstance(x[0], list) else sc(x)
            return {"type": g["type"], "coordinates": rec(g["coordinates"])}
        typ = rng.choice(["TimeStamp", "Point", "LineString", "MultiPoint"])
        if typ == "TimeStamp":
            return {"type": typ, "coordinates": T(rng.randint(0, tmax)) + Fraction(1, 4) * tstep}
        pts = [[T(rng.randint(0, tmax)) + Fraction(1, 4) * tstep, Fq(rng.randint(0, fmax)) + Fraction(1, 4) * fstep] for _ in range(rng.randint(2, 3))]
        if typ == "Point":
            return {"type": typ, "coordinates": pts[0]}
        return {"type": typ, "coordinates": pts}

    def _case(self, rng):
        nt, nf = rng.randint(1, 12), rng.randint(1, 12)
        if rng.random() < 0.2:
            nf = nt
        tstep = Fraction(rng.choice([1, 1, 2, 3]), rng.choice([1, 2, 4, 8]))
        fstep = Fraction(rng.choice([1, 2, 5, 100]), rng.choice([1, 2]))
        t0 = Fraction(rng.randint(0, 8), 4)
        f0 = Fraction(rng.randint(0, 20))
        n = rng.choice([0, 1, 1, 2, 3, 4])
        geoms = [self._geom(rng, nt, nf, t0, f0, tstep, fstep) for _ in range(n)]
        r = rng.random()
        if r < 0.35:
            values = {"mode": "scalar", "v": rng.choice([1, 2, 5, 0, -2])}
        elif r < 0.85:
            # class-index style values: 0 and negative values are legitimate and must not be confused with the fill value
            values = {"mode": rng.choice(["list", "tuple"]), "v": [rng.choice([1, 2, 3, 4, 7, 0, 0, -1]) for _ in range(n)]}
        else:
            values = {"mode": "list", "v": [rng.choice([1, 2, 3]) for _ in range(n + rng.choice([1, -1]) if n + 0 > 0 else 1)]}
        return {
            "kind": "raster", "nt": nt, "nf": nf, "tstep": tstep, "fstep": fstep, "t0": t0, "f0": f0,
            "order": rng.choice(["ft", "tf"]), "channel": rng.random() < 0.2, "geoms": geoms, "values": values,
            "fill": rng.choice([0, 0, -1, 9]), "dtype": rng.choice(["float32", "float32", "int16", "float64"]),
            "all_touched": rng.random() < 0.25, "content_seed": rng.randrange(1000),
        }

    def cases(self, rng, tier):
        n = {"quick": 1000, "thorough": 20000}[tier]
        out = [self._case(rng) for _ in range(n)]
        # history: the template is a piece (isel) of a larger array on which the same geometries were rasterised before;
        # xarray hands the coordinate attributes of the parent on to the piece
        for _ in range(n // 5):
            c = self._case(rng)
            c["parent"] = [rng.randint(0, 3), rng.randint(0, 3), rng.randint(0, 3), rng.randint(0, 3)]
            if c["t0"] - c["parent"][0] * c["tstep"] < 0:
                c["parent"][0] = 0
            if c["f0"] - c["parent"][2] * c["fstep"] < 0:
                c["parent"][2] = 0
            if sum(c["parent"]) > 0:
                out.append(c)
        return out

    # ------------------------------------------------------------------ implementation
    def _template(self, c, transpose=False):
        import numpy as np
        import xarray as xr

        tc = [float(c["t0"] + i * c["tstep"]) for i in range(c["nt"])]
        fc = [float(c["f0"] + j * c["fstep"]) for j in range(c["nf"])]
        order = c["order"]
        if transpose:
            order = "tf" if order == "ft" else "ft"
        rs = np.random.RandomState(c["content_seed"])
        dims = ["frequency", "time"] if order == "ft" else ["time", "frequency"]
        shape = [c["nf"], c["nt"]] if order == "ft" else [c["nt"], c["nf"]]
        coords = {"time": tc, "frequency": fc}
        if c["channel"]:
            dims = ["channel"] + dims if rs.rand() < 0.5 else dims + ["channel"]
            shape = [2] + shape if dims[0] == "channel" else shape + [2]
            coords["channel"] = [0, 1]
        arr = xr.DataArray(rs.rand(*shape), dims=dims, coords=coords)
        if c.get("parent"):
            a, b, lo, hi = c["parent"]
            ptc = [float(c["t0"] + (i - a) * c["tstep"]) for i in range(c["nt"] + a + b)]
            pfc = [float(c["f0"] + (j - lo) * c["fstep"]) for j in range(c["nf"] + lo + hi)]
            pshape = {"time": len(ptc), "frequency": len(pfc), "channel": 2}
            pcoords = dict(coords, time=ptc, frequency=pfc)
            parent = xr.DataArray(rs.rand(*[pshape[d] for d in dims]), dims=dims, coords=pcoords)
            self._call(c, parent, c["all_touched"])  # the earlier use
            piece = parent.isel(time=slice(a, a + c["nt"]), frequency=slice(lo, lo + c["nf"]))
            assert list(piece.coords["time"].data) == tc and list(piece.coords["frequency"].data) == fc
            arr = piece
        return arr, tc, fc

    def _call(self, c, arr, all_touched):
        import numpy as np
        from soundevent.geometry import rasterize

        geoms = [G.build(g) for g in c["geoms"]]
        v = c["values"]
        vals = v["v"] if v["mode"] == "scalar" else (list(v["v"]) if v["mode"] == "list" else tuple(v["v"]))
        return guarded(rasterize, geoms, arr, values=vals, fill=c["fill"], dtype=getattr(np, c["dtype"]), all_touched=all_touched)

    @staticmethod
    def _grid(res):
        da = res.transpose("time", "frequency")
        return [[Fraction(float(x)) for x in row] for row in da.data]

    def run(self, c):
        arr, tc, fc = self._template(c)
        out = {"tc": [Fraction(x) for x in tc], "fc": [Fraction(x) for x in fc], "norm": [G.from_impl(G.build(g)) for g in c["geoms"]]}
        r = self._call(c, arr, c["all_touched"])
        if r[0] != "ok":
            out["res"] = ["err", r[1]]
            out["msg"] = r[2]
        else:
            res = r[1]
            out["res"] = ["ok"]
            out["dims"] = list(res.dims)
            try:
                out["coords_ok"] = bool(list(res.coords["time"].data) == tc and list(res.coords["frequency"].data) == fc)
                out["grid"] = self._grid(res)
            except Exception as e:  # noqa
                out["coords_ok"] = False
                out["grid"] = None
                out["msg"] = f"{type(e).__name__}: {e}"
            out["dtype"] = str(res.dtype)
        # the same call on the transposed template
        arr2, _, _ = self._template(c, transpose=True)
        r2 = self._call(c, arr2, c["all_touched"])
        out["transposed"] = ["ok", self._grid(r2[1])] if r2[0] == "ok" else ["err", r2[1]]
        # all_touched on / off
        if not c["all_touched"]:
            r3 = self._call(c, arr, True)
            out["touched"] = ["ok", self._grid(r3[1])] if r3[0] == "ok" else ["err", r3[1]]
        return out

    # ------------------------------------------------------------------ model
    def _model(self, c, o):
        v = c["values"]
        vals = f"(VOne {qlit(v['v'])})" if v["mode"] == "scalar" else f"(VList {listlit(v['v'], qlit)})"
        geoms = listlit(o["norm"], G.coq_geom)
        return f"(rasterize {listlit(o['tc'], qlit)} {listlit(o['fc'], qlit)} {geoms} {vals} {qlit(c['fill'])} {blit(c['all_touched'])})"

    def agree(self, c, o):
        m = self._model(c, o)
        if o["res"][0] != "ok":
            return f"rerr {m} {o['res'][1]}"
        if o["grid"] is None or not o["coords_ok"] or o["dims"] != ["time", "frequency"]:
            return "false"
        g = listlit(o["grid"], lambda row: listlit(row, qlit))
        return f"rg {m} {g}"

    def show(self, c):
        o = self.run(c)
        return self._model(c, o)

    # ------------------------------------------------------------------ oracle
    def oracle(self, c, o):
        fails = []

        def fail(kind, what, **a):
            fails.append({"kind": kind, "what": what, "attrs": dict(a, order=c["order"], channel=c["channel"], square=c["nt"] == c["nf"])})

        n = len(c["geoms"])
        v = c["values"]
        if v["mode"] != "scalar" and len(v["v"]) != n:
            if o["res"] != ["err", "EValue"]:
                fail("values-length-accepted", f"{len(v['v'])} values for {n} geometries gave {o['res']}")
            return fails
        if o["res"][0] != "ok":
            fail("raised", f"rasterize raised {o['res'][1]}: {o.get('msg', '')[:160]}", error=o["res"][1])
            return fails
        if o["dims"] != ["time", "frequency"] or not o["coords_ok"] or o["grid"] is None:
            fail("not-on-template-axes", f"result dims {o['dims']} / coordinates differ from the template's time and frequency axes")
            return fails
        grid = o["grid"]
        if len(grid) != c["nt"] or any(len(r) != c["nf"] for r in grid):
            fail("not-on-template-axes", "result shape differs from the template's axes")
            return fails
        vals = [Fraction(v["v"])] * n if v["mode"] == "scalar" else [Fraction(x) for x in v["v"]]
        fill = Fraction(c["fill"])
        tc, fc = o["tc"], o["fc"]

        def binidx(cs, x):
            if x < cs[0]:
                return 0
            if x > cs[-1]:
                return len(cs)
            return bisect.bisect_right(cs, x) - 1

        # exact expectation when every geometry is a box / interval (and the centre rule applies)
        if not c["all_touched"] and all(g["type"] in ("BoundingBox", "TimeInterval") for g in o["norm"]):
            want = [[fill] * c["nf"] for _ in range(c["nt"])]
            for g, val in zip(o["norm"], vals):
                s, lo, e, hi = G.bounds_exact(g)
                i0, i1, j0, j1 = binidx(tc, s), binidx(tc, e), binidx(fc, lo), binidx(fc, hi)
                for i in range(i0, min(i1, c["nt"])):
                    for j in range(j0, min(j1, c["nf"])):
                        want[i][j] = val
            if grid != want:
                diff = [(i, j) for i in range(c["nt"]) for j in range(c["nf"]) if grid[i][j] != want[i][j]]
                fail("box-cells", f"{len(diff)} cells differ from 'bins from the one containing the start (incl.) to the one containing the end (excl.)', e.g. {diff[:3]}")
        # polygons (holes included), one geometry, centre rule: the vertices are mapped to bin indices and the shape is burnt in
        # index space; a cell whose centre lies strictly inside that shape is marked, one strictly outside keeps the fill value
        # (cells whose centre is on the outline are not judged: GDAL's tie rule is a library contract)
        if not c["all_touched"] and n == 1 and o["norm"][0]["type"] in ("Polygon", "MultiPolygon") and vals[0] != fill:
            import shapely
            from shapely.geometry import Point as _P, Polygon as _Poly

            g = o["norm"][0]
            polys = [g["coordinates"]] if g["type"] == "Polygon" else g["coordinates"]
            shapes = []
            for rings in polys:
                idx = [[(binidx(tc, p[0]), binidx(fc, p[1])) for p in ring] for ring in rings]
                try:
                    shp = _Poly(idx[0], idx[1:])
                except Exception:
                    shp = None
                if shp is None or not shp.is_valid or shp.area == 0:
                    shapes = None
                    break
                shapes.append(shp)
            if shapes:
                u = shapely.union_all(shapes)
                wrong = []
                for i in range(c["nt"]):
                    for j in range(c["nf"]):
                        ctr = _P(i + 0.5, j + 0.5)
                        if u.boundary.distance(ctr) < 1e-9:
                            continue
                        inside = u.contains(ctr)
                        if inside != (grid[i][j] != fill):
                            wrong.append((i, j, inside))
                if wrong:
                    fail("polygon-cells", f"{len(wrong)} cells disagree with 'centre inside the polygon (holes excluded)', e.g. {wrong[:3]}", gtype=g["type"])
        allowed = set(vals) | {fill}
        if any(x not in allowed for row in grid for x in row):
            fail("foreign-value", "a cell holds a value that is neither a geometry's value nor the fill value")
        if n == 0 and any(x != fill for row in grid for x in row):
            fail("untouched-not-fill", "no geometries but not every cell holds the fill value")
        if o["transposed"][0] != "ok" or o["transposed"][1] != grid:
            fail("dimension-order", f"the same call on the transposed template gives {'an error ' + str(o['transposed'][1]) if o['transposed'][0] != 'ok' else 'different cells'}")
        if "touched" in o:
            if o["touched"][0] != "ok":
                fail("all-touched-raised", f"all_touched=True raised {o['touched'][1]}")
            elif len(set(vals)) <= 1:
                tg = o["touched"][1]
                lost = [(i, j) for i in range(c["nt"]) for j in range(c["nf"]) if grid[i][j] != fill and tg[i][j] == fill]
                if lost:
                    thin = any(g["type"] not in AREA_TYPES for g in o["norm"])
                    fail("all-touched-removes", f"all_touched=True clears cells set with all_touched=False, e.g. {lost[:3]}", has_thin=thin)
        return fails

    def nontrivial(self, c, o):
        return o["res"][0] == "ok" and len(c["geoms"]) > 0 and o.get("grid") is not None and any(x != c["fill"] for r in o["grid"] for x in r)

    def tags(self, c, o):
        t = [f"order:{c['order']}", "channel" if c["channel"] else "2d", "square" if c["nt"] == c["nf"] else "non-square", f"res:{o['res'][0]}",
             "all_touched" if c["all_touched"] else "centre-rule", f"ngeoms:{len(c['geoms'])}"]
        t += sorted({"g:" + g["type"] for g in c["geoms"]})
        return t


PROP = C20
