"""C04 — relational schema invariants cannot be bypassed at construction."""
from __future__ import annotations

import copy
import datetime
import itertools
import json
import uuid as uuidlib
from fractions import Fraction

from ..core import BUILD, Prop, blit, guarded, listlit, natlit, optlit, qlit

PATHS = ("ctor", "dict", "json", "load")
U = lambda k: uuidlib.UUID(int=7000 + k)
EPS = Fraction(1, 1024)
SCORES = [-EPS, Fraction(0), EPS, Fraction(1, 2), 1 - EPS, Fraction(1), 1 + EPS]
SCORE_FIELDS = ["PredictedTag.score", "SoundEventPrediction.score", "SequencePrediction.score", "Match.affinity", "Match.score", "ClipEvaluation.score"]
T0 = datetime.datetime(2024, 1, 1, 12, 0, 0)


class World:
    """a fixed pool of valid building blocks"""

    def __init__(self):
        from soundevent import data

        self.data = data
        self.rec = data.Recording(uuid=U(1), path="/audio/a.wav", duration=100, channels=1, samplerate=8000)
        self.clips = {k: data.Clip(uuid=U(10 + k), recording=self.rec, start_time=k, end_time=k + 1) for k in (1, 2, 3)}
        self.term = data.Term(name="t:x", label="x", definition="d")
        self.tag = data.Tag(term=self.term, value="v")
        self.ses = [data.SoundEvent(uuid=U(100 + i), recording=self.rec, geometry=data.TimeInterval(coordinates=[i, i + 1])) for i in range(6)]
        # objects 4 and 5 are distinct annotations / predictions of the SAME sound events as 0 and 1 (two annotators,
        # two model runs): identity is the annotation / prediction, not the sound event it wraps
        se_of = [0, 1, 2, 3, 0, 1]
        self.anns = [data.SoundEventAnnotation(uuid=U(200 + i), sound_event=self.ses[se_of[i]], created_on=T0) for i in range(6)]
        self.preds = [data.SoundEventPrediction(uuid=U(300 + i), sound_event=self.ses[se_of[i]], score=0.5) for i in range(6)]

    def clip_ann(self, ac, anns, hist=None):
        mk = lambda idx: self.data.ClipAnnotation(uuid=U(400 + ac), clip=self.clips[ac], sound_events=[self.anns[i] for i in idx], created_on=T0)
        if hist is None:
            return mk(anns)
        return self._derive(mk(hist[0]), [self.anns[i] for i in anns], hist[2], other=lambda: self.clip_pred(ac, []))

    def clip_pred(self, pc, preds, hist=None):
        mk = lambda idx: self.data.ClipPrediction(uuid=U(500 + pc), clip=self.clips[pc], sound_events=[self.preds[i] for i in idx])
        if hist is None:
            return mk(preds)
        return self._derive(mk(hist[1]), [self.preds[i] for i in preds], hist[2], other=lambda: self.clip_ann(pc, []))

    def _derive(self, obj0, sound_events, via, other):
        """history: `obj0` (other sound events) was already part of a valid clip evaluation; the wanted list is then put on a
        copy (model_copy(update=...)) or on the object itself"""
        data = self.data
        try:
            o = other()
            if isinstance(obj0, data.ClipAnnotation):
                ms = [data.Match(source=None, target=a, affinity=0.0) for a in obj0.sound_events]
                data.ClipEvaluation(annotations=obj0, predictions=o, matches=ms)
            else:
                ms = [data.Match(source=p, target=None, affinity=0.0) for p in obj0.sound_events]
                data.ClipEvaluation(annotations=o, predictions=obj0, matches=ms)
        except Exception:
            pass
        if via == "copy":
            return obj0.model_copy(update={"sound_events": sound_events})
        obj0.sound_events = sound_events
        return obj0


def _f(x):
    return None if x is None else float(x)


class C04(Prop):
    ID = "C04"
    IMPORTS = ["Misc.Relational"]
    RULE = (
        "arrangements of <=4 annotations x <=4 predictions x <=6 matches (missing, duplicated, foreign, one-sided, "
        "both-None), clip pairings, task/annotation membership patterns, start/end orderings, scores in {-2^-10, 0, 2^-10, "
        "1/2, 1-2^-10, 1, 1+2^-10} for every bounded field; each through constructor, model_validate(dict), "
        "model_validate_json and io.load of a document that encodes it; accept/reject compared with the model. "
        "Non-trivial = arrangement with at least one match or a rejected case; distinct by hash"
    )
    TRUSTED = [
        "that the validators run on each construction path is pydantic behaviour: established by correspondence (4 paths), not by a theorem",
        "Evaluation.score (evaluations.py, not anchored) has no bound and is not part of this check",
    ]

    def setup(self, tier):
        self.w = World()
        self.dir = BUILD / "c04"
        self.dir.mkdir(parents=True, exist_ok=True)
        self._base = None

    # ------------------------------------------------------------------ generation
    def _arr_case(self, rng):
        na, npred = rng.randint(0, 4), rng.randint(0, 4)
        pool = range(4) if rng.random() < 0.5 else range(6)
        anns = rng.sample(pool, na)
        preds = rng.sample(pool, npred)
        mode = rng.choice(["valid", "valid", "valid", "mutated", "mutated", "random"])
        ms = []
        if mode in ("valid", "mutated"):
            a, p = list(anns), list(preds)
            rng.shuffle(a)
            rng.shuffle(p)
            while a and p and rng.random() < 0.6:
                ms.append([p.pop(), a.pop()])
            ms += [[None, x] for x in a] + [[x, None] for x in p]
            rng.shuffle(ms)
            if mode == "mutated":
                k = rng.choice(["drop", "dup", "foreign-t", "foreign-s", "both-none", "dup-one-side", "swap-clip", "twin", "twin"])
                if k == "drop" and ms:
                    ms.pop(rng.randrange(len(ms)))
                elif k == "dup" and ms:
                    ms.append(list(rng.choice(ms)))
                elif k == "foreign-t":
                    ms.append([None, rng.choice([x for x in range(6) if x not in anns] or [5])])
                elif k == "foreign-s":
                    ms.append([rng.choice([x for x in range(6) if x not in preds] or [5]), None])
                elif k == "both-none":
                    ms.append([None, None])
                elif k == "twin" and ms:
                    # a match is retargeted to the other annotation / prediction of the same sound event
                    twin = {0: 4, 1: 5, 4: 0, 5: 1}
                    m = rng.choice(ms)
                    side = rng.choice([0, 1])
                    if m[side] in twin:
                        m[side] = twin[m[side]]
                elif k == "dup-one-side" and ms:
                    m = rng.choice(ms)
                    ms.append([m[0], None] if m[0] is not None else [None, m[1]])
        else:
            for _ in range(rng.randint(0, 6)):
                ms.append([rng.choice([None, 0, 1, 2, 3, 4, 5]), rng.choice([None, 0, 1, 2, 3, 4, 5])])
        ac = 1
        pc = 1 if rng.random() < 0.85 else 2
        affs = [Fraction(1, 2) for _ in ms]
        mscores = [rng.choice([None, Fraction(1, 4)]) for _ in ms]
        score = rng.choice([None, Fraction(1, 2)])
        if rng.random() < 0.12 and ms:
            i = rng.randrange(len(ms))
            if rng.random() < 0.5:
                affs[i] = rng.choice(SCORES)
            else:
                mscores[i] = rng.choice(SCORES)
        if rng.random() < 0.06:
            score = rng.choice(SCORES)
        return {"kind": "clip_eval", "ac": ac, "pc": pc, "anns": anns, "preds": preds, "ms": ms, "affs": affs, "mscores": mscores, "score": score}

    def cases(self, rng, tier):
        out = []
        n = {"quick": 500, "thorough": 9000}[tier]
        out += [self._arr_case(rng) for _ in range(n)]
        # history: the clip annotation / prediction was derived (model_copy(update=...) or assignment) from one with other
        # sound events that had already been evaluated
        for _ in range(n // 4):
            c = self._arr_case(rng)
            if c["kind"] != "clip_eval":
                continue
            pool = list(range(6))
            c["hist"] = [sorted(rng.sample(pool, rng.randint(0, 4))), sorted(rng.sample(pool, rng.randint(0, 4))), rng.choice(["copy", "assign"])]
            out.append(c)
        if tier == "thorough":
            # exhaustive small arrangements: <=2 anns, <=2 preds, <=3 matches over {None,0,1,4}
            opts = [None, 0, 1, 4]
            for anns in ([], [0], [0, 1]):
                for preds in ([], [0], [0, 1]):
                    for k in range(4):
                        for ms in itertools.product(itertools.product(opts, opts), repeat=k):
                            out.append({"kind": "clip_eval", "ac": 1, "pc": 1, "anns": anns, "preds": preds, "ms": [list(m) for m in ms],
                                        "affs": [Fraction(1, 2)] * k, "mscores": [None] * k, "score": None})
        # projects: task clips subset x annotated clips list
        for tasks in itertools.chain.from_iterable(itertools.combinations((1, 2, 3), r) for r in range(4)):
            for ann in itertools.chain.from_iterable(itertools.product((1, 2, 3), repeat=r) for r in range(3)):
                out.append({"kind": "project", "tasks": list(tasks), "ann_clips": list(ann)})
        # clips
        for s, e in itertools.product([Fraction(0), Fraction(1, 2), Fraction(1), Fraction(1) + EPS, Fraction(3)], repeat=2):
            out.append({"kind": "clip", "s": s, "e": e})
        # scores
        for f in SCORE_FIELDS:
            for v in SCORES:
                out.append({"kind": "score", "field": f, "v": v})
        return out

    # ------------------------------------------------------------------ building through the four paths
    def _base_doc(self):
        """a valid Evaluation document registering every building block"""
        if self._base is None:
            from soundevent import data, io

            w = self.w
            ces = []
            for k in (1, 2):
                idx = [0, 1, 2, 3] if k == 1 else [4, 5]  # base document only: registers every object
                ca, cp = w.clip_ann(k, idx), w.clip_pred(k, idx)
                ms = [data.Match(uuid=U(600 + i), source=None, target=w.anns[i], affinity=0) for i in idx]
                ms += [data.Match(uuid=U(700 + i), source=w.preds[i], target=None, affinity=0) for i in idx]
                ces.append(data.ClipEvaluation(uuid=U(800 + k), annotations=ca, predictions=cp, matches=ms))
            ev = data.Evaluation(uuid=U(900), evaluation_task="t", clip_evaluations=ces, created_on=T0)
            p = self.dir / "base.json"
            io.save(ev, p)
            self._base = json.loads(p.read_text())
        return copy.deepcopy(self._base)

    def _load_doc(self, doc, name):
        from soundevent import io

        p = self.dir / f"{name}.json"
        p.write_text(json.dumps(doc))
        return guarded(io.load, p)

    def _clip_eval_paths(self, c):
        data, w = self.w.data, self.w
        res = {}

        def build_ctor():
            ca, cp = w.clip_ann(c["ac"], c["anns"], c.get("hist")), w.clip_pred(c["pc"], c["preds"], c.get("hist"))
            ms = []
            for i, (s, t) in enumerate(c["ms"]):
                ms.append(data.Match(uuid=U(1000 + i), source=None if s is None else w.preds[s], target=None if t is None else w.anns[t],
                                     affinity=float(c["affs"][i]), score=_f(c["mscores"][i])))
            return data.ClipEvaluation(uuid=U(1100), annotations=ca, predictions=cp, matches=ms, score=_f(c["score"]))

        res["ctor"] = guarded(build_ctor)

        def as_dict(mode):
            # instances (with their history) on the python path, plain data on the JSON path
            ca, cp = w.clip_ann(c["ac"], c["anns"], c.get("hist")), w.clip_pred(c["pc"], c["preds"], c.get("hist"))
            if mode == "python" and c.get("hist"):
                return {"uuid": U(1100), "annotations": ca, "predictions": cp, "score": _f(c["score"]),
                        "matches": [{"uuid": U(1000 + i), "source": None if s is None else w.preds[s], "target": None if t is None else w.anns[t],
                                     "affinity": float(c["affs"][i]), "score": _f(c["mscores"][i])} for i, (s, t) in enumerate(c["ms"])]}
            ms = []
            for i, (s, t) in enumerate(c["ms"]):
                ms.append({
                    "uuid": str(U(1000 + i)) if mode == "json" else U(1000 + i),
                    "source": None if s is None else w.preds[s].model_dump(mode=mode),
                    "target": None if t is None else w.anns[t].model_dump(mode=mode),
                    "affinity": float(c["affs"][i]), "score": _f(c["mscores"][i]),
                })
            return {"uuid": str(U(1100)) if mode == "json" else U(1100), "annotations": ca.model_dump(mode=mode),
                    "predictions": cp.model_dump(mode=mode), "matches": ms, "score": _f(c["score"])}

        res["dict"] = guarded(lambda: data.ClipEvaluation.model_validate(as_dict("python")))
        res["json"] = guarded(lambda: data.ClipEvaluation.model_validate_json(json.dumps(as_dict("json"))))
        # AOEF document
        doc = self._base_doc()
        d = doc["data"]
        ca_id, cp_id = str(U(400 + c["ac"])), str(U(500 + c["pc"]))
        d["clip_annotations"] = [{"uuid": ca_id, "clip": str(w.clips[c["ac"]].uuid), "sound_events": [str(w.anns[i].uuid) for i in c["anns"]]}]
        d["clip_predictions"] = [{"uuid": cp_id, "clip": str(w.clips[c["pc"]].uuid), "sound_events": [str(w.preds[i].uuid) for i in c["preds"]]}]
        d["matches"] = []
        for i, (s, t) in enumerate(c["ms"]):
            m = {"uuid": str(U(1000 + i)), "affinity": float(c["affs"][i])}
            if s is not None:
                m["source"] = str(w.preds[s].uuid)
            if t is not None:
                m["target"] = str(w.anns[t].uuid)
            if c["mscores"][i] is not None:
                m["score"] = float(c["mscores"][i])
            d["matches"].append(m)
        ce = {"uuid": str(U(1100)), "annotations": ca_id, "predictions": cp_id, "matches": [str(U(1000 + i)) for i in range(len(c["ms"]))]}
        if c["score"] is not None:
            ce["score"] = float(c["score"])
        d["clip_evaluations"] = [ce]
        res["load"] = self._load_doc(doc, "case")
        return res

    def _project_paths(self, c):
        data, w = self.w.data, self.w
        from soundevent import io

        tasks = [data.AnnotationTask(uuid=U(1200 + k), clip=w.clips[k], created_on=T0) for k in c["tasks"]]
        cas = [data.ClipAnnotation(uuid=U(1300 + j), clip=w.clips[k], created_on=T0) for j, k in enumerate(c["ann_clips"])]
        kw = dict(uuid=U(1400), name="p", tasks=tasks, clip_annotations=cas, created_on=T0)
        res = {"ctor": guarded(lambda: data.AnnotationProject(**kw))}
        dd = lambda mode: {"uuid": str(U(1400)), "name": "p", "created_on": T0.isoformat() if mode == "json" else T0,
                           "tasks": [t.model_dump(mode=mode) for t in tasks], "clip_annotations": [x.model_dump(mode=mode) for x in cas]}
        res["dict"] = guarded(lambda: data.AnnotationProject.model_validate(dd("python")))
        res["json"] = guarded(lambda: data.AnnotationProject.model_validate_json(json.dumps(dd("json"))))
        # document: a valid project with all three tasks, then the tasks list is edited
        full = data.AnnotationProject(uuid=U(1400), name="p", created_on=T0, clip_annotations=cas,
                                      tasks=[data.AnnotationTask(uuid=U(1200 + k), clip=w.clips[k], created_on=T0) for k in (1, 2, 3)])
        p = self.dir / "proj.json"
        io.save(full, p)
        doc = json.loads(p.read_text())
        doc["data"]["tasks"] = [t for t in doc["data"]["tasks"] if any(t["clip"] == str(w.clips[k].uuid) for k in c["tasks"])]
        res["load"] = self._load_doc(doc, "case")
        return res

    def _clip_paths(self, c):
        data, w = self.w.data, self.w
        from soundevent import io

        s, e = float(c["s"]), float(c["e"])
        res = {"ctor": guarded(lambda: data.Clip(uuid=U(1500), recording=w.rec, start_time=s, end_time=e))}
        res["dict"] = guarded(lambda: data.Clip.model_validate({"uuid": U(1500), "recording": w.rec.model_dump(), "start_time": s, "end_time": e}))
        res["json"] = guarded(lambda: data.Clip.model_validate_json(json.dumps({"uuid": str(U(1500)), "recording": w.rec.model_dump(mode="json"), "start_time": s, "end_time": e})))
        ds = data.AnnotationSet(uuid=U(1501), created_on=T0, clip_annotations=[data.ClipAnnotation(uuid=U(1502), clip=w.clips[1], created_on=T0)])
        p = self.dir / "clipdoc.json"
        io.save(ds, p)
        doc = json.loads(p.read_text())
        doc["data"]["clips"][0]["start_time"] = s
        doc["data"]["clips"][0]["end_time"] = e
        res["load"] = self._load_doc(doc, "case")
        return res

    def _score_paths(self, c):
        data, w = self.w.data, self.w
        f, v = c["field"], float(c["v"])
        seq = data.Sequence(uuid=U(1600), sound_events=[w.ses[0]])
        mk = {
            "PredictedTag.score": (data.PredictedTag, lambda x: {"tag": w.tag, "score": x}),
            "SoundEventPrediction.score": (data.SoundEventPrediction, lambda x: {"uuid": U(1601), "sound_event": w.ses[0], "score": x}),
            "SequencePrediction.score": (data.SequencePrediction, lambda x: {"uuid": U(1602), "sequence": seq, "score": x}),
            "Match.affinity": (data.Match, lambda x: {"uuid": U(1603), "target": w.anns[0], "affinity": x}),
            "Match.score": (data.Match, lambda x: {"uuid": U(1603), "target": w.anns[0], "affinity": 0.5, "score": x}),
            "ClipEvaluation.score": (data.ClipEvaluation, lambda x: {"uuid": U(1604), "annotations": w.clip_ann(1, []), "predictions": w.clip_pred(1, []), "score": x}),
        }[f]
        cls, kwf = mk
        res = {"ctor": guarded(lambda: cls(**kwf(v)))}

        def dump(mode):
            good = cls(**kwf(0.5))
            d = good.model_dump(mode=mode)
            key = f.split(".")[1]
            d[key] = v
            return d

        res["dict"] = guarded(lambda: cls.model_validate(dump("python")))
        res["json"] = guarded(lambda: cls.model_validate_json(json.dumps(dump("json"))))
        # document: the base evaluation with one number edited
        doc = self._base_doc()
        d = doc["data"]
        if f == "PredictedTag.score":
            d["tags"] = [{"id": 0, "key": "x", "value": "v"}]
            d["sound_event_predictions"][0]["tags"] = [[0, v]]
        elif f == "SoundEventPrediction.score":
            d["sound_event_predictions"][0]["score"] = v
        elif f == "SequencePrediction.score":
            d["sequences"] = [{"uuid": str(U(1600)), "sound_events": [str(w.ses[0].uuid)]}]
            d["sequence_predictions"] = [{"uuid": str(U(1602)), "sequence": str(U(1600)), "score": v}]
            d["clip_predictions"][0]["sequences"] = [str(U(1602))]
        elif f == "Match.affinity":
            d["matches"][0]["affinity"] = v
        elif f == "Match.score":
            d["matches"][0]["score"] = v
        else:
            d["clip_evaluations"][0]["score"] = v
        res["load"] = self._load_doc(doc, "case")
        return res

    def run(self, c):
        k = c["kind"]
        r = {"clip_eval": self._clip_eval_paths, "project": self._project_paths, "clip": self._clip_paths, "score": self._score_paths}[k](c)
        out = {"paths": {p: ("ok" if r[p][0] == "ok" else "err:" + r[p][1]) for p in PATHS}}
        out["msgs"] = {p: r[p][2][:160] for p in PATHS if r[p][0] != "ok"}
        out["res"] = ["ok"] if all(r[p][0] == "ok" for p in PATHS) else ["err"]
        return out

    # ------------------------------------------------------------------ model
    def _model(self, c):
        k = c["kind"]
        nl = lambda xs: listlit(xs, natlit)
        if k == "clip_eval":
            ms = listlit(c["ms"], lambda m: f"({optlit(m[0], natlit)}, {optlit(m[1], natlit)})")
            return (
                f"(construct_clip_eval {natlit(c['ac'])} {natlit(c['pc'])} {nl(c['anns'])} {nl(c['preds'])} {ms} "
                f"{listlit(c['affs'], qlit)} {listlit(c['mscores'], lambda x: optlit(x, qlit))} {optlit(c['score'], qlit)})"
            )
        if k == "project":
            return f"(project_ok {nl(c['tasks'])} {nl(c['ann_clips'])})"
        if k == "clip":
            return f"(clip_ok {qlit(c['s'])} {qlit(c['e'])})"
        return f"(unit_ok {qlit(c['v'])})"

    def agree(self, c, o):
        m = self._model(c)
        return " && ".join(f"Bool.eqb {m} {blit(o['paths'][p] == 'ok')}" for p in PATHS)

    def show(self, c):
        return self._model(c)

    # ------------------------------------------------------------------ oracle (independent reading of the statement)
    def _want(self, c):
        k = c["kind"]
        if k == "clip_eval":
            if any(s is None and t is None for s, t in c["ms"]):
                return False
            if any(not (0 <= a <= 1) for a in c["affs"]) or any(x is not None and not (0 <= x <= 1) for x in c["mscores"]):
                return False
            if c["score"] is not None and not (0 <= c["score"] <= 1):
                return False
            if c["ac"] != c["pc"]:
                return False
            tg = [t for _, t in c["ms"] if t is not None]
            sr = [s for s, _ in c["ms"] if s is not None]
            return sorted(tg) == sorted(c["anns"]) and sorted(sr) == sorted(c["preds"])
        if k == "project":
            return all(x in c["tasks"] for x in c["ann_clips"])
        if k == "clip":
            return c["s"] <= c["e"]
        return 0 <= c["v"] <= 1

    def oracle(self, c, o):
        fails = []
        want = self._want(c)
        for p in PATHS:
            got = o["paths"][p]
            if want and got != "ok":
                fails.append({"kind": "valid-rejected", "what": f"{c['kind']}: valid input rejected through {p}: {o['msgs'].get(p)}", "attrs": {"path": p, "case": c["kind"]}})
            if not want and got == "ok":
                fails.append({"kind": "invalid-accepted", "what": f"{c['kind']}: invalid input accepted through {p}", "attrs": {"path": p, "case": c["kind"], "field": c.get("field")}})
            if not want and got not in ("ok", "err:EValidation", "err:EValue"):
                fails.append({"kind": "wrong-error", "what": f"{c['kind']}: {p} raised {got}: {o['msgs'].get(p)}", "attrs": {"path": p, "case": c["kind"]}})
        return fails

    def nontrivial(self, c, o):
        return (c["kind"] == "clip_eval" and len(c["ms"]) > 0) or o["res"][0] != "ok"

    def tags(self, c, o):
        t = [c["kind"], f"{c['kind']}:{'accepted' if o['res'][0] == 'ok' else 'rejected'}"]
        if c["kind"] == "score":
            t.append(c["field"])
        return t


PROP = C04
