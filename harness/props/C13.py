"""C13 — grouping returns the connected components of the similarity graph."""
from __future__ import annotations

import itertools

from ..core import Prop, guarded, listlit, natlit, pairlit


def _nl(xs):
    return listlit(xs, natlit)


class C13(Prop):
    ID = "C13"
    IMPORTS = ["Misc.Components"]
    RULE = (
        "every graph on <=5 nodes (quick; <=6 thorough) exhaustively, plus random sparse/dense/chain/star graphs on 7..40 "
        "(..120) nodes; the comparison function is a recording wrapper over the edge set; non-trivial = at least one edge "
        "and at least two components or a component of size >=3; distinct by (n, edge set)"
    )
    TRUSTED = ["scipy connected_components is replaced in the model by a label-merging pass (proved); the real function's grouping must equal it"]

    def _all_graphs(self, n):
        ps = list(itertools.combinations(range(n), 2))
        for mask in range(1 << len(ps)):
            yield {"kind": "exhaustive", "n": n, "sim": [list(p) for k, p in enumerate(ps) if mask >> k & 1]}

    def _random(self, rng, nmax):
        n = rng.randint(7, nmax)
        shape = rng.choice(["sparse", "dense", "chain", "star", "clusters"])
        ps = list(itertools.combinations(range(n), 2))
        if shape == "sparse":
            sim = [p for p in ps if rng.random() < 1.2 / n]
        elif shape == "dense":
            sim = [p for p in ps if rng.random() < 0.5]
        elif shape == "chain":
            order = list(range(n))
            rng.shuffle(order)
            sim = [tuple(sorted((order[i], order[i + 1]))) for i in range(n - 1) if rng.random() < 0.85]
        elif shape == "star":
            c = rng.randrange(n)
            sim = [tuple(sorted((c, j))) for j in range(n) if j != c and rng.random() < 0.6]
        else:
            k = rng.randint(2, 5)
            lab = [rng.randrange(k) for _ in range(n)]
            sim = [p for p in ps if lab[p[0]] == lab[p[1]] and rng.random() < 0.5]
        return {"kind": shape, "n": n, "sim": sorted([list(p) for p in set(map(tuple, sim))])}

    def cases(self, rng, tier):
        out = []
        top = 5 if tier == "quick" else 6
        for n in range(top + 1):
            out.extend(self._all_graphs(n))
        nr, nmax = (300, 40) if tier == "quick" else (1000, 80)  # 3000 graphs on up to 120 nodes cost 35 min of coqc for literals alone
        out += [self._random(rng, nmax) for _ in range(nr)]
        # history: the same events were grouped before, by the same comparison object, under another relation (a callable
        # whose threshold was changed; events whose geometry was corrected keep their uuid)
        for _ in range(nr // 5):
            c = self._random(rng, 12)
            b = self._random(rng, 12)
            c["before"] = [p for p in b["sim"] if p[0] < c["n"] and p[1] < c["n"]]
            out.append(c)
        return out

    def search_cases(self, rng, n):
        return [self._random(rng, 30) for _ in range(n)]

    def run(self, c):
        from soundevent import data
        from soundevent.geometry import group_sound_events

        rec = data.Recording(path="a.wav", duration=10, channels=1, samplerate=8000)
        evs = [data.SoundEvent(recording=rec, geometry=data.TimeStamp(coordinates=float(i))) for i in range(c["n"])]
        index = {id(e): i for i, e in enumerate(evs)}
        sim = {tuple(p) for p in c["sim"]}
        calls = []

        def cmp(a, b):
            nonlocal sim
            i, j = index.get(id(a), -1), index.get(id(b), -1)
            calls.append([i, j])
            return (i, j) in sim or (j, i) in sim

        if c.get("before") is not None:
            now = sim
            sim = {tuple(p) for p in c["before"]}
            guarded(group_sound_events, evs, cmp, timeout=60)
            sim = now
            calls.clear()
        r = guarded(group_sound_events, evs, cmp, timeout=60)
        if r[0] != "ok":
            return {"res": ["err", r[1]], "msg": r[2], "calls": calls}
        seqs = r[1]
        uid = {e.uuid: i for i, e in enumerate(evs)}
        groups = [[uid.get(e.uuid, -1) for e in s.sound_events] for s in seqs]
        return {
            "res": ["ok"],
            "groups": groups,
            "calls": calls,
            "types_ok": all(isinstance(s, data.Sequence) for s in seqs),
            "seq_ids_distinct": len({s.uuid for s in seqs}) == len(seqs),
        }

    def _sim(self, c):
        return listlit(c["sim"], lambda p: pairlit(natlit(p[0]), natlit(p[1])))

    def agree(self, c, o):
        if o["res"][0] != "ok":
            return "false"
        if any(x < 0 for g in o["groups"] for x in g) or any(x < 0 for p in o["calls"] for x in p):
            return "false"
        labs = f"(labels {natlit(c['n'])} (edges_of {natlit(c['n'])} (rel_of {self._sim(c)})))"
        g = listlit(o["groups"], _nl)
        calls = listlit(o["calls"], lambda p: pairlit(natlit(p[0]), natlit(p[1])))
        return (
            f"groups_eqb (group_by {labs}) {g} && groups_eqb (group_by_loop {labs}) {g} "
            f"&& calls_okb {natlit(c['n'])} {calls}"
        )

    def show(self, c):
        return f"(group_sound_events {natlit(c['n'])} (rel_of {self._sim(c)}))"

    def oracle(self, c, o):
        fails = []

        def fail(kind, what):
            fails.append({"kind": kind, "what": what, "attrs": {"n": c["n"]}})

        n = c["n"]
        if o["res"][0] != "ok":
            fail("raised", f"group_sound_events raised {o['res']} {o.get('msg')}")
            return fails
        parent = list(range(n))

        def find(x):
            while parent[x] != x:
                parent[x] = parent[parent[x]]
                x = parent[x]
            return x

        for i, j in c["sim"]:
            parent[find(i)] = find(j)
        comps = {}
        for i in range(n):
            comps.setdefault(find(i), []).append(i)
        want = sorted(comps.values(), key=lambda g: g[0])
        flat = sorted(x for g in o["groups"] for x in g)
        if flat != list(range(n)):
            fail("not-a-partition", f"events covered {flat} != 0..{n-1}")
        if any(g != sorted(g) for g in o["groups"]):
            fail("order-not-kept", "input order not kept inside a sequence")
        if sorted(map(sorted, o["groups"])) != sorted(want):
            fail("not-components", f"groups {o['groups']} are not the connected components {want}")
        if any(len(g) == 0 for g in o["groups"]):
            fail("empty-sequence", "an empty sequence was returned")
        if n == 0 and o["groups"]:
            fail("empty-input", "empty input gave sequences")
        calls = [tuple(p) for p in o["calls"]]
        if any(i == j or i < 0 or j < 0 for i, j in calls):
            fail("bad-comparison-call", "comparison called on identical or foreign events")
        if any(i >= n or j >= n for i, j in calls):
            fail("bad-comparison-call", "comparison called on identical or foreign events")
        # the property does not ask for every pair to be compared (a version that skips pairs whose answer cannot change
        # the components is fine); that the code at this commit compares exactly `pairs n` is the theorem
        # C13_src_queries on the translated source, not a demand of this oracle
        if not o["types_ok"] or not o["seq_ids_distinct"]:
            fail("sequence-objects", "results are not distinct Sequence objects")
        return fails

    def nontrivial(self, c, o):
        if o["res"][0] != "ok" or not c["sim"]:
            return False
        return len(o["groups"]) >= 2 or any(len(g) >= 3 for g in o["groups"])

    def tags(self, c, o):
        t = [c["kind"], f"n:{c['n'] if c['n'] < 7 else ('7-20' if c['n'] <= 20 else '21+')}"]
        if o["res"][0] == "ok":
            allp = sorted(tuple(sorted(p)) for p in o["calls"]) == list(itertools.combinations(range(c["n"]), 2))
            t.append("calls:every-pair-once" if allp else "calls:not-every-pair")
            t.append(f"components:{min(len(o['groups']), 6)}{'+' if len(o['groups']) >= 6 else ''}")
        return t


PROP = C13
